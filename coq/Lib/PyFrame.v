(* Denotation of the few pandas / plotly / builtin operations used by the data pipeline of
   copulas/visualization.py (scatter_2d/3d, compare_2d/3d, _generate_scatter_2d/3d_plot), as they are emitted by
   tools/vf/plotgen.py into Gen_plot.v, expressed over the types of Model/Plot.v (frame, tframe, label, value, name,
   figure, perr), with the lemmas that relate them to the model's own functions (set_label, concat, generate_scatter).

   Objects.  A DataFrame object is a [pyframe]: [DF f] = a frame as the caller hands it over (no label assigned by the
   library), [LDF t] = a frame whose 'Data' column holds a label in every row.  The `columns` argument is a [pycols]:
   None or a list of column names.  A title is None or a string.  Strings that are column names are [name]s
   ('Data' = [data_col]); the strings 'Real' / 'Synthetic' are [label]s.

   Identity of objects (aliasing) is NOT represented here: every operation is a function on VALUES.  Which Python names
   share an object, and which objects the caller can see, is tracked by the translator (plotgen.py), which threads the
   current value of every caller-owned object through the generated term and returns it next to the outcome.  Hence
   [df_copy] is the identity on values - what a copy changes is which object later assignments go to, and that is
   visible in the generated term as the value returned for the caller's frame.

   These are definitions, not theorems about pandas / plotly: they are part of the trusted base (docs/plotgen_section.md). *)
From Coq Require Import ZArith List Bool Arith Lia.
From Cop Require Import Model.Plot.
Import ListNotations.

(* ------------------------------------------------------------------ *)
(** * Values and outcomes                                              *)
Inductive pyframe := DF (f : frame) | LDF (t : tframe).
Definition pycols := option (list name).
Definition pystring := list nat.             (* the characters of a string; only emptiness matters *)
Definition pytitle := option pystring.
Definition pyopaque := unit.                  (* colours, layout: not part of the model *)

Inductive pyclass := ValueError | IndexError | TypeError | KeyError | AttributeError | RuntimeError
                   | NotImplementedError | AssertionError | BaseExc.

Inductive pyerr :=
| PyRaise (c : pyclass)      (* a `raise C(...)` statement of the translated function; C is read off the AST *)
| PyBuiltin (c : pyclass)    (* raised by a builtin operation: IndexError of `l[i]`, TypeError of None used as a list *)
| PxError (c : pyclass)      (* raised inside plotly.express: ValueError for an x/y/z that is not a column of the frame *)
| PyStuck.                   (* outside the model (stated at each denotation); never reached by a bridged function *)

Definition pyres (A : Type) := (pyerr + A)%type.

(* the model's error classes, as outcomes of the generated code *)
Definition pyerr_of (e : perr) : pyerr :=
  match e with
  | ErrIndex => PyBuiltin IndexError
  | ErrColumnCount => PyRaise ValueError
  | ErrNoSuchColumn => PxError ValueError
  end.

Definition lift_outcome (r : perr + figure) : pyres figure :=
  match r with inl e => inl (pyerr_of e) | inr f => inr f end.

(* Model.Plot conflates columns=None and columns=[] (both falsy) *)
Definition cols_arg (c : pycols) : list name := match c with Some l => l | None => [] end.

Lemma pyerr_of_inj a b : pyerr_of a = pyerr_of b -> a = b.
Proof. destruct a, b; simpl; intros H; try reflexivity; discriminate. Qed.

Lemma lift_outcome_inj a b : lift_outcome a = lift_outcome b -> a = b.
Proof.
  destruct a, b; simpl; intros H; inversion H; try reflexivity.
  f_equal. now apply pyerr_of_inj.
Qed.

(* ------------------------------------------------------------------ *)
(** * Truthiness, None tests, isinstance                               *)
Definition py_truthy_list {A : Type} (l : list A) : bool := match l with [] => false | _ :: _ => true end.
Definition py_truthy_cols (c : pycols) : bool := match c with Some l => py_truthy_list l | None => false end.
Definition py_truthy_title (t : pytitle) : bool := match t with Some s => py_truthy_list s | None => false end.
Definition py_is_none {A : Type} (o : option A) : bool := match o with None => true | Some _ => false end.
(* isinstance(d, pd.DataFrame) for a value the translator has typed as a DataFrame *)
Definition py_isinstance_DataFrame (d : pyframe) : bool := true.

Lemma py_truthy_cols_arg c : py_truthy_cols c = py_truthy_list (cols_arg c).
Proof. destruct c; reflexivity. Qed.

(* ------------------------------------------------------------------ *)
(** * Lists of column names                                            *)
(* a `columns` value used as a list: iterating / indexing / len of None is a TypeError *)
Definition py_as_list (c : pycols) : pyres (list name) :=
  match c with Some l => inr l | None => inl (PyBuiltin TypeError) end.
(* list(l): a new list with the same elements *)
Definition py_list_new (l : list name) : list name := l.
(* a + b on lists: a new list *)
Definition py_list_add (a b : list name) : list name := a ++ b.
(* l.append(x) / l += [x...] : the NEW VALUE of the (same) list object *)
Definition py_list_append (l : list name) (x : name) : list name := l ++ [x].
Definition py_list_extend (l m : list name) : list name := l ++ m.
(* l[i] for a literal i >= 0 *)
Definition py_getitem (l : list name) (i : nat) : pyres name :=
  match nth_error l i with Some x => inr x | None => inl (PyBuiltin IndexError) end.
Definition py_len (l : list name) : nat := length l.

Lemma list_len2 {A} (l : list A) : length l = 2 -> exists a b, l = [a; b].
Proof. destruct l as [|a [|b [|c l]]]; simpl; intros H; try discriminate. eauto. Qed.
Lemma list_len3 {A} (l : list A) : length l = 3 -> exists a b c, l = [a; b; c].
Proof. destruct l as [|a [|b [|c [|d l]]]]; simpl; intros H; try discriminate. eauto. Qed.
Lemma list_len4 {A} (l : list A) : length l = 4 -> exists a b c d, l = [a; b; c; d].
Proof. destruct l as [|a [|b [|c [|d [|e l]]]]]; simpl; intros H; try discriminate. eauto. Qed.

Lemma py_getitem_ok l i : i < length l -> exists x, py_getitem l i = inr x /\ nth_error l i = Some x.
Proof.
  intros H. unfold py_getitem. destruct (nth_error l i) eqn:E; [eauto|].
  apply nth_error_None in E. lia.
Qed.
Lemma py_getitem_fail l i : length l <= i -> py_getitem l i = inl (PyBuiltin IndexError).
Proof. intros H. unfold py_getitem. now rewrite (proj2 (nth_error_None l i) H). Qed.

(* ------------------------------------------------------------------ *)
(** * Strings (titles): the content is not modelled, only emptiness is ever tested *)
Definition py_format (c : name) : pystring := [c].          (* str(c) inside an f-string: some string *)
Definition py_fstring (parts : list pystring) : pystring := List.concat parts.

(* ------------------------------------------------------------------ *)
(** * DataFrames                                                       *)
(* d.copy(): same content (the copy is a different OBJECT: see the header) *)
Definition df_copy (d : pyframe) : pyframe := d.

(* every row of an already labelled frame gets the new label; the column exists already *)
Definition relabel (lab : label) (t : tframe) : tframe :=
  mkTFrame (tcols t) (map (fun r => (fst r, lab)) (trows t)).

(* d[c] = lab, the NEW VALUE of the frame object.  Only the reserved column 'Data' can hold labels in the model. *)
Definition df_setitem (d : pyframe) (c : name) (lab : label) : pyres pyframe :=
  if Nat.eqb c data_col
  then inr (LDF match d with DF f => set_label lab f | LDF t => relabel lab t end)
  else inl PyStuck.

(* d.columns (an immutable pandas Index, denoted by the list of its names) *)
Definition df_columns (d : pyframe) : list name :=
  match d with DF f => fcols f | LDF t => tcols t end.

(* pd.concat([d1, d2, ...], axis=0, ignore_index=True): a NEW frame; union of the columns in order of first
   appearance, rows appended.  Frames without labels are outside the model. *)
Fixpoint pd_concat_from (acc : tframe) (l : list pyframe) : pyres pyframe :=
  match l with
  | [] => inr (LDF acc)
  | LDF t :: r => pd_concat_from (concat acc t) r
  | DF _ :: _ => inl PyStuck
  end.
Definition pd_concat (l : list pyframe) : pyres pyframe :=
  match l with
  | [] => inl (PyBuiltin ValueError)          (* "No objects to concatenate" *)
  | LDF t :: r => pd_concat_from t r
  | DF _ :: _ => inl PyStuck
  end.

(* plotly.express.scatter / scatter_3d (data, x=.., y=.. [, z=..], color=c [, symbol=c]) with the discrete colour
   column c = 'Data': ValueError if a requested axis is not a column of the frame, otherwise one trace per label in
   order of first appearance (Model.Plot.px_scatter, the oracle of the model) *)
Definition px_scatter_df (d : pyframe) (axes : list name) (color : name) : pyres figure :=
  match d with
  | LDF t =>
      if Nat.eqb color data_col then
        if forallb (fun c => mem c (tcols t)) axes
        then inr (px_scatter label_eqb (map (fun r => (map (tcell r) axes, snd r)) (trows t)))
        else inl (PxError ValueError)
      else inl PyStuck
  | DF _ => inl PyStuck
  end.
Definition px_scatter_2d (d : pyframe) (x y color : name) : pyres figure := px_scatter_df d [x; y] color.
Definition px_scatter_3d (d : pyframe) (x y z color : name) : pyres figure := px_scatter_df d [x; y; z] color.
Global Arguments px_scatter_df : simpl never.     (* proofs case on its result, they do not look inside *)

(* ------------------------------------------------------------------ *)
(** * Relation to the model's functions                                *)
Lemma df_copy_eq d : df_copy d = d.
Proof. reflexivity. Qed.

Lemma df_setitem_frame f lab : df_setitem (DF f) data_col lab = inr (LDF (set_label lab f)).
Proof. reflexivity. Qed.

Lemma df_setitem_copy_frame f lab : df_setitem (df_copy (DF f)) data_col lab = inr (LDF (set_label lab f)).
Proof. reflexivity. Qed.

Lemma df_setitem_labelled t lab : df_setitem (LDF t) data_col lab = inr (LDF (relabel lab t)).
Proof. reflexivity. Qed.

(* assigning twice: the last label wins *)
Lemma relabel_set_label l1 l2 f : relabel l2 (set_label l1 f) = set_label l2 f.
Proof. unfold relabel, set_label. simpl. now rewrite map_map. Qed.

Lemma df_columns_set_label lab f :
  df_columns (LDF (set_label lab f)) = if mem data_col (fcols f) then fcols f else fcols f ++ [data_col].
Proof. reflexivity. Qed.

Lemma pd_concat_two a b : pd_concat [LDF a; LDF b] = inr (LDF (concat a b)).
Proof. reflexivity. Qed.

Lemma pd_concat_compare real synth :
  pd_concat [LDF (set_label Real real); LDF (set_label Synthetic synth)] =
  inr (LDF (concat (set_label Real real) (set_label Synthetic synth))).
Proof. reflexivity. Qed.

(* the list the generators index: `list(columns) + ['Data']` for a truthy `columns`, else `data.columns` *)
Definition scatter_cols (data : tframe) (columns : list name) : list name :=
  match columns with [] => tcols data | _ :: _ => columns ++ [data_col] end.

Lemma scatter_cols_py data columns :
  scatter_cols data columns =
  if py_truthy_list columns then py_list_add (py_list_new columns) [data_col] else df_columns (LDF data).
Proof. destruct columns; reflexivity. Qed.

Lemma generate_scatter_fst k data columns : fst (generate_scatter k data columns) = columns.
Proof.
  unfold generate_scatter. cbv zeta.
  destruct (negb _); [reflexivity|]. destruct (forallb _ _); reflexivity.
Qed.

(* Model.Plot.generate_scatter = length test, then px.scatter on the first k names *)
Lemma generate_scatter_px k data columns :
  lift_outcome (snd (generate_scatter k data columns)) =
  if negb (Nat.eqb (py_len (scatter_cols data columns)) (S k)) then inl (PyRaise ValueError)
  else px_scatter_df (LDF data) (firstn k (scatter_cols data columns)) data_col.
Proof.
  unfold generate_scatter, scatter_cols, py_len, px_scatter_df. cbv zeta.
  change (Nat.eqb data_col data_col) with true. cbv iota.
  destruct (negb _); [reflexivity|]. cbn [snd lift_outcome].
  destruct (forallb _ _); reflexivity.
Qed.

Lemma plot_nd_fst k t data columns : fst (plot_nd k t data columns) = columns.
Proof. unfold plot_nd. destruct (title_ok _ _ _ _); [apply generate_scatter_fst | reflexivity]. Qed.

(* the default-title code: IndexError unless k names can be indexed *)
Lemma plot_nd_outcome k t data columns :
  lift_outcome (snd (plot_nd k t data columns)) =
  if t || (k <=? length (match columns with [] => tcols data | _ :: _ => columns end))
  then lift_outcome (snd (generate_scatter k data columns))
  else inl (PyBuiltin IndexError).
Proof. unfold plot_nd, title_ok. destruct (_ || _); reflexivity. Qed.

(* ------------------------------------------------------------------ *)
(** * Smoke tests                                                      *)
Example ex_px_2d :
  px_scatter_2d (LDF (concat (set_label Real fr_real) (set_label Synthetic fr_synth))) 1 2 data_col =
  inr [(Real, [[VNum 1; VNum 5]; [VNum 2; VNum 6]]); (Synthetic, [[VNaN; VNum 1]; [VNaN; VNum 2]])].
Proof. vm_compute. reflexivity. Qed.
Example ex_px_missing : px_scatter_2d (LDF (set_label Real fr_real)) 1 9 data_col = inl (PxError ValueError).
Proof. reflexivity. Qed.
Example ex_getitem : py_getitem [4; 5] 2 = inl (PyBuiltin IndexError) /\ py_getitem [4; 5] 1 = inr 5.
Proof. split; reflexivity. Qed.
