(* Denotations of the Python operations of the vine serialisation
   (copulas/multivariate/tree.py: Edge.to_dict, Tree._serialize_previous_tree, Tree.to_dict, Tree._deserialize_previous_tree,
    Tree.from_dict; copulas/multivariate/vine.py: VineCopula._deserialize_trees),
   as used by the terms that tools/vf/vineserialgen.py generates from the AST on every run (Gen_vineserial.v).

   They are DEFINITIONS (the vocabulary of the translator) over the types of Spec/VineSerial.v ([pv], [edge], [tree], [prevt],
   the [result] monad of Model/Lifecycle.v), not theorems about CPython:

   - `self.<attr>` of an Edge as the value that lands in a dict ([py_e_index] .. [py_e_likelihood]); `if self.parents:`,
     the comprehension over `self.parents`, `self.U is not None`, `self.U.tolist()`;
   - a Tree object is a [tree]: `self.fitted` = it has a body; the attributes set by `fit` / `from_dict` exist only then
     (AttributeError otherwise); `self.tree_type` (class attribute), `get_qualified_name(self)`;
   - a dict under construction is its list of (key, value) in insertion order; `d.update(other)`;
   - `d[k]` on a [pv]; the typed decoding of the values stored in the attributes (a value Python would pass through unchanged
     but the model cannot type is [Err Unmodelled] - never a claim about Python);
   - object identity of the Tree objects built by `_deserialize_trees`: an object is the pair (allocation number, value);
     `previous_tree = <object number k>` is [PrevObj k]. *)
From Coq Require Import ZArith QArith List String Bool Lia PeanoNat.
From Cop Require Import Model.Lifecycle Spec.LifecycleProofs Spec.VineSerial.
Import ListNotations.
Open Scope string_scope.
Open Scope list_scope.
Open Scope nat_scope.

(* ------------------------------------------------------------------ *)
(** * Edge                                                             *)
Definition ea_index (e : edge) : nat := match e with mkE i _ _ _ _ _ _ _ _ _ _ => i end.
Definition ea_L (e : edge) : nat := match e with mkE _ l _ _ _ _ _ _ _ _ _ => l end.
Definition ea_R (e : edge) : nat := match e with mkE _ _ r _ _ _ _ _ _ _ _ => r end.
Definition ea_D (e : edge) : list nat := match e with mkE _ _ _ d _ _ _ _ _ _ _ => d end.
Definition ea_parents (e : edge) : option (list edge) := match e with mkE _ _ _ _ ps _ _ _ _ _ _ => ps end.
Definition ea_neighbors (e : edge) : list nat := match e with mkE _ _ _ _ _ nb _ _ _ _ _ => nb end.
Definition ea_name (e : edge) : string := match e with mkE _ _ _ _ _ _ nm _ _ _ _ => nm end.
Definition ea_theta (e : edge) : jv := match e with mkE _ _ _ _ _ _ _ th _ _ _ => th end.
Definition ea_tau (e : edge) : jv := match e with mkE _ _ _ _ _ _ _ _ ta _ _ => ta end.
Definition ea_U (e : edge) : jv := match e with mkE _ _ _ _ _ _ _ _ _ u _ => u end.
Definition ea_likelihood (e : edge) : jv := match e with mkE _ _ _ _ _ _ _ _ _ _ lk => lk end.

Definition py_None : pv := PJ JNone.
(* self.index, self.L, ... as dict values *)
Definition py_e_index (e : edge) : pv := PJ (natj (ea_index e)).
Definition py_e_L (e : edge) : pv := PJ (natj (ea_L e)).
Definition py_e_R (e : edge) : pv := PJ (natj (ea_R e)).
Definition py_e_D (e : edge) : pv := PJ (JSet (ea_D e)).                           (* a Python set *)
Definition py_e_neighbors (e : edge) : pv := PJ (JList (map natj (ea_neighbors e))).
Definition py_e_name (e : edge) : pv := PEnum "CopulaTypes" (ea_name e).             (* an Enum member *)
Definition py_e_theta (e : edge) : pv := PJ (ea_theta e).
Definition py_e_tau (e : edge) : pv := PJ (ea_tau e).
Definition py_e_likelihood (e : edge) : pv := PJ (ea_likelihood e).
(* `if self.parents:` - None and the empty list are falsy *)
Definition py_e_parents_truthy (e : edge) : bool := match ea_parents e with Some (_ :: _) => true | _ => false end.
(* [f(parent) for parent in self.parents] *)
Definition py_e_parents_map (f : edge -> pv) (e : edge) : pv :=
  PList (match ea_parents e with Some q => map f q | None => [] end).
(* self.U is not None ; self.U.tolist()   (the model keeps U as the nested list, JNone = None) *)
Definition py_e_U_is_not_none (e : edge) : bool := match ea_U e with JNone => false | _ => true end.
Definition py_e_U_tolist (e : edge) : pv := PJ (ea_U e).

(* ------------------------------------------------------------------ *)
(** * Tree                                                             *)
Definition tree_ty (t : tree) : ttype := match t with mkTree ty _ => ty end.
Definition py_bool (b : bool) : pv := PJ (JBool b).
Definition py_nat (n : nat) : pv := PJ (natj n).
(* self.fitted *)
Definition py_t_fitted (t : tree) : bool := match tree_body t with Some _ => true | None => false end.
(* self.tree_type (class attribute), get_qualified_name(self) *)
Definition py_t_tree_type (t : tree) : pv := PEnum "TreeTypes" (ttype_NAME (tree_ty t)).
Definition py_t_qualified_name (t : tree) : pv := PJ (JStr (ttype_fqn (tree_ty t))).
(* an attribute that exists only on a fitted tree *)
Definition py_t_attr {A : Type} (f : tbody -> A) (t : tree) : result A :=
  match tree_body t with Some b => Ok (f b) | None => Err AttributeErr end.
Definition py_t_level (t : tree) : result nat := py_t_attr tb_level t.
Definition py_t_n_nodes (t : tree) : result nat := py_t_attr tb_nnodes t.
(* self.tau_matrix.tolist() *)
Definition py_t_tau_matrix_tolist (t : tree) : result pv := py_t_attr (fun b => PJ (tb_tau b)) t.
(* self.previous_tree.tolist(): only an array has tolist *)
Definition py_t_previous_tree_tolist (t : tree) : result pv :=
  match tree_body t with
  | Some b => match tb_prev b with PrevArr a => Ok (PJ a) | _ => Err AttributeErr end
  | None => Err AttributeErr
  end.
(* [f(edge) for edge in self.edges] *)
Definition py_t_edges_map (f : edge -> pv) (t : tree) : result pv := py_t_attr (fun b => PList (map f (tb_edges b))) t.

(* ------------------------------------------------------------------ *)
(** * dicts                                                            *)
Fixpoint py_dict_set (d : list (string * pv)) (k : string) (v : pv) : list (string * pv) :=
  match d with
  | [] => [(k, v)]
  | (k', v') :: r => if String.eqb k k' then (k, v) :: r else (k', v') :: py_dict_set r k v
  end.
(* d.update(other): existing keys keep their place, new keys are appended in order *)
Definition py_dict_update (d u : list (string * pv)) : list (string * pv) :=
  fold_left (fun acc kv => py_dict_set acc (fst kv) (snd kv)) u d.
(* d[k] *)
Definition py_getitem (p : pv) (k : string) : result pv :=
  match p with PDict d => pget k d | _ => Err TypeErr end.

(* ------------------------------------------------------------------ *)
(** * from_dict                                                        *)
(* get_tree(x) : the class of the new instance *)
Definition py_get_tree (x : pv) : result ttype := get_tree x.
(* truth value of a dict value *)
Definition py_truthy (x : pv) : bool := pv_truthy x.
(* x == n for a small int n *)
Definition py_eq_nat (x : pv) (n : nat) : result bool := bind (as_nat x) (fun m => Ok (m =? n)).
(* values stored in integer attributes; np.array(x) *)
Definition py_int_attr (x : pv) : result nat := as_nat x.
Definition py_np_array (x : pv) : result jv := as_jv x.
(* [Edge.from_dict(e) for e in x]   (Edge.from_dict is the hand-written Spec.VineSerial.edge_of_dict) *)
Definition py_edges_from_dicts (x : pv) : result (list edge) :=
  match x with PList q => all_ok (map edge_of_dict q) | _ => Err Unmodelled end.
(* the instance after the attribute assignments *)
Definition py_tree_unfitted (ty : ttype) : tree := mkTree ty None.
Definition py_tree_fitted (ty : ttype) (level n_nodes : nat) (tau_matrix : jv) (previous_tree : prevt) (edges : list edge) : tree :=
  mkTree ty (Some (mkTB level n_nodes tau_matrix previous_tree edges)).

(* ------------------------------------------------------------------ *)
(** * _deserialize_trees: lists and object identity                    *)
(* l[k] ; l[k:] *)
Definition py_list_get {A : Type} (l : list A) (k : nat) : result A :=
  match nth_error l k with Some x => Ok x | None => Err Unmodelled end.     (* IndexError *)
Definition py_list_from {A : Type} (l : list A) (k : nat) : list A := skipn k l.
(* a new object: its allocation number and its value *)
Definition tobj := (nat * tree)%type.
Definition py_alloc (next : nat) (r : result tree) : result (tobj * nat) := bind r (fun t => Ok ((next, t), S next)).
(* `previous=<object>` / the default `previous=None` *)
Definition py_prev_obj (o : tobj) : prevt := PrevObj (fst o).
Definition py_prev_none : prevt := PrevNone.
(* for x in xs: <body> in the result monad *)
Fixpoint py_for_result {S A : Type} (body : A -> S -> result S) (l : list A) (st : S) : result S :=
  match l with
  | [] => Ok st
  | x :: r => bind (body x st) (fun st' => py_for_result body r st')
  end.
