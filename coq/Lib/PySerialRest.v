(* Denotations of the Python operations of the REST of the serialisation code
   (copulas/multivariate/tree.py: Edge.__init__, Edge.from_dict; copulas/multivariate/vine.py: VineCopula.to_dict, VineCopula.from_dict;
    copulas/univariate/base.py: Univariate.save / load; copulas/multivariate/base.py: Multivariate.save / load),
   as used by the terms that tools/vf/serialrestgen.py generates from the AST on every run (Gen_serialrest.v).

   They are DEFINITIONS (the FIXED vocabulary of the translator: nothing here depends on the Python source), not theorems about CPython:

   - an Edge under construction is an [edge] (Spec/VineSerial.v) whose attributes are assigned one at a time:
     `self.<k> = v` / `setattr(instance, k, v)` is [py_e_setattr] - the value is decoded into the type the model keeps for that
     attribute (a value Python would store unchanged but the model cannot type is [Err Unmodelled], never a claim about Python);
     `instance.parents = []` / `instance.parents.append(x)`; `if parents:`; `for x in <list>` / `for x in reversed(<list>)`;
   - a VineCopula is a [vine]: `self.fitted` = it has a body, the attributes set by fit / from_dict exist only then;
     comprehensions over `self.trees` / `self.unis`; the instance built by from_dict (the attributes are collected and stored at
     the `return`), together with the list `instance.ppfs` (a bound method `uni.percent_point` is identified with its owner);
   - save / load: files, `with open(path, mode) as f`, `pickle.dump(obj, f)`, `pickle.load(f)` over a world that holds the
     instance, the names of the attributes of `self` that were assigned, and the file system.  pickle is a deep copy of the
     instance state (the oracle of C14, checked case by case in the correspondence): the content of a pickle file IS the state. *)
From Coq Require Import ZArith QArith List String Bool Lia PeanoNat.
From Cop Require Import Model.Lifecycle Spec.LifecycleProofs Spec.VineSerial Spec.PickleFiles Lib.PyVineSerial.
Import ListNotations.
Open Scope string_scope.
Open Scope list_scope.
Open Scope nat_scope.

(* ------------------------------------------------------------------ *)
(** * Edge.__init__ / Edge.from_dict                                   *)
(* `object.__new__(Edge)`: no attribute is set yet (the translator checks that __init__ assigns every attribute exactly once) *)
Definition py_e_blank : edge := mkE 0 0 0 [] None [] "" JNone JNone JNone JNone.
(* set() ; [] *)
Definition py_empty_set : pv := PJ (JSet []).
Definition py_empty_list : pv := PJ (JList []).

(* self.<k> = v   /   setattr(instance, k, v) *)
Definition py_e_setattr (e : edge) (k : string) (v : pv) : result edge :=
  match e with
  | mkE i l r d ps nb nm th ta u lk =>
      if String.eqb k "index" then bind (as_nat v) (fun n => Ok (mkE n l r d ps nb nm th ta u lk))
      else if String.eqb k "L" then bind (as_nat v) (fun n => Ok (mkE i n r d ps nb nm th ta u lk))
      else if String.eqb k "R" then bind (as_nat v) (fun n => Ok (mkE i l n d ps nb nm th ta u lk))
      else if String.eqb k "D" then
        match v with PJ (JSet s) => Ok (mkE i l r s ps nb nm th ta u lk) | _ => Err Unmodelled end
      else if String.eqb k "parents" then      (* only None is a [pv]; lists of Edge objects: py_e_parents_new / _append *)
        match v with PJ JNone => Ok (mkE i l r d None nb nm th ta u lk) | _ => Err Unmodelled end
      else if String.eqb k "neighbors" then
        match v with
        | PJ (JList q) => match nats_of q with Some q' => Ok (mkE i l r d ps q' nm th ta u lk) | None => Err Unmodelled end
        | _ => Err Unmodelled
        end
      else if String.eqb k "name" then
        match v with
        | PEnum _ n => Ok (mkE i l r d ps nb n th ta u lk)
        | PJ (JStr n) => Ok (mkE i l r d ps nb n th ta u lk)
        | _ => Err Unmodelled
        end
      else if String.eqb k "theta" then bind (as_jv v) (fun x => Ok (mkE i l r d ps nb nm x ta u lk))
      else if String.eqb k "tau" then bind (as_jv v) (fun x => Ok (mkE i l r d ps nb nm th x u lk))
      else if String.eqb k "U" then bind (as_jv v) (fun x => Ok (mkE i l r d ps nb nm th ta x lk))
      else if String.eqb k "likelihood" then bind (as_jv v) (fun x => Ok (mkE i l r d ps nb nm th ta u x))
      else Err Unmodelled
  end.

(* instance.parents = [] *)
Definition py_e_parents_new (e : edge) : edge :=
  match e with mkE i l r d _ nb nm th ta u lk => mkE i l r d (Some []) nb nm th ta u lk end.
(* instance.parents.append(x) *)
Definition py_e_parents_append (e : edge) (x : edge) : result edge :=
  match e with
  | mkE i l r d (Some q) nb nm th ta u lk => Ok (mkE i l r d (Some (q ++ [x])) nb nm th ta u lk)
  | mkE _ _ _ _ None _ _ _ _ _ _ => Err AttributeErr          (* 'NoneType' object has no attribute 'append' *)
  end.
(* np.array(x) as a dict value again *)
Definition py_array_value (a : jv) : pv := PJ a.
(* for x in <value>: the value has to be a list *)
Definition py_iter (x : pv) : result (list pv) := match x with PList q => Ok q | _ => Err Unmodelled end.
(* reversed(l) *)
Definition py_reversed {A : Type} (l : list A) : list A := rev l.

(* ------------------------------------------------------------------ *)
(** * VineCopula.to_dict                                               *)
Definition py_v_fitted (v : vine) : bool := match v_body v with Some _ => true | None => false end.
Definition py_v_qualified_name (v : vine) : pv := PJ (JStr vine_fqn).
Definition py_v_vine_type (v : vine) : pv := PJ (v_type v).
(* an attribute that exists only on a fitted vine *)
Definition py_v_attr {A : Type} (f : vbody -> A) (v : vine) : result A :=
  match v_body v with Some b => Ok (f b) | None => Err AttributeErr end.
Definition py_v_n_sample (v : vine) : result nat := py_v_attr vb_nsample v.
Definition py_v_n_var (v : vine) : result nat := py_v_attr vb_nvar v.
Definition py_v_depth (v : vine) : result nat := py_v_attr vb_depth v.
Definition py_v_truncated (v : vine) : result nat := py_v_attr vb_trunc v.
Definition py_v_trees (v : vine) : result (list tree) := py_v_attr vb_trees v.
Definition py_v_unis (v : vine) : result (list sinst) := py_v_attr vb_unis v.
Definition py_v_columns (v : vine) : result pv := py_v_attr (fun b => PJ (vb_columns b)) v.
(* self.tau_mat.tolist() ; self.u_matrix.tolist() *)
Definition py_v_tau_mat_tolist (v : vine) : result pv := py_v_attr (fun b => PJ (vb_tau b)) v.
Definition py_v_u_matrix_tolist (v : vine) : result pv := py_v_attr (fun b => PJ (vb_u b)) v.
(* [f(x) for x in l] *)
Definition py_comp {A B : Type} (f : A -> result B) (l : list A) : result (list B) := all_ok (map f l).
(* a list of dicts of trees / of univariate parameter dicts as a dict value *)
Definition py_list_pv (l : list pv) : pv := PList l.
Definition py_list_jv (l : list jv) : pv := PJ (JList l).

(* ------------------------------------------------------------------ *)
(** * VineCopula.from_dict                                             *)
(* cls(a1, ..) : VineCopula.__init__ is the hand-written Spec.VineSerial.new_vine *)
Definition py_vine_cls_call (args : list pv) : result vine := bind (all_ok (map as_jv args)) (fun a => new_vine a []).
(* a value stored unchanged in an attribute the model keeps as a [jv] *)
Definition py_as_value (x : pv) : result jv := as_jv x.
(* the argument of _deserialize_trees is a list of dicts; `for uni in vine_dict['unis']` *)
Definition py_as_list (x : pv) : result (list pv) := match x with PList l => Ok l | _ => Err Unmodelled end.
Definition py_iter_jv (x : pv) : result (list jv) := match x with PJ (JList l) => Ok l | _ => Err Unmodelled end.
(* the Tree objects returned by _deserialize_trees as the list stored in `instance.trees` *)
Definition py_tree_objects (objs : list tobj) : list tree := map snd objs.
(* [uni.percent_point for uni in <unis>]: a bound method is identified with its owner *)
Definition py_percent_points (unis : list sinst) : list sinst := unis.
(* the instance at `return`: (the vine, instance.ppfs - None = the attribute was never set) *)
Definition py_vine_unfitted (v : vine) : vine * option (list sinst) := (v, None).
Definition py_vine_fitted (v : vine) (n_sample n_var truncated depth : nat) (trees : list tree) (unis ppfs : list sinst)
    (columns tau_mat u_matrix : jv) : vine * option (list sinst) :=
  (mkVine (v_type v) (v_rs v) (Some (mkVB n_sample n_var depth truncated trees tau_mat u_matrix unis columns)), Some ppfs).

(* ------------------------------------------------------------------ *)
(** * save / load : files and pickle                                   *)
(* the world (instance, assigned attributes, files), the monad PM and the errors are those of Spec/PickleFiles.v *)
(* an open file: its path and the mode it was opened in *)
Definition fhandle := (string * string)%type.
Definition mode_writes (m : string) : bool := String.eqb m "wb" || String.eqb m "w".
Definition mode_reads (m : string) : bool := String.eqb m "rb" || String.eqb m "r" || String.eqb m "".
Definition mode_binary (m : string) : bool := String.eqb m "wb" || String.eqb m "rb".

(* `self` *)
Definition py_self {A} : PM A A := fun w => (w, POk (pw_inst w)).
(* `self.<k> = <value>`: the instance is touched *)
Definition py_self_assign {A} (k : string) : PM A unit :=
  fun w => (mkPW (pw_inst w) (k :: pw_assigned w) (pw_files w) (pw_denied w) (pw_picklable w), POk tt).

(* with open(path, mode) as f: body    -- a write mode creates / truncates the file before the body runs; the file is closed
   whether the body returns or raises (nothing else happens on exit) *)
Definition py_with_open {A B} (path mode : string) (body : fhandle -> PM A B) : PM A B :=
  fun w =>
    if mode_writes mode then
      if mem_str path (pw_denied w) then (w, PErr POSError)
      else body (path, mode) (set_files (dict_set path FEmpty (pw_files w)) w)
    else if mode_reads mode then
      match lookup path (pw_files w) with
      | Some _ => body (path, mode) w
      | None => (w, PErr POSError)                 (* FileNotFoundError *)
      end
    else (w, PErr POSError).                       (* a mode outside the modelled ones: ValueError in Python *)

(* pickle.dump(obj, f) *)
Definition py_pickle_dump {A} (obj : A) (f : fhandle) : PM A unit :=
  fun w =>
    let (path, mode) := f in
    if negb (mode_writes mode) then (w, PErr POSError)                       (* io.UnsupportedOperation: not writable *)
    else if negb (mode_binary mode) then (w, PErr PTypeError)                (* write() argument must be str, not bytes *)
    else if pw_picklable w obj then (set_files (dict_set path (FPickle obj) (pw_files w)) w, POk tt)
    else (set_files (dict_set path FGarbage (pw_files w)) w, PErr PPicklingError).

(* pickle.load(f) *)
Definition py_pickle_load {A} (f : fhandle) : PM A A :=
  fun w =>
    let (path, mode) := f in
    if negb (mode_reads mode) then (w, PErr POSError)                        (* io.UnsupportedOperation: not readable *)
    else if negb (mode_binary mode) then (w, PErr PTypeError)                (* a bytes-like object is required / UnicodeDecodeError *)
    else match lookup path (pw_files w) with
         | Some (FPickle a) => (w, POk a)
         | Some FEmpty => (w, PErr PEOFError)
         | Some FGarbage => (w, PErr PUnpicklingError)
         | None => (w, PErr POSError)
         end.

(* ------------------------------------------------------------------ *)
(** * Multivariate.from_dict on a dict of Python values (a vine dict)   *)
Inductive mvclass := MVine | MGaussian.
(* x.rsplit(sep, maxsplit) unpacked into two names *)
Definition py_rsplit2_pv (x : pv) (sep : string) (maxsplit : nat) : result (string * string) :=
  match x with
  | PJ (JStr s) => if String.eqb sep "." && (maxsplit =? 1)
                   then match rsplit_dot s with Some mn => Ok mn | None => Err ValueErr end
                   else Err Unmodelled
  | _ => Err AttributeErr
  end.
(* getattr(importlib.import_module(package), name): the two multivariate classes (by their module or by the package that
   re-exports them); every other name is outside this model *)
Definition py_import_getattr_mv (m n : string) : result mvclass :=
  if (String.eqb m "copulas.multivariate.vine" || String.eqb m "copulas.multivariate") && String.eqb n "VineCopula" then Ok MVine
  else if (String.eqb m "copulas.multivariate.gaussian" || String.eqb m "copulas.multivariate") && String.eqb n "GaussianMultivariate"
       then Ok MGaussian
  else Err Unmodelled.
(* <class>.from_dict(params) - the class object is NOT instantiated; a GaussianMultivariate dict is a [jv]: Gen_gmctl.v / C19_gm.v *)
Definition py_mvclass_from_dict {R : Type} (c : mvclass) (vine_from_dict : pv -> result R) (params : pv) : result R :=
  match c with MVine => vine_from_dict params | MGaussian => Err Unmodelled end.
