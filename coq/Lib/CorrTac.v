(* Tactics for the interval-certified correspondence goals and for the bridges. *)
From Coq Require Import Reals List Bool Lra.
From Interval Require Import Tactic.
From Cop Require Import Lib.NumpyR.
Open Scope R_scope.

(* decide comparisons between closed numeric terms *)
Ltac decide_cmp_with tac :=
  repeat match goal with
  | |- context [Rltb ?a ?b] =>
      first [ rewrite (proj2 (Rltb_true a b)) by tac | rewrite (proj2 (Rltb_false a b)) by tac ]
  | |- context [Rleb ?a ?b] =>
      first [ rewrite (proj2 (Rleb_true a b)) by tac | rewrite (proj2 (Rleb_false a b)) by tac ]
  | |- context [Reqb ?a ?b] =>
      first [ rewrite (proj2 (Reqb_true a b)) by tac | rewrite (proj2 (Reqb_false a b)) by tac ]
  end.

Ltac npow_with tac :=
  repeat match goal with
  | |- context [np_power ?a ?b] =>
      first [ rewrite (np_power_pos a b) by tac
            | rewrite (np_power_0 b) by tac ]
  end.

Ltac corr_prep :=
  cbv beta zeta;
  unfold np_exp, np_log, np_sqrt, np_abs, np_minimum, np_maximum, np_clip, np_isinf, EPSILON;
  decide_cmp_with ltac:(first [lra | interval with (i_prec 80)]);
  cbv beta iota zeta delta [andb orb negb];
  rewrite ?ln_1, ?Ropp_0;
  npow_with ltac:(first [lra | interval with (i_prec 80)]);
  rewrite ?Rplus_0_l, ?Rplus_0_r;       (* 0 ** theta + 0 ** theta at the corner (1,1) *)
  npow_with ltac:(first [lra | interval with (i_prec 80)]);
  unfold Rpower.

Ltac corr := corr_prep; interval with (i_prec 80).
