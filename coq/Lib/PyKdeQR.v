(* Real-number denotation of the symbolic vocabulary of Lib/PyKdeQ.v: the bounds expressions of GaussianKDE._get_bounds over
   the numpy denotation Lib/NumpyR.v, the lanes of percent_point as the routes of Model/Univariate.v.  Definitions only, plus
   the transfer of the two rational tests of the routing to R (from Spec/UnivQBridge.v). *)
From Coq Require Import QArith Qreals Reals List Bool Lra.
From Cop Require Import Lib.NumpyR Model.Lifecycle Model.Univariate Model.UnivQ Spec.UnivQBridge Lib.PyKdeQ.
Import ListNotations.
Local Open Scope R_scope.

(* the stored dataset (a list value, flat or [[..]]) as a list of reals; not a list of numbers: outside the model *)
Definition ds_reals (ds : jv) : list R :=
  match kde_points ds with
  | Some pts => map (fun j => match jv_q j with Some q => Q2R q | None => 0 end) pts
  | None => []
  end.

Fixpoint nx_R (n : nx) : R :=
  match n with
  | NxQ q => Q2R q
  | NxMin ds => np_min (ds_reals ds)
  | NxMax ds => np_max (ds_reals ds)
  | NxStd ds => np_std (ds_reals ds)
  | NxMean ds => np_mean (ds_reals ds)
  | NxVar ds => np_var (ds_reals ds)
  | NxAdd a b => nx_R a + nx_R b
  | NxSub a b => nx_R a - nx_R b
  | NxMul a b => nx_R a * nx_R b
  end.

(* one entry of the result of percent_point as a route of Model.Univariate (the np.zeros initial value is no route) *)
Definition xval_route (x : xval) : option kde_route :=
  match x with
  | XZero => None
  | XInf false => Some RouteNegInf
  | XInf true => Some RoutePosInf
  | XRoot _ _ lo hi u => Some (RouteRoot (nx_R lo) (nx_R hi) (Q2R u))
  end.

Lemma Q2R_inject_Z_5 : Q2R (inject_Z 5) = 5.
Proof. unfold Q2R, inject_Z; simpl. lra. Qed.
