(* ========================================================================= *)
(*  PyGM : the FIXED vocabulary of Gen_gmctl.v (tools/vf/gmctlgen.py)         *)
(*                                                                            *)
(*  Gen_gmctl.v is generated on every run from copulas/multivariate/          *)
(*  gaussian.py and base.py: one definition per Python function, built from   *)
(*  the statements of the CURRENT source over the denotations below.  This    *)
(*  file is static (hand-written, trusted): it says what a Python construct   *)
(*  of the fragment MEANS on the state of Model.Lifecycle (record ginst);     *)
(*  it contains no statement order, no attribute name of a particular         *)
(*  method, no exception class of a particular raise - those come from the    *)
(*  AST.  Props/C19_gm.v proves the generated definitions equal to the        *)
(*  hand-written model (the C19_bridge_gm theorems).                                     *)
(* ========================================================================= *)
From Coq Require Import ZArith QArith List String Bool.
From Cop Require Import Model.Lifecycle.
Import ListNotations.
Open Scope string_scope.
Open Scope list_scope.

(* ------------------------------------------------------------------------- *)
(* 1. The monad of a method body                                              *)
(* ------------------------------------------------------------------------- *)
(* A method body runs on the instance `self` (record ginst) and on numpy's global generator as currently installed (the
   process-wide stream, or the model's own stream while @random_state has swapped it in).  It returns a value or raises;
   whatever was mutated before a raise stays mutated, as in Python. *)
Definition gst : Type := (ginst * rsrc)%type.
Definition G (A : Type) : Type := gst -> gst * result A.
Definition g_ret {A} (a : A) : G A := fun w => (w, Ok a).
Definition g_raise {A} (e : err) : G A := fun w => (w, Err e).
Definition g_bind {A B} (c : G A) (k : A -> G B) : G B :=
  fun w => let (w1, r) := c w in match r with Ok a => k a w1 | Err e => (w1, Err e) end.
Definition g_seq {A} (c : G unit) (k : G A) : G A := g_bind c (fun _ => k).
Definition g_lift {A} (r : result A) : G A := fun w => (w, r).
(* for x in l: body  -- `acc` is the tuple of the locals the body re-binds / appends to *)
Fixpoint g_foreach {A S} (l : list A) (acc : S) (body : A -> S -> G S) : G S :=
  match l with
  | [] => g_ret acc
  | x :: r => g_bind (body x acc) (fun acc' => g_foreach r acc' body)
  end.
(* [f(x) for x in l] *)
Fixpoint g_map {A B} (f : A -> G B) (l : list A) : G (list B) :=
  match l with
  | [] => g_ret []
  | x :: r => g_bind (f x) (fun y => g_bind (g_map f r) (fun ys => g_ret (y :: ys)))
  end.
(* try: body / except <class> as e: handler -- the state reached when the body raised is the state the handler starts in *)
Definition g_try {A} (body : G A) (catches : err -> bool) (handler : err -> G A) : G A :=
  fun w => let (w1, r) := body w in
           match r with
           | Ok a => (w1, Ok a)
           | Err e => if catches e then handler e w1 else (w1, Err e)
           end.
(* `except <name>`: which model errors are instances of the named Python class (numpy's LinAlgError derives from ValueError,
   ModuleNotFoundError from ImportError; Unmodelled = "some exception the model does not name": an Exception) *)
Definition py_except (cls : string) (e : err) : bool :=
  if String.eqb cls "Exception" || String.eqb cls "BaseException" then true
  else match e with
       | NotFitted => String.eqb cls "NotFittedError"
       | ValueErr => String.eqb cls "ValueError"
       | LinAlgErr => String.eqb cls "ValueError" || String.eqb cls "LinAlgError"
       | TypeErr => String.eqb cls "TypeError"
       | AttributeErr => String.eqb cls "AttributeError"
       | NotImplementedErr => String.eqb cls "NotImplementedError" || String.eqb cls "RuntimeError"
       | KeyErr => String.eqb cls "KeyError" || String.eqb cls "LookupError"
       | ImportErr => String.eqb cls "ImportError" || String.eqb cls "ModuleNotFoundError"
       | Unmodelled => false
       end.

(* the result monad of a classmethod (no self: the object under construction lives in a local) *)
Definition r_bind {A B} (r : result A) (k : A -> result B) : result B := bind r k.
Fixpoint r_foreach {A S} (l : list A) (acc : S) (body : A -> S -> result S) : result S :=
  match l with
  | [] => Ok acc
  | x :: r => r_bind (body x acc) (fun acc' => r_foreach r acc' body)
  end.

(* ------------------------------------------------------------------------- *)
(* 2. Attributes of self                                                      *)
(* ------------------------------------------------------------------------- *)
Definition corr := list (list jv).
Definition setg_fitted (b : bool) (x : ginst) : ginst :=
  mkG (g_dist x) (g_rs x) b (g_columns x) (g_univariates x) (g_corr x) (g_stored x).
Definition setg_columns (c : option (list jv)) (x : ginst) : ginst :=
  mkG (g_dist x) (g_rs x) (g_fitted x) c (g_univariates x) (g_corr x) (g_stored x).
Definition setg_univariates (u : option (list uobj)) (x : ginst) : ginst :=
  mkG (g_dist x) (g_rs x) (g_fitted x) (g_columns x) u (g_corr x) (g_stored x).
Definition setg_corr (c : option corr) (x : ginst) : ginst :=
  mkG (g_dist x) (g_rs x) (g_fitted x) (g_columns x) (g_univariates x) c (g_stored x).

Definition py_get_fitted : G bool := fun w => (w, Ok (g_fitted (fst w))).
Definition py_set_fitted (b : bool) : G unit := fun w => ((setg_fitted b (fst w), snd w), Ok tt).
Definition py_get_columns : G (option (list jv)) := fun w => (w, Ok (g_columns (fst w))).
Definition py_set_columns (c : list jv) : G unit := fun w => ((setg_columns (Some c) (fst w), snd w), Ok tt).
Definition py_get_univariates : G (option (list uobj)) := fun w => (w, Ok (g_univariates (fst w))).
Definition py_set_univariates (u : list uobj) : G unit := fun w => ((setg_univariates (Some u) (fst w), snd w), Ok tt).
Definition py_get_correlation : G (option corr) := fun w => (w, Ok (g_corr (fst w))).
Definition py_set_correlation (c : corr) : G unit := fun w => ((setg_corr (Some c) (fst w), snd w), Ok tt).
Definition py_get_distribution : G dist := fun w => (w, Ok (g_dist (fst w))).

Definition push_draw (d : draw) (src : rsrc) : rsrc :=
  match src with RsGlobal g => RsGlobal (d :: g) | RsOwn (seed, ds) => RsOwn (seed, d :: ds) end.
(* @random_state (copulas.utils): with random_state None the body runs on the global stream; otherwise the model's own stream is
   installed, the body runs, the advanced stream is stored back on the model (also when the body raised) and the global one restored *)
Definition py_random_state {A} (body : G A) : G A :=
  fun w => match g_rs (fst w) with
           | None => body w
           | Some r => let (w1, res) := body (fst w, RsOwn r) in
                       ((setg_rs (match snd w1 with RsOwn r1 => Some r1 | RsGlobal _ => g_rs (fst w1) end) (fst w1), snd w), res)
           end.

(* ------------------------------------------------------------------------- *)
(* 3. fit: the table, the distribution spec, univariate objects               *)
(* ------------------------------------------------------------------------- *)
(* what the caller hands to fit: a DataFrame, or something pd.DataFrame() accepts (an ndarray) -- the same `table` summary
   either way, but only a DataFrame has .items() *)
Inductive pyX := XFrame (T : table) | XArray (T : table).
Definition x_table (X : pyX) : table := match X with XFrame T => T | XArray T => T end.
Definition py_isinstance_DataFrame (X : pyX) : bool := match X with XFrame _ => true | XArray _ => false end.
Definition py_pd_DataFrame (X : pyX) : pyX := XFrame (x_table X).
(* X.items(): (label, column) in column order *)
Definition py_items (X : pyX) : result (list (jv * data)) :=
  match X with XFrame T => Ok (t_cols T) | XArray _ => Err AttributeErr end.
(* @check_valid_values (copulas.utils): three ValueErrors before the body runs (text pinned by C19_guard_shapes) *)
Definition py_check_valid_values {A} (X : pyX) (body : G A) : G A :=
  fun w => let T := x_table X in
           if t_empty T then (w, Err ValueErr)
           else if negb (t_numeric T) then (w, Err ValueErr)
           else if t_has_nan T then (w, Err ValueErr)
           else body w.

(* a "distribution" value: one prototype (class / name / instance), or a dict label -> prototype *)
Definition py_isinstance_dict (d : dist) : bool := match d with DMap _ => true | DOne _ => false end.
Fixpoint dist_get (k : jv) (m : list (jv * uproto)) (dflt : dist) : dist :=
  match m with
  | [] => dflt
  | (k', p) :: r => if jkey_eq k k' then DOne p else dist_get k r dflt
  end.
(* d.get(k, default) *)
Definition py_dict_get (d : dist) (k : jv) (dflt : dist) : result dist :=
  match d with DMap m => Ok (dist_get k m dflt) | DOne _ => Err AttributeErr end.
(* a class imported at module level, by the dotted path of the import (resolved like get_instance resolves a name) *)
Definition py_class_ref (path : string) : result dist :=
  c <- resolve_name path ;;
  match c with
  | KFam f => Ok (DOne (PFamCls f))
  | KWrapper => Ok (DOne PWrapperCls)
  | _ => Err Unmodelled
  end.
(* get_instance(distribution) without keyword arguments (a dict is not a prototype) *)
Definition py_get_instance (d : dist) : G uobj :=
  g_lift (match d with DOne p => get_instance_u p [] | DMap _ => Err Unmodelled end).
(* <Class>() *)
Definition py_construct (c : result dist) : G uobj :=
  g_lift (d <- c ;;
          match d with
          | DOne (PFamCls f) => new_u (KFam f) [] []
          | DOne PWrapperCls => new_u KWrapper [] []
          | _ => Err TypeErr
          end).
(* l.append(x) on a local list *)
Definition py_append {A} (l : list A) (x : A) : list A := l ++ [x].

(* ------------------------------------------------------------------------- *)
(* 4. queries                                                                 *)
(* ------------------------------------------------------------------------- *)
(* the result of _transform_to_normal: per column (in order) the behaviour of the marginal cdf it went through *)
Definition tnorm : Type := (list jv * list obs)%type.
Definition mvn_slot (meth : string) : option gkind :=
  if String.eqb meth "pdf" then Some GPdf
  else if String.eqb meth "cdf" then Some GCdf
  else if String.eqb meth "logpdf" then Some GLogPdf
  else None.
(* stats.multivariate_normal.<meth>(transformed, cov=<self.correlation>): scipy reads cov=None as "the default" - outside *)
Definition py_mvn (meth : string) (t : tnorm) (cov : option corr) : result obs :=
  match mvn_slot meth with
  | None => Err AttributeErr
  | Some k => match cov with
              | Some c => Ok (ObsGM k (fst t) (snd t) c)
              | None => Err Unmodelled
              end
  end.
(* np.log of a density *)
Definition py_np_log (o : obs) : result obs :=
  match o with
  | ObsGM GPdf c s k => Ok (ObsGM GLogPdf c s k)
  | _ => Err Unmodelled
  end.

(* sampling *)
(* np.zeros(len(columns)) *)
Definition py_zeros_len (c : option (list jv)) : result nat :=
  match c with Some l => Ok (List.length l) | None => Err TypeErr end.
(* the array np.random.multivariate_normal returned: which covariance, how many rows, from which generator state *)
Record rawsamp := mkRaw { rw_corr : corr; rw_n : nat; rw_src : rsrc }.
(* np.random.multivariate_normal(means, cov, size=n) on the generator that is installed; cov=None: ValueError, nothing drawn *)
Definition py_multivariate_normal (means : nat) (cov : option corr) (n : nat) : G rawsamp :=
  fun w => match cov with
           | None => (w, Err ValueErr)
           | Some c => ((fst w, push_draw (mkDraw (JStr "gm.sample") n) (snd w)), Ok (mkRaw c n (snd w)))
           end.
(* pd.DataFrame(samples, columns=columns) *)
Record nsamp := mkNS { ns_cols : list jv; ns_raw : rawsamp }.
Definition py_samples_frame (r : rawsamp) (c : option (list jv)) : result nsamp :=
  match c with Some l => Ok (mkNS l r) | None => Err Unmodelled end.
(* samples[column_name], stats.norm.cdf(.) of it *)
Inductive ncol := NCol (name : jv) (s : nsamp).
Inductive ucol := UCol (c : ncol).
Definition py_samples_col (s : nsamp) (name : jv) : ncol := NCol name s.
Definition py_norm_cdf (c : ncol) : ucol := UCol c.
(* zip(a, b) of two attributes *)
Definition py_zip {A B} (a : option (list A)) (b : option (list B)) : result (list (A * B)) :=
  match a, b with Some x, Some y => Ok (combine x y) | _, _ => Err TypeErr end.
(* univariate.percent_point(cdf): the behaviour of the marginal's quantile function, and what it was applied to *)
Record cell := mkCell { cell_obs : obs; cell_arg : ucol }.
Definition py_u_percent_point (u : uobj) (c : ucol) : G cell :=
  g_lift (match q_u u QPpf with ObsErr e => Err e | o => Ok (mkCell o c) end).
(* output[k] = v on the local dict (labels are distinct: insertion order) *)
Definition py_out_setitem {A} (d : list (jv * A)) (k : jv) (v : A) : list (jv * A) := d ++ [(k, v)].
(* pd.DataFrame(data=output): n rows drawn through the marginals' quantile functions; the normal draw they all come from is read
   off the first cell (a frame without columns has no rows to speak of: outside) *)
Definition py_output_frame (out : list (jv * cell)) : result obs :=
  match out with
  | [] => Err Unmodelled
  | (_, c0) :: _ =>
      match cell_arg c0 with
      | UCol (NCol _ s) =>
          Ok (ObsDraw (ObsGM GSample (map fst out) (map (fun kv => cell_obs (snd kv)) out) (rw_corr (ns_raw s)))
                      (rw_n (ns_raw s)) (rw_src (ns_raw s)))
      end
  end.

(* ------------------------------------------------------------------------- *)
(* 5. to_dict / from_dict                                                     *)
(* ------------------------------------------------------------------------- *)
(* for u in self.univariates *)
Definition py_iter_opt {A} (l : option (list A)) : result (list A) :=
  match l with Some x => Ok x | None => Err TypeErr end.
(* univariate.to_dict() *)
Definition py_u_to_dict (u : uobj) : G jv := g_lift (to_dict_u u).
(* self.correlation.to_numpy().tolist() *)
Definition py_corr_tolist (c : option corr) : result jv :=
  match c with Some rows => Ok (JList (map JList rows)) | None => Err AttributeErr end.
(* self.columns as a value of the returned dict (None: not a fitted state) *)
Definition py_columns_value (c : option (list jv)) : result jv :=
  match c with Some l => Ok (JList l) | None => Err Unmodelled end.
(* get_qualified_name(self) *)
Definition py_qualified_name_self : G jv := g_ret (JStr (fqn KGM)).

(* d[k] on the argument of from_dict *)
Definition py_getitem (j : jv) (k : string) : result jv :=
  match j with
  | JDict d => match lookup k d with Some v => Ok v | None => Err KeyErr end
  | _ => Err TypeErr
  end.
(* cls() in a classmethod of GaussianMultivariate *)
Definition py_cls_new : result ginst := new_gm [] [].
(* obj.columns = v: the model keeps column labels as a list *)
Definition py_as_columns (j : jv) : result (list jv) :=
  match j with JList c => Ok c | _ => Err Unmodelled end.
(* for p in <value>: a list is iterated in order; numbers / None / booleans are not iterable; strings, dicts and sets are,
   but what they yield is outside the model *)
Definition py_iter (j : jv) : result (list jv) :=
  match j with
  | JList l => Ok l
  | JStr _ | JDict _ | JSet _ => Err Unmodelled
  | _ => Err TypeErr
  end.
(* obj.univariates.append(u) *)
Definition py_obj_univariates_append (x : ginst) (u : uobj) : result ginst :=
  match g_univariates x with
  | Some l => Ok (setg_univariates (Some (l ++ [u])) x)
  | None => Err AttributeErr
  end.
(* pd.DataFrame(rows, index=cols, columns=cols): rows must be a list of lists *)
Definition py_corr_frame (rows : jv) (index columns : jv) : result corr := jlist_rows rows.

(* s.rsplit(sep, maxsplit) unpacked into two names *)
Definition py_rsplit2 (j : jv) (sep : string) (maxsplit : nat) : result (string * string) :=
  match j with
  | JStr s => if String.eqb sep "." && (maxsplit =? 1)%nat
              then match rsplit_dot s with Some mn => Ok mn | None => Err ValueErr end
              else Err Unmodelled
  | _ => Err AttributeErr
  end.
(* getattr(importlib.import_module(package), name) *)
Definition py_import_getattr (m n : string) : result cls :=
  if negb (mem_str m known_modules) then Err ImportErr
  else
    match find (fun c => String.eqb n (cls_name c) &&
                         (String.eqb m (cls_module c) ||
                          match package_of c with Some p => String.eqb m p | None => false end))
               all_classes with
    | Some c => Ok c
    | None => if mem_str n unmodelled_names then Err Unmodelled else Err AttributeErr
    end.
(* <class>.from_dict(params): GaussianMultivariate has its own; everything else is outside this model *)
Definition py_class_from_dict (c : cls) (gm_from_dict : jv -> result ginst) (params : jv) : result ginst :=
  match c with
  | KGM => gm_from_dict params
  | _ => Err Unmodelled
  end.

(* ------------------------------------------------------------------------- *)
(* 6. Facts about the vocabulary (used by the bridges)                        *)
(* ------------------------------------------------------------------------- *)
Lemma resolve_name_split : forall s,
  resolve_name s = match rsplit_dot s with
                   | None => Err ValueErr
                   | Some (m, n) => py_import_getattr m n
                   end.
Proof. intros s. unfold resolve_name, py_import_getattr. destruct (rsplit_dot s) as [[m n]|]; reflexivity. Qed.

Lemma dist_get_lookup : forall k m, dist_get k m (DOne PWrapperCls) = DOne (dist_lookup k m).
Proof.
  intros k m. induction m as [|[k' p] r IH]; [reflexivity|].
  cbn [dist_get dist_lookup]. destruct (jkey_eq k k'); [reflexivity|exact IH].
Qed.

Lemma g_map_lift : forall (A B : Type) (f : A -> result B) (l : list A) (w : gst),
  g_map (fun a => g_lift (f a)) l w = (w, all_ok (map f l)).
Proof.
  intros A B f l w. induction l as [|a r IH]; [reflexivity|].
  cbn [g_map map all_ok]. unfold g_bind at 1. unfold g_lift at 1.
  destruct (f a) as [b|e]; [|reflexivity].
  unfold g_bind at 1. rewrite IH. destruct (all_ok (map f r)); reflexivity.
Qed.

Lemma setg_univariates_twice : forall a b x, setg_univariates a (setg_univariates b x) = setg_univariates a x.
Proof. intros a b x. destruct x; reflexivity. Qed.
Lemma setg_univariates_same : forall x l, g_univariates x = Some l -> setg_univariates (Some l) x = x.
Proof. intros x l H. destruct x; cbn in H; subst; reflexivity. Qed.

(* the loop of from_dict: every element goes through f (first error wins), the results are appended in order *)
Lemma r_foreach_append : forall (A : Type) (f : A -> result uobj) (it : list A) (x : ginst) (l0 : list uobj),
  g_univariates x = Some l0 ->
  r_foreach it x (fun p x' => r_bind (f p) (fun u => py_obj_univariates_append x' u))
  = r_bind (all_ok (map f it)) (fun us => Ok (setg_univariates (Some (l0 ++ us)) x)).
Proof.
  intros A f it. induction it as [|a r IH]; intros x l0 H.
  - cbn. rewrite app_nil_r, setg_univariates_same by exact H. reflexivity.
  - cbn [r_foreach map all_ok]. unfold r_bind at 1 2. unfold bind at 1.
    destruct (f a) as [u|e]; [|reflexivity]. cbn [bind].
    unfold py_obj_univariates_append at 1. rewrite H. cbn [bind].
    rewrite (IH (setg_univariates (Some (l0 ++ [u])) x) (l0 ++ [u])) by (destruct x; reflexivity).
    unfold r_bind, bind. destruct (all_ok (map f r)) as [us|e]; [|reflexivity].
    rewrite setg_univariates_twice, <- app_assoc. reflexivity.
Qed.
