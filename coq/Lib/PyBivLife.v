(* Denotation of the Python operations used by the life-cycle / serialisation skeleton of
   copulas/bivariate/base.py (and of the query methods of clayton.py / frank.py / gumbel.py /
   independence.py) as they are emitted by tools/vf/bivlifegen.py into Gen_bivlife.v.

   FIXED vocabulary: nothing in this file depends on the Python source.  The generated file
   contains one Gallina definition per Python function, built from the AST over the m_* / c_* /
   q_* / py_* operations below; coq/Props/C14_biv.v proves each of them equal to the hand-written
   model coq/Model/Lifecycle.v (record binst, bworld; subclasses, new_biv, to_dict_biv,
   from_dict_biv, query_biv) for all inputs.

   Three states, one monad:
     bworld  - class-level state of the bivariate package (the `_subclasses` caches, which modules
               are imported): classmethods, __new__, from_dict, load
     binst   - one instance: __init__, to_dict, save
     qst     - an instance, the numpy generator that is installed, and the np.random.uniform calls
               of the running `sample` body that are not yet accounted for: the queries
   A method body returns a value or raises; whatever was mutated before a raise stays mutated. *)
From Coq Require Import ZArith QArith List String Bool Ascii.
From Cop Require Import Model.Lifecycle.
Import ListNotations.
Open Scope string_scope.
Open Scope list_scope.

(* ------------------------------------------------------------------------- *)
(* 1. The monad                                                               *)
(* ------------------------------------------------------------------------- *)
Definition M (S A : Type) : Type := S -> S * result A.
Definition m_ret {S A} (a : A) : M S A := fun w => (w, Ok a).
Definition m_raise {S A} (e : err) : M S A := fun w => (w, Err e).
Definition m_bind {S A B} (c : M S A) (k : A -> M S B) : M S B :=
  fun w => let (w1, r) := c w in match r with Ok a => k a w1 | Err e => (w1, Err e) end.
Definition m_seq {S A B} (c : M S A) (k : M S B) : M S B := m_bind c (fun _ => k).
Definition m_lift {S A} (r : result A) : M S A := fun w => (w, r).
(* `a and b` with an operand that can raise: b is evaluated only when a holds *)
Definition m_and {S} (a : bool) (b : M S bool) : M S bool := if a then b else m_ret false.
(* for x in l: acc = body x acc   (loop-carried local `acc`) *)
Fixpoint m_fold {S A B} (l : list A) (acc : B) (body : A -> B -> M S B) : M S B :=
  match l with
  | [] => m_ret acc
  | x :: r => m_bind (body x acc) (fun acc1 => m_fold r acc1 body)
  end.
(* for x in l: <body that may `return v`> ; rest      (Some v = the body returned v) *)
Fixpoint m_for_return {S A B} (l : list A) (body : A -> M S (option B)) (rest : M S B) : M S B :=
  match l with
  | [] => rest
  | x :: r => m_bind (body x) (fun o => match o with Some v => m_ret v | None => m_for_return r body rest end)
  end.

(* ------------------------------------------------------------------------- *)
(* 2. Values, classes, the CopulaTypes enumeration                            *)
(* ------------------------------------------------------------------------- *)
(* a Python value that reaches the constructor: JSON-like, or a member of CopulaTypes *)
Inductive pyv := PJ (j : jv) | PEnum (t : ctype).
Definition kwargs := list (string * pyv).
Definition kw_of_jv (kw : list (string * jv)) : kwargs := map (fun kv => (fst kv, PJ (snd kv))) kw.
(* a class object of the bivariate package: None = Bivariate, Some t = the family class *)
Definition pcls := option ctype.
Definition pcls_name (c : pcls) : string := match c with None => "Bivariate" | Some t => ctype_class t end.
(* an object reference: None = Python's None *)
Definition pobj := option binst.

(* the fixed correspondence between member names and the model's constructors (the same chain of tests as
   Lifecycle.upper_is) *)
Definition ctype_of_NAME (u : string) : option ctype :=
  if String.eqb u "CLAYTON" then Some Clayton
  else if String.eqb u "FRANK" then Some Frank
  else if String.eqb u "GUMBEL" then Some Gumbel
  else if String.eqb u "INDEPENDENCE" then Some Independence
  else None.
(* family class name -> constructor *)
Definition ctype_of_class (n : string) : option ctype :=
  if String.eqb n "Clayton" then Some Clayton
  else if String.eqb n "Frank" then Some Frank
  else if String.eqb n "Gumbel" then Some Gumbel
  else if String.eqb n "Independence" then Some Independence
  else None.

(* An Enum class body: (member name, value) in source order.  Two names with the same value are ALIASES of the
   first one (Python's Enum), so the member a name denotes is found through its value. *)
Definition enum_def := list (string * Z).
Fixpoint enum_first_with (z : Z) (m : enum_def) : option string :=
  match m with
  | [] => None
  | (k, v) :: r => if Z.eqb v z then Some k else enum_first_with z r
  end.
(* name in E.__members__ *)
Definition py_enum_contains (m : enum_def) (s : string) : bool := has_key s m.
(* E[name]  (also E.NAME in a class body) *)
Definition py_enum_getitem (m : enum_def) (s : string) : result pyv :=
  match lookup s m with
  | None => Err KeyErr
  | Some z => match enum_first_with z m with
              | Some canonical => match ctype_of_NAME canonical with Some t => Ok (PEnum t) | None => Err Unmodelled end
              | None => Err Unmodelled
              end
  end.
Definition py_is_none (v : pyv) : bool := match v with PJ JNone => true | _ => false end.
Definition py_isinstance_enum (v : pyv) : bool := match v with PEnum _ => true | PJ _ => false end.
Definition py_isinstance_str (v : pyv) : bool := match v with PJ (JStr _) => true | _ => false end.
(* v.upper(): only str has it *)
Definition py_str_upper (v : pyv) : result string :=
  match v with PJ (JStr s) => Ok (upper s) | _ => Err AttributeErr end.
(* a is b, for b a member of the enumeration / None *)
Definition py_is (a b : pyv) : bool :=
  match a, b with
  | PEnum x, PEnum y => ctype_eqb x y
  | PJ JNone, PJ JNone => true
  | _, _ => false
  end.
(* v.name *)
Definition py_attr_name (v : pyv) : result jv :=
  match v with PEnum t => Ok (JStr (ctype_NAME t)) | PJ _ => Err AttributeErr end.
(* kwargs.get(k, default) *)
Definition py_kwargs_get (kw : kwargs) (k : string) (dflt : pyv) : pyv := getd k kw dflt.

(* class attribute `copula_type` of each class, as written in the class bodies: class name -> Some member name | None *)
Definition ctab := list (string * option string).
(* C.copula_type *)
Definition py_cls_copula_type (tab : ctab) (m : enum_def) (c : pcls) : result pyv :=
  match lookup (pcls_name c) tab with
  | Some (Some nm) => py_enum_getitem m nm
  | Some None => Ok (PJ JNone)
  | None => Err AttributeErr
  end.

(* ------------------------------------------------------------------------- *)
(* 3. Class-level state: the `_subclasses` caches                             *)
(* ------------------------------------------------------------------------- *)
Definition CM (A : Type) : Type := M bworld A.
(* The record bworld does not store the cached list itself: a populated cache of Bivariate IS the list of the
   subclasses that exist (the independence module is imported before the first call or never - the histories of
   the checks do exactly that), and the only list a family class can own is [] (it has no subclasses). *)
(* C._subclasses : looked up on C, then on Bivariate *)
Definition py_cls_get__subclasses (c : pcls) : CM (list ctype) :=
  fun w => (w, Ok (match c with
                   | None => if bw_base_cached w then base_subclasses w else []
                   | Some t => if existsb (ctype_eqb t) (bw_own_empty w) then []
                               else if bw_base_cached w then base_subclasses w else []
                   end)).
Definition list_ctype_eqb (a b : list ctype) : bool :=
  (List.length a =? List.length b)%nat && forallb (fun p => ctype_eqb (fst p) (snd p)) (combine a b).
(* C._subclasses = l : an attribute of C itself *)
Definition py_cls_set__subclasses (c : pcls) (l : list ctype) : CM unit :=
  fun w => match c with
           | None => if list_ctype_eqb l (base_subclasses w)
                     then (mkBW true (bw_own_empty w) (bw_indep_imported w), Ok tt)
                     else (w, Err Unmodelled)
           | Some t => match l with
                       | [] => (if existsb (ctype_eqb t) (bw_own_empty w) then w
                                else mkBW (bw_base_cached w) (t :: bw_own_empty w) (bw_indep_imported w), Ok tt)
                       | _ :: _ => (w, Err Unmodelled)
                       end
           end.
(* C.__subclasses__() : the direct subclasses that exist right now *)
Definition py_cls___subclasses__ (c : pcls) : CM (list ctype) :=
  fun w => (w, Ok (match c with None => base_subclasses w | Some _ => [] end)).
(* depth of the class tree below Bivariate + 1: bound of the recursion of _get_subclasses *)
Definition py_class_depth : nat := 2.
Definition py_truthy_list {A} (l : list A) : bool := match l with [] => false | _ :: _ => true end.
Definition py_list_append {A} (l : list A) (x : A) : list A := l ++ [x].
Definition py_list_extend {A} (l r : list A) : list A := l ++ r.

(* object.__new__(C): a bare instance of C - no instance attributes, theta / tau are the class-level None *)
Definition py_object_new (c : pcls) : pobj := Some (mkB c JNone JNone None false).
Definition py_isinstance (o : binst) (c : pcls) : bool :=
  match c with
  | None => true
  | Some t0 => match b_cls o with Some t => ctype_eqb t0 t | None => false end
  end.
(* C(kwargs) = type.__call__: o = C.__new__(C, kwargs); if isinstance(o, C): o.__init__(kwargs); the value is o *)
Definition py_type_call (c : pcls) (kw : kwargs)
    (new : pcls -> kwargs -> CM pobj) (init : kwargs -> M binst unit) : CM pobj :=
  m_bind (new c kw) (fun o =>
    match o with
    | None => m_ret None
    | Some b => if py_isinstance b c
                then fun w => match init kw b with
                              | (b1, Ok _) => (w, Ok (Some b1))
                              | (_, Err e) => (w, Err e)
                              end
                else m_ret (Some b)
    end).

(* ------------------------------------------------------------------------- *)
(* 4. Instance state: __init__, to_dict, from_dict                            *)
(* ------------------------------------------------------------------------- *)
(* binding of keyword arguments to the named parameters of a signature (positional arguments are outside the model) *)
Definition py_bind_kwargs (names : list string) (kw : kwargs) : M binst kwargs :=
  m_lift (if existsb (fun kv => negb (mem_str (fst kv) names)) kw then Err TypeErr else Ok kw).
(* validate_random_state (copulas.utils): hand-written Lifecycle.validate_rs *)
Definition py_validate_random_state (v : pyv) : M binst (option rstate) :=
  m_lift (match v with PJ j => validate_rs j | PEnum _ => Err TypeErr end).
(* self.random_state = r : the instance attribute exists from now on *)
Definition py_set_random_state (r : option rstate) : M binst unit :=
  fun b => (mkB (b_cls b) (b_theta b) (b_tau b) r true, Ok tt).
Definition py_get_theta : M binst jv := fun b => (b, Ok (b_theta b)).
Definition py_get_tau : M binst jv := fun b => (b, Ok (b_tau b)).
(* self.copula_type : not an instance attribute - the class attribute of type(self) *)
Definition py_self_copula_type (tab : ctab) (m : enum_def) : M binst pyv :=
  fun b => (b, py_cls_copula_type tab m (b_cls b)).
(* d[k] on a value that arrived as an argument *)
Definition py_getitem (j : jv) (k : string) : result jv :=
  match j with
  | JDict d => match lookup k d with Some v => Ok v | None => Err KeyErr end
  | _ => Err TypeErr
  end.
(* o.theta = v / o.tau = v on an object reference *)
Definition py_obj_set_theta (v : jv) (o : pobj) : result pobj :=
  match o with None => Err AttributeErr | Some b => Ok (Some (setb_theta v b)) end.
Definition py_obj_set_tau (v : jv) (o : pobj) : result pobj :=
  match o with None => Err AttributeErr | Some b => Ok (Some (setb_tau v b)) end.

(* ------------------------------------------------------------------------- *)
(* 5. Files: json.dump / json.load                                            *)
(* ------------------------------------------------------------------------- *)
(* the file system: path -> content; json is the identity on json_safe values (an oracle checked case by case in
   the C14 correspondence) and raises TypeError on a set *)
Definition fs := list (string * jv).
(* with open(path, 'w') as f: json.dump(content, f) -- the file is created (truncated) before dump raises *)
Definition py_json_dump_file (path : string) (content : jv) : M fs unit :=
  fun s => if json_safe content then (dict_set path content s, Ok tt)
           else (dict_set path JNone s, Err TypeErr).
(* with open(path) as f: json.load(f) *)
Definition py_json_load_file (path : string) : M fs jv :=
  fun s => match lookup path s with
           | Some JNone => (s, Err ValueErr)        (* an empty / truncated file: JSONDecodeError is a ValueError *)
           | Some j => (s, Ok j)
           | None => (s, Err Unmodelled)            (* FileNotFoundError: outside the err type *)
           end.
(* run a computation on the instance / on the class state inside a computation on files *)
Definition fs_inst {A} (b : binst) (c : M binst A) : M fs A := fun s => (s, snd (c b)).

(* ------------------------------------------------------------------------- *)
(* 6. Queries                                                                 *)
(* ------------------------------------------------------------------------- *)
(* one np.random.uniform(lo, hi, n) call of the running body *)
Definition raw := (Q * Q * nat)%type.
Definition qst : Type := (binst * rsrc * list raw)%type.
Definition QM (A : Type) : Type := M qst A.
Definition q_inst (w : qst) : binst := fst (fst w).
Definition q_src (w : qst) : rsrc := snd (fst w).
Definition q_pend (w : qst) : list raw := snd w.

(* self.check_fit(): hand-written Lifecycle.check_fit_biv (its translation from the source is Gen_bivctl.gen_check_fit,
   C10_bridge_check_fit; the two models are connected in Props/C14_biv.v) *)
Definition q_check_fit : QM unit :=
  fun w => (w, match check_fit_biv (q_inst w) with Some e => Err e | None => Ok tt end).
(* a call whose value is not used *)
Definition q_ignore {A} (c : QM A) : QM unit := m_bind c (fun _ => m_ret tt).
(* the value of a numeric expression in a method whose observable kind is k: "the function k of the family at theta" *)
Definition q_result (k : bkind) : QM obs :=
  fun w => (w, match b_cls (q_inst w) with
               | Some t => Ok (ObsBiv k t (b_theta (q_inst w)))
               | None => Err Unmodelled       (* no numeric result exists on the base class *)
               end).
(* np.log(<density>) *)
Definition py_np_log (o : obs) : QM obs :=
  m_lift (match o with ObsBiv BPdf t th => Ok (ObsBiv BLogPdf t th) | _ => Err Unmodelled end).
(* for ... in zip(<data>): body -- the probe is not empty: the body runs (at least) once; later iterations repeat it *)
Definition q_for_data (body : QM unit) : QM unit := body.
(* brentq(f, a, b): f is called (at least on the two end points) *)
Definition py_brentq (f : QM unit) : QM unit := f.

(* comparisons of self.tau with a number: None / str / list / dict / set are not comparable with a float
   (Lifecycle.jv_comparable) *)
Definition q_tau : QM jv := fun w => (w, Ok (b_tau (q_inst w))).
Definition py_gt (a b : jv) : QM bool :=
  m_lift (if jv_comparable a && jv_comparable b then Ok (jgt a b) else Err TypeErr).
Definition py_lt (a b : jv) : QM bool := py_gt b a.
Definition py_ge (a b : jv) : QM bool :=
  m_lift (if jv_comparable a && jv_comparable b then Ok (jle b a) else Err TypeErr).
Definition py_le (a b : jv) : QM bool := py_ge b a.
(* a or b / a and b with operands that can raise *)
Definition q_or (a : QM bool) (b : QM bool) : QM bool := m_bind a (fun x => if x then m_ret true else b).
Definition q_andb (a : QM bool) (b : QM bool) : QM bool := m_bind a (fun x => if x then b else m_ret false).

(* the value of one np.random.uniform call: which call of the body it was, how many values, and the state of the
   generator before the first draw of the body *)
Record tok := mkTok { tk_idx : nat; tk_n : nat; tk_src : rsrc }.
Definition py_np_random_uniform (lo hi : Q) (n : nat) : QM tok :=
  fun w => ((q_inst w, q_src w, (lo, hi, n) :: q_pend w), Ok (mkTok (List.length (q_pend w)) n (q_src w))).
(* self.percent_point(y, V) inside sample: y is the SECOND draw, V the first *)
Definition py_ppf_of_draws (y v : tok) (callee : QM obs) : QM obs :=
  if ((tk_idx y =? 1) && (tk_idx v =? 0))%nat then callee else m_raise Unmodelled.
(* np.column_stack((u, v)): u the percent points, v the first draw - "n values of the family's sample" *)
Definition py_column_stack_sample (u : obs) (v : tok) : QM obs :=
  m_lift (match u with
          | ObsBiv BPpf t th => if (tk_idx v =? 0)%nat then Ok (ObsDraw (ObsBiv BSample t th) (tk_n v) (tk_src v))
                                else Err Unmodelled
          | _ => Err Unmodelled
          end).
Definition push_draw (d : draw) (src : rsrc) : rsrc :=
  match src with RsGlobal g => RsGlobal (d :: g) | RsOwn (seed, ds) => RsOwn (seed, d :: ds) end.
Definition q_is (a b : Q) : bool := Qeq_bool a b.
(* what the model's draw record "biv.sample" n stands for: exactly two np.random.uniform(0, 1, n) calls *)
Definition flush (src : rsrc) (pend : list raw) : option rsrc :=
  match pend with
  | [] => Some src
  | [(lo2, hi2, n2); (lo1, hi1, n1)] =>
      if q_is lo1 0 && q_is hi1 1 && q_is lo2 0 && q_is hi2 1 && (n1 =? n2)%nat
      then Some (push_draw (mkDraw (JStr "biv.sample") n1) src) else None
  | _ => None
  end.
(* @random_state (copulas.utils): reads self.random_state (AttributeError when __init__ never ran); None: the body
   runs on the global stream; otherwise the model's own stream is installed, the body runs, the advanced stream is
   stored back on the model (also when the body raised) and the global one restored *)
Definition py_random_state {A} (body : QM A) : QM A :=
  fun w =>
    let b := q_inst w in
    if negb (b_init b) then (w, Err AttributeErr)
    else
      let installed := match b_rs b with None => q_src w | Some r => RsOwn r end in
      let (w1, res) := body (b, installed, []) in
      match flush (q_src w1) (q_pend w1) with
      | None => (w, Err Unmodelled)
      | Some src1 =>
          match b_rs b with
          | None => ((q_inst w1, src1, q_pend w), res)
          | Some _ => ((setb_rs (match src1 with RsOwn r1 => Some r1 | RsGlobal _ => b_rs (q_inst w1) end) (q_inst w1),
                        q_src w, q_pend w), res)
          end
      end.

(* what the caller of a query sees, in the shape of Lifecycle.query_biv *)
Definition run_query (c : QM obs) (b : binst) (g : grng) : binst * grng * obs :=
  let (w1, r) := c (b, RsGlobal g, []) in
  (q_inst w1, match q_src w1 with RsGlobal g1 => g1 | RsOwn _ => g end,
   match r with Ok o => o | Err e => ObsErr e end).
