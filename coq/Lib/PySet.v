(* Denotation of the few Python operations used by the "edge kernel" of
   copulas/multivariate/tree.py (Tree._check_constraint, Tree._get_constraints,
   Edge._identify_eds_ing, Edge.is_adjacent, Edge.sort_edge, Edge.get_child_edge,
   Edge.get_conditional_uni), as they are emitted by tools/vf/vinegen.py into
   Gen_vinekernel.v:

   - sets of natural numbers: the set display `{a, b, c, d}` / `set()`,
     `s.update(iterable)`, `A & B`, `A ^ B`, `A | B`, `len(s)`, `sorted(s)`;
   - `sorted(xs, key=lambda x: (k1, k2))` (Python's sort is stable, tuples of
     ints compare lexicographically);
   - attribute assignment on an Edge object (`e.D = ...`, `e.parents = [...]`);
   - the loop `for k in range(len(xs)): ... xs[k] ... ys[k].append(i)`.

   A Python set of ints is denoted by the strictly increasing list of its
   elements ([canon]); this is the representation Model/Vine.v uses for
   `Edge.D`, so every operation below RETURNS a canonical list, and accepts any
   list (an iterable, or a set in any representation) as argument.  The lemmas
   characterise membership, show that results are canonical, and identify the
   operations with Vine.set_union / set_inter / set_symdiff, both as sets and
   as lists. *)
From Coq Require Import List Arith Lia Bool Permutation Sorting.Sorted.
From Cop Require Import Lib.FinGraph Model.Vine Spec.VineSets.
Import ListNotations.
Open Scope nat_scope.

Definition pyset := list nat.

(* ------------------------------------------------------------------ *)
(** * Canonical form                                                   *)
Definition canon (l : list nat) : pyset :=
  filter (fun x => memb x l) (seq 0 (S (maxl l))).

Lemma In_canon l v : In v (canon l) <-> In v l.
Proof.
  unfold canon. rewrite filter_In, memb_In. split; [tauto|].
  intros Hin. split; auto. apply in_seq. apply maxl_ge in Hin. lia.
Qed.

Lemma incr_canon l : incr (canon l).
Proof. apply incr_filter, incr_seq. Qed.

Lemma canon_ext l1 l2 : (forall v, In v l1 <-> In v l2) -> canon l1 = canon l2.
Proof.
  intros Hext. apply incr_ext_eq; try apply incr_canon.
  intros v. rewrite !In_canon. apply Hext.
Qed.

(* a list that is already canonical is left alone *)
Lemma canon_incr l : incr l -> canon l = l.
Proof.
  intros Hl. apply incr_ext_eq; auto using incr_canon.
  intros v. apply In_canon.
Qed.

Lemma canon_idem l : canon (canon l) = canon l.
Proof. apply canon_incr, incr_canon. Qed.

(* the canonical list with given elements is unique *)
Lemma canon_eq l t : incr t -> (forall v, In v l <-> In v t) -> canon l = t.
Proof.
  intros Ht Hext. apply incr_ext_eq; auto using incr_canon.
  intros v. rewrite In_canon. apply Hext.
Qed.

(* ------------------------------------------------------------------ *)
(** * Set operations                                                   *)
(* `{a, b, c}`, `set()`, `set(iterable)` *)
Definition pyset_display (elts : list nat) : pyset := canon elts.
(* `s.update(iterable)` : the new value of s *)
Definition pyset_update (s : pyset) (it : list nat) : pyset := canon (s ++ it).
(* `A & B` *)
Definition pyset_and (A B : pyset) : pyset :=
  canon (filter (fun x => memb x B) A).
(* `A ^ B` *)
Definition pyset_xor (A B : pyset) : pyset :=
  canon (filter (fun x => negb (memb x B)) A ++ filter (fun x => negb (memb x A)) B).
(* `A | B` *)
Definition pyset_or (A B : pyset) : pyset := canon (A ++ B).
(* `len(s)`: the number of DISTINCT elements *)
Definition pyset_len (s : pyset) : nat := length (canon s).
(* `sorted(s)` *)
Definition pyset_sorted (s : pyset) : list nat := canon s.

Lemma In_pyset_display l v : In v (pyset_display l) <-> In v l.
Proof. apply In_canon. Qed.

Lemma In_pyset_update s it v : In v (pyset_update s it) <-> In v s \/ In v it.
Proof. unfold pyset_update. rewrite In_canon. apply in_app_iff. Qed.

Lemma In_pyset_and A B v : In v (pyset_and A B) <-> In v A /\ In v B.
Proof. unfold pyset_and. rewrite In_canon, filter_In, memb_In. tauto. Qed.

Lemma In_pyset_or A B v : In v (pyset_or A B) <-> In v A \/ In v B.
Proof. unfold pyset_or. rewrite In_canon. apply in_app_iff. Qed.

Lemma In_pyset_xor A B v :
  In v (pyset_xor A B) <-> (In v A /\ ~ In v B) \/ (~ In v A /\ In v B).
Proof.
  unfold pyset_xor.
  rewrite In_canon, in_app_iff, !filter_In, !negb_true_iff, !memb_false. tauto.
Qed.

Lemma In_pyset_sorted s v : In v (pyset_sorted s) <-> In v s.
Proof. apply In_canon. Qed.

Lemma incr_pyset_display l : incr (pyset_display l).
Proof. apply incr_canon. Qed.
Lemma incr_pyset_update s it : incr (pyset_update s it).
Proof. apply incr_canon. Qed.
Lemma incr_pyset_and A B : incr (pyset_and A B).
Proof. apply incr_canon. Qed.
Lemma incr_pyset_xor A B : incr (pyset_xor A B).
Proof. apply incr_canon. Qed.
Lemma incr_pyset_or A B : incr (pyset_or A B).
Proof. apply incr_canon. Qed.
Lemma incr_pyset_sorted s : incr (pyset_sorted s).
Proof. apply incr_canon. Qed.

Lemma pyset_display_nil : pyset_display [] = [].
Proof. reflexivity. Qed.

(* a set value (any representation) is determined, as a canonical list, by its
   elements: the work-horse of the bridge proofs *)
Lemma pyset_sorted_eq s t :
  incr t -> (forall v, In v s <-> In v t) -> pyset_sorted s = t.
Proof. apply canon_eq. Qed.

Lemma pyset_len_eq s t :
  incr t -> (forall v, In v s <-> In v t) -> pyset_len s = length t.
Proof. intros Ht Hext. unfold pyset_len. now rewrite (canon_eq s t Ht Hext). Qed.

Lemma pyset_eq (s t : pyset) :
  incr s -> incr t -> (forall v, In v s <-> In v t) -> s = t.
Proof. intros Hs Ht Hext. apply incr_ext_eq; auto. Qed.

(* len counts distinct elements *)
Lemma pyset_len_nodup s : pyset_len s = length (nodup Nat.eq_dec s).
Proof.
  unfold pyset_len. apply incr_length_ext.
  - apply incr_NoDup, incr_canon.
  - apply NoDup_nodup.
  - intros v. rewrite In_canon, nodup_In. tauto.
Qed.

(* ---------- agreement with the set operations of Model/Vine.v ---------- *)
(* as lists (the operands may be in any representation) *)
Theorem pyset_or_union A B : pyset_or A B = set_union A B.
Proof.
  apply pyset_eq; [apply incr_pyset_or | apply incr_set_union |].
  intros v. rewrite In_pyset_or, In_set_union. tauto.
Qed.

Theorem pyset_and_inter A B : pyset_and A B = set_inter A B.
Proof.
  apply pyset_eq; [apply incr_pyset_and | apply incr_set_inter |].
  intros v. rewrite In_pyset_and, In_set_inter. tauto.
Qed.

Theorem pyset_xor_symdiff A B : pyset_xor A B = set_symdiff A B.
Proof.
  apply pyset_eq; [apply incr_pyset_xor | apply incr_set_symdiff |].
  intros v. rewrite In_pyset_xor, In_set_symdiff. tauto.
Qed.

(* ... and up to the representation of the operands *)
Lemma pyset_and_ext A A' B B' :
  (forall v, In v A <-> In v A') -> (forall v, In v B <-> In v B') ->
  pyset_and A B = set_inter A' B'.
Proof.
  intros HA HB. apply pyset_eq; [apply incr_pyset_and | apply incr_set_inter |].
  intros v. rewrite In_pyset_and, In_set_inter, HA, HB. tauto.
Qed.

Lemma pyset_xor_ext A A' B B' :
  (forall v, In v A <-> In v A') -> (forall v, In v B <-> In v B') ->
  pyset_xor A B = set_symdiff A' B'.
Proof.
  intros HA HB. apply pyset_eq; [apply incr_pyset_xor | apply incr_set_symdiff |].
  intros v. rewrite In_pyset_xor, In_set_symdiff, HA, HB. tauto.
Qed.

Lemma pyset_or_ext A A' B B' :
  (forall v, In v A <-> In v A') -> (forall v, In v B <-> In v B') ->
  pyset_or A B = set_union A' B'.
Proof.
  intros HA HB. apply pyset_eq; [apply incr_pyset_or | apply incr_set_union |].
  intros v. rewrite In_pyset_or, In_set_union, HA, HB. tauto.
Qed.

(* `X = {e.L, e.R}; X.update(e.D)` is the constraint set U e of Model/Vine.v *)
Lemma In_edge_set (e : edge) v :
  In v (pyset_update (pyset_display [e_L e; e_R e]) (e_D e)) <-> In v (U e).
Proof.
  rewrite In_pyset_update, In_pyset_display. unfold U. simpl. tauto.
Qed.

Global Hint Rewrite In_pyset_display In_pyset_update In_pyset_and In_pyset_or
       In_pyset_xor In_pyset_sorted In_set_union In_set_inter In_set_symdiff
  : pyset.

(* ------------------------------------------------------------------ *)
(** * sorted(xs, key=lambda x: (k1, k2))                               *)
(* `<=` of Python tuples of two ints: lexicographic *)
Definition pytuple2_le (a b : nat * nat) : bool :=
  (fst a <? fst b) || ((fst a =? fst b) && (snd a <=? snd b)).

(* Python's sort is stable and the keys are totally ordered, so the result is
   THE stable sort by key; insertion of each element before the first element
   with a greater-or-equal key, from the right, is one way to compute it
   (Vine.isort_by) *)
Definition py_sorted_key {A : Type} (key : A -> nat * nat) (l : list A) : list A :=
  isort_by (fun x y => pytuple2_le (key x) (key y)) l.

Lemma insert_by_ext {A} (le1 le2 : A -> A -> bool) :
  (forall x y, le1 x y = le2 x y) ->
  forall x l, insert_by le1 x l = insert_by le2 x l.
Proof.
  intros Hle x l. induction l as [|y r IH]; simpl; auto.
  rewrite Hle, IH. reflexivity.
Qed.

Lemma isort_by_ext {A} (le1 le2 : A -> A -> bool) :
  (forall x y, le1 x y = le2 x y) ->
  forall l, isort_by le1 l = isort_by le2 l.
Proof.
  intros Hle l. induction l as [|x r IH]; simpl; auto.
  rewrite IH. apply insert_by_ext, Hle.
Qed.

Lemma pytuple2_le_total a b : pytuple2_le a b = true \/ pytuple2_le b a = true.
Proof.
  unfold pytuple2_le.
  destruct (fst a <? fst b) eqn:E1; [left; reflexivity|].
  destruct (fst b <? fst a) eqn:E2; [right; reflexivity|].
  apply Nat.ltb_ge in E1. apply Nat.ltb_ge in E2.
  assert (Hab : fst a = fst b) by lia.
  rewrite Hab, Nat.eqb_refl. simpl.
  destruct (snd a <=? snd b) eqn:E3; [left; reflexivity|right].
  apply Nat.leb_gt in E3. apply Nat.leb_le. lia.
Qed.

(* ------------------------------------------------------------------ *)
(** * Attribute assignment on Edge objects                             *)
(* `e.D = d` *)
Definition edge_set_D (e : edge) (d : list nat) : edge :=
  mkEdge (e_idx e) (e_L e) (e_R e) d (e_par e).
(* `e.parents = [p, q]` (parents are named by their positions in the previous
   tree's edge list) / `e.parents = None` *)
Definition edge_set_parents (e : edge) (p : option (nat * nat)) : edge :=
  mkEdge (e_idx e) (e_L e) (e_R e) (e_D e) p.

(* ------------------------------------------------------------------ *)
(** * for k in range(len(xs)): ... xs[k] ...                           *)
(* the loop variable together with the element it indexes *)
Definition py_enumerate {A : Type} (l : list A) : list (nat * A) :=
  combine (seq 0 (length l)) l.

(* `nb[k].append(i)` on a list of lists (k < len(nb); otherwise IndexError,
   which cannot happen for k drawn from range(len(nb))) *)
Fixpoint append_at (nb : list (list nat)) (k i : nat) : list (list nat) :=
  match nb, k with
  | [], _ => []
  | r :: t, 0 => (r ++ [i]) :: t
  | r :: t, S k' => r :: append_at t k' i
  end.

Lemma append_at_app done r rest i :
  append_at (done ++ r :: rest) (length done) i = done ++ (r ++ [i]) :: rest.
Proof.
  induction done as [|d done IH]; simpl; auto. now rewrite IH.
Qed.

Lemma length_append_at nb k i : length (append_at nb k i) = length nb.
Proof.
  revert k. induction nb as [|r t IH]; intros [|k]; simpl; auto.
Qed.

(* the inner loop: everything is appended to row k *)
Lemma py_loop_append_row {B : Type} (c : B -> bool) (ix : B -> nat) (L : list B) :
  forall (done : list (list nat)) (r : list nat) (rest : list (list nat)),
  fold_left (fun nb b => if c b then append_at nb (length done) (ix b) else nb)
            L (done ++ r :: rest)
  = done ++ (r ++ map ix (filter c L)) :: rest.
Proof.
  induction L as [|b L IH]; intros done r rest; simpl.
  - now rewrite app_nil_r.
  - destruct (c b) eqn:Ecb.
    + rewrite append_at_app, IH. simpl. now rewrite <- app_assoc.
    + apply IH.
Qed.

Lemma py_double_loop_append_gen {A B : Type} (L : list B)
      (c : nat * A -> B -> bool) (ix : B -> nat) :
  forall (es : list A) (s : nat) (done : list (list nat)),
  length done = s ->
  fold_left (fun nb ke =>
               fold_left (fun nb b => if c ke b then append_at nb (fst ke) (ix b) else nb)
                         L nb)
            (combine (seq s (length es)) es)
            (done ++ map (fun _ => []) es)
  = done ++ map (fun ke => map ix (filter (c ke) L)) (combine (seq s (length es)) es).
Proof.
  induction es as [|e es IH]; intros s done Hlen; simpl; auto.
  subst s.
  rewrite (py_loop_append_row (c (length done, e)) ix L done [] (map (fun _ => []) es)).
  simpl.
  replace (done ++ map ix (filter (c (length done, e)) L) :: map (fun _ : A => []) es)
    with ((done ++ [map ix (filter (c (length done, e)) L)]) ++ map (fun _ : A => []) es)
    by (rewrite <- app_assoc; reflexivity).
  rewrite IH by (rewrite app_length; simpl; lia).
  rewrite <- app_assoc. reflexivity.
Qed.

(* the double loop
     for k in range(len(es)):
         for b in L:
             if c (k, es[k]) b: rows[k].append(ix b)
   started with all rows empty *)
Theorem py_double_loop_append {A B : Type} (L : list B)
        (c : nat * A -> B -> bool) (ix : B -> nat) (es : list A) :
  fold_left (fun nb ke =>
               fold_left (fun nb b => if c ke b then append_at nb (fst ke) (ix b) else nb)
                         L nb)
            (py_enumerate es) (map (fun _ => []) es)
  = map (fun ke => map ix (filter (c ke) L)) (py_enumerate es).
Proof.
  unfold py_enumerate.
  exact (py_double_loop_append_gen L c ix es 0 [] eq_refl).
Qed.
