(* ===================================================================================================== *)
(* Vocabulary of Gen_kdeq.v (tools/vf/kdeqgen.py), monad-independent part: numpy arrays as far as          *)
(* GaussianKDE.percent_point / cumulative_distribution / _get_bounds and the four Univariate._constant_*    *)
(* methods look at them (number of dimensions, entries as exact rationals), boolean masks, masked           *)
(* assignment, the symbolic numbers `np.min(ds) - 5 * np.std(ds)` (np.std is irrational: kept symbolic,      *)
(* denoted in R by Lib/PyKdeQR.v), the result lanes of percent_point, and the typed view of the arguments    *)
(* of the univariate constructors.  Definitions = denotation of the Python operations (trusted); the lemmas  *)
(* at the end are generic facts about these operations, none of them mentions a generated definition.       *)
(* ===================================================================================================== *)
From Coq Require Import ZArith QArith List String Bool Lia.
From Cop Require Import Model.Lifecycle Model.UnivQ.
Import ListNotations.
Open Scope string_scope.
Open Scope list_scope.
Set Implicit Arguments.

(* ---------- arrays ---------- *)
Record narr (A : Type) := mkNarr { a_ndim : nat; a_vals : list A }.
Definition mask := narr bool.
(* <array>.shape as far as it is used: how many dimensions, how many entries *)
Definition shape := (nat * nat)%type.
Definition py_shape {A} (a : narr A) : shape := (a_ndim a, List.length (a_vals a)).
(* len(<shape>) *)
Definition py_len_shape (s : shape) : nat := fst s.
(* an int where a shape is expected: np.full(n, v) *)
Definition py_shape_of_int (n : nat) : shape := (1%nat, n).
(* np.zeros(shape) / np.ones(shape) / np.full(shape, v) *)
Definition py_np_full {A} (s : shape) (v : A) : narr A := mkNarr (fst s) (repeat v (snd s)).

(* <array> <op> <scalar>, elementwise *)
Definition arr_cmp (op : Q -> Q -> bool) (a : narr Q) (c : Q) : mask := mkNarr (a_ndim a) (map (fun u => op u c) (a_vals a)).
Definition py_arr_gt := arr_cmp (fun u c => Qltb c u).
Definition py_arr_lt := arr_cmp (fun u c => Qltb u c).
Definition py_arr_ge := arr_cmp (fun u c => Qle_bool c u).
Definition py_arr_le := arr_cmp (fun u c => Qle_bool u c).
Definition py_arr_eq := arr_cmp (fun u c => Qeq_bool u c).

Fixpoint zipw {A B C} (f : A -> B -> C) (l : list A) (r : list B) : list C :=
  match l, r with a :: l', b :: r' => f a b :: zipw f l' r' | _, _ => [] end.
(* m1 | m2, m1 & m2, ~m *)
Definition py_mask_or (a b : mask) : mask := mkNarr (a_ndim a) (zipw orb (a_vals a) (a_vals b)).
Definition py_mask_and (a b : mask) : mask := mkNarr (a_ndim a) (zipw andb (a_vals a) (a_vals b)).
Definition py_mask_not (a : mask) : mask := mkNarr (a_ndim a) (map negb (a_vals a)).
(* np.any(m), m.any() *)
Definition py_mask_any (m : mask) : bool := existsb (fun b => b) (a_vals m).
(* np.nonzero(m) used as an index: the positions where m is true -- the same index set as m itself *)
Definition py_np_nonzero (m : mask) : mask := m.

(* a[m]: the entries where the mask is true, in order (always 1-d) *)
Fixpoint select {A} (l : list A) (m : list bool) : list A :=
  match l, m with
  | x :: l', b :: m' => if b then x :: select l' m' else select l' m'
  | _, _ => []
  end.
Definition py_arr_select {A} (a : narr A) (m : mask) : narr A := mkNarr 1 (select (a_vals a) (a_vals m)).

(* a[m] = <scalar> *)
Fixpoint mset {A} (l : list A) (m : list bool) (v : A) : list A :=
  match l, m with
  | x :: l', b :: m' => (if b then v else x) :: mset l' m' v
  | _, _ => l
  end.
Definition py_mask_set {A} (a : narr A) (m : mask) (v : A) : narr A := mkNarr (a_ndim a) (mset (a_vals a) (a_vals m) v).

(* a[m] = <1-d array>: the values go to the true positions in order; numpy raises ValueError when their number is not the number
   of true positions (a mask of another length: IndexError, outside the model) *)
Fixpoint massign {A} (l : list A) (m : list bool) (vs : list A) : result (list A) :=
  match l, m with
  | x :: l', true :: m' =>
      match vs with
      | v :: vs' => match massign l' m' vs' with Ok r => Ok (v :: r) | Err e => Err e end
      | [] => Err ValueErr
      end
  | x :: l', false :: m' => match massign l' m' vs with Ok r => Ok (x :: r) | Err e => Err e end
  | [], [] => match vs with [] => Ok [] | _ :: _ => Err ValueErr end
  | _, _ => Err Unmodelled
  end.
Definition py_mask_assign {A} (a : narr A) (m : mask) (vs : narr A) : result (narr A) :=
  match massign (a_vals a) (a_vals m) (a_vals vs) with Ok r => Ok (mkNarr (a_ndim a) r) | Err e => Err e end.

(* ---------- symbolic numbers: the bounds of _get_bounds ---------- *)
(* np.std of rationals is irrational: the bounds stay expression trees over the stored dataset (a list value); Lib/PyKdeQR.v
   gives them their value in R *)
Inductive nx :=
| NxQ (q : Q) | NxMin (ds : jv) | NxMax (ds : jv) | NxStd (ds : jv) | NxMean (ds : jv) | NxVar (ds : jv)
| NxAdd (a b : nx) | NxSub (a b : nx) | NxMul (a b : nx).
Definition py_nx_int (z : Z) : nx := NxQ (inject_Z z).

(* ---------- results ---------- *)
(* what self.cumulative_distribution(X) evaluates to, as a function of X: the kernel sum of the gaussian_kde object m with the
   lower bound subtracted, or (instance-level override after a constant fit) the degenerate cdf at the stored constant *)
Inductive kobs :=
| KCdf (m : kmodel) (lower : nx)
| KConstCdf (c : option jv).
(* one entry of the array percent_point returns *)
Inductive xval :=
| XZero                                                  (* the np.zeros initial value survived *)
| XInf (pos : bool)                                      (* float('inf') / float('-inf') *)
| XRoot (solver : string) (f : kobs) (lo hi : nx) (u : Q).   (* what `solver` returns for f(x) - u = 0 on [lo, hi] *)

(* the root finders of copulas.optimize are vectorised: lane i solves f(x)[i] - targets[i] = 0 on [lower[i], upper[i]];
   arrays of different lengths do not broadcast (ValueError) *)
Fixpoint zip3 {A B C D} (f : A -> B -> C -> D) (a : list A) (b : list B) (c : list C) : list D :=
  match a, b, c with x :: a', y :: b', z :: c' => f x y z :: zip3 f a' b' c' | _, _, _ => [] end.
Definition root_lanes (solver : string) (f : kobs) (lower upper : narr nx) (targets : narr Q) : result (narr xval) :=
  if (List.length (a_vals lower) =? List.length (a_vals targets))%nat && (List.length (a_vals upper) =? List.length (a_vals targets))%nat
  then Ok (mkNarr 1 (zip3 (fun lo hi u => XRoot solver f lo hi u) (a_vals lower) (a_vals upper) (a_vals targets)))
  else Err ValueErr.

(* <value> == '<literal>' *)
Definition py_eq_str (j : jv) (s : string) : bool := match j with JStr t => String.eqb t s | _ => false end.

(* ---------- the constructors of the ScipyModel classes ---------- *)
(* the object __init__ receives: class-level defaults fitted = False, _params = None, _constant_value = None, no instance-level
   method, none of the attributes the constructors set *)
Definition pyc_new_object (f : family) : sinst :=
  mkS f false None None no_ov None JNone JNone JNone JNone JNone None None.
Definition pyc_bind_args (names : list string) (args : list jv) (kw : list (string * jv)) : result (list (string * jv)) :=
  bind_args names args kw.
(* the value a parameter is bound to: the argument, else its default *)
Definition pyc_arg (b : list (string * jv)) (k : string) (dflt : jv) : jv := getd k b dflt.
Definition pyc_validate_random_state (j : jv) : result (option rstate) := validate_rs j.
(* self.<attr> = v in a constructor *)
Definition pyc_setattr (attr : string) (v : jv) (s : sinst) : result sinst :=
  if String.eqb attr "min" then Ok (set_min v s)
  else if String.eqb attr "max" then Ok (set_max v s)
  else if String.eqb attr "_sample_size" then Ok (set_ss v s)
  else if String.eqb attr "bw_method" then
    Ok (mkS (s_fam s) (s_fitted s) (s_params s) (s_const s) (s_ov s) (s_rs s) (s_min s) (s_max s) (s_ss s) v (s_w s) (s_model s) (s_stored s))
  else if String.eqb attr "weights" then
    Ok (mkS (s_fam s) (s_fitted s) (s_params s) (s_const s) (s_ov s) (s_rs s) (s_min s) (s_max s) (s_ss s) (s_bw s) v (s_model s) (s_stored s))
  else Err Unmodelled.
Definition pyc_set_random_state (r : option rstate) (s : sinst) : sinst := set_rs r s.
(* the two attribute slots @store_args writes *)
Definition set_stored (st : option (list jv * list (string * jv))) (s : sinst) : sinst :=
  mkS (s_fam s) (s_fitted s) (s_params s) (s_const s) (s_ov s) (s_rs s) (s_min s) (s_max s) (s_ss s) (s_bw s) (s_w s) (s_model s) st.
Definition py_setattr___args__ (a : list jv) (s : sinst) : sinst :=
  set_stored (Some (a, match s_stored s with Some (_, k) => k | None => [] end)) s.
Definition py_setattr___kwargs__ (k : list (string * jv)) (s : sinst) : sinst :=
  set_stored (Some (match s_stored s with Some (a, _) => a | None => [] end, k)) s.

(* ===================================================================================================== *)
(* Generic facts about the operations above (no generated definition is mentioned)                         *)
(* ===================================================================================================== *)
Lemma repeat_map_const : forall A B (v : B) (l : list A), repeat v (List.length l) = map (fun _ => v) l.
Proof. induction l as [|x l IH]; simpl; [reflexivity | rewrite IH; reflexivity]. Qed.

Lemma zipw_map : forall A B C D (f : B -> C -> D) (p : A -> B) (q : A -> C) (l : list A),
  zipw f (map p l) (map q l) = map (fun u => f (p u) (q u)) l.
Proof. induction l as [|x l IH]; simpl; [reflexivity | rewrite IH; reflexivity]. Qed.

Lemma existsb_id_map : forall A (p : A -> bool) (l : list A), existsb (fun b => b) (map p l) = existsb p l.
Proof. induction l as [|x l IH]; simpl; [reflexivity | rewrite IH; reflexivity]. Qed.

Lemma select_map : forall A (p : A -> bool) (l : list A), select l (map p l) = filter p l.
Proof. induction l as [|x l IH]; simpl; [reflexivity|]. destruct (p x); rewrite IH; reflexivity. Qed.

Lemma mset_map : forall A B (g : A -> B) (p : A -> bool) (v : B) (l : list A),
  mset (map g l) (map p l) v = map (fun u => if p u then v else g u) l.
Proof. induction l as [|x l IH]; simpl; [reflexivity | rewrite IH; reflexivity]. Qed.

Lemma massign_map : forall A B (g f : A -> B) (p : A -> bool) (l : list A),
  massign (map g l) (map p l) (map f (filter p l)) = Ok (map (fun u => if p u then f u else g u) l).
Proof.
  induction l as [|x l IH]; simpl; [reflexivity|].
  destruct (p x); simpl; rewrite IH; reflexivity.
Qed.

(* no true position: nothing is assigned, whatever the (empty) value array *)
Lemma filter_nil_existsb : forall A (p : A -> bool) (l : list A), existsb p l = false -> filter p l = [].
Proof.
  induction l as [|x l IH]; simpl; [reflexivity|]. intros H. apply orb_false_iff in H. destruct H as [H1 H2].
  rewrite H1. apply IH, H2.
Qed.

Lemma zip3_repeat : forall A B C D (f : A -> B -> C -> D) (a : A) (b : B) (l : list C),
  zip3 f (repeat a (List.length l)) (repeat b (List.length l)) l = map (fun u => f a b u) l.
Proof. induction l as [|x l IH]; simpl; [reflexivity | rewrite IH; reflexivity]. Qed.

Lemma map_ext_in_if : forall A B (f g : A -> B) (l : list A), (forall u, f u = g u) -> map f l = map g l.
Proof. intros. apply map_ext. assumption. Qed.
