(* Finite undirected graphs on the node set {0..n-1}, as edge lists.
   Vocabulary used by the vine-structure theorems (property C16). *)
From Coq Require Import List Arith Lia Bool Permutation.
Import ListNotations.

Definition graph := list (nat * nat).

(* ---------- boolean list membership ---------- *)
Definition memb (x : nat) (l : list nat) : bool := existsb (Nat.eqb x) l.

Lemma memb_In x l : memb x l = true <-> In x l.
Proof.
  unfold memb. rewrite existsb_exists. split.
  - intros [y [Hy He]]. apply Nat.eqb_eq in He. now subst.
  - intros H. exists x. split; auto. apply Nat.eqb_refl.
Qed.

Lemma memb_false x l : memb x l = false <-> ~ In x l.
Proof.
  rewrite <- memb_In. destruct (memb x l); intuition congruence.
Qed.

Fixpoint nodupb (l : list nat) : bool :=
  match l with
  | [] => true
  | x :: r => negb (memb x r) && nodupb r
  end.

Lemma nodupb_NoDup l : nodupb l = true -> NoDup l.
Proof.
  induction l as [|x r IH]; simpl; intros H; constructor.
  - apply andb_prop in H. destruct H as [H _].
    apply negb_true_iff in H. now apply memb_false in H.
  - apply andb_prop in H. tauto.
Qed.

(* ---------- reachability ---------- *)
Definition adj (g : graph) (a b : nat) : Prop := In (a, b) g \/ In (b, a) g.

Lemma adj_sym g a b : adj g a b -> adj g b a.
Proof. unfold adj; tauto. Qed.

Inductive reach (g : graph) : nat -> nat -> Prop :=
| reach_refl a : reach g a a
| reach_step a b c : reach g a b -> adj g b c -> reach g a c.

Lemma reach_one g a b : adj g a b -> reach g a b.
Proof. intros. eapply reach_step; [apply reach_refl|auto]. Qed.

Lemma reach_trans g a b c : reach g a b -> reach g b c -> reach g a c.
Proof.
  intros Hab Hbc. induction Hbc; auto.
  apply reach_step with (b := b); auto.
Qed.

Lemma reach_sym g a b : reach g a b -> reach g b a.
Proof.
  induction 1.
  - apply reach_refl.
  - eapply reach_trans; [apply reach_one, adj_sym; eauto | auto].
Qed.

Lemma reach_incl g g' a b :
  (forall x y, adj g x y -> adj g' x y) -> reach g a b -> reach g' a b.
Proof.
  intros Hi H. induction H.
  - apply reach_refl.
  - eapply reach_step; eauto.
Qed.

Definition nodes_ok (n : nat) (g : graph) : Prop :=
  forall a b, In (a, b) g -> a < n /\ b < n.

Definition connected (n : nat) (g : graph) : Prop :=
  forall a b, a < n -> b < n -> reach g a b.

(* a spanning tree of {0..n-1}: right number of edges and connected *)
Definition is_tree (n : nat) (g : graph) : Prop :=
  nodes_ok n g /\ connected n g /\ length g = n - 1.

Lemma connected_via n g c :
  (forall a, a < n -> reach g c a) -> connected n g.
Proof.
  intros H a b Ha Hb.
  eapply reach_trans; [apply reach_sym; apply H; auto | apply H; auto].
Qed.

(* ---------- undirected normal form of an edge ---------- *)
Definition norm (e : nat * nat) : nat * nat :=
  (Nat.min (fst e) (snd e), Nat.max (fst e) (snd e)).

Lemma norm_swap a b : norm (a, b) = norm (b, a).
Proof. unfold norm; simpl. now rewrite Nat.min_comm, Nat.max_comm. Qed.

Lemma norm_eq_cases a b c d :
  norm (a, b) = norm (c, d) -> (a = c /\ b = d) \/ (a = d /\ b = c).
Proof.
  unfold norm; simpl. intros H. injection H as H1 H2. lia.
Qed.

Lemma norm_in_adj g a b :
  In (norm (a, b)) (map norm g) -> adj g a b.
Proof.
  rewrite in_map_iff. intros [[c d] [He Hin]].
  apply norm_eq_cases in He. unfold adj.
  destruct He as [[-> ->]|[-> ->]]; auto.
Qed.

(* ---------- star ---------- *)
(* star centred at c: the (undirected) edges are exactly {c,i}, i <> c, each once *)
Definition is_star (c n : nat) (g : graph) : Prop :=
  c < n /\
  Permutation (map norm g)
              (map (fun i => norm (c, i)) (remove Nat.eq_dec c (seq 0 n))).

Lemma remove_length_nodup (c : nat) l :
  NoDup l -> In c l -> S (length (remove Nat.eq_dec c l)) = length l.
Proof.
  induction l as [|x r IH]; simpl; intros Hnd Hin; [tauto|].
  inversion Hnd; subst.
  destruct (Nat.eq_dec c x) as [->|Hne].
  - rewrite notin_remove; auto.
  - simpl. f_equal. apply IH; auto. destruct Hin; congruence.
Qed.

Lemma star_length c n g : is_star c n g -> length g = n - 1.
Proof.
  intros [Hc Hp]. apply Permutation_length in Hp.
  rewrite !map_length in Hp. rewrite Hp.
  pose proof (remove_length_nodup c (seq 0 n) (seq_NoDup n 0)) as H.
  rewrite seq_length in H.
  assert (In c (seq 0 n)) by (apply in_seq; lia).
  specialize (H H0). lia.
Qed.

Lemma star_adj c n g i : is_star c n g -> i < n -> i <> c -> adj g c i.
Proof.
  intros [Hc Hp] Hi Hne. apply norm_in_adj.
  eapply Permutation_in; [apply Permutation_sym; exact Hp|].
  apply in_map_iff. exists i. split; auto.
  apply in_in_remove; auto. apply in_seq; lia.
Qed.

Lemma star_nodes_ok c n g : is_star c n g -> nodes_ok n g.
Proof.
  intros [Hc Hp] a b Hin.
  assert (In (norm (a, b)) (map norm g)) as H by (apply in_map; auto).
  eapply Permutation_in in H; [|exact Hp].
  apply in_map_iff in H. destruct H as [i [He Hi]].
  apply in_remove in Hi. destruct Hi as [Hi _]. apply in_seq in Hi.
  symmetry in He. apply norm_eq_cases in He. lia.
Qed.

Lemma star_connected c n g : is_star c n g -> connected n g.
Proof.
  intros Hs. apply connected_via with (c := c).
  intros a Ha. destruct (Nat.eq_dec a c) as [->|Hne].
  - apply reach_refl.
  - apply reach_one. eapply star_adj; eauto.
Qed.

Theorem star_is_tree c n g : is_star c n g -> is_tree n g.
Proof.
  intros H. split; [|split].
  - eapply star_nodes_ok; eauto.
  - eapply star_connected; eauto.
  - eapply star_length; eauto.
Qed.

(* ---------- Hamiltonian path ---------- *)
Definition path_edges (T : list nat) : graph := combine T (tl T).

Definition is_path (n : nat) (g : graph) : Prop :=
  exists T, Permutation T (seq 0 n) /\ map norm g = map norm (path_edges T).

Lemma path_edges_length T : length (path_edges T) = length T - 1.
Proof.
  unfold path_edges. rewrite combine_length.
  destruct T as [|a r]; [reflexivity|].
  change (tl (a :: r)) with r. change (length (a :: r)) with (S (length r)).
  rewrite Nat.min_r; lia.
Qed.

Lemma path_length n g : is_path n g -> length g = n - 1.
Proof.
  intros [T [Hp He]].
  apply (f_equal (@length _)) in He. rewrite !map_length in He.
  rewrite He, path_edges_length.
  apply Permutation_length in Hp. rewrite seq_length in Hp. lia.
Qed.

Lemma path_reach_list g T :
  (forall a b, In (a, b) (path_edges T) -> adj g a b) ->
  forall x, In x T -> reach g (hd 0 T) x.
Proof.
  induction T as [|a r IH]; simpl; intros Hadj x Hin; [tauto|].
  destruct Hin as [<-|Hin]; [apply reach_refl|].
  destruct r as [|b r']; [simpl in Hin; tauto|].
  eapply reach_trans.
  - apply reach_one. apply Hadj. unfold path_edges. simpl. auto.
  - apply IH; auto.
    intros u v Huv. apply Hadj. unfold path_edges in *. simpl in *. auto.
Qed.

Lemma path_connected n g : is_path n g -> connected n g.
Proof.
  intros [T [Hp He]].
  apply connected_via with (c := hd 0 T).
  intros a Ha. apply path_reach_list.
  - intros u v Huv. apply norm_in_adj. rewrite He. apply in_map_iff.
    exists (u, v). auto.
  - eapply Permutation_in; [apply Permutation_sym; exact Hp|].
    apply in_seq. lia.
Qed.

Lemma in_combine_tl (T : list nat) a b :
  In (a, b) (combine T (tl T)) -> In a T /\ In b T.
Proof.
  intros H. split.
  - eapply in_combine_l; eauto.
  - apply in_combine_r in H. destruct T; simpl in *; auto.
Qed.

Lemma path_nodes_ok n g : is_path n g -> nodes_ok n g.
Proof.
  intros [T [Hp He]] a b Hin.
  assert (In (norm (a, b)) (map norm (path_edges T))) as H
      by (rewrite <- He; apply in_map; auto).
  apply in_map_iff in H. destruct H as [[u v] [Hn Huv]].
  apply in_combine_tl in Huv. destruct Huv as [Hu Hv].
  eapply Permutation_in in Hu; [|exact Hp].
  eapply Permutation_in in Hv; [|exact Hp].
  apply in_seq in Hu. apply in_seq in Hv.
  apply norm_eq_cases in Hn. lia.
Qed.

Theorem path_is_tree n g : is_path n g -> is_tree n g.
Proof.
  intros H. split; [|split].
  - apply path_nodes_ok; auto.
  - apply path_connected; auto.
  - apply path_length; auto.
Qed.

(* ---------- executable connectivity check (sound) ---------- *)
Definition neighbors (g : graph) (v : nat) : list nat :=
  flat_map (fun e => if fst e =? v then [snd e]
                     else if snd e =? v then [fst e] else []) g.

Fixpoint closure (g : graph) (fuel : nat) (vis : list nat) : list nat :=
  match fuel with
  | 0 => vis
  | S f => closure g f (nodup Nat.eq_dec (vis ++ flat_map (neighbors g) vis))
  end.

Definition connectedb (n : nat) (g : graph) : bool :=
  forallb (fun i => memb i (closure g n [0])) (seq 0 n).

Lemma neighbors_adj g v w : In w (neighbors g v) -> adj g v w.
Proof.
  unfold neighbors. rewrite in_flat_map. intros [[a b] [Hin Hw]]. simpl in Hw.
  destruct (a =? v) eqn:E1.
  - apply Nat.eqb_eq in E1. subst. destruct Hw as [<-|[]]. left; auto.
  - destruct (b =? v) eqn:E2; [|destruct Hw].
    apply Nat.eqb_eq in E2. subst. destruct Hw as [<-|[]]. right; auto.
Qed.

Lemma closure_sound g c fuel : forall vis,
  (forall x, In x vis -> reach g c x) ->
  forall x, In x (closure g fuel vis) -> reach g c x.
Proof.
  induction fuel as [|f IH]; simpl; intros vis Hv x Hx; auto.
  eapply IH; [|exact Hx].
  intros y Hy. apply nodup_In in Hy. apply in_app_or in Hy.
  destruct Hy as [Hy|Hy]; auto.
  apply in_flat_map in Hy. destruct Hy as [z [Hz Hy]].
  eapply reach_step; [apply Hv; eauto|]. apply neighbors_adj; auto.
Qed.

Theorem connectedb_sound n g : connectedb n g = true -> connected n g.
Proof.
  unfold connectedb. rewrite forallb_forall. intros H.
  apply connected_via with (c := 0).
  intros a Ha.
  apply (closure_sound g 0 n [0]).
  - intros x [<-|[]]. apply reach_refl.
  - apply memb_In. apply H. apply in_seq. lia.
Qed.

Definition nodes_okb (n : nat) (g : graph) : bool :=
  forallb (fun e => (fst e <? n) && (snd e <? n)) g.

Lemma nodes_okb_sound n g : nodes_okb n g = true -> nodes_ok n g.
Proof.
  unfold nodes_okb. rewrite forallb_forall. intros H a b Hin.
  apply H in Hin. simpl in Hin. apply andb_prop in Hin.
  destruct Hin as [H1 H2]. apply Nat.ltb_lt in H1. apply Nat.ltb_lt in H2. auto.
Qed.

Definition is_treeb (n : nat) (g : graph) : bool :=
  nodes_okb n g && connectedb n g && (length g =? n - 1).

Theorem is_treeb_sound n g : is_treeb n g = true -> is_tree n g.
Proof.
  unfold is_treeb. intros H.
  apply andb_prop in H. destruct H as [H H3].
  apply andb_prop in H. destruct H as [H1 H2].
  split; [|split].
  - apply nodes_okb_sound; auto.
  - apply connectedb_sound; auto.
  - apply Nat.eqb_eq; auto.
Qed.

(* ---------- executable star check (sound) ---------- *)
Definition other_end (c : nat) (e : nat * nat) : nat :=
  if fst e =? c then snd e else fst e.

Definition star_atb (c n : nat) (g : graph) : bool :=
  (c <? n) &&
  forallb (fun e => ((fst e =? c) || (snd e =? c)) &&
                    negb (other_end c e =? c) && (other_end c e <? n)) g &&
  nodupb (map (other_end c) g) &&
  (length g =? n - 1).

Lemma star_atb_sound c n g : star_atb c n g = true -> is_star c n g.
Proof.
  unfold star_atb. intros H.
  apply andb_prop in H. destruct H as [H H4].
  apply andb_prop in H. destruct H as [H H3].
  apply andb_prop in H. destruct H as [H1 H2].
  apply Nat.ltb_lt in H1. apply Nat.eqb_eq in H4.
  apply nodupb_NoDup in H3. rewrite forallb_forall in H2.
  split; auto.
  assert (Hedge : forall e, In e g -> norm e = norm (c, other_end c e) /\
                                      other_end c e <> c /\ other_end c e < n).
  { intros [a b] Hin. specialize (H2 _ Hin). simpl in H2.
    apply andb_prop in H2. destruct H2 as [H2 Hlt].
    apply andb_prop in H2. destruct H2 as [Hor Hne].
    apply Nat.ltb_lt in Hlt. apply negb_true_iff in Hne. apply Nat.eqb_neq in Hne.
    split; [|split]; auto.
    unfold other_end in *. simpl in *.
    destruct (a =? c) eqn:Ea.
    - apply Nat.eqb_eq in Ea. subst. reflexivity.
    - simpl in Hor. apply Nat.eqb_eq in Hor. subst. apply norm_swap. }
  assert (Hmap : map norm g = map (fun i => norm (c, i)) (map (other_end c) g)).
  { rewrite map_map. apply map_ext_in. intros e He. apply Hedge; auto. }
  rewrite Hmap. apply Permutation_map.
  apply NoDup_Permutation_bis; auto.
  - rewrite map_length, H4.
    pose proof (remove_length_nodup c (seq 0 n) (seq_NoDup n 0)) as HL.
    rewrite seq_length in HL.
    assert (In c (seq 0 n)) by (apply in_seq; lia). specialize (HL H). lia.
  - intros x Hx. apply in_map_iff in Hx. destruct Hx as [e [<- He]].
    destruct (Hedge e He) as [_ [Hn Hl]].
    apply in_in_remove; auto. apply in_seq. lia.
Qed.

Definition is_starb (n : nat) (g : graph) : bool :=
  existsb (fun c => star_atb c n g) (seq 0 n).

Lemma is_starb_sound n g : is_starb n g = true -> exists c, is_star c n g.
Proof.
  unfold is_starb. rewrite existsb_exists. intros [c [_ H]].
  exists c. apply star_atb_sound; auto.
Qed.

(* ---------- degrees ---------- *)
Definition deg (g : graph) (v : nat) : nat :=
  length (filter (fun e => (fst e =? v) || (snd e =? v)) g).

Definition max_deg_le (n k : nat) (g : graph) : Prop :=
  forall v, v < n -> deg g v <= k.

Definition max_deg_leb (n k : nat) (g : graph) : bool :=
  forallb (fun v => deg g v <=? k) (seq 0 n).

Lemma max_deg_leb_sound n k g : max_deg_leb n k g = true -> max_deg_le n k g.
Proof.
  unfold max_deg_leb. rewrite forallb_forall. intros H v Hv.
  apply Nat.leb_le. apply H. apply in_seq. lia.
Qed.

(* ---------- a Hamiltonian path has maximum degree 2 ---------- *)
Definition incident (v : nat) (e : nat * nat) : bool := (fst e =? v) || (snd e =? v).

Lemma incident_norm v e : incident v (norm e) = incident v e.
Proof.
  destruct e as [a b]. unfold incident, norm. simpl.
  destruct (Nat.le_ge_cases a b) as [H|H].
  - rewrite Nat.min_l, Nat.max_r by auto. reflexivity.
  - rewrite Nat.min_r, Nat.max_l by auto. apply orb_comm.
Qed.

Lemma deg_norm g v : deg (map norm g) v = deg g v.
Proof.
  assert (H : forall l, length (filter (incident v) (map norm l))
                        = length (filter (incident v) l)).
  { induction l as [|e l IH]; [reflexivity|].
    cbn [map filter]. rewrite incident_norm.
    destruct (incident v e); cbn [length]; auto. }
  exact (H g).
Qed.

Lemma deg_path_edges (T : list nat) v :
  NoDup T ->
  deg (path_edges T) v <= 2 /\
  (hd_error T = Some v -> deg (path_edges T) v <= 1) /\
  (~ In v T -> deg (path_edges T) v = 0).
Proof.
  induction T as [|a T IH]; intros Hnd.
  - simpl. repeat split; auto.
  - inversion Hnd as [|? ? Ha HndT]; subst. specialize (IH HndT).
    destruct IH as (IH1 & IH2 & IH3).
    destruct T as [|b r].
    + simpl. repeat split; auto.
    + change (path_edges (a :: b :: r)) with ((a, b) :: path_edges (b :: r)).
      unfold deg in *. simpl filter.
      destruct (Nat.eq_dec a v) as [->|Hav].
      * rewrite Nat.eqb_refl. simpl orb. cbn [length].
        rewrite (IH3 Ha). repeat split; auto. intros H. exfalso. apply H. left; auto.
      * replace (a =? v) with false by (symmetry; apply Nat.eqb_neq; auto).
        simpl orb.
        destruct (Nat.eq_dec b v) as [->|Hbv].
        -- rewrite Nat.eqb_refl. cbn [length].
           specialize (IH2 eq_refl). repeat split; try lia.
           ++ simpl. intros H. congruence.
           ++ intros H. exfalso. apply H. right; left; auto.
        -- replace (b =? v) with false by (symmetry; apply Nat.eqb_neq; auto).
           repeat split; auto.
           ++ simpl. intros H. congruence.
           ++ intros H. apply IH3. intros Hin. apply H. right; auto.
Qed.

Theorem path_max_deg n g : is_path n g -> max_deg_le n 2 g.
Proof.
  intros [T [Hp He]] v Hv.
  rewrite <- deg_norm, He, deg_norm.
  apply deg_path_edges.
  eapply Permutation_NoDup; [apply Permutation_sym; exact Hp | apply seq_NoDup].
Qed.
