(* Generic real-analysis lemmas shared by the family files. *)
From Coq Require Import Reals Lra Psatz.
From Coquelicot Require Import Coquelicot.
Open Scope R_scope.

Lemma Rpower_ge1 x y : 0 < x <= 1 -> 0 <= y -> 1 <= Rpower x (-y).
Proof.
  intros [Hx Hx1] Hy. unfold Rpower.
  rewrite <- exp_0 at 1.
  destruct (Req_dec (-y * ln x) 0) as [->|Hne]; [lra|].
  left. apply exp_increasing.
  assert (ln x <= 0). { rewrite <- ln_1. destruct Hx1 as [Hlt| ->]; [left; apply ln_increasing; lra | lra]. }
  nra.
Qed.

Lemma neglnpos x : 0 < x < 1 -> 0 < - ln x.
Proof. intros [H0 H1]. assert (ln x < ln 1) by (apply ln_increasing; lra). rewrite ln_1 in H. lra. Qed.

Lemma nondecr_of_derive (f df : R -> R) (a b : R) :
  (forall x, a <= x <= b -> is_derive f x (df x)) ->
  (forall x, a <= x <= b -> 0 <= df x) ->
  forall x y, a <= x -> x <= y -> y <= b -> f x <= f y.
Proof.
  intros Df Hdf x y Hax Hxy Hyb.
  destruct (Req_dec x y) as [->|Hne]; [lra|].
  assert (Hlt: x < y) by lra.
  destruct (MVT_gen f x y df) as [c [Hc Heq]].
  - intros z Hz. apply Df. unfold Rmin, Rmax in Hz. destruct (Rle_dec x y); lra.
  - intros z Hz. apply derivable_continuous_pt. exists (df z). apply is_derive_Reals, Df.
    unfold Rmin, Rmax in Hz. destruct (Rle_dec x y); lra.
  - assert (0 <= df c). { apply Hdf. unfold Rmin, Rmax in Hc. destruct (Rle_dec x y); lra. }
    nra.
Qed.
