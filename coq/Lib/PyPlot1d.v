(* Denotation of the operations used by the 1-d plot functions of copulas/visualization.py (_generate_1d_plot, dist_1d,
   compare_1d) and by the colour maps of the scatter functions, as they are emitted by tools/vf/plot1dgen.py into Gen_plot1d.v,
   over the types of Model/Plot.v (data1d, glabel, colour, trace1d, plot1d, perr1d) and the outcome type of Lib/PyFrame.v.

   Objects.  A 1-d data object (numpy array / list, pandas Series, pandas DataFrame) is a [data1d]; a list display of such objects
   `[real, synth]` is a [list data1d] whose SLOTS alias the objects (the translator keeps the object of every slot and reads the
   value of the caller's object back from the slot after a call: [py_slot]).  A label is a [glabel] ('Real' / 'Synthetic' =
   [GFixed ..]; the `label` argument of dist_1d = [GUser ..]); a colour is a [colour] (PlotConfig.DATACEBO_DARK = [CDark],
   PlotConfig.DATACEBO_GREEN = [CGreen]).  A title string is a [pytstr]: the list of its parts - literal text, a formatted column
   name, or the caller's `title` argument as a whole; [title_abs] forgets the text (Model.Plot does not model it) and keeps WHICH
   names were formatted into a default title / the caller's title.

   As in Lib/PyFrame.v identity of objects is resolved by the translator; every operation here is a function on values.
   These are definitions, not theorems about pandas / plotly: they are part of the trusted base (docs/plot1d_section.md). *)
From Coq Require Import ZArith List Bool Arith Lia.
From Cop Require Import Model.Plot Lib.PyFrame.
Import ListNotations.

(* ------------------------------------------------------------------ *)
(** * Outcomes                                                         *)
Definition pyerr_of1 (e : perr1d) : pyerr :=
  match e with
  | Err1Index => PyBuiltin IndexError
  | Err1Plotly => PxError BaseExc         (* some exception raised inside plotly.figure_factory: the class is not modelled *)
  end.
Definition lift1 {A : Type} (r : perr1d + A) : pyres A :=
  match r with inl e => inl (pyerr_of1 e) | inr a => inr a end.
Definition res_map {A B : Type} (f : A -> B) (r : pyres A) : pyres B :=
  match r with inl e => inl e | inr a => inr (f a) end.

(* ------------------------------------------------------------------ *)
(** * Strings of the title                                             *)
Inductive spart :=
| SText (s : pystring)        (* literal text (a string constant, the constant part of an f-string) *)
| SName (c : name)            (* a column name formatted into an f-string *)
| SNone                       (* None formatted into an f-string *)
| SArg (t : pytitle).         (* the caller's `title` argument, as a whole *)
Definition pytstr := list spart.

Definition names_of (t : pytstr) : list name :=
  flat_map (fun p => match p with SName c => [c] | _ => [] end) t.
Definition title_abs (t : pytstr) : title1d :=
  match t with
  | [SArg a] => TGiven a
  | _ => TDefault (names_of t)
  end.
Definition plot_abs (p : plot1d pytstr) : plot1d title1d :=
  mkPlot1d (title_abs (p_title p)) (p_legend p) (p_traces p).

(* `{x}` inside an f-string, x a column name / a Series name (None or a name) *)
Definition py_fmt_name (c : name) : spart := SName c.
Definition py_fmt_optname (o : option name) : spart := match o with Some c => SName c | None => SNone end.
Definition py_title_arg (t : pytitle) : pytstr := [SArg t].

(* ------------------------------------------------------------------ *)
(** * Lists, truthiness                                                *)
(* l[i] for a literal i >= 0 *)
Definition py_nth {A : Type} (l : list A) (i : nat) : pyres A :=
  match nth_error l i with Some x => inr x | None => inl (PyBuiltin IndexError) end.
(* the value of the object in slot i of a list after a call that received the list (d = its value before, for a slot
   the list no longer has) *)
Definition py_slot (l : list data1d) (i : nat) (d : data1d) : data1d := nth i l d.
(* l[::-1] / list(reversed(l)): a new list;  l.reverse(): the new value of the same list object *)
Definition py_reversed {A : Type} (l : list A) : list A := rev l.
Definition py_list_copy {A : Type} (l : list A) : list A := l.
Definition py_append {A : Type} (l : list A) (x : A) : list A := l ++ [x].

Definition py_truthy_glabel (g : glabel) : bool := truthy_glabel g.
Definition py_truthy_optname (o : option name) : bool := match o with Some _ => true | None => false end.
Definition py_len1 {A : Type} (l : list A) : nat := length l.

(* ------------------------------------------------------------------ *)
(** * 1-d data objects                                                 *)
Definition py_is_DataFrame (d : data1d) : bool := match d with D1Frame _ => true | _ => false end.
Definition py_is_Series (d : data1d) : bool := match d with D1Series _ _ => true | _ => false end.
(* d.columns: a DataFrame has them; a Series / an array raises AttributeError *)
Definition d1_columns (d : data1d) : pyres (list name) :=
  match d with D1Frame f => inr (fcols f) | _ => inl (PyBuiltin AttributeError) end.
(* d.name: the name of a Series (None or a name); an array has no such attribute (a DataFrame has none either unless a
   column is called 'name': outside the model) *)
Definition d1_name (d : data1d) : pyres (option name) :=
  match d with D1Series n _ => inr n | _ => inl (PyBuiltin AttributeError) end.
(* d.copy() *)
Definition d1_copy (d : data1d) : data1d := d.
(* d += k / d -= k / d *= k for an integer literal: the NEW VALUE of the same array / Series / DataFrame object (numpy and
   pandas update in place) *)
Definition d1_map (f : Z -> Z) (d : data1d) : data1d :=
  match d with
  | D1Array vs => D1Array (map f vs)
  | D1Series n vs => D1Series n (map f vs)
  | D1Frame fr => D1Frame (mkFrame (fcols fr) (map (map (fun cz => (fst cz, f (snd cz)))) (frows fr)))
  end.
Definition d1_iadd (d : data1d) (k : Z) : data1d := d1_map (fun z => (z + k)%Z) d.
Definition d1_isub (d : data1d) (k : Z) : data1d := d1_map (fun z => (z - k)%Z) d.
Definition d1_imul (d : data1d) (k : Z) : data1d := d1_map (fun z => (z * k)%Z) d.
(* d.iloc[:, i] of a DataFrame: a Series (a NEW object) named after column i holding its cells; rows without the cell (NaN)
   are outside the model *)
Definition d1_iloc_col (d : data1d) (i : nat) : pyres data1d :=
  match d with
  | D1Frame f =>
      match nth_error (fcols f) i with
      | Some c => inr (D1Series (Some c) (flat_map (fun r => match assoc c r with Some z => [z] | None => [] end) (frows f)))
      | None => inl (PyBuiltin IndexError)
      end
  | _ => inl (PyBuiltin AttributeError)
  end.

(* ------------------------------------------------------------------ *)
(** * The figure                                                       *)
Definition pyfig1d := list trace1d.
(* ff.create_distplot(hist_data=.., group_labels=.., show_hist=False, show_rug=False, colors=..) *)
Definition ff_create_distplot (data : list data1d) (labels : list glabel) (colors : list colour) : pyres pyfig1d :=
  match create_distplot data labels colors with Some f => inr f | None => inl (PxError BaseExc) end.
(* for i, name in enumerate(labels): fig.update_traces(x=fig.data[i].x, selector={'name': name}, <cosmetic keywords>):
   IndexError of fig.data[i] when there are more labels than curves *)
Definition fig1d_realign (fig : pyfig1d) (labels : list glabel) : pyres pyfig1d :=
  if length labels <=? length fig then inr (realign_from 0 labels fig) else inl (PyBuiltin IndexError).
(* fig.update_layout(title=.., showlegend=.., <cosmetic keywords>) *)
Definition fig1d_layout {T : Type} (fig : pyfig1d) (title : T) (legend : bool) : plot1d T := mkPlot1d title legend fig.

(* ------------------------------------------------------------------ *)
(** * Relation to the model                                            *)
Lemma create_distplot_length data labels colors fig :
  create_distplot data labels colors = Some fig -> length fig = length labels /\ length labels = length data /\ data <> [].
Proof.
  unfold create_distplot. destruct data as [|d0 dr]; [discriminate|].
  destruct (all_values1d (d0 :: dr)) as [vss|] eqn:E; [|discriminate].
  destruct (Nat.eqb _ _) eqn:L; [|discriminate]. apply Nat.eqb_eq in L.
  intros H. inversion H as [H']. clear H H'.
  assert (Hv : length vss = length (d0 :: dr)).
  { clear L. revert vss E. generalize (d0 :: dr) as ds. induction ds as [|d ds IH]; intros vss E; simpl in E.
    - inversion E. reflexivity.
    - destruct (values1d d); [|discriminate]. destruct (all_values1d ds) as [vr|]; [|discriminate].
      inversion E. simpl. f_equal. now apply IH. }
  split; [|split; [symmetry; exact L | discriminate]].
  rewrite L in Hv. clear L E. generalize 0 as i. revert vss Hv.
  induction labels as [|l lr IH]; intros vss Hv i; destruct vss as [|vs vr]; simpl in *; try discriminate; try reflexivity.
  f_equal. apply IH. lia.
Qed.

(* Model.Plot.generate_1d = create_distplot, the re-alignment loop, the layout *)
Lemma generate_1d_py {T : Type} data (title : T) labels colors :
  lift1 (generate_1d data title labels colors) =
  match ff_create_distplot data labels colors with
  | inl e => inl e
  | inr fig =>
      match fig1d_realign fig labels with
      | inl e => inl e
      | inr fig' =>
          match py_nth labels 0 with
          | inl e => inl e
          | inr l0 => inr (fig1d_layout fig' title (if py_truthy_glabel l0 then true else false))
          end
      end
  end.
Proof.
  unfold generate_1d, ff_create_distplot, fig1d_realign.
  destruct (create_distplot data labels colors) as [fig|] eqn:E; [|reflexivity].
  destruct (create_distplot_length _ _ _ _ E) as (L1 & L2 & Hne).
  rewrite L1, Nat.leb_refl.
  destruct labels as [|l0 lr]; [destruct data; [congruence | discriminate]|].
  cbn [py_nth nth_error lift1]. unfold fig1d_layout, py_truthy_glabel. now destruct (truthy_glabel l0).
Qed.

(* ------------------------------------------------------------------ *)
(** * Smoke tests                                                      *)
Example ex_title_abs :
  title_abs [SText [68]; SText [32]; SName 3; SText [39]] = TDefault [3] /\ title_abs (py_title_arg (Some [84])) = TGiven (Some [84]) /\
  title_abs [SText [68]] = TDefault [].
Proof. repeat split; reflexivity. Qed.
Example ex_iloc : d1_iloc_col (D1Frame fr_real) 1 = inr (D1Series (Some 2) [5; 6]%Z).
Proof. reflexivity. Qed.
