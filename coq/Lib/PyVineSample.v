(* Denotations of the Python / numpy / pandas operations of the OUTER part of the vine row sampler
   (copulas/multivariate/vine.py: VineCopula._sample_row - everything around the level loop -, VineCopula.sample;
    copulas/multivariate/tree.py: Tree.get_adjacent_matrix),
   as used by the terms that tools/vf/vinesamplegen.py generates from the AST on every run (Gen_vinesample.v).

   They are DEFINITIONS (the vocabulary of the translator), not theorems about CPython / numpy; they extend Lib/PyCols.v
   (whose [py_fold_opt], [py_for_range], [py_trees_get], [py_unis], [py_range_down], [set_nth] are used as they are).

   - a Python list of ints is a [list nat]; `l.pop(k)`, `l.insert(k, x)`, `l.append(x)`, `x in l`, the truth value of a list;
   - `while c: body` is recursion on explicit fuel ([py_while]: the test first, then the fuel, as Model.VineData.sample_loop);
   - the adjacency matrix `np.zeros([n, n])` with cells assigned afterwards is a [pyadj]: shape + the cells written so far
     (most recent first), an unwritten cell reads 0; `adj[r, :]`, `adj[:, c]`, `row == v`, `np.where(mask)[0].tolist()`;
   - `ppfs[k](arg)` is the pair (k, arg) ([pcell]); the row `sampled = np.zeros(n)` is a list of [option pcell]
     (None = the 0.0 of np.zeros is still there);
   - `@random_state` decides which stream np.random reads while the body runs ([rsrc]);
   - `pd.DataFrame(rows, columns=cols)` is the pair (cols, rows);
   - a Python exception is [None]. *)
From Coq Require Import List Arith Bool Lia.
From Cop Require Import Lib.FinGraph Model.Vine Model.VineData Lib.PyCols.
Import ListNotations.
Open Scope nat_scope.

(* ------------------------------------------------------------------ *)
(** * Control                                                          *)
(* while cond(st): st = body(st) *)
Fixpoint py_while {S : Type} (fuel : nat) (cond : S -> bool) (body : S -> option S) (st : S) : option S :=
  if cond st then
    match fuel with
    | 0 => None
    | S f => match body st with
             | None => None
             | Some st' => py_while f cond body st'
             end
    end
  else Some st.

(* for x in xs: st = body(x, st)      (no break, no exception) *)
Definition py_for_fold {S A : Type} (body : A -> S -> S) (l : list A) (st : S) : S :=
  fold_left (fun s x => body x s) l st.

(* ------------------------------------------------------------------ *)
(** * Lists                                                            *)
(* `while l:` / `if l:` *)
Definition py_list_truthy {A : Type} (l : list A) : bool := match l with [] => false | _ :: _ => true end.
(* x = l.pop(k)  (k >= 0): the value and the list afterwards; IndexError = None *)
Definition py_list_pop {A : Type} (l : list A) (k : nat) : option (A * list A) :=
  match nth_error l k with
  | Some x => Some (x, firstn k l ++ skipn (S k) l)
  | None => None
  end.
(* x = l.pop() *)
Definition py_list_pop_last {A : Type} (l : list A) : option (A * list A) :=
  match rev l with
  | x :: r => Some (x, rev r)
  | [] => None
  end.
(* l.insert(k, x)  (k >= 0; never raises: k beyond the end appends) *)
Definition py_list_insert {A : Type} (l : list A) (k : nat) (x : A) : list A := firstn k l ++ x :: skipn k l.
(* l.append(x) *)
Definition py_list_append {A : Type} (l : list A) (x : A) : list A := l ++ [x].
(* x in l *)
Definition py_in (x : nat) (l : list nat) : bool := memb x l.

(* ------------------------------------------------------------------ *)
(** * The adjacency matrix                                             *)
Record pyadj := mkAdj { adj_rows : nat; adj_cols : nat; adj_cells : list (nat * nat * nat) }.
(* np.zeros([r, c]) *)
Definition py_np_zeros2 (r c : nat) : pyadj := mkAdj r c [].
Fixpoint adj_lookup (cells : list (nat * nat * nat)) (r c : nat) : nat :=
  match cells with
  | [] => 0
  | (r', c', v) :: rest => if (r' =? r) && (c' =? c) then v else adj_lookup rest r c
  end.
(* a[r, c] = v *)
Definition py_adj_set (a : pyadj) (r c v : nat) : option pyadj :=
  if (r <? adj_rows a) && (c <? adj_cols a)
  then Some (mkAdj (adj_rows a) (adj_cols a) ((r, c, v) :: adj_cells a))
  else None.
(* a[r, :] *)
Definition py_adj_row (a : pyadj) (r : nat) : option (list nat) :=
  if r <? adj_rows a then Some (map (fun c => adj_lookup (adj_cells a) r c) (seq 0 (adj_cols a))) else None.
(* a[:, c] *)
Definition py_adj_col (a : pyadj) (c : nat) : option (list nat) :=
  if c <? adj_cols a then Some (map (fun r => adj_lookup (adj_cells a) r c) (seq 0 (adj_rows a))) else None.
(* row == v *)
Definition py_vec_eq (row : list nat) (v : nat) : list bool := map (fun x => x =? v) row.
(* np.where(mask)[0].tolist() *)
Definition py_where0_tolist (mask : list bool) : list nat :=
  map fst (filter (fun p => snd p) (combine (seq 0 (length mask)) mask)).

Lemma py_where0_map_seq (f : nat -> bool) (n s : nat) :
  map fst (filter (fun p => snd p) (combine (seq s n) (map f (seq s n)))) = filter f (seq s n).
Proof.
  revert s. induction n as [|n IH]; intros s; [reflexivity|].
  cbn [seq map combine filter snd]. destruct (f s); cbn [map fst]; rewrite IH; reflexivity.
Qed.

Lemma py_where0_tolist_map (f : nat -> bool) (n : nat) :
  py_where0_tolist (map f (seq 0 n)) = filter f (seq 0 n).
Proof.
  unfold py_where0_tolist. rewrite map_length, seq_length. apply py_where0_map_seq.
Qed.

(* ------------------------------------------------------------------ *)
(** * The sampled row                                                  *)
(* self.ppfs[k]: the k-th percent point function, identified by k; IndexError = None *)
Definition py_ppfs_get (n_var k : nat) : option nat := if k <? n_var then Some k else None.
(* f(arg) for f = ppfs[k] *)
Definition pcell := (nat * sterm)%type.
Definition py_ppf_call (f : nat) (arg : sterm) : pcell := (f, arg).
(* np.ravel(x)[0] of a one-entry result *)
Definition py_ravel0_cell (c : pcell) : pcell := c.
(* np.zeros(n) *)
Definition py_np_zeros1 (n : nat) : list (option pcell) := repeat None n.
(* v[i] = x *)
Definition py_vec_set (v : list (option pcell)) (i : nat) (x : pcell) : option (list (option pcell)) :=
  set_nth v i (Some x).

Lemma set_nth_map_seq {A : Type} (f : nat -> A) (x : A) (n s c : nat) :
  c < n ->
  set_nth (map f (seq s n)) c x = Some (map (fun v => if v =? s + c then x else f v) (seq s n)).
Proof.
  revert s c. induction n as [|n IH]; intros s c Hc; [lia|].
  cbn [seq map]. destruct c as [|c]; cbn [set_nth].
  - rewrite Nat.add_0_r, Nat.eqb_refl. f_equal. f_equal.
    apply map_ext_in. intros v Hv. apply in_seq in Hv.
    destruct (v =? s) eqn:E; [apply Nat.eqb_eq in E; lia|reflexivity].
  - rewrite (IH (S s) c) by lia. cbn [option_map].
    destruct (s =? s + S c) eqn:E; [apply Nat.eqb_eq in E; lia|].
    f_equal. f_equal. apply map_ext. intros v. replace (S s + c) with (s + S c) by lia. reflexivity.
Qed.

(* ------------------------------------------------------------------ *)
(** * sample                                                           *)
(* which stream np.random.* reads while the body of a method runs *)
Inductive rsrc := RsGlobal | RsOwn.
(* @random_state (copulas.utils): with self.random_state None the body runs on the global stream, otherwise on the model's own *)
Definition py_random_state {A : Type} (has_own_state : bool) (body : rsrc -> A) : A :=
  body (if has_own_state then RsOwn else RsGlobal).
(* an undecorated method *)
Definition py_undecorated {A : Type} (has_own_state : bool) (body : rsrc -> A) : A := body RsGlobal.
(* pd.DataFrame(rows, columns=cols) *)
Definition py_pd_DataFrame {A R : Type} (rows : list R) (cols : list A) : list A * list R := (cols, rows).
