(* Denotation of the numpy / Python operations used by the tree CONSTRUCTION of
   copulas/multivariate/tree.py and vine.py (Tree._sort_tau_by_y, Tree.fit,
   CenterTree / DirectTree / RegularTree ._build_first_tree / ._build_kth_tree,
   CenterTree.get_anchor, VineCopula.train_vine), as they are emitted by
   tools/vf/vinebuildgen.py into Gen_vinebuild.v.

   Conventions (the ones of Model/Vine.v):
   - a float is `option Q`, None = NaN; IEEE comparisons with a NaN are false;
   - a float ndarray of shape (n_nodes, n_nodes) is a function
     `mat := nat -> nat -> option Q` together with the separately known
     n_nodes (rows and columns are materialised with [mat_row n] / [mat_col n]);
     `np.array(tau)` of a `tmat` reads a missing entry as NaN ([np_array] =
     Vine.tget).  Element, column and fancy-column assignment are function
     updates, so a VIEW (`tau_y = m[:, y]`) followed by `tau_y[y] = v` is the
     update [mat_set m y y v] of the matrix the view aliases (the translator
     tracks the aliasing);
   - the (n, 3) work table `temp` of _sort_tau_by_y, whose column 0 holds
     np.arange(n), is a list of rows `(nat * option Q * option Q)` before, and
     `(nat * Q * Q)` after, `temp[np.isnan(temp)] = c`; numpy's argsort of a
     column is the stable ascending sort AFTER the unspecified permutation
     [tie] (every sorting permutation arises this way, see Model/Vine.v);
   - an int array (T1) is a `list nat`; reading past the end of a list / table
     (IndexError in Python) yields the default 0 in the total functions below
     and None in [py_getitem_pos].
   The lemmas identify the denotations with the helper functions of
   Model/Vine.v (argmax, krow / kget, tau_row3, oltb, first_rows, ...). *)
From Coq Require Import List Arith ZArith QArith Lia Bool Permutation.
From Cop Require Import Lib.FinGraph Model.Vine Lib.PySet.
Import ListNotations.
Open Scope nat_scope.

(* ------------------------------------------------------------------ *)
(** * ranges, lists of ints                                            *)
(* range(n), range(a, b) *)
Definition py_range (n : nat) : list nat := seq 0 n.
Definition py_range2 (a b : nat) : list nat := seq a (b - a).
(* np.arange(n) *)
Definition np_arange (n : nat) : list nat := seq 0 n.
(* xs[i] (default 0 past the end), xs[-1] *)
Definition py_idx (l : list nat) (i : nat) : nat := nth i l 0.
Definition py_last (l : list nat) : nat := last l 0.
(* np.append(a, b): scalars are one-element arrays *)
Definition np_append (a b : list nat) : list nat := a ++ b.
(* `lo, hi = sorted([a, b])` *)
Definition py_sorted2 (a b : nat) : nat * nat := if b <? a then (b, a) else (a, b).
(* min(a, b) of two ints *)
Definition py_min (a b : nat) : nat := if b <? a then b else a.

Lemma py_sorted2_min_max a b : py_sorted2 a b = (Nat.min a b, Nat.max a b).
Proof.
  unfold py_sorted2. destruct (b <? a) eqn:E.
  - apply Nat.ltb_lt in E. f_equal; lia.
  - apply Nat.ltb_ge in E. f_equal; lia.
Qed.

Lemma py_min_min a b : py_min a b = Nat.min a b.
Proof.
  unfold py_min. destruct (b <? a) eqn:E.
  - apply Nat.ltb_lt in E. lia.
  - apply Nat.ltb_ge in E. lia.
Qed.

Lemma py_idx_0_hd l : py_idx l 0 = hd 0 l.
Proof. destruct l; reflexivity. Qed.

(* ------------------------------------------------------------------ *)
(** * floats                                                           *)
Definition py_float (z : Z) : option Q := Some (inject_Z z).
Definition np_nan : option Q := None.
(* a > b, a >= b, a < b, a <= b on floats: false as soon as a NaN is involved *)
Definition py_fgt (a b : option Q) : bool :=
  match a, b with Some x, Some y => negb (Qle_bool x y) | _, _ => false end.
Definition py_fge (a b : option Q) : bool :=
  match a, b with Some x, Some y => Qle_bool y x | _, _ => false end.
Definition py_flt (a b : option Q) : bool := py_fgt b a.
Definition py_fle (a b : option Q) : bool := py_fge b a.

Lemma py_fgt_ogtb a b : py_fgt a b = ogtb a b.
Proof. destruct a, b; reflexivity. Qed.

(* abs(x) *)
Definition py_fabs (v : option Q) : option Q := option_map absq v.
(* -1.0 * x *)
Definition py_fneg (v : option Q) : option Q := option_map Qopp v.
(* x with NaN replaced by c *)
Definition nanto (c : Q) (v : option Q) : Q :=
  match v with Some q => q | None => c end.

Lemma nanto_m10 v : nanto ((-10) # 1) v = nan10 v.
Proof. reflexivity. Qed.

(* np.max / np.argmax of a vector: the first maximum; a NaN wins (the first
   NaN).  Empty vector (ValueError in numpy): NaN / 0, as Vine.argmax. *)
Fixpoint np_max_from (bv : option Q) (l : list (option Q)) : option Q :=
  match l with
  | [] => bv
  | v :: r =>
      match bv with
      | None => None
      | Some b =>
          match v with
          | None => None
          | Some x => if Qltb b x then np_max_from (Some x) r else np_max_from bv r
          end
      end
  end.
Definition np_max (l : list (option Q)) : option Q :=
  match l with [] => None | v :: r => np_max_from v r end.

Fixpoint np_argmax_from (i bi : nat) (bv : option Q) (l : list (option Q)) : nat :=
  match l with
  | [] => bi
  | v :: r =>
      match bv with
      | None => bi
      | Some b =>
          match v with
          | None => i
          | Some x => if Qltb b x then np_argmax_from (S i) i (Some x) r
                      else np_argmax_from (S i) bi bv r
          end
      end
  end.
Definition np_argmax (l : list (option Q)) : nat :=
  match l with [] => 0 | v :: r => np_argmax_from 1 0 v r end.

Lemma argmax_aux_np l : forall i bi bv,
  argmax_aux l i bi bv = (np_argmax_from i bi bv l, np_max_from bv l).
Proof.
  induction l as [|v r IH]; intros i bi bv; simpl.
  - reflexivity.
  - destruct bv as [b|]; [|reflexivity].
    destruct v as [x|]; [|reflexivity].
    destruct (Qltb b x); apply IH.
Qed.

Lemma argmax_np l : argmax l = (np_argmax l, np_max l).
Proof. destruct l as [|v r]; [reflexivity|]. apply argmax_aux_np. Qed.

Lemma np_argmax_fst l : np_argmax l = fst (argmax l).
Proof. now rewrite argmax_np. Qed.
Lemma np_max_snd l : np_max l = snd (argmax l).
Proof. now rewrite argmax_np. Qed.

(* sum of a vector; NaN is absorbing *)
Definition np_sum (l : list (option Q)) : option Q :=
  fold_left (fun acc v => match acc, v with Some a, Some x => Some (a + x)%Q | _, _ => None end)
            l (Some 0%Q).

(* ------------------------------------------------------------------ *)
(** * matrices                                                         *)
Definition mat := nat -> nat -> option Q.
Definition np_array (t : tmat) : mat := tget t.
(* m[i, j] = v *)
Definition mat_set (m : mat) (i j : nat) (v : option Q) : mat :=
  fun a b => if (a =? i) && (b =? j) then v else m a b.
(* m[:, j] = v *)
Definition mat_setcol (m : mat) (j : nat) (v : option Q) : mat :=
  fun a b => if b =? j then v else m a b.
(* m[:, [js]] = v *)
Definition mat_setcols (m : mat) (js : list nat) (v : option Q) : mat :=
  fun a b => if memb b js then v else m a b.
(* m[:, j], m[i, :] of an (n, n) matrix *)
Definition mat_col (n : nat) (m : mat) (j : nat) : list (option Q) :=
  map (fun i => m i j) (seq 0 n).
Definition mat_row (n : nat) (m : mat) (i : nat) : list (option Q) :=
  map (fun j => m i j) (seq 0 n).
(* abs(m), -1.0 * m, elementwise *)
Definition mat_abs (m : mat) : mat := fun a b => py_fabs (m a b).
Definition mat_neg (m : mat) : mat := fun a b => py_fneg (m a b).
(* np.sum(m, 1) *)
Definition mat_sum1 (n : nat) (m : mat) : list (option Q) :=
  map (fun i => np_sum (mat_row n m i)) (seq 0 n).
(* abs(v) of a vector *)
Definition vec_abs (v : list (option Q)) : list (option Q) := map py_fabs v.

Lemma mat_row_ext n (m1 m2 : mat) i :
  (forall j, m1 i j = m2 i j) -> mat_row n m1 i = mat_row n m2 i.
Proof. intros H. unfold mat_row. apply map_ext. intros j. apply H. Qed.

(* the matrix seen by DirectTree._build_first_tree: row i of the matrix in
   which the columns `killed` have been overwritten with -10 *)
Lemma mat_row_krow n tau killed (m : mat) i :
  (forall a b, m a b = kget tau killed a b) -> mat_row n m i = krow n tau killed i.
Proof. intros H. unfold mat_row, krow. apply map_ext. intros j. apply H. Qed.

Lemma mat_set_tget_nan (tau : tmat) y i j :
  mat_set (np_array tau) y y np_nan i j = tget_nan y tau i j.
Proof. reflexivity. Qed.

Lemma mat_setcols_kget (tau : tmat) (m : mat) js :
  (forall a b, m a b = tget_nan 0 tau a b) ->
  forall a b, mat_setcols m js (Some m10) a b = kget tau js a b.
Proof. intros H a b. unfold mat_setcols, kget. now rewrite H. Qed.

Lemma mat_setcol_kget (tau : tmat) (m : mat) killed j :
  (forall a b, m a b = kget tau killed a b) ->
  forall a b, mat_setcol m j (Some m10) a b = kget tau (j :: killed) a b.
Proof.
  intros H a b. unfold mat_setcol. rewrite H. unfold kget, memb. simpl.
  destruct (b =? j); reflexivity.
Qed.

(* ------------------------------------------------------------------ *)
(** * the work tables of _sort_tau_by_y and get_anchor                 *)
Definition tab3raw := list (nat * option Q * option Q).
Definition tab3 := list (nat * Q * Q).
(* np.empty([n, 3]): the content is unspecified; the translator checks that
   every column is assigned before the table is read *)
Definition tab3_empty (n : nat) : tab3raw := map (fun _ => (0, None, None)) (seq 0 n).
(* t[:, 0] = ints;  t[:, 1] = floats;  t[:, 2] = floats *)
Definition tab3_setcol0 (t : tab3raw) (v : list nat) : tab3raw :=
  map (fun p => (snd p, snd (fst (fst p)), snd (fst p))) (combine t v).
Definition tab3_setcol1 (t : tab3raw) (v : list (option Q)) : tab3raw :=
  map (fun p => (fst (fst (fst p)), snd p, snd (fst p))) (combine t v).
Definition tab3_setcol2 (t : tab3raw) (v : list (option Q)) : tab3raw :=
  map (fun p => (fst (fst (fst p)), snd (fst (fst p)), snd p)) (combine t v).
(* t[np.isnan(t)] = c *)
Definition tab3_nan_to (c : Q) (t : tab3raw) : tab3 :=
  map (fun r => (fst (fst r), nanto c (snd (fst r)), nanto c (snd r))) t.
(* column c of a row, as a float *)
Definition tab3_cell (c : nat) (r : nat * Q * Q) : Q :=
  match c with
  | 0 => inject_Z (Z.of_nat (fst (fst r)))
  | 1 => snd (fst r)
  | _ => snd r
  end.
(* t[t[:, c].argsort()] *)
Definition tab3_argsort_rows (tie : tie_t) (c : nat) (t : tab3) : tab3 :=
  isort_by (fun a b => Qle_bool (tab3_cell c a) (tab3_cell c b)) (tie t).
(* x[::-1] *)
Definition py_reversed {A : Type} (l : list A) : list A := rev l.
(* int(t[i, 0]) *)
Definition tab3_at0 (t : tab3) (i : nat) : nat := fst (fst (nth i t (0, 0%Q, 0%Q))).

Definition tab2raw := list (nat * option Q).
Definition tab2_empty (n : nat) : tab2raw := map (fun _ => (0, None)) (seq 0 n).
Definition tab2_setcol0 (t : tab2raw) (v : list nat) : tab2raw :=
  map (fun p => (snd p, snd (fst p))) (combine t v).
Definition tab2_setcol1 (t : tab2raw) (v : list (option Q)) : tab2raw :=
  map (fun p => (fst (fst p), snd p)) (combine t v).
Definition tab2_at0 (t : tab2raw) (i : nat) : nat := fst (nth i t (0, None)).

Lemma combine_map_same {A B C} (f : A -> B) (g : A -> C) (l : list A) :
  combine (map f l) (map g l) = map (fun x => (f x, g x)) l.
Proof. induction l as [|x l IH]; simpl; [reflexivity|]. now rewrite IH. Qed.

Lemma tab3_setcol0_map {A} (g : A -> nat * option Q * option Q) (f : A -> nat) l :
  tab3_setcol0 (map g l) (map f l) = map (fun x => (f x, snd (fst (g x)), snd (g x))) l.
Proof. unfold tab3_setcol0. rewrite combine_map_same, map_map. reflexivity. Qed.
Lemma tab3_setcol1_map {A} (g : A -> nat * option Q * option Q) (f : A -> option Q) l :
  tab3_setcol1 (map g l) (map f l) = map (fun x => (fst (fst (g x)), f x, snd (g x))) l.
Proof. unfold tab3_setcol1. rewrite combine_map_same, map_map. reflexivity. Qed.
Lemma tab3_setcol2_map {A} (g : A -> nat * option Q * option Q) (f : A -> option Q) l :
  tab3_setcol2 (map g l) (map f l) = map (fun x => (fst (fst (g x)), snd (fst (g x)), f x)) l.
Proof. unfold tab3_setcol2. rewrite combine_map_same, map_map. reflexivity. Qed.
Lemma tab2_setcol0_map {A} (g : A -> nat * option Q) (f : A -> nat) l :
  tab2_setcol0 (map g l) (map f l) = map (fun x => (f x, snd (g x))) l.
Proof. unfold tab2_setcol0. rewrite combine_map_same, map_map. reflexivity. Qed.
Lemma tab2_setcol1_map {A} (g : A -> nat * option Q) (f : A -> option Q) l :
  tab2_setcol1 (map g l) (map f l) = map (fun x => (fst (g x), f x)) l.
Proof. unfold tab2_setcol1. rewrite combine_map_same, map_map. reflexivity. Qed.

Lemma np_arange_map n : np_arange n = map (fun i => i) (seq 0 n).
Proof. unfold np_arange. now rewrite map_id. Qed.

(* the i-th element of range(n), default 0 *)
Lemma nth_seq0 n i : nth i (seq 0 n) 0 = if i <? n then i else 0.
Proof.
  destruct (i <? n) eqn:E.
  - apply Nat.ltb_lt in E. now rewrite seq_nth.
  - apply Nat.ltb_ge in E. apply nth_overflow. now rewrite seq_length.
Qed.

(* ------------------------------------------------------------------ *)
(** * loops and subscripts on lists of objects                         *)
(* xs[i] of the previous tree's edge list: the object is identified by its
   position; None = IndexError *)
Definition py_getitem_pos {A : Type} (l : list A) (i : nat) : option (nat * A) :=
  match nth_error l i with Some e => Some (i, e) | None => None end.
(* xs[i] of a list; None = IndexError *)
Definition py_getitem {A : Type} (l : list A) (i : nat) : option A := nth_error l i.

Lemma py_getitem_pos_nth_pair (l : list edge) i : py_getitem_pos l i = nth_pair l i.
Proof. reflexivity. Qed.

(* `edges or []` for an optional list argument (None = the default) *)
Definition py_or_nil {A : Type} (x : option (list A)) : list A :=
  match x with Some l => l | None => [] end.
(* `not xs` *)
Definition py_not_list {A : Type} (l : list A) : bool :=
  match l with [] => true | _ => false end.

(* for k in <range>: <state> = body(state, k), where body can raise *)
Fixpoint py_for_opt {S : Type} (ks : list nat) (body : S -> nat -> option S) (s : S) : option S :=
  match ks with
  | [] => Some s
  | k :: r => match body s k with Some s' => py_for_opt r body s' | None => None end
  end.

(* rows of the sorted table numbered by the loop variable *)
Lemma combine_seq_firstn {A} (d : A) (l : list A) k :
  k <= length l ->
  combine (seq 0 k) (firstn k l) = map (fun i => (i, nth i l d)) (seq 0 k).
Proof.
  intros Hk.
  assert (G : forall (l : list A) k s, k <= length l ->
              combine (seq s k) (firstn k l) = map (fun i => (i, nth (i - s) l d)) (seq s k)).
  { clear. induction l as [|x l IH]; intros k s Hk; simpl in Hk.
    - assert (k = 0) by lia. subst. reflexivity.
    - destruct k as [|k]; [reflexivity|]. simpl. rewrite Nat.sub_diag. f_equal.
      rewrite IH by lia. apply map_ext_in. intros i Hi. apply in_seq in Hi.
      replace (i - s) with (S (i - S s)) by lia. reflexivity. }
  rewrite G by assumption. apply map_ext. intros i. now rewrite Nat.sub_0_r.
Qed.

(* stable sort with positions carried along *)
Lemma insert_by_map {A B} (f : A -> B) (le : B -> B -> bool) x l :
  map f (insert_by (fun a b => le (f a) (f b)) x l) = insert_by le (f x) (map f l).
Proof.
  induction l as [|y r IH]; simpl; [reflexivity|].
  destruct (le (f x) (f y)); simpl; [reflexivity|]. now rewrite IH.
Qed.
Lemma isort_by_map {A B} (f : A -> B) (le : B -> B -> bool) l :
  map f (isort_by (fun a b => le (f a) (f b)) l) = isort_by le (map f l).
Proof.
  induction l as [|x r IH]; simpl; [reflexivity|].
  now rewrite insert_by_map, IH.
Qed.

Lemma length_insert_by {A} (le : A -> A -> bool) x l :
  length (insert_by le x l) = S (length l).
Proof.
  induction l as [|y r IH]; simpl; [reflexivity|].
  destruct (le x y); simpl; [reflexivity|]. now rewrite IH.
Qed.
Lemma length_isort_by {A} (le : A -> A -> bool) l : length (isort_by le l) = length l.
Proof.
  induction l as [|x r IH]; simpl; [reflexivity|]. now rewrite length_insert_by, IH.
Qed.

(* a tie-breaking that keeps the number of rows (every permutation does) *)
Definition tie_len (tie : tie_t) : Prop := forall l, length (tie l) = length l.

Lemma tie_len_id : tie_len id_tie.
Proof. intros l. reflexivity. Qed.

Lemma length_sort_tau_by_y tie n tau y :
  tie_len tie -> length (sort_tau_by_y_gen tie n tau y) = n.
Proof.
  intros Ht. unfold sort_tau_by_y_gen.
  now rewrite rev_length, length_isort_by, Ht, map_length, seq_length.
Qed.

(* ------------------------------------------------------------------ *)
(** * map_opt, sorted rows                                              *)
Lemma map_opt_map {A B C} (g : A -> B) (f : B -> option C) l :
  map_opt f (map g l) = map_opt (fun x => f (g x)) l.
Proof. induction l as [|x l IH]; simpl; [reflexivity|]. now rewrite IH. Qed.

Lemma map_opt_ext_in {A B} (f g : A -> option B) l :
  (forall x, In x l -> f x = g x) -> map_opt f l = map_opt g l.
Proof.
  induction l as [|x l IH]; intros H; simpl; [reflexivity|].
  rewrite (H x) by (left; reflexivity). rewrite IH; [reflexivity|].
  intros y Hy. apply H. now right.
Qed.

Lemma nth_map_row_ind (l : tab3) i : nth i (map row_ind l) 0 = tab3_at0 l i.
Proof. exact (map_nth row_ind l (0, 0%Q, 0%Q) i). Qed.

Lemma first_rows_map tie n tau y :
  tie_len tie ->
  first_rows tie n tau y
  = map (fun i => (i, tab3_at0 (sort_tau_by_y_gen tie n tau y) i)) (seq 0 (n - 1)).
Proof.
  intros Ht. unfold first_rows. rewrite <- firstn_map.
  rewrite (combine_seq_firstn 0).
  - apply map_ext. intros i. now rewrite nth_map_row_ind.
  - rewrite map_length, length_sort_tau_by_y by assumption. lia.
Qed.

Lemma opt_eta {A} (x : option A) : match x with Some e => Some e | None => None end = x.
Proof. destruct x; reflexivity. Qed.
