(* Denotation of the numpy operations used by the translated kernels, over R.
   Part of the trusted base (validated by the certified correspondence, not
   verified).  Domain notes:
   - np_power x y is numpy's power only for x > 0 (Rpower x y = exp (y * ln x));
     every theorem that uses it carries 0 < x.
   - comparisons are total decidable booleans on R. *)
From Coq Require Import Reals List Bool Lra.
Import ListNotations.
Open Scope R_scope.

Definition Rltb (x y : R) : bool := if Rlt_dec x y then true else false.
Definition Rleb (x y : R) : bool := if Rle_dec x y then true else false.
Definition Reqb (x y : R) : bool := if Req_EM_T x y then true else false.

Lemma Rltb_true x y : Rltb x y = true <-> x < y.
Proof. unfold Rltb; destruct (Rlt_dec x y); split; intros; try discriminate; auto; lra. Qed.
Lemma Rltb_false x y : Rltb x y = false <-> y <= x.
Proof. unfold Rltb; destruct (Rlt_dec x y); split; intros; try discriminate; auto; lra. Qed.
Lemma Rleb_true x y : Rleb x y = true <-> x <= y.
Proof. unfold Rleb; destruct (Rle_dec x y); split; intros; try discriminate; auto; lra. Qed.
Lemma Rleb_false x y : Rleb x y = false <-> y < x.
Proof. unfold Rleb; destruct (Rle_dec x y); split; intros; try discriminate; auto; lra. Qed.
Lemma Reqb_true x y : Reqb x y = true <-> x = y.
Proof. unfold Reqb; destruct (Req_EM_T x y); split; intros; try discriminate; auto; lra. Qed.
Lemma Reqb_false x y : Reqb x y = false <-> x <> y.
Proof. unfold Reqb; destruct (Req_EM_T x y); split; intros; try discriminate; auto; lra. Qed.

(* numpy.power on reals: x > 0 is Rpower; 0 ** y is 0 for y > 0 and 1 for y = 0 (numpy agrees);
   0 ** y for y < 0 (numpy: inf) and x < 0 with non-integer y (numpy: nan) are outside the model. *)
Definition np_power (x y : R) : R :=
  if Req_EM_T x 0 then (if Rlt_dec 0 y then 0 else 1) else Rpower x y.
Lemma np_power_pos x y : 0 < x -> np_power x y = Rpower x y.
Proof. intros H. unfold np_power. destruct (Req_EM_T x 0); [lra | reflexivity]. Qed.
Lemma np_power_0 y : 0 < y -> np_power 0 y = 0.
Proof. intros H. unfold np_power. destruct (Req_EM_T 0 0); [|lra]. destruct (Rlt_dec 0 y); [reflexivity | lra]. Qed.
Definition np_exp (x : R) : R := exp x.
Definition np_log (x : R) : R := ln x.
Definition np_sqrt (x : R) : R := sqrt x.
Definition np_abs (x : R) : R := Rabs x.
Definition np_minimum (x y : R) : R := Rmin x y.
Definition np_maximum (x y : R) : R := Rmax x y.
Definition np_clip (x lo hi : R) : R := Rmin (Rmax x lo) hi.
Definition np_sign (x : R) : R := if Rlt_dec x 0 then -1 else if Rlt_dec 0 x then 1 else 0.

Fixpoint Rsum (l : list R) : R := match l with [] => 0 | x :: r => x + Rsum r end.
Definition np_mean (l : list R) : R := Rsum l / INR (length l).
Fixpoint Rlist_min (d : R) (l : list R) : R := match l with [] => d | x :: r => Rlist_min (Rmin d x) r end.
Fixpoint Rlist_max (d : R) (l : list R) : R := match l with [] => d | x :: r => Rlist_max (Rmax d x) r end.
Definition np_min (l : list R) : R := match l with [] => 0 | x :: r => Rlist_min x r end.
Definition np_max (l : list R) : R := match l with [] => 0 | x :: r => Rlist_max x r end.
(* population standard deviation, ddof = 0 *)
Definition np_var (l : list R) : R :=
  let m := np_mean l in Rsum (map (fun x => (x - m) * (x - m)) l) / INR (length l).
Definition np_std (l : list R) : R := sqrt (np_var l).

(* EPSILON = np.finfo(np.float32).eps = 2^-23 *)
Definition EPSILON : R := / 8388608.

(* IEEE special values do not exist in R: a comparison with np.inf is constantly false in the
   real-number model.  The model is therefore only claimed where no overflow occurs; the certified
   correspondence samples that domain and the evidence states it. *)
Definition np_isinf (x : R) : bool := false.

(* result of a compute_theta method *)
Inductive theta_result := ThetaVal (x : R) | ThetaInf | ThetaErr.
