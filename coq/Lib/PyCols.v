(* Denotations of the Python / numpy operations of the DATA PLANE of the vine copula
   (copulas/multivariate/tree.py: Tree.prepare_next_tree, Tree.get_likelihood, Edge.get_likelihood;
    copulas/multivariate/vine.py: VineCopula.get_likelihood, VineCopula._sample_row),
   as used by the terms that tools/vf/vinedatagen.py generates from the AST on every run (Gen_vinedata.v).

   They are DEFINITIONS (the vocabulary of the translator), not theorems about CPython / numpy; the values are the
   symbolic provenance terms of Model/VineData.v ([col], [umat], [sterm]).  Conventions (the same as Model/VineData.v):

   - a column of pseudo-observations is a [col]; `u_matrix` is the function "column index -> col";
     an n x 2 matrix `np.array([[x, y] for x, y in zip(a, b)])` is the pair of its two columns (a, b);
     the 2-row array `np.array([A, B])` is the pair (A, B) of its rows;
   - an array returned by `partial_derivative` and then corrected in place (`A[A == c] = v`) is a [harr]: the symbolic
     column together with the list of entrywise corrections applied so far, in order ([harr_apply] is their meaning);
   - a `uni_matrix` of the likelihood recursion is a [pymat]: shape, the cells written so far ([umat], most recent
     first) and the tag of the allocation (the matrix read by tree t has tag t; a cell that was never written reads as
     [CGarb tag r c]).  A value read from it is an [rval]: the cell (row, column, content) together with its col;
   - the `values` arrays (`np.zeros([1, n])` / `np.empty([1, n])`) are lists of [lval] terms;
   - an Edge object of tree t is a [Vine.edge] in the context of a [treeobj] (index of the tree, the edge list of the
     previous tree - `edge.parents` are positions in it -, its own edge list); the copula of an edge
     (`Bivariate(copula_type=e.name)` with `theta = e.theta`) is the pair (t, e_idx e), as in [CH] / [SPpf];
   - a Python exception is [None]. *)
From Coq Require Import List Arith Bool QArith Lia.
From Cop Require Import Lib.FinGraph Model.Vine Model.VineData.
Import ListNotations.
Open Scope nat_scope.

(* ------------------------------------------------------------------ *)
(** * Loops in the exception monad                                     *)
Fixpoint py_fold_opt {S A : Type} (body : A -> S -> option S) (l : list A) (st : S) : option S :=
  match l with
  | [] => Some st
  | x :: r => match body x st with
              | None => None
              | Some st' => py_fold_opt body r st'
              end
  end.

(* for i in range(n): <body> ; the state = the variables the body rebinds / mutates *)
Definition py_for_range {S : Type} (n : nat) (body : nat -> S -> option S) (st : S) : option S :=
  py_fold_opt body (seq 0 n) st.

(* for x in xs: <body mutating only x> ; the result = what the body leaves in the mutated attribute, per element *)
Definition py_for_each {A B : Type} (body : A -> option B) (l : list A) : option (list B) := map_opt body l.

Lemma py_fold_opt_app {S A} (body : A -> S -> option S) l1 l2 st :
  py_fold_opt body (l1 ++ l2) st =
  match py_fold_opt body l1 st with None => None | Some st' => py_fold_opt body l2 st' end.
Proof.
  revert st. induction l1 as [|x l1 IH]; intros st; simpl; auto.
  destruct (body x st); auto.
Qed.

(* ------------------------------------------------------------------ *)
(** * Trees and edges as objects                                       *)
Record treeobj := mkTree {
  to_idx   : nat;            (* self = vine.trees[to_idx]; self.level = to_idx + 1 *)
  to_prev  : list edge;      (* the edges of the previous tree: `edge.parents` point into it *)
  to_edges : list edge       (* self.edges *)
}.
Definition py_tree_level (t : nat) : nat := S t.

(* self.trees[i] *)
Definition py_trees_get (trees : list (list edge)) (i : nat) : option treeobj :=
  match nth_error trees i with
  | Some T => Some (mkTree i (match i with 0 => [] | S j => nth j trees [] end) T)
  | None => None
  end.

(* e.parents is None *)
Definition py_parents_is_none (e : edge) : bool :=
  match e_par e with None => true | Some _ => false end.
(* e.parents[k]   (k = 0, 1); None: `parents` is None (TypeError) or a dangling position *)
Definition py_parent {A : Type} (prev : list A) (e : edge) (k : nat) : option A :=
  match e_par e with
  | Some (i, j) => match k with 0 => nth_error prev i | 1 => nth_error prev j | _ => None end
  | None => None
  end.
(* a, b = e.parents *)
Definition py_parents2 {A : Type} (prev : list A) (e : edge) : option (A * A) :=
  match py_parent prev e 0, py_parent prev e 1 with
  | Some a, Some b => Some (a, b)
  | _, _ => None
  end.

(* the copula object built from e.name / e.theta of an edge of tree t *)
Definition copula_id := (nat * nat)%type.
Definition py_edge_copula (t : nat) (e : edge) : copula_id := (t, e_idx e).

(* ------------------------------------------------------------------ *)
(** * Sets: difference and list(...)                                   *)
(* A - B on the representation of A (canonical when A is); list(s) enumerates the representation
   (ascending for a canonical set: CPython's order for small non-negative ints) *)
Definition pyset_diff (A B : list nat) : list nat := filter (fun x => negb (memb x B)) A.
Definition py_list (s : list nat) : list nat := s.
Definition py_index {A : Type} (l : list A) (k : nat) : option A := nth_error l k.

Lemma In_pyset_diff A B v : In v (pyset_diff A B) <-> In v A /\ ~ In v B.
Proof.
  unfold pyset_diff. rewrite filter_In, negb_true_iff. rewrite <- (memb_In v B).
  destruct (memb v B); split; intros [H1 H2]; split; auto; congruence.
Qed.
Lemma pyset_diff_set_diff A B : pyset_diff A B = set_diff A B.
Proof. reflexivity. Qed.

(* ------------------------------------------------------------------ *)
(** * Columns, two-column matrices, h-arrays (fit)                     *)
Definition py_col (m : nat -> col) (i : nat) : col := m i.          (* m[:, i] *)
Definition py_drop_none (c : col) : col := c.                        (* [x for x in c if x is not None] *)
Definition py_zip2 (a b : col) : col * col := (a, b).                (* np.array([[x, y] for x, y in zip(a, b)]) *)

Definition harr := (col * list (Q * Q))%type.
(* copula.partial_derivative(X) *)
Definition py_partial_derivative (c : copula_id) (X : col * col) : harr :=
  (CH (fst c) (snd c) (fst X) (snd X), []).
(* A[A == c] = v *)
Definition py_mask_eq_assign (a : harr) (c v : Q) : harr := (fst a, snd a ++ [(c, v)]).
(* np.array([A, B]) *)
Definition py_array2 {A : Type} (a b : A) : A * A := (a, b).

Definition harr_apply (ops : list (Q * Q)) (x : Q) : Q :=
  fold_left (fun x cv => if Qeq_bool x (fst cv) then snd cv else x) ops x.

(* what is stored in edge.U: the two symbolic columns, and the entrywise corrections of each row *)
Definition U_cols (U : harr * harr) : col * col := (fst (fst U), fst (snd U)).
Definition U_corrected_by (f : Q -> Q) (U : harr * harr) : Prop :=
  forall x : Q, harr_apply (snd (fst U)) x = f x /\ harr_apply (snd (snd U)) x = f x.

(* the model's clip as a list of corrections *)
Definition clip_ops (eps : Q) : list (Q * Q) := [(0, eps); (1, 1 - eps)]%Q.
Lemma harr_apply_clip_ops eps x : harr_apply (clip_ops eps) x = clip_h eps x.
Proof. reflexivity. Qed.

(* ------------------------------------------------------------------ *)
(** * uni_matrix (likelihood)                                          *)
Record pymat := mkMat { pm_tag : nat; pm_rows : nat; pm_cols : nat; pm_cells : umat }.
Definition rcell := (nat * nat * option col)%type.
Definition rval := (rcell * col)%type.

(* np.empty([rows, cols]) *)
Definition py_np_empty (tag rows cols : nat) : pymat := mkMat tag rows cols [].
(* m.shape[1] *)
Definition py_shape1 (m : pymat) : nat := pm_cols m.
(* m[r, c] *)
Definition py_mat_get (m : pymat) (r c : nat) : option rval :=
  if (r <? pm_rows m) && (c <? pm_cols m)
  then Some ((r, c, uget (pm_cells m) r c), cell_or_garbage (pm_tag m) r c (uget (pm_cells m) r c))
  else None.
(* m[:, c] as ONE value: the model is for a one-row matrix; a matrix with several rows is outside it (None) *)
Definition py_mat_col1 (m : pymat) (c : nat) : option rval :=
  if pm_rows m =? 1 then py_mat_get m 0 c else None.
(* m[r, c] = v *)
Definition py_mat_set (m : pymat) (r c : nat) (v : col) : option pymat :=
  if (r <? pm_rows m) && (c <? pm_cols m)
  then Some (mkMat (pm_tag m) (pm_rows m) (pm_cols m) ((r, c, v) :: pm_cells m))
  else None.

(* np.array([[x, y]]) *)
Definition py_row2 (x y : rval) : rval * rval := (x, y).
(* copula.partial_derivative(np.array([[x, y]])), a 1 x 1 array; np.ravel(.)[0] is its entry *)
Definition py_partial_derivative1 (c : copula_id) (X : rval * rval) : col :=
  CH (fst c) (snd c) (snd (fst X)) (snd (snd X)).
Definition py_ravel0 (c : col) : col := c.

(* likelihood values *)
Inductive lval :=
| LZero                                   (* an np.zeros cell *)
| LEmpty                                  (* a never-written np.empty cell of a `values` array *)
| LDens (c : copula_id) (x y : rval)      (* np.sum(copula.probability_density(np.array([[x, y]]))) *)
| LLog (v : lval)                         (* np.log *)
| LSum (l : list lval).                   (* np.sum over all cells *)

Definition py_density_sum (c : copula_id) (X : rval * rval) : lval := LDens c (fst X) (snd X).
Definition py_np_zeros_row (n : nat) : list lval := repeat LZero n.      (* np.zeros([1, n]) *)
Definition py_np_empty_row (n : nat) : list lval := repeat LEmpty n.     (* np.empty([1, n]) *)

Fixpoint set_nth {A : Type} (l : list A) (i : nat) (v : A) : option (list A) :=
  match l, i with
  | [], _ => None
  | _ :: r, 0 => Some (v :: r)
  | x :: r, S j => option_map (cons x) (set_nth r j v)
  end.
(* values[0, i] = v *)
Definition py_row_set (l : list lval) (i : nat) (v : lval) : option (list lval) := set_nth l i v.
(* np.sum(values) ; np.sum(values[0, a:]) ; np.sum(values[0, :b]) *)
Definition py_np_sum (l : list lval) : lval := LSum l.
Definition py_row_from (l : list lval) (a : nat) : list lval := skipn a l.
Definition py_row_upto (l : list lval) (b : nat) : list lval := firstn b l.

Lemma set_nth_app {A} (done rest : list A) (x v : A) :
  set_nth (done ++ x :: rest) (length done) v = Some (done ++ v :: rest).
Proof.
  induction done as [|y done IH]; simpl; auto. rewrite IH. reflexivity.
Qed.

(* the term the model's [lik_edge] stands for *)
Definition lval_of_le (le : lik_edge) : lval :=
  LLog (LDens (le_tree le, le_idx le) (le_readL le, fst (le_args le)) (le_readR le, snd (le_args le))).

(* ------------------------------------------------------------------ *)
(** * The row sampler                                                  *)
(* `current_ind = -1` / `current_ind = edge.index`: an int that may be -1 *)
Definition pyint := option nat.           (* None = -1 *)
Definition py_minus_one : pyint := None.
Definition py_int (n : nat) : pyint := Some n.
Definition py_int_ne_minus_one (x : pyint) : bool := match x with Some _ => true | None => false end.

(* for x in xs: <body> with `break`: the body returns (new state, broke?) *)
Fixpoint py_for_break {S A : Type} (body : A -> S -> S * bool) (l : list A) (st : S) : S :=
  match l with
  | [] => st
  | x :: r => let '(st', brk) := body x st in if brk then st' else py_for_break body r st'
  end.

(* set(xs); s.add(x); a.issubset(b) *)
Definition py_set_of (l : list nat) : list nat := l.
Definition py_set_add (s : list nat) (x : nat) : list nat := s ++ [x].
Definition py_issubset (a b : list nat) : bool := forallb (fun x => memb x b) a.

(* visited[0] on a possibly empty list: 0 stands for the IndexError case (never reached with itr >= 1) *)
Definition py_head0 (l : list nat) : nat := hd 0 l.

(* l[k] for an int k that may be -1 (Python: the last element) *)
Definition py_index_int {A : Type} (l : list A) (k : pyint) : option A :=
  match k with Some j => nth_error l j | None => nth_error l (length l - 1) end.

(* range(n - 1, -1, -1) *)
Definition py_range_down (n : nat) : list nat := rev (seq 0 n).

(* unis[i] ; np.array([x]) of one entry is the entry *)
Definition py_unis (i : nat) : sterm := SUni i.
(* copula.percent_point(np.array([y]), np.array([v]))[0], before the clip *)
Inductive rawterm := RPpf (c : copula_id) (y v : sterm).
Definition py_percent_point (c : copula_id) (y v : sterm) : rawterm := RPpf c y v.
(* min(max(r, EPSILON), 0.99): the model's [SPpf] stands for the clipped value (the numeric meaning of the clip is
   Spec.VineSampleR.clip_s, bridged to the generated line by C17_bridge_sample_clip in Props/C17.v) *)
Definition py_sample_clip (r : rawterm) : sterm :=
  match r with RPpf c y v => SPpf (fst c) (snd c) y v end.
