(* ========================================================================= *)
(*  Vocabulary of tools/vf/vinefitgen.py (static, trusted as denotation):     *)
(*                                                                            *)
(*  1. Tree.get_tau_matrix: `np.empty([r, c])` is a matrix of OPTION cells     *)
(*     ([None] = never written); `m[i, j] = v` is [omat_set] ([None] =         *)
(*     IndexError); `self.u_matrix[:, k]` is the symbolic column [CMarg k];    *)
(*     `edge.neighbors` of `edge = self.edges[i]` is row i of the neighbour    *)
(*     lists; the two objects of `edge.parents` are looked up by position in   *)
(*     the previous tree; `scipy.stats.kendalltau(a, b)[0]` is an opaque       *)
(*     function [kt a b] of the two symbolic columns (a parameter).            *)
(*     Loop lemma: [omat_fill].                                                *)
(*  2. VineCopula.__init__ / VineCopula.fit before train_vine: the object is   *)
(*     the list of its attribute bindings in assignment order ([vobj]); the    *)
(*     right-hand sides are symbolic values ([vval]).                          *)
(* ========================================================================= *)
From Coq Require Import String List Arith Bool Lia.
From Cop Require Import Lib.FinGraph Model.Vine Model.VineData Lib.PySet Lib.PyMat.
Import ListNotations.
Open Scope nat_scope.

(* ------------------------------------------------------------------ *)
(** * 1. option matrices                                               *)
Definition omat (A : Type) := list (list (option A)).

Definition np_empty2 {A : Type} (r c : nat) : omat A := repeat (repeat None c) r.

Fixpoint set_nth {A : Type} (l : list A) (i : nat) (x : A) : option (list A) :=
  match l, i with
  | [], _ => None
  | _ :: t, 0 => Some (x :: t)
  | a :: t, S i' => match set_nth t i' x with Some t' => Some (a :: t') | None => None end
  end.

(* m[i, j] = v ; None = IndexError *)
Definition omat_set {A : Type} (m : omat A) (i j : nat) (v : A) : option (omat A) :=
  match nth_error m i with
  | Some row => match set_nth row j (Some v) with
                | Some row' => set_nth m i row'
                | None => None
                end
  | None => None
  end.

(* m[i, j] read: None = IndexError, Some None = a cell that was never written *)
Definition omat_get {A : Type} (m : omat A) (i j : nat) : option (option A) :=
  match nth_error m i with Some row => nth_error row j | None => None end.

Definition py_ucol (k : nat) : col := CMarg k.
Definition py_neighbors (neighbors : list (list nat)) (i : nat) : list nat := nth i neighbors [].
(* `a, b = edge.parents`: None = TypeError (parents is None); the parents are Edge objects of the previous tree, recorded by position *)
Definition py_parents (prev : list edge_data) (x : edge_data) : option (edge_data * edge_data) :=
  match e_par (ed_edge x) with
  | Some (a, b) => match nth_error prev a, nth_error prev b with
                   | Some p, Some q => Some (p, q)
                   | _, _ => None
                   end
  | None => None
  end.

(* tables of functions *)
Definition tab {A : Type} (n : nat) (f : nat -> A) : list A := map f (seq 0 n).
Definition tab2 {A : Type} (n : nat) (F : nat -> nat -> option A) : omat A := tab n (fun i => tab n (F i)).

Lemma tab_ext {A} n (f g : nat -> A) : (forall k, k < n -> f k = g k) -> tab n f = tab n g.
Proof. intros H. apply map_ext_in. intros k Hk. apply in_seq in Hk. apply H. lia. Qed.

Lemma tab2_ext {A} n (F G : nat -> nat -> option A) : (forall a b, F a b = G a b) -> tab2 n F = tab2 n G.
Proof. intros H. apply tab_ext. intros a _. apply tab_ext. intros b _. apply H. Qed.

Lemma np_empty2_tab2 {A} n : @np_empty2 A n n = tab2 n (fun _ _ => None).
Proof.
  unfold np_empty2, tab2, tab.
  assert (R : forall (X : Type) (x : X) a k, repeat x k = map (fun _ => x) (seq a k)).
  { intros X x a k. revert a. induction k as [|k IH]; intros a; simpl; [reflexivity|]. f_equal. apply IH. }
  rewrite (R _ _ 0). apply map_ext. intros _. apply R.
Qed.

Lemma nth_error_map_seq {A} (f : nat -> A) n : forall a i, i < n -> nth_error (map f (seq a n)) i = Some (f (a + i)).
Proof.
  induction n as [|n IH]; intros a i Hi; [lia|]. destruct i as [|i]; simpl.
  - now rewrite Nat.add_0_r.
  - rewrite IH by lia. f_equal. f_equal. lia.
Qed.

Lemma set_nth_map_seq {A} (f : nat -> A) x n : forall a i, i < n ->
  set_nth (map f (seq a n)) i x = Some (map (fun k => if k =? a + i then x else f k) (seq a n)).
Proof.
  induction n as [|n IH]; intros a i Hi; [lia|]. destruct i as [|i]; simpl.
  - rewrite Nat.add_0_r, Nat.eqb_refl. f_equal. f_equal.
    apply map_ext_in. intros k Hk. apply in_seq in Hk. destruct (k =? a) eqn:E; [apply Nat.eqb_eq in E; lia|reflexivity].
  - rewrite IH by lia. f_equal.
    destruct (a =? a + S i) eqn:E; [apply Nat.eqb_eq in E; lia|]. f_equal.
    apply map_ext. intros k. replace (S a + i) with (a + S i) by lia. reflexivity.
Qed.

Lemma set_nth_None {A} (l : list A) x : forall i, length l <= i -> set_nth l i x = None.
Proof.
  induction l as [|a l IH]; intros i Hi; [reflexivity|]. destruct i as [|i]; simpl in *; [lia|]. rewrite IH by lia. reflexivity.
Qed.

Lemma omat_set_tab2 {A} n (F : nat -> nat -> option A) i j v : i < n -> j < n ->
  omat_set (tab2 n F) i j v = Some (tab2 n (fun a b => if (a =? i) && (b =? j) then Some v else F a b)).
Proof.
  intros Hi Hj. unfold omat_set, tab2, tab.
  rewrite (nth_error_map_seq (fun i0 => map (F i0) (seq 0 n)) n 0 i Hi). cbn [Nat.add].
  rewrite (set_nth_map_seq (F i) (Some v) n 0 j Hj). cbn [Nat.add].
  rewrite (set_nth_map_seq (fun i0 => map (F i0) (seq 0 n)) _ n 0 i Hi). cbn [Nat.add]. f_equal.
  apply map_ext. intros a. destruct (a =? i) eqn:E.
  - apply Nat.eqb_eq in E. subst a. apply map_ext. intros b. reflexivity.
  - reflexivity.
Qed.

Lemma py_for_opt_ext_in {S} ks (f g : S -> nat -> option S) : (forall s k, In k ks -> f s k = g s k) ->
  forall s, py_for_opt ks f s = py_for_opt ks g s.
Proof.
  induction ks as [|k ks IH]; intros H s; [reflexivity|]. simpl. rewrite H by (left; reflexivity).
  destruct (g s k) as [s'|]; [|reflexivity]. apply IH. intros s0 k0 Hk. apply H. right; exact Hk.
Qed.

(* the inner loop: `for j in js: m[i, j] = v` *)
Lemma omat_fill_row {A} n i (v : A) : i < n -> forall js (F : nat -> nat -> option A), (forall j, In j js -> j < n) ->
  py_for_opt js (fun m j => omat_set m i j v) (tab2 n F)
  = Some (tab2 n (fun a b => if (a =? i) && memb b js then Some v else F a b)).
Proof.
  intros Hi js. induction js as [|j js IH]; intros F Hjs.
  - simpl. f_equal. apply tab2_ext. intros a b. rewrite andb_false_r. reflexivity.
  - simpl. rewrite omat_set_tab2; [|assumption|apply Hjs; left; reflexivity].
    rewrite IH by (intros j0 Hj0; apply Hjs; right; exact Hj0). f_equal. apply tab2_ext. intros a b.
    unfold memb. simpl. fold (memb b js).
    destruct (a =? i); simpl; [|reflexivity]. destruct (memb b js); [rewrite orb_true_r; reflexivity|].
    rewrite orb_false_r. reflexivity.
Qed.

(* the double loop of get_tau_matrix: row i gets [g i] in the columns [f i] *)
Lemma omat_fill_from {A} n (f : nat -> list nat) (g : nat -> A) :
  (forall i, i < n -> forall j, In j (f i) -> j < n) ->
  forall cnt k (F : nat -> nat -> option A), k + cnt <= n ->
  py_for_opt (seq k cnt) (fun m i => py_for_opt (f i) (fun m' j => omat_set m' i j (g i)) m) (tab2 n F)
  = Some (tab2 n (fun a b => if (k <=? a) && (a <? k + cnt) && memb b (f a) then Some (g a) else F a b)).
Proof.
  intros Hf cnt. induction cnt as [|cnt IH]; intros k F Hk.
  - simpl. f_equal. apply tab2_ext. intros a b.
    destruct (k <=? a) eqn:E1; destruct (a <? k + 0) eqn:E2; try reflexivity.
    apply Nat.leb_le in E1. apply Nat.ltb_lt in E2. lia.
  - simpl. rewrite omat_fill_row; [|lia|apply Hf; lia].
    rewrite IH by lia. f_equal. apply tab2_ext. intros a b.
    destruct (a =? k) eqn:E.
    + apply Nat.eqb_eq in E. subst a.
      assert (E1 : (S k <=? k) = false) by (apply Nat.leb_gt; lia). rewrite E1. simpl.
      rewrite Nat.leb_refl. assert (E2 : (k <? k + S cnt) = true) by (apply Nat.ltb_lt; lia). rewrite E2. reflexivity.
    + apply Nat.eqb_neq in E. cbn [andb].
      replace (S k + cnt) with (k + S cnt) by lia.
      destruct (S k <=? a) eqn:E1; destruct (k <=? a) eqn:E2; try reflexivity; exfalso;
        repeat match goal with
               | H : (_ <=? _) = true |- _ => apply Nat.leb_le in H
               | H : (_ <=? _) = false |- _ => apply Nat.leb_gt in H
               end; lia.
Qed.

Theorem omat_fill {A} n (f : nat -> list nat) (g : nat -> A) :
  (forall i, i < n -> forall j, In j (f i) -> j < n) ->
  py_for_opt (py_range n) (fun m i => py_for_opt (f i) (fun m' j => omat_set m' i j (g i)) m) (np_empty2 n n)
  = Some (map (fun i => map (fun j => if memb j (f i) then Some (g i) else None) (seq 0 n)) (seq 0 n)).
Proof.
  intros Hf. unfold py_range. rewrite np_empty2_tab2, (omat_fill_from n f g Hf n 0) by lia. f_equal.
  unfold tab2, tab. apply map_ext_in. intros a Ha. apply in_seq in Ha. apply map_ext. intros b.
  assert (E : (a <? 0 + n) = true) by (apply Nat.ltb_lt; lia). rewrite E. reflexivity.
Qed.

Lemma map_combine_seq {A B} (G : nat -> A -> B) (d : A) (l : list A) : forall a,
  map (fun ix => G (fst ix) (snd ix)) (combine (seq a (length l)) l) = map (fun i => G i (nth (i - a) l d)) (seq a (length l)).
Proof.
  induction l as [|x l IH]; intros a; simpl; [reflexivity|]. f_equal.
  - rewrite Nat.sub_diag. reflexivity.
  - rewrite IH. apply map_ext_in. intros i Hi. apply in_seq in Hi. replace (i - a) with (S (i - S a)) by lia. reflexivity.
Qed.

(* ------------------------------------------------------------------ *)
(** * 2. VineCopula.__init__ / fit: the object as a list of attribute bindings *)
Open Scope string_scope.

(* symbolic right-hand sides *)
Inductive vval :=
| VParam (name : string)                    (* a parameter of the method, as passed *)
| VNone | VTrue | VEmptyList
| VClass (name : string)                    (* a class object (self.model = GaussianKDE) *)
| VValidRS (v : vval)                       (* validate_random_state(v) *)
| VShape (k : nat) (v : vval)               (* component k of X.shape *)
| VAttr (v : vval) (a : string)             (* X.columns *)
| VKendall (v : vval)                       (* X.corr(method='kendall').to_numpy() *)
| VEmptyMat (r c : vval)                    (* np.empty([r, c]) *)
| VSub1 (v : vval)                          (* v - 1 *)
| VSelf (a : string)                        (* the value of self.<a> at that point *)
| VCdfCols (model : vval) (x : vval)        (* the matrix whose column i is <model>().fit(X[col_i]).cumulative_distribution(X[col_i]) *)
| VUnis (model : vval) (x : vval)           (* the list of the fitted <model>() instances, in column order *)
| VPpfs (model : vval) (x : vval)           (* their percent_point methods *)
| VTrees (ty : vval).                       (* self.trees after train_vine(ty) *)

Definition vobj := list (string * vval).

(* self.<a> = v : a re-assignment replaces the value and keeps the position of the first assignment (dict semantics) *)
Fixpoint setattr (o : vobj) (a : string) (v : vval) : vobj :=
  match o with
  | [] => [(a, v)]
  | (b, w) :: r => if String.eqb a b then (a, v) :: r else (b, w) :: setattr r a v
  end.
Fixpoint getattr (o : vobj) (a : string) : option vval :=
  match o with
  | [] => None
  | (b, w) :: r => if String.eqb a b then Some w else getattr r a
  end.
Definition attr_names (o : vobj) : list string := map fst o.

(* where a fit can raise: while fitting the marginal of a column (uni.fit / cumulative_distribution), or inside train_vine *)
Inductive fit_outcome := FitReturns | RaisesInMarginal | RaisesInTrainVine.
