(* Denotation of the Python operations used by the Prim loops of
   RegularTree._build_first_tree / ._build_kth_tree (copulas/multivariate/tree.py)
   as they are emitted by tools/vf/vineregulargen.py into Gen_vinebuild.v, and
   the loop lemmas that connect them with Vine.prim_loop.

   Conventions (the ones of Model/Vine.v):
   - a Python set of ints (`X`, `visited`, `unvisited`) is the list of its
     elements in INSERTION order, without duplicates: `{0}` is [0],
     `set(range(n))` is seq 0 n, `S.add(k)` appends k unless it is present
     ([oset_add]), `S.remove(k)` deletes it (KeyError = None when it is absent,
     [oset_remove]), `len(S)` is [length], `k in S` is [memb], `for x in S`
     visits the list ([pyset_iter]);
   - a set of pairs (`adj_set`) likewise ([pairset_add]).  The iteration order
     of a real Python set is NOT the insertion order: wherever the source
     iterates over `adj_set` it does so inside `sorted(adj_set, key=..)[0]`,
     which is [py_sorted_head]: the unspecified iteration order is the
     parameter [order] (an arbitrary function of the insertion-ordered list:
     Vine.order_t) and the head of the sorted list is the parameter [sel]
     (Vine.sel_t; CPython's listsort is Vine.pick_py).  The order in which
     `for x in visited` visits the set only decides the insertion order of
     `adj_set`, i.e. is absorbed by [order];
   - `list(S)` of a set that was built as `set(range(n))` and only had elements
     removed is the ascending list ([pyset_list]; CPython iterates a set of
     small non-negative ints in ascending order: Model/Vine.v keeps `unvisited`
     as an increasing list and takes its first element);
   - `while c: body` is [py_while fuel c body]: at most [fuel] rounds, None =
     an exception or no termination within the fuel; `continue` ends the round
     with the current state.
   The section [PrimWhile] relates two hand-written step functions (proof
   devices: the Props file shows that the GENERATED loop bodies are equal to
   them) to Vine.prim_loop. *)
From Coq Require Import List Arith ZArith QArith Lia Bool Permutation.
From Cop Require Import Lib.FinGraph Model.Vine Spec.VineDefs Spec.VineSets
     Lib.PySet Lib.PyMat Spec.VineRegular.
Import ListNotations.
Open Scope nat_scope.

(* ------------------------------------------------------------------ *)
(** * insertion-ordered sets                                           *)
(* for x in S *)
Definition pyset_iter (s : list nat) : list nat := s.
(* list(S), S = set(range(n)) minus some elements *)
Definition pyset_list (s : list nat) : list nat := s.
(* S.add(k) *)
Definition oset_add (s : list nat) (k : nat) : list nat :=
  if memb k s then s else s ++ [k].
(* S.remove(k); None = KeyError *)
Definition oset_remove (s : list nat) (k : nat) : option (list nat) :=
  if memb k s then Some (filter (fun u => negb (u =? k)) s) else None.
(* p in S, S.add(p) for a set of pairs *)
Definition pair_memb (p : nat * nat) (s : list (nat * nat)) : bool :=
  existsb (pair_eqb p) s.
Definition pairset_add (s : list (nat * nat)) (p : nat * nat) : list (nat * nat) :=
  if pair_memb p s then s else s ++ [p].
(* sorted(S, key=f)[0]; None = IndexError *)
Definition py_sorted_head (sel : sel_t) (order : order_t)
           (key : nat * nat -> option Q) (s : list (nat * nat)) : option (nat * nat) :=
  sel key (order s).

(* while cond(st): st = body(st) *)
Fixpoint py_while {St : Type} (fuel : nat) (cond : St -> bool)
         (body : St -> option St) (s : St) : option St :=
  if cond s then
    match fuel with
    | 0 => None
    | S f => match body s with
             | Some s' => py_while f cond body s'
             | None => None
             end
    end
  else Some s.

Lemma py_while_ext_inv {St : Type} (I : St -> Prop) (c1 c2 : St -> bool)
      (b1 b2 : St -> option St) :
  (forall s, I s -> c1 s = c2 s) ->
  (forall s, I s -> b1 s = b2 s) ->
  (forall s s', I s -> b2 s = Some s' -> I s') ->
  forall fuel s, I s -> py_while fuel c1 b1 s = py_while fuel c2 b2 s.
Proof.
  intros Hc Hb Hp. induction fuel as [|f IH]; intros s Hs; simpl.
  - now rewrite Hc.
  - rewrite Hc, Hb by assumption. destruct (c2 s); [|reflexivity].
    destruct (b2 s) as [s'|] eqn:E; [|reflexivity]. apply IH. eapply Hp; eauto.
Qed.

(* a `for` loop whose body cannot raise *)
Lemma py_for_opt_some {St : Type} (body : St -> nat -> option St) (f : St -> nat -> St) :
  forall ks s, (forall s k, In k ks -> body s k = Some (f s k)) ->
  py_for_opt ks body s = Some (fold_left f ks s).
Proof.
  induction ks as [|k ks IH]; intros s H; simpl; [reflexivity|].
  rewrite H by (left; reflexivity). apply IH. intros s' k' Hk'. apply H. now right.
Qed.

(* a `for` loop that raises at a given round *)
Lemma py_for_opt_none_at {St : Type} (body : St -> nat -> option St) k :
  forall ks1 ks2 s,
  (forall s k', In k' ks1 -> body s k' <> None) -> (forall s, body s k = None) ->
  py_for_opt (ks1 ++ k :: ks2) body s = None.
Proof.
  induction ks1 as [|a ks1 IH]; intros ks2 s H1 H2; simpl.
  - now rewrite H2.
  - destruct (body s a) as [s'|] eqn:E.
    + apply IH; auto. intros s0 k' Hk'. apply H1. now right.
    + exfalso. apply (H1 s a); auto. now left.
Qed.

Lemma pair_eqb_eq a b : pair_eqb a b = true <-> a = b.
Proof.
  unfold pair_eqb. rewrite andb_true_iff, !Nat.eqb_eq. destruct a, b; simpl.
  split; [intros [-> ->]; reflexivity | intros E; injection E; auto].
Qed.

Lemma pair_memb_In p s : pair_memb p s = true <-> In p s.
Proof.
  unfold pair_memb. rewrite existsb_exists. split.
  - intros [q [Hq E]]. apply pair_eqb_eq in E. now subst.
  - intros H. exists p. split; auto. now apply pair_eqb_eq.
Qed.

Lemma pair_memb_false p s : pair_memb p s = false <-> ~ In p s.
Proof. rewrite <- pair_memb_In. destruct (pair_memb p s); intuition congruence. Qed.

Lemma oset_add_new s k : ~ In k s -> oset_add s k = s ++ [k].
Proof. intros H. unfold oset_add. apply memb_false in H. now rewrite H. Qed.

Lemma oset_add_In s k v : In v (oset_add s k) <-> In v s \/ v = k.
Proof.
  unfold oset_add. destruct (memb k s) eqn:E.
  - apply memb_In in E. split; [auto|]. intros [H| ->]; auto.
  - rewrite in_app_iff. simpl. intuition.
Qed.

Lemma oset_add_NoDup s k : NoDup s -> NoDup (oset_add s k).
Proof.
  intros H. unfold oset_add. destruct (memb k s) eqn:E; [assumption|].
  apply memb_false in E. apply (Permutation_NoDup (l := k :: s)).
  - apply Permutation_cons_append.
  - now constructor.
Qed.

Lemma oset_remove_In s k : In k s -> oset_remove s k = Some (filter (fun u => negb (u =? k)) s).
Proof. intros H. unfold oset_remove. apply memb_In in H. now rewrite H. Qed.

(* ------------------------------------------------------------------ *)
(** * the double loop that builds `adj_set`                            *)
(* one round of the inner loop: `if k not in V and k != x and ok(x, k): adj_set.add((x, k))` *)
Definition adj_step (V : list nat) (ok : nat -> nat -> bool) (x : nat)
           (s : list (nat * nat)) (k : nat) : list (nat * nat) :=
  if negb (memb k V) && negb (k =? x) && ok x k then pairset_add s (x, k) else s.

Lemma adj_inner V ok x : forall ks acc,
  NoDup ks -> (forall k, In k ks -> ~ In (x, k) acc) ->
  fold_left (adj_step V ok x) ks acc
  = acc ++ map (fun k => (x, k))
               (filter (fun k => negb (memb k V) && negb (k =? x) && ok x k) ks).
Proof.
  induction ks as [|k ks IH]; intros acc Hnd Hacc; simpl.
  - now rewrite app_nil_r.
  - inversion Hnd as [|k0 ks0 Hk Hnd']; subst.
    unfold adj_step at 2.
    destruct (negb (memb k V) && negb (k =? x) && ok x k) eqn:E.
    + unfold pairset_add.
      replace (pair_memb (x, k) acc) with false
        by (symmetry; apply pair_memb_false, Hacc; now left).
      rewrite IH; auto.
      * simpl. now rewrite <- app_assoc.
      * intros k' Hk' Hin. apply in_app_or in Hin. destruct Hin as [Hin|[Heq|[]]].
        -- apply (Hacc k'); auto. now right.
        -- injection Heq as ->. contradiction.
    + apply IH; auto. intros k' Hk'. apply Hacc. now right.
Qed.

Lemma adj_outer n V ok : forall W acc,
  NoDup W -> (forall x k, In x W -> ~ In (x, k) acc) ->
  fold_left (fun s x => fold_left (adj_step V ok x) (seq 0 n) s) W acc
  = acc ++ flat_map (fun x => map (fun k => (x, k))
                     (filter (fun k => negb (memb k V) && negb (k =? x) && ok x k) (seq 0 n))) W.
Proof.
  induction W as [|x W IH]; intros acc Hnd Hacc; simpl.
  - now rewrite app_nil_r.
  - inversion Hnd as [|x0 W0 Hx Hnd']; subst.
    rewrite adj_inner.
    + rewrite IH; auto.
      * now rewrite <- app_assoc.
      * intros x' k' Hx' Hin. apply in_app_or in Hin. destruct Hin as [Hin|Hin].
        -- apply (Hacc x' k'); auto. now right.
        -- apply in_map_iff in Hin. destruct Hin as [k0 [E _]]. injection E as -> _. contradiction.
    + apply seq_NoDup.
    + intros k _. apply Hacc. now left.
Qed.

(* `adj_set = set(); for x in V: for k in range(n): if ..: adj_set.add((x, k))` is Vine.cands *)
Lemma adj_cands n ok V : NoDup V ->
  fold_left (fun s x => fold_left (adj_step V ok x) (seq 0 n) s) V [] = cands n ok V.
Proof.
  intros Hnd. rewrite adj_outer; auto.
Qed.

(* ------------------------------------------------------------------ *)
(** * the two Prim loops                                               *)
Lemma prim_loop_S sel f n ok key order escape V unv :
  prim_loop sel (S f) n ok key order escape V unv =
  if length V =? n then ([], V, Done) else
  match sel key (order (cands n ok V)) with
  | None =>
      if escape then
        match unv with
        | [] => ([], V, Crash)
        | u :: _ => prim_loop sel f n ok key order escape
                              (if memb u V then V else V ++ [u]) unv
        end
      else ([], V, Crash)
  | Some (x, k) =>
      let '(r, v, o) := prim_loop sel f n ok key order escape (V ++ [k])
                                  (filter (fun u => negb (u =? k)) unv) in
      ((length V - 1, x, k) :: r, v, o)
  end.
Proof. reflexivity. Qed.

Lemma prim_loop_0 sel n ok key order escape V unv :
  prim_loop sel 0 n ok key order escape V unv =
  if length V =? n then ([], V, Done) else ([], V, OutOfFuel).
Proof. reflexivity. Qed.

(* the loop tests `len(X) != self.n_nodes` *)
Definition prim_first_test (n : nat) (st : list nat * list edge) : bool :=
  let '(V, es) := st in negb (length V =? n).
Definition prim_kth_test (n : nat) (st : list nat * list nat * list edge) : bool :=
  let '(V, unv, es) := st in negb (length V =? n).

(* one round of the first-tree loop: state (X, self.edges) *)
Definition prim_first_step (sel : sel_t) (order : order_t) (n : nat)
           (key : nat * nat -> option Q) (st : list nat * list edge)
  : option (list nat * list edge) :=
  let '(V, es) := st in
  match sel key (order (cands n (fun _ _ => true) V)) with
  | Some p =>
      Some (oset_add V (snd p),
            es ++ [mkEdge (length V - 1) (Nat.min (fst p) (snd p)) (Nat.max (fst p) (snd p)) [] None])
  | None => None
  end.

(* one round of the k-th tree loop: state (visited, unvisited, self.edges) *)
Definition prim_kth_step (sel : sel_t) (order : order_t) (level n : nat)
           (key : nat * nat -> option Q) (prev : list edge)
           (st : list nat * list nat * list edge)
  : option (list nat * list nat * list edge) :=
  let '(V, unv, es) := st in
  match cands n (ok_kth level prev) V with
  | [] => match unv with
          | u :: _ => Some (oset_add V u, unv, es)
          | [] => None
          end
  | c :: r =>
      match sel key (order (c :: r)) with
      | Some p =>
          match kth_edge_of prev (length V - 1, fst p, snd p) with
          | Some e =>
              match oset_remove unv (snd p) with
              | Some unv' => Some (oset_add V (snd p), unv', es ++ [e])
              | None => None
              end
          | None => None
          end
      | None => None
      end
  end.

Section PrimWhile.
  Variables (sel : sel_t) (order : order_t) (n : nat) (key : nat * nat -> option Q).
  Hypothesis Hsel_in : sel_in sel.
  Hypothesis Horder : perm_fun order.

  Lemma sel_cand ok V x k :
    sel key (order (cands n ok V)) = Some (x, k) ->
    In x V /\ k < n /\ ~ In k V /\ k <> x /\ ok x k = true.
  Proof.
    intros H. apply Hsel_in in H.
    eapply Permutation_in in H; [|apply Permutation_sym, Horder].
    now apply cands_spec in H.
  Qed.

  Lemma sel_order_nil : sel key (order []) = None.
  Proof.
    destruct (sel key (order [])) as [e|] eqn:E; [|reflexivity].
    apply Hsel_in in E. eapply Permutation_in in E; [|apply Permutation_sym, Horder].
    destruct E.
  Qed.

  (* first tree: `X = {0}; while len(X) != n: ...` *)
  Lemma prim_first_while : forall fuel V unv es,
    option_map snd (py_while fuel (prim_first_test n) (prim_first_step sel order n key) (V, es))
    = match prim_loop sel fuel n (fun _ _ => true) key order false V unv with
      | (tr, _, Done) => Some (es ++ map first_edge_of tr)
      | _ => None
      end.
  Proof.
    induction fuel as [|f IH]; intros V unv es.
    - rewrite prim_loop_0. simpl. destruct (length V =? n); simpl; [|reflexivity].
      now rewrite app_nil_r.
    - rewrite prim_loop_S. cbn [py_while prim_first_test].
      destruct (length V =? n); cbn [negb].
      { simpl. now rewrite app_nil_r. }
      cbn [prim_first_step].
      destruct (sel key (order (cands n (fun _ _ => true) V))) as [[x k]|] eqn:Es; [|reflexivity].
      destruct (sel_cand _ _ _ _ Es) as (Hx & Hk & HkV & Hne & _).
      cbn [fst snd]. rewrite (oset_add_new V k HkV).
      rewrite (IH (V ++ [k]) (filter (fun u => negb (u =? k)) unv)).
      destruct (prim_loop sel f n (fun _ _ => true) key order false (V ++ [k])
                          (filter (fun u => negb (u =? k)) unv)) as [[r v] o].
      destruct o; try reflexivity.
      cbn [map first_edge_of]. now rewrite <- app_assoc.
  Qed.

  (* k-th tree *)
  Hypothesis Hsel_some : sel_some sel.
  Variables (level : nat) (prev : list edge).

  Lemma prim_kth_while : forall fuel V unv es,
    (forall u, u < n -> ~ In u V -> In u unv) ->
    option_map snd (py_while fuel (prim_kth_test n) (prim_kth_step sel order level n key prev) (V, unv, es))
    = match prim_loop sel fuel n (ok_kth level prev) key order true V unv with
      | (tr, _, Done) => option_map (app es) (map_opt (kth_edge_of prev) tr)
      | _ => None
      end.
  Proof.
    induction fuel as [|f IH]; intros V unv es Hunv.
    - rewrite prim_loop_0. simpl. destruct (length V =? n); simpl; [|reflexivity].
      now rewrite app_nil_r.
    - rewrite prim_loop_S. cbn [py_while prim_kth_test].
      destruct (length V =? n); cbn [negb].
      { simpl. now rewrite app_nil_r. }
      cbn [prim_kth_step].
      destruct (cands n (ok_kth level prev) V) as [|c r] eqn:Ec.
      + (* `len(adj_set) == 0`: visited.add(list(unvisited)[0]); continue *)
        rewrite sel_order_nil.
        destruct unv as [|u unv']; [reflexivity|].
        change (if memb u V then V else V ++ [u]) with (oset_add V u).
        apply IH. intros w Hw HwV. apply Hunv; auto.
        intros HV. apply HwV. apply oset_add_In. now left.
      + rewrite <- Ec.
        destruct (sel key (order (cands n (ok_kth level prev) V))) as [[x k]|] eqn:Es.
        * destruct (sel_cand _ _ _ _ Es) as (Hx & Hk & HkV & Hne & _).
          cbn [fst snd]. rewrite (oset_add_new V k HkV).
          rewrite (oset_remove_In unv k (Hunv k Hk HkV)).
          destruct (kth_edge_of prev (length V - 1, x, k)) as [e|] eqn:Ee.
          -- rewrite (IH (V ++ [k]) (filter (fun u => negb (u =? k)) unv)).
             2:{ intros w Hw HwV. apply filter_In. split.
                 - apply Hunv; auto. intros HV. apply HwV. apply in_or_app. now left.
                 - apply negb_true_iff, Nat.eqb_neq. intros ->. apply HwV.
                   apply in_or_app. right. now left. }
             destruct (prim_loop sel f n (ok_kth level prev) key order true (V ++ [k])
                                 (filter (fun u => negb (u =? k)) unv)) as [[r' v] o].
             destruct o; try reflexivity.
             cbn [map_opt]. rewrite Ee.
             destruct (map_opt (kth_edge_of prev) r') as [ys|]; [|reflexivity].
             simpl. now rewrite <- app_assoc.
          -- destruct (prim_loop sel f n (ok_kth level prev) key order true (V ++ [k])
                                 (filter (fun u => negb (u =? k)) unv)) as [[r' v] o].
             destruct o; try reflexivity.
             cbn [map_opt]. now rewrite Ee.
        * exfalso. apply Hsel_some in Es. rewrite Ec in Es.
          pose proof (Horder (c :: r)) as HP. rewrite Es in HP.
          apply Permutation_sym, Permutation_nil in HP. discriminate.
  Qed.

  (* the invariant under which the generated body of the k-th loop is [prim_kth_step] *)
  Definition kth_inv (st : list nat * list nat * list edge) : Prop :=
    let '(V, unv, es) := st in
    NoDup V /\ (forall v, In v V -> v < n) /\ (forall u, In u unv -> u < n).

  Lemma prim_kth_step_inv st st' :
    kth_inv st -> prim_kth_step sel order level n key prev st = Some st' -> kth_inv st'.
  Proof.
    destruct st as [[V unv] es]. intros (Hnd & HV & Hunv). cbn [prim_kth_step].
    destruct (cands n (ok_kth level prev) V) as [|c r] eqn:Ec.
    - destruct unv as [|u unv']; [discriminate|]. intros E. injection E as <-.
      repeat split.
      + now apply oset_add_NoDup.
      + intros v Hv. apply oset_add_In in Hv. destruct Hv as [Hv| ->]; auto.
        apply Hunv. now left.
      + assumption.
    - rewrite <- Ec.
      destruct (sel key (order (cands n (ok_kth level prev) V))) as [[x k]|] eqn:Es; [|discriminate].
      destruct (sel_cand _ _ _ _ Es) as (Hx & Hk & HkV & Hne & _).
      cbn [fst snd].
      destruct (kth_edge_of prev (length V - 1, x, k)) as [e|]; [|discriminate].
      unfold oset_remove. destruct (memb k unv); [|discriminate].
      intros E. injection E as <-. repeat split.
      + now apply oset_add_NoDup.
      + intros v Hv. apply oset_add_In in Hv. destruct Hv as [Hv| ->]; auto.
      + intros u Hu. apply filter_In in Hu. apply Hunv. tauto.
  Qed.

  Lemma prim_first_step_inv (st st' : list nat * list edge) :
    NoDup (fst st) -> prim_first_step sel order n key st = Some st' -> NoDup (fst st').
  Proof.
    destruct st as [V es]. cbn [fst prim_first_step]. intros Hnd.
    destruct (sel key (order (cands n (fun _ _ => true) V))) as [p|]; [|discriminate].
    intros E. injection E as <-. cbn [fst]. now apply oset_add_NoDup.
  Qed.
End PrimWhile.
