(* C05: marginal model choice.  Executable model, stdlib only, no Reals.

   Python being modelled
   ---------------------
   copulas/univariate/selection.py

     def select_univariate(X, candidates):
         best_ks = np.inf
         best_model = None
         for model in candidates:
             try:
                 instance = get_instance(model)
                 instance.fit(X)
                 ks, _ = kstest(X, instance.cdf)
                 if ks < best_ks:
                     best_ks = ks
                     best_model = model
             except Exception:
                 pass
         return get_instance(best_model)

   copulas/utils.py

     def get_instance(obj, **kwargs):
         instance = None
         if isinstance(obj, str): ...
         elif isinstance(obj, type): instance = obj( **kwargs)
         else:
             if kwargs: ...
             else:
                 args = getattr(obj, '__args__', ())
                 kwargs = getattr(obj, '__kwargs__', {})
                 instance = obj.__class__( *args, **kwargs)
         return instance

     get_instance(None):  None is neither str nor type, kwargs is empty,
     getattr(None,'__args__',()) = (), getattr(None,'__kwargs__',{}) = {},
     None.__class__() = NoneType() = None.   =>  returns None, NO exception.
     (checked on the real library: get_instance(None) is None, and
      select_univariate(X, [Bad]) is None when Bad.fit raises.)

   copulas/univariate/base.py

     def __init__(self, candidates=None, parametric=None, bounded=None, ...):
         self.candidates = candidates or self._select_candidates(parametric, bounded)

     @classmethod
     def _select_candidates(cls, parametric=None, bounded=None):
         candidates = []
         for subclass in cls.__subclasses__():
             candidates.extend(subclass._select_candidates(parametric, bounded))
             if ABC in subclass.__bases__:           continue
             if parametric is not None and subclass.PARAMETRIC != parametric: continue
             if bounded is not None and subclass.BOUNDED != bounded:          continue
             candidates.append(subclass)
         return candidates

     def fit(self, X):
         ... selection_sample = X (or np.random.choice subsample)
         self._instance = select_univariate(selection_sample, self.candidates)
         self._instance.fit(X)        # AttributeError: 'NoneType' object has no attribute 'fit'
         self.fitted = True           #   when every candidate failed

   copulas/multivariate/gaussian.py

     def _fit_columns(self, X):
         columns = []; univariates = []
         for column_name, column in X.items():
             distribution = self._get_distribution_for_column(column_name)
             univariate = self._fit_column(column, distribution, column_name)
             columns.append(column_name); univariates.append(univariate)
         return columns, univariates
     def _get_distribution_for_column(self, column_name):
         if isinstance(self.distribution, dict):
             return self.distribution.get(column_name, DEFAULT_DISTRIBUTION)
         return self.distribution
     def _fit_column(self, column, distribution, column_name):
         univariate = get_instance(distribution)          # OUTSIDE the try
         try:                univariate.fit(column)
         except Exception as error:
             univariate = self._fit_with_fallback_distribution(column, distribution, column_name, error)
         return univariate
     def _fit_with_fallback_distribution(...):
         univariate = GaussianUnivariate(); univariate.fit(column); return univariate
*)
From Coq Require Import List Bool QArith ZArith.
Import ListNotations.

(* strict order on Q as a boolean: x < y  <->  not (y <= x) *)
Definition Qltb (x y : Q) : bool := negb (Qle_bool y x).

(* ------------------------------------------------------------------ *)
(** * select_univariate *)

(* What happens inside the try-block for one candidate. *)
Inductive outcome :=
| Raised              (* get_instance / fit / kstest raised: except Exception: pass *)
| KsNaN               (* kstest returned nan: `ks < best_ks` is False             *)
| KsInf               (* ks = +inf: `inf < best_ks` is False for every best_ks    *)
| Ks (k : Q).         (* finite statistic                                          *)

(* The comparable part of an outcome: [None] means "can never be selected". *)
Definition ks_of (o : outcome) : option Q :=
  match o with Ks k => Some k | _ => None end.

Section SelectUnivariate.
  Variable cand : Type.

  (* best_ks : None = np.inf *)
  Definition lt_best (ks : Q) (best : option Q) : bool :=
    match best with None => true | Some b => Qltb ks b end.

  (* loop state: (best_ks, best_model) *)
  Definition sel_state := (option Q * option cand)%type.
  Definition sel_init : sel_state := (None, None).

  (* --- model with the collapsed oracle [try_fit : cand -> option Q] --- *)
  Section Collapsed.
    Variable try_fit : cand -> option Q.

    Definition sel_step (st : sel_state) (m : cand) : sel_state :=
      match try_fit m with
      | None => st
      | Some ks => if lt_best ks (fst st) then (Some ks, Some m) else st
      end.

    Definition sel_loop (cands : list cand) : sel_state :=
      fold_left sel_step cands sel_init.

    (* the value of [best_model] when the loop ends *)
    Definition select_best (cands : list cand) : option cand :=
      snd (sel_loop cands).
  End Collapsed.

  (* --- model with the detailed 4-way outcome --- *)
  Section Detailed.
    Variable try_fit4 : cand -> outcome.

    Definition sel_step4 (st : sel_state) (m : cand) : sel_state :=
      match try_fit4 m with
      | Raised => st
      | KsNaN  => st                       (* nan < best_ks is False *)
      | KsInf  => st                       (* inf < best_ks is False *)
      | Ks ks  => if lt_best ks (fst st) then (Some ks, Some m) else st
      end.

    Definition select_best4 (cands : list cand) : option cand :=
      snd (fold_left sel_step4 cands sel_init).
  End Detailed.

  (* get_instance on the loop result.  [PyNone] is the Python object None. *)
  Inductive pyobj :=
  | PyNone
  | FreshInstance (m : cand).   (* a NEW, unfitted instance built from candidate m *)

  Definition get_instance_opt (o : option cand) : pyobj :=
    match o with None => PyNone | Some m => FreshInstance m end.

  Definition select_univariate (try_fit : cand -> option Q) (cands : list cand) : pyobj :=
    get_instance_opt (select_best try_fit cands).

  (* Univariate.fit: select, then fit the fresh instance on the full data.
     [refit m] = does `self._instance.fit(X)` succeed for a fresh instance of m. *)
  Inductive fit_error :=
  | AttributeError_NoneType_fit     (* 'NoneType' object has no attribute 'fit' *)
  | RefitRaised.                    (* the final fit on the full data raised     *)

  Inductive fit_result :=
  | FitOk (m : cand)                (* self._instance = fitted instance of m; self.fitted = True *)
  | FitErr (e : fit_error).         (* self.fitted stays False *)

  Definition univariate_fit (try_fit : cand -> option Q) (refit : cand -> bool)
             (cands : list cand) : fit_result :=
    match select_univariate try_fit cands with
    | PyNone => FitErr AttributeError_NoneType_fit
    | FreshInstance m => if refit m then FitOk m else FitErr RefitRaised
    end.
End SelectUnivariate.

Arguments PyNone {cand}.
Arguments FreshInstance {cand} m.
Arguments FitOk {cand} m.
Arguments FitErr {cand} e.

(* ------------------------------------------------------------------ *)
(** * _select_candidates over an explicit class tree *)

Inductive parametric_type := NON_PARAMETRIC | PARAMETRIC.
Inductive bounded_type := UNBOUNDED | SEMI_BOUNDED | BOUNDED.

Definition parametric_eqb (a b : parametric_type) : bool :=
  match a, b with
  | NON_PARAMETRIC, NON_PARAMETRIC | PARAMETRIC, PARAMETRIC => true
  | _, _ => false
  end.
Definition bounded_eqb (a b : bounded_type) : bool :=
  match a, b with
  | UNBOUNDED, UNBOUNDED | SEMI_BOUNDED, SEMI_BOUNDED | BOUNDED, BOUNDED => true
  | _, _ => false
  end.

Section ClassTree.
  Variable name : Type.

  (* facts about one class: its name, the value of the (inherited or overridden)
     class attributes PARAMETRIC / BOUNDED, and whether `ABC in cls.__bases__`
     (DIRECT bases only). *)
  Record class_info := {
    cname : name;
    cparam : parametric_type;
    cbound : bounded_type;
    cabc : bool
  }.

  (* a class together with `cls.__subclasses__()` in definition order *)
  Inductive ctree := CNode (info : class_info) (subs : list ctree).

  Definition tag_ok {A} (eqb : A -> A -> bool) (filter : option A) (tag : A) : bool :=
    match filter with None => true | Some f => eqb tag f end.

  (* does the subclass itself get appended? *)
  Definition accepts (p : option parametric_type) (b : option bounded_type)
             (c : class_info) : bool :=
    negb (cabc c) && tag_ok parametric_eqb p (cparam c) && tag_ok bounded_eqb b (cbound c).

  (* cls._select_candidates(p, b) where cls is the root of [t]: the root itself is
     never a candidate; each subclass contributes its own descendants FIRST and
     then itself. *)
  Fixpoint select_candidates (p : option parametric_type) (b : option bounded_type)
           (t : ctree) : list name :=
    match t with
    | CNode _ subs =>
        flat_map (fun s =>
                    select_candidates p b s ++
                    (match s with CNode i _ => if accepts p b i then [cname i] else [] end))
                 subs
    end.

  (* all proper descendants in the same (post-order) traversal order *)
  Fixpoint descendants (t : ctree) : list class_info :=
    match t with
    | CNode _ subs =>
        flat_map (fun s => descendants s ++ (match s with CNode i _ => [i] end)) subs
    end.

  (* Univariate.__init__: `candidates or self._select_candidates(parametric, bounded)`
     — an explicit NON-EMPTY list overrides the filters; None and [] do not. *)
  Definition init_candidates (explicit : option (list name))
             (p : option parametric_type) (b : option bounded_type) (t : ctree) : list name :=
    match explicit with
    | Some (c :: cs) => c :: cs
    | _ => select_candidates p b t
    end.
End ClassTree.

Arguments Build_class_info {name}.
Arguments CNode {name}.
Arguments cname {name}.
Arguments cparam {name}.
Arguments cbound {name}.
Arguments cabc {name}.

(* The class tree of the repository (extracted with
   walk(Univariate) printing name, PARAMETRIC, BOUNDED, ABC in __bases__). *)
Inductive uname :=
| Univariate | ScipyModel | BetaUnivariate | GammaUnivariate | GaussianUnivariate
| GaussianKDE | LogLaplace | StudentTUnivariate | TruncatedGaussian | UniformUnivariate.

Definition leaf (n : uname) p b : ctree uname := CNode (Build_class_info n p b false) [].

Definition repo_tree : ctree uname :=
  CNode (Build_class_info Univariate NON_PARAMETRIC UNBOUNDED false)
    [ CNode (Build_class_info ScipyModel NON_PARAMETRIC UNBOUNDED true)
        [ leaf BetaUnivariate PARAMETRIC BOUNDED;
          leaf GammaUnivariate PARAMETRIC SEMI_BOUNDED;
          leaf GaussianUnivariate PARAMETRIC UNBOUNDED;
          leaf GaussianKDE NON_PARAMETRIC UNBOUNDED;
          leaf LogLaplace PARAMETRIC SEMI_BOUNDED;
          leaf StudentTUnivariate PARAMETRIC UNBOUNDED;
          leaf TruncatedGaussian PARAMETRIC BOUNDED;
          leaf UniformUnivariate PARAMETRIC BOUNDED ] ].

(* ------------------------------------------------------------------ *)
(** * per-column configuration and fallback (GaussianMultivariate._fit_columns) *)

Section ColumnConfig.
  Variables label dist fitted col : Type.
  Variable label_eqb : label -> label -> bool.

  (* self.distribution: a single class/name/instance, or a dict label -> dist *)
  Inductive dist_config :=
  | Single (d : dist)
  | PerColumn (entries : list (label * dist)).

  Fixpoint assoc {B} (k : label) (l : list (label * B)) : option B :=
    match l with
    | [] => None
    | (k', v) :: tl => if label_eqb k k' then Some v else assoc k tl
    end.

  Variable default_distribution : dist.      (* DEFAULT_DISTRIBUTION = Univariate *)
  Variable gaussian : dist.                  (* GaussianUnivariate *)

  Definition get_distribution_for_column (cfg : dist_config) (c : label) : dist :=
    match cfg with
    | Single d => d
    | PerColumn entries =>
        match assoc c entries with Some d => d | None => default_distribution end
    end.

  (* oracles *)
  Variable instantiable : dist -> bool.      (* get_instance(distribution) returns *)
  Variable fit_dist : dist -> col -> option fitted.   (* fresh instance .fit(column); None = raised *)

  Inductive column_error :=
  | GetInstanceRaised        (* get_instance(distribution) raised: NOT caught *)
  | FallbackRaised.          (* GaussianUnivariate().fit(column) raised: NOT caught *)

  Inductive col_result :=
  | ColOk (f : fitted) (used_fallback : bool)
  | ColErr (e : column_error).

  Definition fit_with_fallback_distribution (column : col) : col_result :=
    match fit_dist gaussian column with
    | Some f => ColOk f true
    | None => ColErr FallbackRaised
    end.

  Definition fit_column (column : col) (d : dist) : col_result :=
    if instantiable d then
      match fit_dist d column with
      | Some f => ColOk f false
      | None => fit_with_fallback_distribution column
      end
    else ColErr GetInstanceRaised.

  (* _fit_columns: X.items() is a list of (label, column) in frame order *)
  Fixpoint fit_columns_aux (cfg : dist_config) (items : list (label * col))
           (columns : list label) (univariates : list fitted)
    : (list label * list fitted) + column_error :=
    match items with
    | [] => inl (columns, univariates)
    | (c, column) :: tl =>
        match fit_column column (get_distribution_for_column cfg c) with
        | ColOk f _ => fit_columns_aux cfg tl (columns ++ [c]) (univariates ++ [f])
        | ColErr e => inr e
        end
    end.

  Definition fit_columns (cfg : dist_config) (items : list (label * col)) :=
    fit_columns_aux cfg items [] [].
End ColumnConfig.

Arguments Single {label dist} d.
Arguments PerColumn {label dist} entries.
Arguments ColOk {fitted} f used_fallback.
Arguments ColErr {fitted} e.

(* ------------------------------------------------------------------ *)
(** * evaluation checks *)

(* candidates 0..4 with ks: raise, 0.3, 0.2, nan/raise, 0.2 -> index 2 (first minimum) *)
Definition demo_try (m : nat) : option Q :=
  match m with
  | 1%nat => Some (3#10) | 2%nat => Some (2#10) | 4%nat => Some (1#5) | _ => None
  end.
Eval vm_compute in select_univariate nat demo_try [0;1;2;3;4]%nat.
Eval vm_compute in select_univariate nat demo_try [0;3]%nat.
Eval vm_compute in univariate_fit nat demo_try (fun _ => true) [0;3]%nat.

Eval vm_compute in select_candidates uname None None repo_tree.
Eval vm_compute in select_candidates uname (Some PARAMETRIC) None repo_tree.
Eval vm_compute in select_candidates uname None (Some BOUNDED) repo_tree.
Eval vm_compute in select_candidates uname (Some PARAMETRIC) (Some SEMI_BOUNDED) repo_tree.

(* ------------------------------------------------------------------ *)
(** * copulas.utils.get_instance(obj) with no kwargs: the four-way dispatch *)

Section GetInstance.
  Variables qualname cls args : Type.

  Inductive pyarg :=
  | ArgNone                               (* the Python object None *)
  | ArgStr (q : qualname)                 (* a fully qualified class name *)
  | ArgType (c : cls)                     (* a class *)
  | ArgInstance (c : cls) (a : args).     (* an instance; a = its stored __args__/__kwargs__ *)

  Inductive pyinst :=
  | InstNone                              (* NoneType() is None *)
  | Inst (c : cls) (a : option args).     (* a NEW object of class c built with args a *)

  (* importlib.import_module(package) + getattr(module, name); None = it raised
     (no '.', ImportError, AttributeError) *)
  Variable import_class : qualname -> option cls.

  Definition get_instance (obj : pyarg) : option pyinst :=   (* None = an exception *)
    match obj with
    | ArgStr q => match import_class q with Some c => Some (Inst c None) | None => None end
    | ArgType c => Some (Inst c None)
    | ArgInstance c a => Some (Inst c (Some a))       (* obj.__class__( *args, **kwargs) *)
    | ArgNone => Some InstNone                        (* None.__class__() *)
    end.
End GetInstance.
Arguments ArgNone {qualname cls args}.
Arguments InstNone {cls args}.
