(* ========================================================================= *)
(*  C19 + C14 : model life-cycle and serialisation of sdv-dev/Copulas         *)
(*  Executable Gallina state machines (stdlib only, no Reals).                *)
(*                                                                            *)
(*  Faithful to /repo/copulas/{univariate,bivariate,multivariate}/*.py and    *)
(*  copulas/utils.py *including quirks*: instance-level method overrides that  *)
(*  are never cleared, data-derived min/max stored on self, _sample_size       *)
(*  cached by _get_model, Bivariate.to_dict without check_fit, class-level     *)
(*  `_subclasses` cache, ...                                                   *)
(* ========================================================================= *)
From Coq Require Import ZArith QArith List String Bool Ascii.
Import ListNotations.
Open Scope string_scope.
Open Scope list_scope.
Set Implicit Arguments.

(* ------------------------------------------------------------------------- *)
(* 1. Exceptions, JSON-like values                                            *)
(* ------------------------------------------------------------------------- *)
Inductive err :=
| NotFitted | ValueErr | TypeErr | AttributeErr | NotImplementedErr
| KeyErr | ImportErr | LinAlgErr
| Unmodelled.   (* input outside the modelled domain - never a claim about Python *)

Inductive result (A : Type) := Ok (a : A) | Err (e : err).
Arguments Ok {A}. Arguments Err {A}.

Definition bind {A B} (r : result A) (f : A -> result B) : result B :=
  match r with Ok a => f a | Err e => Err e end.
Notation "x <- r ;; k" := (bind r (fun x => k))
  (at level 61, r at next level, right associativity).

Inductive jv :=
| JNum (q : Q) | JInf (pos : bool) | JNaN
| JStr (s : string) | JList (l : list jv) | JDict (d : list (string * jv))
| JNone | JSet (l : list nat) | JBool (b : bool).

Definition dict := list (string * jv).
Definition qj (q : Q) : jv := JNum (Qred q).
Definition natj (n : nat) : jv := JNum (inject_Z (Z.of_nat n)).

(* Python truthiness *)
Definition truthy (j : jv) : bool :=
  match j with
  | JNone => false
  | JNum q => negb (Qeq_bool q 0)
  | JBool b => b
  | JStr s => negb (String.eqb s "")
  | JList l => match l with [] => false | _ => true end
  | JDict d => match d with [] => false | _ => true end
  | JSet l => match l with [] => false | _ => true end
  | JInf _ | JNaN => true
  end.

Definition is_none (j : jv) : bool := match j with JNone => true | _ => false end.

Definition jv_q (j : jv) : option Q :=
  match j with
  | JNum q => Some q
  | JBool b => Some (if b then 1 else 0)%Q
  | _ => None
  end.

(* a Python int usable as a size *)
Definition jv_nat (j : jv) : option nat :=
  match j with
  | JNum q => if (Qden q =? 1)%positive then Some (Z.to_nat (Qnum q)) else None
  | JBool b => Some (if b then 1 else 0)%nat
  | _ => None
  end.

(* Python `==` restricted to numbers (NaN <> NaN) *)
Definition jnum_eq (a b : jv) : bool :=
  match a, b with
  | JInf p, JInf p' => Bool.eqb p p'
  | JNaN, _ | _, JNaN => false
  | _, _ => match jv_q a, jv_q b with
            | Some x, Some y => Qeq_bool x y
            | _, _ => false
            end
  end.

(* dict-key equality (column names: str or int) *)
Definition jkey_eq (a b : jv) : bool :=
  match a, b with
  | JStr x, JStr y => String.eqb x y
  | JNum x, JNum y => Qeq_bool x y
  | _, _ => false
  end.

Fixpoint lookup {A} (k : string) (d : list (string * A)) : option A :=
  match d with
  | [] => None
  | (k', v) :: r => if String.eqb k k' then Some v else lookup k r
  end.

Definition has_key {A} (k : string) (d : list (string * A)) : bool :=
  match lookup k d with Some _ => true | None => false end.

(* d[k] = v : replace in place, else append (insertion order kept) *)
Fixpoint dict_set {A} (k : string) (v : A) (d : list (string * A)) : list (string * A) :=
  match d with
  | [] => [(k, v)]
  | (k', v') :: r => if String.eqb k k' then (k, v) :: r else (k', v') :: dict_set k v r
  end.

Fixpoint dict_remove {A} (k : string) (d : list (string * A)) : list (string * A) :=
  match d with
  | [] => []
  | (k', v') :: r => if String.eqb k k' then r else (k', v') :: dict_remove k r
  end.

Definition dict_pop {A} (k : string) (d : list (string * A)) : option (A * list (string * A)) :=
  match lookup k d with
  | Some v => Some (v, dict_remove k d)
  | None => None
  end.

Definition getd {A} (k : string) (d : list (string * A)) (dflt : A) : A :=
  match lookup k d with Some v => v | None => dflt end.

Definition mem_str (k : string) (l : list string) : bool := existsb (String.eqb k) l.

(* JSON safety: no JSet anywhere, keys are strings by construction *)
Fixpoint json_safe (j : jv) : bool :=
  match j with
  | JSet _ => false
  | JList l => (fix go (l : list jv) := match l with [] => true | x :: r => json_safe x && go r end) l
  | JDict d => (fix go (d : list (string * jv)) :=
                  match d with [] => true | (_, x) :: r => json_safe x && go r end) d
  | _ => true
  end.

(* Python binding of positional and keyword arguments to a signature *)
Definition bind_args {A} (names : list string) (args : list A) (kw : list (string * A))
  : result (list (string * A)) :=
  if (List.length names <? List.length args)%nat then Err TypeErr
  else
    let pos := combine names args in
    if existsb (fun kv => negb (mem_str (fst kv) names) || has_key (fst kv) pos) kw
    then Err TypeErr
    else Ok (pos ++ kw).

(* ------------------------------------------------------------------------- *)
(* 2. Names, classes, get_instance name resolution                            *)
(* ------------------------------------------------------------------------- *)
Inductive family :=
| FGaussian | FUniform | FBeta | FGamma | FStudentT | FLogLaplace | FTrunc | FKDE.

Inductive ctype := Clayton | Frank | Gumbel | Independence.

Inductive cls :=
| KFam (f : family) | KWrapper | KGM | KBivBase | KBiv (t : ctype).

Definition fam_module (f : family) : string :=
  match f with
  | FGaussian => "copulas.univariate.gaussian"
  | FUniform => "copulas.univariate.uniform"
  | FBeta => "copulas.univariate.beta"
  | FGamma => "copulas.univariate.gamma"
  | FStudentT => "copulas.univariate.student_t"
  | FLogLaplace => "copulas.univariate.log_laplace"
  | FTrunc => "copulas.univariate.truncated_gaussian"
  | FKDE => "copulas.univariate.gaussian_kde"
  end.

Definition fam_name (f : family) : string :=
  match f with
  | FGaussian => "GaussianUnivariate"
  | FUniform => "UniformUnivariate"
  | FBeta => "BetaUnivariate"
  | FGamma => "GammaUnivariate"
  | FStudentT => "StudentTUnivariate"
  | FLogLaplace => "LogLaplace"
  | FTrunc => "TruncatedGaussian"
  | FKDE => "GaussianKDE"
  end.

Definition all_families : list family :=
  (* order of ScipyModel.__subclasses__() observed on the real package *)
  [FBeta; FGamma; FGaussian; FKDE; FLogLaplace; FStudentT; FTrunc; FUniform].

Definition ctype_module (t : ctype) : string :=
  match t with
  | Clayton => "copulas.bivariate.clayton" | Frank => "copulas.bivariate.frank"
  | Gumbel => "copulas.bivariate.gumbel" | Independence => "copulas.bivariate.independence"
  end.
Definition ctype_class (t : ctype) : string :=
  match t with
  | Clayton => "Clayton" | Frank => "Frank" | Gumbel => "Gumbel" | Independence => "Independence"
  end.
Definition ctype_NAME (t : ctype) : string :=
  match t with
  | Clayton => "CLAYTON" | Frank => "FRANK" | Gumbel => "GUMBEL" | Independence => "INDEPENDENCE"
  end.

(* get_qualified_name *)
Definition fqn (c : cls) : string :=
  match c with
  | KFam f => (fam_module f ++ "." ++ fam_name f)%string
  | KWrapper => "copulas.univariate.base.Univariate"
  | KGM => "copulas.multivariate.gaussian.GaussianMultivariate"
  | KBivBase => "copulas.bivariate.base.Bivariate"
  | KBiv t => (ctype_module t ++ "." ++ ctype_class t)%string
  end.

(* obj.rsplit('.', 1) *)
Fixpoint rsplit_dot (s : string) : option (string * string) :=
  match s with
  | EmptyString => None
  | String c r =>
      match rsplit_dot r with
      | Some (a, b) => Some (String c a, b)
      | None => if Ascii.eqb c "."%char then Some (EmptyString, r) else None
      end
  end.

Definition known_modules : list string :=
  ["copulas"; "copulas.univariate"; "copulas.univariate.base"; "copulas.univariate.selection";
   "copulas.bivariate"; "copulas.bivariate.base"; "copulas.multivariate";
   "copulas.multivariate.base"; "copulas.multivariate.gaussian"; "copulas.multivariate.vine";
   "copulas.multivariate.tree"; "copulas.utils"; "copulas.errors"]
  ++ map fam_module all_families ++ map ctype_module [Clayton; Frank; Gumbel; Independence].

Definition all_classes : list cls :=
  map KFam all_families ++ [KWrapper; KGM; KBivBase; KBiv Clayton; KBiv Frank; KBiv Gumbel; KBiv Independence].

Definition cls_module (c : cls) : string :=
  match rsplit_dot (fqn c) with Some (m, _) => m | None => "" end.
Definition cls_name (c : cls) : string :=
  match rsplit_dot (fqn c) with Some (_, n) => n | None => "" end.

(* package-level re-exports: copulas.univariate.X, copulas.multivariate.GaussianMultivariate,
   copulas.bivariate.{Bivariate,Clayton,Frank,Gumbel} (Independence is NOT re-exported) *)
Definition package_of (c : cls) : option string :=
  match c with
  | KFam _ | KWrapper => Some "copulas.univariate"
  | KGM => Some "copulas.multivariate"
  | KBivBase | KBiv Clayton | KBiv Frank | KBiv Gumbel => Some "copulas.bivariate"
  | KBiv Independence => None
  end.

(* names that exist in the package but are not modelled as instantiable classes *)
Definition unmodelled_names : list string :=
  ["ScipyModel"; "VineCopula"; "Tree"; "Multivariate"; "ParametricType"; "BoundedType";
   "CopulaTypes"; "Edge"; "CenterTree"; "DirectTree"; "RegularTree"].

Definition resolve_name (s : string) : result cls :=
  match rsplit_dot s with
  | None => Err ValueErr                      (* "not enough values to unpack" *)
  | Some (m, n) =>
      if negb (mem_str m known_modules) then Err ImportErr   (* ModuleNotFoundError *)
      else
        match find (fun c => String.eqb n (cls_name c) &&
                             (String.eqb m (cls_module c) ||
                              match package_of c with Some p => String.eqb m p | None => false end))
                   all_classes with
        | Some c => Ok c
        | None => if mem_str n unmodelled_names then Err Unmodelled else Err AttributeErr
        end
  end.

(* ------------------------------------------------------------------------- *)
(* 3. Data, random states                                                     *)
(* ------------------------------------------------------------------------- *)
Record data := mkData {
  d_id : nat;             (* identity of the content *)
  d_const : option Q;     (* Some c iff np.unique(X) == [c] *)
  d_min : Q; d_max : Q;
  d_n : nat }.

Definition wf_data (d : data) : bool :=
  match d_const d with
  | Some c => Qeq_bool (d_min d) c && Qeq_bool (d_max d) c
  | None => negb (Qle_bool (d_max d) (d_min d))
  end && (1 <=? d_n d)%nat.

(* one consumption of a generator: what asked (a description) and how many *)
Record draw := mkDraw { dr_src : jv; dr_n : nat }.
Definition rstate := (Z * list draw)%type.      (* seed, draws so far (latest first) *)
Definition grng := list draw.                   (* the global numpy generator: draws so far *)

Inductive rsrc := RsOwn (r : rstate) | RsGlobal (g : grng).

(* validate_random_state *)
Definition validate_rs (j : jv) : result (option rstate) :=
  match j with
  | JNone => Ok None
  | JBool b => Ok (Some ((if b then 1 else 0)%Z, []))
  | JNum q =>
      if (Qden q =? 1)%positive then
        if ((Qnum q <? 0) || (4294967295 <? Qnum q))%Z then Err ValueErr
        else Ok (Some (Qnum q, []))
      else Err TypeErr
  | _ => Err TypeErr
  end.

Definition EPS : Q := 1 # 8388608.     (* np.finfo(np.float32).eps = 2^-23 *)

Definition jdiv (x y : Q) : jv :=
  if Qeq_bool y 0 then (if Qeq_bool x 0 then JNaN else JInf (Qle_bool 0 x))
  else qj (x / y).

(* ------------------------------------------------------------------------- *)
(* 4. ScipyModel subclasses                                                   *)
(* ------------------------------------------------------------------------- *)
Definition params := list (string * jv).

(* instance-level attributes that shadow the class methods
   (Univariate._replace_constant_methods) *)
Record overrides := mkOv { ov_cdf : bool; ov_ppf : bool; ov_pdf : bool; ov_sample : bool }.
Definition no_ov := mkOv false false false false.
Definition all_ov := mkOv true true true true.

(* scipy.stats.gaussian_kde object: what it was built from *)
Record kmodel := mkKm { km_dataset : jv; km_bw : jv; km_w : jv }.

Record sinst := mkS {
  s_fam : family;
  s_fitted : bool;
  s_params : option params;           (* _params *)
  s_const : option jv;                (* _constant_value *)
  s_ov : overrides;                   (* instance __dict__ entries for the 4 methods *)
  s_rs : option rstate;               (* random_state *)
  s_min : jv; s_max : jv;             (* TruncatedGaussian.min / .max *)
  s_ss : jv; s_bw : jv; s_w : jv;     (* GaussianKDE._sample_size / .bw_method / .weights *)
  s_model : option kmodel;            (* GaussianKDE._model (absent until built) *)
  s_stored : option (list jv * list (string * jv))   (* __args__, __kwargs__ (None: no @store_args) *)
}.

Definition set_fitted b s := mkS (s_fam s) b (s_params s) (s_const s) (s_ov s) (s_rs s) (s_min s) (s_max s) (s_ss s) (s_bw s) (s_w s) (s_model s) (s_stored s).
Definition set_params p s := mkS (s_fam s) (s_fitted s) p (s_const s) (s_ov s) (s_rs s) (s_min s) (s_max s) (s_ss s) (s_bw s) (s_w s) (s_model s) (s_stored s).
Definition set_const c s := mkS (s_fam s) (s_fitted s) (s_params s) c (s_ov s) (s_rs s) (s_min s) (s_max s) (s_ss s) (s_bw s) (s_w s) (s_model s) (s_stored s).
Definition set_ov o s := mkS (s_fam s) (s_fitted s) (s_params s) (s_const s) o (s_rs s) (s_min s) (s_max s) (s_ss s) (s_bw s) (s_w s) (s_model s) (s_stored s).
Definition set_rs r s := mkS (s_fam s) (s_fitted s) (s_params s) (s_const s) (s_ov s) r (s_min s) (s_max s) (s_ss s) (s_bw s) (s_w s) (s_model s) (s_stored s).
Definition set_min m s := mkS (s_fam s) (s_fitted s) (s_params s) (s_const s) (s_ov s) (s_rs s) m (s_max s) (s_ss s) (s_bw s) (s_w s) (s_model s) (s_stored s).
Definition set_max m s := mkS (s_fam s) (s_fitted s) (s_params s) (s_const s) (s_ov s) (s_rs s) (s_min s) m (s_ss s) (s_bw s) (s_w s) (s_model s) (s_stored s).
Definition set_ss n s := mkS (s_fam s) (s_fitted s) (s_params s) (s_const s) (s_ov s) (s_rs s) (s_min s) (s_max s) n (s_bw s) (s_w s) (s_model s) (s_stored s).
Definition set_model m s := mkS (s_fam s) (s_fitted s) (s_params s) (s_const s) (s_ov s) (s_rs s) (s_min s) (s_max s) (s_ss s) (s_bw s) (s_w s) m (s_stored s).

Definition has_store_args (f : family) : bool :=
  match f with FTrunc | FKDE => true | _ => false end.

Definition init_names (f : family) : list string :=
  match f with
  | FTrunc => ["minimum"; "maximum"; "random_state"]
  | FKDE => ["sample_size"; "random_state"; "bw_method"; "weights"]
  | _ => ["random_state"]                      (* ScipyModel.__init__ *)
  end.

(* the constructor call  cls( args..., kwargs... ) *)
Definition new_scipy (f : family) (args : list jv) (kw : list (string * jv)) : result sinst :=
  b <- bind_args (init_names f) args kw ;;
  rs <- validate_rs (getd "random_state" b JNone) ;;
  Ok (mkS f false None None no_ov rs
          (getd "minimum" b JNone) (getd "maximum" b JNone)
          (getd "sample_size" b JNone) (getd "bw_method" b JNone) (getd "weights" b JNone)
          None
          (if has_store_args f then Some (args, kw) else None)).

(* _set_constant_value : store the value and shadow the four methods *)
Definition set_constant (c : jv) (s : sinst) : sinst := set_ov all_ov (set_const (Some c) s).

Definition nthq (l : list Q) (i : nat) : jv := qj (nth i l 0%Q).

(* flat view of a KDE dataset: [x1..xn] or [[x1..xn]] (np.atleast_2d / np.unique) *)
Definition all_numbers (l : list jv) : bool :=
  forallb (fun j => match jv_q j with Some _ => true | None => false end) l.

Definition kde_points (ds : jv) : option (list jv) :=
  match ds with
  | JList [JList l] => if all_numbers l then Some l else None
  | JList l => if all_numbers l then Some l else None
  | _ => None
  end.

Definition all_equal (l : list jv) : bool :=
  match l with
  | [] => false
  | x :: r => forallb (jnum_eq x) r
  end.

Definition jlen (j : jv) : nat :=
  match j with JList l => List.length l | JDict d => List.length d | _ => 0 end.

Definition bw_ok (bw : jv) : bool :=
  match bw with
  | JNone | JNum _ | JBool _ => true
  | JStr s => String.eqb s "scott" || String.eqb s "silverman"
  | _ => false
  end.

(* scipy.stats.gaussian_kde(dataset, bw_method, weights) : the ways it raises,
   for n points (alleq: all points equal) *)
Definition kde_check (n : nat) (alleq : bool) (bw w : jv) : option err :=
  if (n <=? 1)%nat then Some ValueErr              (* `dataset` input should have multiple elements *)
  else if match w with
          | JNone => false
          | JList wl => negb (List.length wl =? n)%nat   (* `weights` input should be of List.length n *)
          | _ => true
          end then Some ValueErr
  else if alleq then Some LinAlgErr                 (* singular covariance *)
  else if negb (bw_ok bw) then Some ValueErr
  else None.

Definition kde_build (ds bw w : jv) : result kmodel :=
  match kde_points ds with
  | None => Err Unmodelled
  | Some pts =>
      match kde_check (List.length pts) (all_equal pts) bw w with
      | Some e => Err e
      | None => Ok (mkKm ds bw w)
      end
  end.

(* GaussianKDE._get_model: caches _sample_size on self, THEN builds the scipy object *)
Definition kde_get_model (s : sinst) : sinst * result kmodel :=
  match s_params s with
  | None => (s, Err TypeErr)
  | Some p =>
      match lookup "dataset" p with
      | None => (s, Err KeyErr)
      | Some ds =>
          let s1 := set_ss (if truthy (s_ss s) then s_ss s else natj (jlen ds)) s in
          (s1, kde_build ds (s_bw s) (s_w s))
      end
  end.

(* ------------------------------------------------------------------------- *)
(* 5. Observables and ScipyModel queries / serialisation                      *)
(* ------------------------------------------------------------------------- *)
Inductive qkind := QCdf | QPdf | QPpf | QLogPdf | QSample.
Inductive bkind := BCdf | BPdf | BPartial | BPpf | BLogPdf | BSample.
Inductive gkind := GCdf | GPdf | GLogPdf | GSample.

(* An observation is the *behaviour selector* of a query: which function of the
   probe input the caller gets.  Two equal observations mean equal behaviour. *)
Inductive obs :=
| ObsConst (k : qkind) (c : option jv)             (* the degenerate _constant_<k> at _constant_value *)
| ObsScipy (k : qkind) (f : family) (p : params)   (* MODEL_CLASS.<k>(x, **_params) *)
| ObsKde (k : qkind) (m : kmodel) (bounds : option params)  (* gaussian_kde object (+ _get_bounds source) *)
| ObsDraw (what : obs) (n : nat) (src : rsrc)      (* n random values of `what` drawn from src *)
| ObsBiv (k : bkind) (t : ctype) (theta : jv)
| ObsGM (k : gkind) (cols : list jv) (subs : list obs) (corr : list (list jv))
| ObsDict (j : jv)                                 (* a returned dict *)
| ObsNone                                          (* returned None (fit) *)
| ObsNew (class_name : string) (fitted : bool)     (* a freshly constructed object *)
| ObsNoneObj                                       (* the constructor call evaluated to None *)
| ObsErr (e : err).

Definition describe (o : obs) : jv :=
  match o with
  | ObsScipy _ f p => JList [JStr (fam_name f); JDict p]
  | ObsKde _ m _ => JList [JStr "gaussian_kde"; km_dataset m; km_bw m; km_w m]
  | ObsBiv _ t th => JList [JStr (ctype_NAME t); th]
  | _ => JStr "other"
  end.

(* the class-level (non-shadowed) method body *)
Definition class_query (s : sinst) (k : qkind) : obs :=
  if negb (s_fitted s) then ObsErr NotFitted            (* check_fit *)
  else
    match s_fam s with
    | FKDE =>
        match k with
        | QLogPdf =>
            (* since the F12 fix GaussianKDE overrides log_probability_density:
                 self.check_fit(); return np.log(self.probability_density(X))
               -- `self.probability_density` is looked up on the INSTANCE first, so after a constant fit it is
               the log of the degenerate density.  (Before the fix: ScipyModel.log_probability_density called
               gaussian_kde.logpdf(X, dataset=..) and raised TypeError on every input.) *)
            if ov_pdf (s_ov s) then ObsConst QLogPdf (s_const s)
            else match s_model s with Some m => ObsKde QLogPdf m None | None => ObsErr AttributeErr end
        | QPdf | QSample =>
            match s_model s with Some m => ObsKde k m None | None => ObsErr AttributeErr end
        | QCdf =>
            (* cumulative_distribution reads self._model first (`self._model.covariance[0, 0]`), then self._get_bounds() *)
            match s_model s, s_params s with
            | None, _ => ObsErr AttributeErr
            | Some m, None => ObsErr TypeErr
            | Some m, Some p => if has_key "dataset" p then ObsKde k m (Some p) else ObsErr KeyErr
            end
        | QPpf =>
            (* percent_point calls self._get_bounds() (`self._params['dataset']`) BEFORE the solver evaluates the closure that
               reads self._model: with _params None it is the TypeError that is raised, also when there is no _model
               (checked on the library; generated from the AST: Props/C19_kde.v, C19_bridge3_kde_ppf) *)
            match s_params s with
            | None => ObsErr TypeErr
            | Some p =>
                if has_key "dataset" p then
                  match s_model s with Some m => ObsKde k m (Some p) | None => ObsErr AttributeErr end
                else ObsErr KeyErr
            end
        end
    | f => match s_params s with Some p => ObsScipy k f p | None => ObsErr TypeErr end
    end.

Definition overridden (s : sinst) (k : qkind) : bool :=
  match k with
  | QCdf => ov_cdf (s_ov s) | QPpf => ov_ppf (s_ov s) | QPdf => ov_pdf (s_ov s)
  | QSample => ov_sample (s_ov s)
  | QLogPdf => false                   (* log_probability_density is NOT replaced *)
  end.

(* attribute lookup: instance __dict__ first, then the class *)
Definition query_scipy (s : sinst) (k : qkind) (n : nat) (g : grng) : sinst * grng * obs :=
  if overridden s k then (s, g, ObsConst k (s_const s))
  else
    match k with
    | QSample =>                       (* @random_state *)
        match class_query s QSample with
        | ObsErr e => (s, g, ObsErr e)
        | what =>
            let d := mkDraw (describe what) n in
            match s_rs s with
            | None => (s, d :: g, ObsDraw what n (RsGlobal g))
            | Some (seed, ds) => (set_rs (Some (seed, d :: ds)) s, g, ObsDraw what n (RsOwn (seed, ds)))
            end
        end
    | _ => (s, g, class_query s k)
    end.

Definition to_dict_scipy (s : sinst) : result jv :=
  if negb (s_fitted s) then Err NotFitted
  else match s_params s with
       | None => Err AttributeErr
       | Some p => Ok (JDict (dict_set "type" (JStr (fqn (KFam (s_fam s)))) p))
       end.

Definition is_constant (f : family) (p : params) : result bool :=
  match f with
  | FTrunc => match lookup "a" p, lookup "b" p with
              | Some a, Some b => Ok (jnum_eq a b)
              | _, _ => Err KeyErr
              end
  | FKDE => match lookup "dataset" p with
            | Some ds => match kde_points ds with
                         | Some pts => Ok (all_equal pts)      (* len(np.unique(dataset)) == 1 *)
                         | None => Err Unmodelled
                         end
            | None => Err KeyErr
            end
  | _ => match lookup "scale" p with
         | Some v => Ok (jnum_eq v (JNum 0))
         | None => Err KeyErr
         end
  end.

Definition extract_constant (f : family) (p : params) : result jv :=
  match f with
  | FKDE => match lookup "dataset" p with
            | Some (JList (x :: _)) => Ok x                    (* dataset[0] *)
            | Some _ => Err Unmodelled
            | None => Err KeyErr
            end
  | _ => match lookup "loc" p with Some v => Ok v | None => Err KeyErr end
  end.

(* ScipyModel._set_params / GaussianKDE._set_params *)
Definition set_params_scipy (s : sinst) (p : params) : result sinst :=
  let s1 := set_params (Some p) s in
  c <- is_constant (s_fam s) p ;;
  if c then (k <- extract_constant (s_fam s) p ;; Ok (set_constant k s1))
  else
    match s_fam s with
    | FKDE => let '(s2, m) := kde_get_model s1 in
              km <- m ;; Ok (set_model (Some km) s2)
    | _ => Ok s1
    end.

(* Univariate.from_dict restricted to results that are ScipyModel instances *)
Definition from_dict_scipy (j : jv) : result sinst :=
  match j with
  | JDict d =>
      match dict_pop "type" d with
      | None => Err KeyErr
      | Some (JStr name, rest) =>
          c <- resolve_name name ;;
          match c with
          | KFam f => s <- new_scipy f [] [] ;;
                      s' <- set_params_scipy s rest ;;
                      Ok (set_fitted true s')
          | KWrapper => Err NotImplementedErr     (* Univariate._set_params *)
          | _ => Err AttributeErr                 (* no _set_params on that class *)
          end
      | Some (_, _) => Err AttributeErr
      end
  | _ => Err AttributeErr
  end.

(* everything a public query can see *)
Record summary := mkSum {
  sm_dict : result jv;
  sm_cdf : obs; sm_pdf : obs; sm_ppf : obs; sm_logpdf : obs; sm_sample : obs }.

Definition q_s (s : sinst) (k : qkind) : obs := snd (query_scipy s k 1 []).
Definition observe_s (s : sinst) : summary :=
  mkSum (to_dict_scipy s) (q_s s QCdf) (q_s s QPdf) (q_s s QPpf) (q_s s QLogPdf) (q_s s QSample).

(* ------------------------------------------------------------------------- *)
(* 6. The Univariate wrapper and get_instance                                 *)
(* ------------------------------------------------------------------------- *)
Inductive ptype := NonParametric | Parametric.
Inductive btype := Unbounded | SemiBounded | Bounded.

Definition fam_parametric (f : family) : ptype :=
  match f with FKDE => NonParametric | _ => Parametric end.
Definition fam_bounded (f : family) : btype :=
  match f with
  | FGaussian | FStudentT | FKDE => Unbounded
  | FGamma | FLogLaplace => SemiBounded
  | FUniform | FBeta | FTrunc => Bounded
  end.
Definition ptype_eqb (a b : ptype) := match a, b with NonParametric, NonParametric | Parametric, Parametric => true | _, _ => false end.
Definition btype_eqb (a b : btype) := match a, b with Unbounded, Unbounded | SemiBounded, SemiBounded | Bounded, Bounded => true | _, _ => false end.

(* a candidate / prototype at ScipyModel level: FQN string, class, or instance *)
Inductive cand := CName (s : string) | CClass (f : family) | CInst (s : sinst).

Inductive uarg := UJ (j : jv) | UCands (l : list cand) | UPar (p : ptype) | UBnd (b : btype).

Record uinst := mkU {
  u_cands : list cand;
  u_rs : option rstate;
  u_sel_ss : jv;                      (* selection_sample_size *)
  u_fitted : bool;
  u_instance : option sinst;          (* _instance *)
  u_stored : list uarg * list (string * uarg)    (* __args__, __kwargs__ *)
}.
Definition setu_fitted b u := mkU (u_cands u) (u_rs u) (u_sel_ss u) b (u_instance u) (u_stored u).
Definition setu_instance i u := mkU (u_cands u) (u_rs u) (u_sel_ss u) (u_fitted u) i (u_stored u).

(* Univariate._select_candidates *)
Definition select_candidates (par : option ptype) (bnd : option btype) : list cand :=
  map CClass
    (filter (fun f =>
               match par with Some p => ptype_eqb (fam_parametric f) p | None => true end &&
               match bnd with Some b => btype_eqb (fam_bounded f) b | None => true end)
            all_families).

Definition new_wrapper (args : list uarg) (kw : list (string * uarg)) : result uinst :=
  b <- bind_args ["candidates"; "parametric"; "bounded"; "random_state"; "selection_sample_size"] args kw ;;
  par <- match getd "parametric" b (UJ JNone) with
         | UJ JNone => Ok None | UPar p => Ok (Some p) | _ => Err Unmodelled end ;;
  bnd <- match getd "bounded" b (UJ JNone) with
         | UJ JNone => Ok None | UBnd x => Ok (Some x) | _ => Err Unmodelled end ;;
  cands <- match getd "candidates" b (UJ JNone) with
           | UJ JNone | UCands [] => Ok (select_candidates par bnd)   (* `candidates or ...` *)
           | UCands l => Ok l
           | _ => Err Unmodelled end ;;
  rsj <- match getd "random_state" b (UJ JNone) with UJ j => Ok j | _ => Err TypeErr end ;;
  rs <- validate_rs rsj ;;
  ss <- match getd "selection_sample_size" b (UJ JNone) with UJ j => Ok j | _ => Err Unmodelled end ;;
  Ok (mkU cands rs ss false None (args, kw)).

Fixpoint uargs_jv (l : list uarg) : option (list jv) :=
  match l with
  | [] => Some []
  | UJ j :: r => match uargs_jv r with Some r' => Some (j :: r') | None => None end
  | _ :: _ => None
  end.
Fixpoint ukw_jv (l : list (string * uarg)) : option (list (string * jv)) :=
  match l with
  | [] => Some []
  | (k, UJ j) :: r => match ukw_jv r with Some r' => Some ((k, j) :: r') | None => None end
  | _ :: _ => None
  end.

Inductive uproto :=
| PName (s : string) | PWrapperCls | PFamCls (f : family) | PInstS (s : sinst) | PInstU (u : uinst).
Inductive uobj := OS (s : sinst) | OU (u : uinst).

Definition new_u (c : cls) (args : list uarg) (kw : list (string * uarg)) : result uobj :=
  match c with
  | KFam f => match uargs_jv args, ukw_jv kw with
              | Some a, Some k => s <- new_scipy f a k ;; Ok (OS s)
              | _, _ => Err Unmodelled
              end
  | KWrapper => u <- new_wrapper args kw ;; Ok (OU u)
  | _ => Err Unmodelled
  end.

(* copulas.utils.get_instance on univariate-level prototypes *)
Definition get_instance_u (p : uproto) (kw : list (string * uarg)) : result uobj :=
  match p with
  | PName n => c <- resolve_name n ;; new_u c [] kw
  | PWrapperCls => new_u KWrapper [] kw
  | PFamCls f => new_u (KFam f) [] kw
  | PInstS s =>
      match kw with
      | _ :: _ => new_u (KFam (s_fam s)) [] kw          (* `if kwargs:` - stored args ignored *)
      | [] => match s_stored s with
              | Some (a, k) => x <- new_scipy (s_fam s) a k ;; Ok (OS x)
              | None => x <- new_scipy (s_fam s) [] [] ;; Ok (OS x)   (* getattr default () / {} *)
              end
      end
  | PInstU u =>
      match kw with
      | _ :: _ => new_u KWrapper [] kw
      | [] => x <- new_wrapper (fst (u_stored u)) (snd (u_stored u)) ;; Ok (OU x)
      end
  end.

Definition cand_proto (c : cand) : uproto :=
  match c with CName n => PName n | CClass f => PFamCls f | CInst s => PInstS s end.

Definition get_instance_cand (c : cand) : result sinst :=
  o <- get_instance_u (cand_proto c) [] ;;
  match o with OS s => Ok s | OU _ => Err Unmodelled end.

Definition query_wrapper (u : uinst) (k : qkind) (n : nat) (g : grng) : uinst * grng * obs :=
  if negb (u_fitted u) then (u, g, ObsErr NotFitted)
  else match u_instance u with
       | None => (u, g, ObsErr AttributeErr)
       | Some s => let '(s', g', o) := query_scipy s k n g in (setu_instance (Some s') u, g', o)
       end.

Definition to_dict_wrapper (u : uinst) : result jv :=
  if negb (u_fitted u) then Err NotFitted
  else match u_instance u with
       | None => Err AttributeErr
       | Some s => match s_params s with
                   | None => Err AttributeErr
                   | Some p => Ok (JDict (dict_set "type" (JStr (fqn (KFam (s_fam s)))) p))
                   end
       end.

Definition query_u (o : uobj) (k : qkind) (n : nat) (g : grng) : uobj * grng * obs :=
  match o with
  | OS s => let '(s', g', r) := query_scipy s k n g in (OS s', g', r)
  | OU u => let '(u', g', r) := query_wrapper u k n g in (OU u', g', r)
  end.
Definition to_dict_u (o : uobj) : result jv :=
  match o with OS s => to_dict_scipy s | OU u => to_dict_wrapper u end.
Definition q_u (o : uobj) (k : qkind) : obs := snd (query_u o k 1 []).
Definition observe_u (o : uobj) : summary :=
  mkSum (to_dict_u o) (q_u o QCdf) (q_u o QPdf) (q_u o QPpf) (q_u o QLogPdf) (q_u o QSample).
Definition fitted_u (o : uobj) : bool := match o with OS s => s_fitted s | OU u => u_fitted u end.
Definition class_u (o : uobj) : cls := match o with OS s => KFam (s_fam s) | OU _ => KWrapper end.

(* Univariate.from_dict (classmethod; the same code for every subclass) *)
Definition from_dict_u (j : jv) : result uobj := s <- from_dict_scipy j ;; Ok (OS s).

(* ------------------------------------------------------------------------- *)
(* 7. GaussianMultivariate                                                    *)
(* ------------------------------------------------------------------------- *)
Inductive dist := DOne (p : uproto) | DMap (m : list (jv * uproto)).
Inductive garg := GJ (j : jv) | GDist (d : dist).

Record ginst := mkG {
  g_dist : dist;
  g_rs : option rstate;
  g_fitted : bool;
  g_columns : option (list jv);
  g_univariates : option (list uobj);
  g_corr : option (list (list jv));
  g_stored : list garg * list (string * garg) }.

Definition setg_rs r x := mkG (g_dist x) r (g_fitted x) (g_columns x) (g_univariates x) (g_corr x) (g_stored x).

Record table := mkT {
  t_id : nat;
  t_empty : bool;          (* len(W) == 0 *)
  t_numeric : bool;        (* dtype floating or integer *)
  t_has_nan : bool;
  t_cols : list (jv * data) }.

Definition new_gm (args : list garg) (kw : list (string * garg)) : result ginst :=
  b <- bind_args ["distribution"; "random_state"] args kw ;;
  d <- match lookup "distribution" b with
       | None => Ok (DOne PWrapperCls)               (* DEFAULT_DISTRIBUTION = Univariate *)
       | Some (GDist d) => Ok d
       | Some (GJ (JStr n)) => Ok (DOne (PName n))
       | Some (GJ _) => Err Unmodelled
       end ;;
  rsj <- match getd "random_state" b (GJ JNone) with GJ j => Ok j | _ => Err TypeErr end ;;
  rs <- validate_rs rsj ;;
  Ok (mkG d rs false None None None (args, kw)).

Fixpoint dist_lookup (name : jv) (m : list (jv * uproto)) : uproto :=
  match m with
  | [] => PWrapperCls
  | (k, p) :: r => if jkey_eq name k then p else dist_lookup name r
  end.
Definition dist_for (d : dist) (name : jv) : uproto :=
  match d with DOne p => p | DMap m => dist_lookup name m end.

Definition first_err (l : list obs) : option err :=
  match find (fun o => match o with ObsErr _ => true | _ => false end) l with
  | Some (ObsErr e) => Some e
  | _ => None
  end.

Definition query_gm (x : ginst) (k : gkind) (n : nat) (g : grng) : ginst * grng * obs :=
  if negb (g_fitted x) then (x, g, ObsErr NotFitted)
  else
    match g_columns x, g_univariates x, g_corr x with
    | Some cols, Some us, Some corr =>
        match k with
        | GSample =>                       (* @random_state ; univariate.percent_point per column *)
            let subs := map (fun u => q_u u QPpf) us in
            let what := ObsGM GSample cols subs corr in
            let d := mkDraw (JStr "gm.sample") n in
            match first_err subs with
            | Some e =>
                (* the normal draw happened before percent_point raised *)
                match g_rs x with
                | None => (x, d :: g, ObsErr e)
                | Some (seed, ds) => (setg_rs (Some (seed, d :: ds)) x, g, ObsErr e)
                end
            | None =>
                match g_rs x with
                | None => (x, d :: g, ObsDraw what n (RsGlobal g))
                | Some (seed, ds) => (setg_rs (Some (seed, d :: ds)) x, g, ObsDraw what n (RsOwn (seed, ds)))
                end
            end
        | _ =>
            let subs := map (fun u => q_u u QCdf) us in
            match first_err subs with
            | Some e => (x, g, ObsErr e)
            | None => (x, g, ObsGM k cols subs corr)
            end
        end
    | _, _, _ => (x, g, ObsErr TypeErr)
    end.

Fixpoint all_ok {A} (l : list (result A)) : result (list A) :=
  match l with
  | [] => Ok []
  | Ok a :: r => match all_ok r with Ok r' => Ok (a :: r') | Err e => Err e end
  | Err e :: _ => Err e
  end.

Definition to_dict_gm (x : ginst) : result jv :=
  if negb (g_fitted x) then Err NotFitted
  else
    match g_columns x, g_univariates x, g_corr x with
    | Some cols, Some us, Some corr =>
        ds <- all_ok (map to_dict_u us) ;;
        Ok (JDict [("correlation", JList (map JList corr)); ("univariates", JList ds);
                   ("columns", JList cols); ("type", JStr (fqn KGM))])
    | _, _, _ => Err AttributeErr
    end.

Definition jlist_rows (j : jv) : result (list (list jv)) :=
  match j with
  | JList rows => all_ok (map (fun r => match r with JList l => Ok l | _ => Err ValueErr end) rows)
  | _ => Err ValueErr
  end.

(* GaussianMultivariate.from_dict *)
Definition from_dict_gm (j : jv) : result ginst :=
  match j with
  | JDict d =>
      x <- new_gm [] [] ;;
      cols <- match lookup "columns" d with
              | Some (JList c) => Ok c | Some _ => Err Unmodelled | None => Err KeyErr end ;;
      us <- match lookup "univariates" d with
            | Some (JList l) => all_ok (map from_dict_u l)
            (* `for parameters in copula_dict['univariates']`: a str / dict / set IS iterable (its characters / keys go to
               Univariate.from_dict: AttributeError, or nothing at all when it is empty) - outside the model; the numbers, None
               and booleans are not (found by the gmctl bridge: before, every non-list was TypeErr) *)
            | Some (JStr _) | Some (JDict _) | Some (JSet _) => Err Unmodelled
            | Some _ => Err TypeErr | None => Err KeyErr end ;;
      corr <- match lookup "correlation" d with
              | Some c => jlist_rows c | None => Err KeyErr end ;;
      Ok (mkG (g_dist x) (g_rs x) true (Some cols) (Some us) (Some corr) (g_stored x))
  | _ => Err TypeErr
  end.

(* Multivariate.from_dict: dispatch on params['type'] *)
Definition from_dict_multivariate (j : jv) : result ginst :=
  match j with
  | JDict d =>
      match lookup "type" d with
      | None => Err KeyErr
      | Some (JStr name) =>
          c <- resolve_name name ;;
          match c with
          | KGM => from_dict_gm j
          | _ => Err Unmodelled           (* VineCopula etc. are outside this model *)
          end
      | Some _ => Err AttributeErr
      end
  | _ => Err TypeErr
  end.

Record gsummary := mkGSum { gs_dict : result jv; gs_cdf : obs; gs_pdf : obs; gs_logpdf : obs; gs_sample : obs }.
Definition q_g (x : ginst) (k : gkind) : obs := snd (query_gm x k 1 []).
Definition observe_g (x : ginst) : gsummary :=
  mkGSum (to_dict_gm x) (q_g x GCdf) (q_g x GPdf) (q_g x GLogPdf) (q_g x GSample).

(* ------------------------------------------------------------------------- *)
(* 8. Bivariate copulas                                                       *)
(* ------------------------------------------------------------------------- *)
Record binst := mkB {
  b_cls : option ctype;        (* None: the base class Bivariate itself *)
  b_theta : jv;                (* JNone | JNum | JInf | JNaN *)
  b_tau : jv;
  b_rs : option rstate;
  b_init : bool                (* __init__ ran (random_state attribute exists) *)
}.
Definition setb_theta t b := mkB (b_cls b) t (b_tau b) (b_rs b) (b_init b).
Definition setb_tau t b := mkB (b_cls b) (b_theta b) t (b_rs b) (b_init b).
Definition setb_rs r b := mkB (b_cls b) (b_theta b) (b_tau b) r (b_init b).

(* class-level mutable state of the bivariate package *)
Record bworld := mkBW {
  bw_base_cached : bool;           (* Bivariate._subclasses populated *)
  bw_own_empty : list ctype;       (* subclasses that got their OWN `_subclasses = []` *)
  bw_indep_imported : bool         (* copulas.bivariate.independence imported *)
}.
Definition bworld0 := mkBW false [] false.

Definition ctype_eqb (a b : ctype) : bool :=
  match a, b with
  | Clayton, Clayton | Frank, Frank | Gumbel, Gumbel | Independence, Independence => true
  | _, _ => false
  end.

Definition base_subclasses (w : bworld) : list ctype :=
  [Clayton; Frank; Gumbel] ++ (if bw_indep_imported w then [Independence] else []).

(* cls.subclasses() *)
Definition subclasses (w : bworld) (c : option ctype) : bworld * list ctype :=
  match c with
  | None => (mkBW true (bw_own_empty w) (bw_indep_imported w), base_subclasses w)
  | Some t =>
      if existsb (ctype_eqb t) (bw_own_empty w) then (w, [])      (* own [] is falsy: recomputed, [] again *)
      else if bw_base_cached w then (w, base_subclasses w)       (* inherits Bivariate's cache *)
      else (mkBW false (t :: bw_own_empty w) (bw_indep_imported w), [])  (* sets Sub._subclasses = [] *)
  end.

Definition upper_char (c : ascii) : ascii :=
  let n := nat_of_ascii c in
  if ((97 <=? n) && (n <=? 122))%nat then ascii_of_nat (n - 32) else c.
Fixpoint upper (s : string) : string :=
  match s with EmptyString => EmptyString | String c r => String (upper_char c) (upper r) end.

(* copula_type.upper() in CopulaTypes.__members__ *)
Definition upper_is (s : string) : option ctype :=
  let u := upper s in
  if String.eqb u "CLAYTON" then Some Clayton
  else if String.eqb u "FRANK" then Some Frank
  else if String.eqb u "GUMBEL" then Some Gumbel
  else if String.eqb u "INDEPENDENCE" then Some Independence
  else None.

(* cls(copula_type=.., random_state=..) : __new__ (dispatch, class-cache side effect),
   then __init__ only if the object returned by __new__ is an instance of cls.
   Result None models the constructor call evaluating to Python None. *)
Definition new_biv (w : bworld) (c : option ctype) (kw : list (string * jv))
  : bworld * result (option binst) :=
  let '(w', r) :=
    match getd "copula_type" kw JNone with
    | JNone => (w, Ok (Some (c, true)))
    | JStr s =>
        match upper_is s with
        | None => (w, Err ValueErr)                 (* Invalid copula type *)
        | Some t =>
            let '(w1, subs) := subclasses w c in
            if existsb (ctype_eqb t) subs
            then (w1, Ok (Some (Some t, match c with None => true | Some t0 => ctype_eqb t0 t end)))
            else (w1, Ok None)                      (* the for-loop falls through: returns None *)
        end
    | _ => (w, Err ValueErr)
    end in
  match r with
  | Err e => (w', Err e)
  | Ok None => (w', Ok None)
  | Ok (Some (cl, false)) => (w', Ok (Some (mkB cl JNone JNone None false)))   (* __init__ skipped *)
  | Ok (Some (cl, true)) =>
      if existsb (fun kv => negb (mem_str (fst kv) ["copula_type"; "random_state"])) kw
      then (w', Err TypeErr)
      else match validate_rs (getd "random_state" kw JNone) with
           | Err e => (w', Err e)
           | Ok rs => (w', Ok (Some (mkB cl JNone JNone rs true)))
           end
  end.

Definition theta_unset (b : binst) : bool := negb (truthy (b_theta b)).   (* `if not self.theta` *)

Definition jle (a b : jv) : bool :=     (* a <= b on extended numbers *)
  match a, b with
  | JNaN, _ | _, JNaN => false
  | JInf false, _ => true
  | _, JInf true => true
  | JInf true, _ => false
  | _, JInf false => false
  | _, _ => match jv_q a, jv_q b with Some x, Some y => Qle_bool x y | _, _ => false end
  end.

Definition is_nan (a : jv) : bool := match a with JNaN => true | _ => false end.
Definition jgt (a b : jv) : bool := negb (is_nan a) && negb (is_nan b) && negb (jle a b).   (* a > b *)

(* values that can be compared with a float (`0 <= 'x'`, `None > 1`, `[1] > 1` raise TypeError) *)
Definition jv_comparable (j : jv) : bool :=
  match j with JNum _ | JInf _ | JNaN | JBool _ => true | _ => false end.

(* check_theta: a theta that is not a number (set by hand / read from a dict) cannot be compared with the
   bounds: TypeError (found by the bivlife bridges; before: ValueErr) *)
Definition check_theta_cmp (b : binst) : option err :=
  match b_cls b with
  | None | Some Independence => Some ValueErr       (* `lower, upper = []` cannot unpack *)
  | Some _ => if jv_comparable (b_theta b) then None else Some TypeErr
  end.
Definition check_theta_num (b : binst) : option err :=
  match b_cls b with
  | None | Some Independence => Some ValueErr
  | Some Clayton => if jle (JNum 0) (b_theta b) && jle (b_theta b) (JInf true) then None else Some ValueErr
  | Some Frank => if jle (JInf false) (b_theta b) && jle (b_theta b) (JInf true) && negb (jnum_eq (b_theta b) (JNum 0))
                  then None else Some ValueErr
  | Some Gumbel => if jle (JNum 1) (b_theta b) && jle (b_theta b) (JInf true) then None else Some ValueErr
  end.
Definition check_theta (b : binst) : option err :=
  match check_theta_cmp b with Some e => Some e | None => check_theta_num b end.

Definition check_fit_biv (b : binst) : option err :=
  if theta_unset b then Some NotFitted else check_theta b.

Definition query_biv (b : binst) (k : bkind) (n : nat) (g : grng) : binst * grng * obs :=
  match k with
  | BSample =>
      if negb (b_init b) then (b, g, ObsErr AttributeErr)     (* self.random_state missing *)
      else
        (* since the F23 fix: self.check_fit() first (inside @random_state, before any draw) *)
        match check_fit_biv b with
        | Some e => (b, g, ObsErr e)
        | None =>
        match b_tau b with
        | JNone | JStr _ | JList _ | JDict _ | JSet _ =>
            (b, g, ObsErr TypeErr)    (* None > 1 (theta set by hand, tau left None), 'x' > 1, [..] > 1: not comparable *)
        | tau =>
            if jgt tau (JNum 1) || jgt (JNum (-1)) tau
            then (b, g, ObsErr ValueErr)
            else
              (* two np.random.uniform draws, THEN percent_point -> check_fit *)
              let d := mkDraw (JStr "biv.sample") n in
              let res := match b_cls b with
                         | None => ObsErr (match check_fit_biv b with Some e => e | None => NotImplementedErr end)
                         | Some t => match check_fit_biv b with
                                     | Some e => ObsErr e
                                     | None => ObsBiv BSample t (b_theta b)
                                     end
                         end in
              match b_rs b with
              | None => (b, d :: g, match res with ObsErr e => ObsErr e | w => ObsDraw w n (RsGlobal g) end)
              | Some (seed, ds) =>
                  (setb_rs (Some (seed, d :: ds)) b, g,
                   match res with ObsErr e => ObsErr e | w => ObsDraw w n (RsOwn (seed, ds)) end)
              end
        end
        end
  | _ =>
      match b_cls b with
      | None =>
          (* base class: percent_point checks fit, the others raise NotImplementedError *)
          match k with
          | BPpf => (b, g, ObsErr (match check_fit_biv b with Some e => e | None => NotImplementedErr end))
          | _ => (b, g, ObsErr NotImplementedErr)
          end
      | Some Independence =>
          match k with
          | BPpf => (b, g, match check_fit_biv b with Some e => ObsErr e | None => ObsBiv BPpf Independence (b_theta b) end)
          | _ => (b, g, ObsBiv k Independence (b_theta b))      (* no check_fit at all *)
          end
      | Some t =>
          (b, g, match check_fit_biv b with Some e => ObsErr e | None => ObsBiv k t (b_theta b) end)
      end
  end.

(* Bivariate.to_dict : no check_fit *)
Definition to_dict_biv (b : binst) : result jv :=
  match b_cls b with
  | None => Err AttributeErr           (* self.copula_type is None -> .name *)
  | Some t => Ok (JDict [("copula_type", JStr (ctype_NAME t)); ("theta", b_theta b); ("tau", b_tau b)])
  end.

(* cls.from_dict(copula_dict), cls = Bivariate (None) or a subclass *)
Definition from_dict_biv (w : bworld) (c : option ctype) (j : jv) : bworld * result binst :=
  match j with
  | JDict d =>
      match lookup "copula_type" d with
      | None => (w, Err KeyErr)
      | Some ct =>
          (* since the F24 fix: `instance = Bivariate(copula_type=...)`, whatever class from_dict is called on
             (before: `cls(copula_type=...)`, which found no subclass of a subclass in a fresh interpreter) *)
          let '(w', r) := new_biv w None [("copula_type", ct)] in
          match r with
          | Err e => (w', Err e)
          | Ok None =>
              (* `None.theta = copula_dict['theta']`: the right-hand side is evaluated first, so a dict without
                 'theta' raises KeyError before the attribute store on None raises AttributeError
                 (found by the bivlife bridge C14_bridge_from_dict; before: AttributeErr for every dict) *)
              (w', Err (if has_key "theta" d then AttributeErr else KeyErr))
          | Ok (Some b) =>
              match lookup "theta" d, lookup "tau" d with
              | Some th, Some ta => (w', Ok (setb_tau ta (setb_theta th b)))
              | _, _ => (w', Err KeyErr)
              end
          end
      end
  | _ => (w, Err TypeErr)
  end.

Record bsummary := mkBSum { bs_dict : result jv; bs_cdf : obs; bs_pdf : obs; bs_partial : obs; bs_ppf : obs; bs_logpdf : obs; bs_sample : obs }.
Definition q_b (b : binst) (k : bkind) : obs := snd (query_biv b k 1 []).
Definition observe_b (b : binst) : bsummary :=
  mkBSum (to_dict_biv b) (q_b b BCdf) (q_b b BPdf) (q_b b BPartial) (q_b b BPpf) (q_b b BLogPdf) (q_b b BSample).

(* bivariate data: an (n,2) array of pseudo-observations *)
Record data2 := mkData2 {
  p_id : nat;
  p_empty : bool;
  p_in_unit : bool;      (* all margins within [0,1] *)
  p_tau : jv             (* scipy.stats.kendalltau(U,V)[0] : JNum or JNaN *)
}.

Section Oracles.
  (* scipy / numpy behaviour (section variables; a concrete stub is given below for Eval) *)
  Variable o_sfit : family -> data -> list Q -> list Q.
     (* FGaussian: [mean; std];  FBeta (start=[loc;scale]): [a;b;loc;scale];
        FGamma: [a;loc;scale]; FStudentT: [df;loc;scale]; FLogLaplace: [c;loc;scale] *)
  Variable o_tg_opt : data -> Q -> Q -> Q * Q.          (* fmin_slsqp: (loc, scale) given min, max *)
  Variable o_tolist : data -> list Q.                    (* X.tolist() *)
  Variable o_resample : data -> jv -> jv -> nat -> grng -> list Q.
     (* gaussian_kde(X, bw, w).resample(n) drawn from the GLOBAL generator in state g *)

  (* --- _fit (non-constant data) for the six plain families --- *)
  Definition plain_params (f : family) (X : data) : params :=
    match f with
    | FGaussian => let r := o_sfit FGaussian X [] in [("loc", nthq r 0); ("scale", nthq r 1)]
    | FUniform => [("loc", qj (d_min X)); ("scale", qj (d_max X - d_min X))]
    | FBeta =>
        let r := o_sfit FBeta X [d_min X; (d_max X - d_min X)%Q] in
        [("loc", nthq r 2); ("scale", nthq r 3); ("a", nthq r 0); ("b", nthq r 1)]
    | FGamma => let r := o_sfit FGamma X [] in [("a", nthq r 0); ("loc", nthq r 1); ("scale", nthq r 2)]
    | FStudentT => let r := o_sfit FStudentT X [] in [("df", nthq r 0); ("loc", nthq r 1); ("scale", nthq r 2)]
    | FLogLaplace => let r := o_sfit FLogLaplace X [] in [("c", nthq r 0); ("loc", nthq r 1); ("scale", nthq r 2)]
    | _ => []
    end.

  (* --- _fit_constant --- *)
  Definition constant_params (s : sinst) (X : data) (c : Q) : result params :=
    match s_fam s with
    | FGaussian => Ok [("loc", qj c); ("scale", JNum 0)]
    | FUniform => Ok [("loc", qj (d_min X)); ("scale", qj (d_max X - d_min X))]
    | FBeta => Ok [("a", JNum 1); ("b", JNum 1); ("loc", qj c); ("scale", JNum 0)]
    | FGamma => Ok [("a", JNum 0); ("loc", qj c); ("scale", JNum 0)]
    | FStudentT => Ok (dict_set "scale" (JNum 0) (plain_params FStudentT X))   (* t.fit on constant data! *)
    | FLogLaplace => Ok [("c", JNum 2); ("loc", qj c); ("scale", JNum 0)]
    | FTrunc => Ok [("a", qj c); ("b", qj c); ("loc", qj c); ("scale", JNum 0)]
    | FKDE =>
        (* sample_size = self._sample_size or len(X);  [constant] * sample_size *)
        match (if truthy (s_ss s) then jv_nat (s_ss s) else Some (d_n X)) with
        | Some n => Ok [("dataset", JList (repeat (qj c) n))]
        | None => Err TypeErr
        end
    end.

  (* ScipyModel.fit.  Returns the mutated instance, the global generator, and the
     exception (if any) - the mutation up to the raise is kept, as in Python. *)
  Definition fit_scipy (s : sinst) (X : data) (g : grng) : sinst * grng * option err :=
    match d_const X with
    | Some c =>
        (* _check_constant_value -> _set_constant_value (value + overrides) ; _fit_constant *)
        let s1 := set_constant (qj c) s in
        match constant_params s1 X c with
        | Ok p => (set_fitted true (set_params (Some p) s1), g, None)
        | Err e => (s1, g, Some e)
        end
    | None =>
        (* since the F5 fix _check_constant_value resets _constant_value and pops the four instance-level
           overrides on the non-constant branch (before: nothing was reset and [fit const; fit X] stayed degenerate) *)
        let s := set_ov no_ov (set_const None s) in
        match s_fam s with
        | FTrunc =>
            (* since the F6 fix the data-derived bounds are LOCAL to the fit (before: stored in self.min / self.max
               by the first fit and reused by every later one) *)
            let lo := if is_none (s_min s) then qj (d_min X - EPS) else s_min s in
            let hi := if is_none (s_max s) then qj (d_max X + EPS) else s_max s in
            match jv_q lo, jv_q hi with
            | Some lo, Some hi =>
                let '(loc, scale) := o_tg_opt X lo hi in
                let p := [("a", jdiv (lo - loc) scale); ("b", jdiv (hi - loc) scale);
                          ("loc", qj loc); ("scale", qj scale)] in
                (set_fitted true (set_params (Some p) s), g, None)
            | _, _ => (s, g, Some TypeErr)
            end
        | FKDE =>
            let step :=
              if truthy (s_ss s) then
                (* gaussian_kde(X, bw, w) is built FIRST (its ValueError / LinAlgError win), THEN .resample(n) : global generator *)
                match kde_check (d_n X) false (s_bw s) (s_w s) with
                | None =>
                    match jv_nat (s_ss s) with
                    | Some n => Ok (JList [JList (map qj (o_resample X (s_bw s) (s_w s) n g))],
                                    mkDraw (JStr "kde.fit.resample") n :: g)
                    | None => Err TypeErr
                    end
                | Some e => Err e
                end
              else Ok (JList (map qj (o_tolist X)), g) in
            match step with
            | Err e => (s, g, Some e)
            | Ok (ds, g1) =>
                let s1 := set_params (Some [("dataset", ds)]) s in
                let '(s2, m) := kde_get_model s1 in
                match m with
                | Ok km => (set_fitted true (set_model (Some km) s2), g1, None)
                | Err e => (s2, g1, Some e)
                end
            end
        | f => (set_fitted true (set_params (Some (plain_params f X)) s), g, None)
        end
    end.

  (* --- Univariate (wrapper) fit --- *)
  Variable o_select : data -> list cand -> option nat.
     (* select_univariate: index (in the candidate list) of the model with the best KS
        statistic among those whose get_instance/fit/kstest did not raise; None if none *)
  Variable o_choice : data -> nat -> grng -> data.
     (* np.random.choice(X, size=k) on the GLOBAL generator *)

  (* `j < len(X)` for a truthy j *)
  Definition jlt_nat (j : jv) (n : nat) : bool :=
    match jv_q j with
    | Some q => negb (Qle_bool (inject_Z (Z.of_nat n)) q)
    | None => match j with JInf false => true | _ => false end
    end.
  (* ... which is a TypeError for a str / list / dict / set *)
  Definition lt_raises (j : jv) : bool :=
    match j with JStr _ | JList _ | JDict _ | JSet _ | JNone => true | _ => false end.
  (* np.random.choice(X, size=j): an int (a bool or a float is a TypeError, a negative int a ValueError) *)
  Definition choice_size (j : jv) : result nat :=
    match j with
    | JNum q => if (Qden q =? 1)%positive
                then (if (Qnum q <? 0)%Z then Err ValueErr else Ok (Z.to_nat (Qnum q)))
                else Err TypeErr
    | JList _ | JSet _ | JDict _ => Err Unmodelled
    | _ => Err TypeErr
    end.

  Definition fit_wrapper (u : uinst) (X : data) (g : grng) : uinst * grng * option err :=
    let sel :=
      if truthy (u_sel_ss u) && jlt_nat (u_sel_ss u) (d_n X) then
        match choice_size (u_sel_ss u) with
        | Ok k => Ok (o_choice X k g, mkDraw (JStr "choice") k :: g)
        | Err e => Err e
        end
      else if truthy (u_sel_ss u) && lt_raises (u_sel_ss u) then Err TypeErr
      else Ok (X, g) in
    match sel with
    | Err e => (u, g, Some e)
    | Ok (sample, g1) =>
        match (match o_select sample (u_cands u) with
               | Some i => nth_error (u_cands u) i
               | None => None end) with
        | None =>
            (* get_instance(None) is None: `_instance = None`, then None.fit raises *)
            (setu_instance None u, g1, Some AttributeErr)
        | Some c =>
            match get_instance_cand c with
            | Err e => (u, g1, Some e)
            | Ok s0 =>
                let '(s1, g2, e) := fit_scipy s0 X g1 in
                match e with
                | None => (setu_fitted true (setu_instance (Some s1) u), g2, None)
                | Some e' => (setu_instance (Some s1) u, g2, Some e')
                end
            end
        end
    end.

  Definition fit_u (o : uobj) (X : data) (g : grng) : uobj * grng * option err :=
    match o with
    | OS s => let '(s', g', e) := fit_scipy s X g in (OS s', g', e)
    | OU u => let '(u', g', e) := fit_wrapper u X g in (OU u', g', e)
    end.

  (* --- GaussianMultivariate.fit --- *)
  Variable o_corr : nat -> list obs -> list (list Q).
     (* correlation of norm.ppf(clip(cdf_i(X_i))) given the table id and each column's cdf behaviour *)

  (* _fit_columns: get_instance is OUTSIDE the try, the fit inside (fallback: GaussianUnivariate).  The global generator is
     returned on the error path as well: the columns fitted before the one whose get_instance raises have consumed it
     (found by the gmctl bridge: before, the error path gave back the generator of the call) *)
  Fixpoint fit_columns (d : dist) (cols : list (jv * data)) (g : grng)
    : grng * result (list jv * list uobj) :=
    match cols with
    | [] => (g, Ok ([], []))
    | (name, col) :: rest =>
        match get_instance_u (dist_for d name) [] with
        | Err e => (g, Err e)
        | Ok o =>
            let '(o1, g1, e) := fit_u o col g in
            let '(o2, g2) :=
              match e with
              | None => (o1, g1)
              | Some _ =>
                  match new_scipy FGaussian [] [] with
                  | Ok s0 => let '(s1, g2, _) := fit_scipy s0 col g1 in (OS s1, g2)
                  | Err _ => (o1, g1)     (* unreachable *)
                  end
              end in
            match fit_columns d rest g2 with
            | (g3, Err e') => (g3, Err e')
            | (g3, Ok (ns, os)) => (g3, Ok (name :: ns, o2 :: os))
            end
        end
    end.

  Definition fit_gm (x : ginst) (T : table) (g : grng) : ginst * grng * option err :=
    (* @check_valid_values runs before the body *)
    if t_empty T then (x, g, Some ValueErr)
    else if negb (t_numeric T) then (x, g, Some ValueErr)
    else if t_has_nan T then (x, g, Some ValueErr)
    else
      match fit_columns (g_dist x) (t_cols T) g with
      | (g1, Err e) => (x, g1, Some e)
      | (g1, Ok (names, us)) =>
          let x1 := mkG (g_dist x) (g_rs x) (g_fitted x) (Some names) (Some us) (g_corr x) (g_stored x) in
          let cdfs := map (fun u => q_u u QCdf) us in
          match first_err cdfs with
          | Some e => (x1, g1, Some e)          (* columns/univariates already assigned *)
          | None =>
              let corr := map (map qj) (o_corr (t_id T) cdfs) in
              (mkG (g_dist x) (g_rs x) true (Some names) (Some us) (Some corr) (g_stored x), g1, None)
          end
      end.

  (* --- Bivariate.fit --- *)
  Variable o_frank_theta : Q -> result jv.   (* least_squares on the Debye relation (raises in this env: F1) *)

  Definition compute_theta (t : ctype) (tau : Q) : result jv :=
    match t with
    | Clayton => if Qeq_bool tau 1 then Ok (JInf true) else Ok (qj (2 * tau / (1 - tau)))
    | Gumbel => if Qeq_bool tau 1 then Err ValueErr else Ok (qj (1 / (1 - tau)))
    | Frank => o_frank_theta tau
    | Independence => Err NotImplementedErr
    end.

  Definition fit_biv (b : binst) (X : data2) : binst * option err :=
    match b_cls b with
    | Some Independence => (b, None)              (* Independence.fit is a no-op *)
    | c =>
        if p_empty X then (b, Some ValueErr)       (* min() of an empty sequence *)
        else if negb (p_in_unit X) then (b, Some ValueErr)    (* check_marginal *)
        else
          let b1 := setb_tau (p_tau X) b in        (* self.tau assigned BEFORE validation *)
          match p_tau X with
          | JNum tau =>
              match c with
              | None => (b1, Some NotImplementedErr)
              | Some t =>
                  match compute_theta t tau with
                  | Err e => (b1, Some e)
                  | Ok th =>
                      let b2 := setb_theta th b1 in     (* self.theta assigned BEFORE check_theta *)
                      (b2, check_theta b2)
                  end
              end
          | _ => (b1, Some ValueErr)               (* np.isnan(self.tau) *)
          end
    end.

  (* ----------------------------------------------------------------------- *)
  (* 9. One machine for the harness: events and run_history                   *)
  (* ----------------------------------------------------------------------- *)
  Inductive obj := MS (s : sinst) | MU (u : uinst) | MB (b : binst) | MG (x : ginst).
  Inductive dataset := DUni (d : data) | DBiv (d : data2) | DTab (t : table).
  Inductive query := QU (k : qkind) | QB (k : bkind) | QG (k : gkind).

  Inductive event :=
  | Fit (d : dataset)
  | Query (q : query) (n : nat)
  | ToDict
  | RoundTrip            (* self := type(self).from_dict(self.to_dict())  (entry-point class) *)
  | GetInstance.         (* self := get_instance(self) *)

  Record world := mkW { w_obj : obj; w_g : grng; w_bw : bworld }.

  Definition obj_class_name (o : obj) : string :=
    match o with
    | MS s => fam_name (s_fam s)
    | MU _ => "Univariate"
    | MB b => match b_cls b with None => "Bivariate" | Some t => ctype_class t end
    | MG _ => "GaussianMultivariate"
    end.
  Definition obj_fitted (o : obj) : bool :=
    match o with
    | MS s => s_fitted s | MU u => u_fitted u | MG x => g_fitted x
    | MB b => truthy (b_theta b)
    end.

  Definition to_dict_obj (o : obj) : result jv :=
    match o with
    | MS s => to_dict_scipy s | MU u => to_dict_wrapper u | MB b => to_dict_biv b | MG x => to_dict_gm x
    end.

  Definition step (w : world) (e : event) : world * obs :=
    let o := w_obj w in let g := w_g w in let bw := w_bw w in
    match e with
    | Fit d =>
        match o, d with
        | MS s, DUni X => let '(s', g', r) := fit_scipy s X g in
                          (mkW (MS s') g' bw, match r with None => ObsNone | Some e => ObsErr e end)
        | MU u, DUni X => let '(u', g', r) := fit_wrapper u X g in
                          (mkW (MU u') g' bw, match r with None => ObsNone | Some e => ObsErr e end)
        | MB b, DBiv X => let '(b', r) := fit_biv b X in
                          (mkW (MB b') g bw, match r with None => ObsNone | Some e => ObsErr e end)
        | MG x, DTab T => let '(x', g', r) := fit_gm x T g in
                          (mkW (MG x') g' bw, match r with None => ObsNone | Some e => ObsErr e end)
        | _, _ => (w, ObsErr Unmodelled)
        end
    | Query q n =>
        match o, q with
        | MS s, QU k => let '(s', g', r) := query_scipy s k n g in (mkW (MS s') g' bw, r)
        | MU u, QU k => let '(u', g', r) := query_wrapper u k n g in (mkW (MU u') g' bw, r)
        | MB b, QB k => let '(b', g', r) := query_biv b k n g in (mkW (MB b') g' bw, r)
        | MG x, QG k => let '(x', g', r) := query_gm x k n g in (mkW (MG x') g' bw, r)
        | _, _ => (w, ObsErr Unmodelled)
        end
    | ToDict => (w, match to_dict_obj o with Ok j => ObsDict j | Err e => ObsErr e end)
    | RoundTrip =>
        match to_dict_obj o with
        | Err e => (w, ObsErr e)
        | Ok j =>
            match o with
            | MS _ | MU _ =>            (* Univariate.from_dict *)
                match from_dict_scipy j with
                | Ok s' => (mkW (MS s') g bw, match to_dict_scipy s' with Ok j' => ObsDict j' | Err e => ObsErr e end)
                | Err e => (w, ObsErr e)
                end
            | MG _ =>                   (* Multivariate.from_dict *)
                match from_dict_multivariate j with
                | Ok x' => (mkW (MG x') g bw, match to_dict_gm x' with Ok j' => ObsDict j' | Err e => ObsErr e end)
                | Err e => (w, ObsErr e)
                end
            | MB _ =>                   (* Bivariate.from_dict *)
                let '(bw', r) := from_dict_biv bw None j in
                match r with
                | Ok b' => (mkW (MB b') g bw', match to_dict_biv b' with Ok j' => ObsDict j' | Err e => ObsErr e end)
                | Err e => (mkW o g bw', ObsErr e)
                end
            end
        end
    | GetInstance =>
        match o with
        | MS s => match get_instance_u (PInstS s) [] with
                  | Ok (OS s') => (mkW (MS s') g bw, ObsNew (fam_name (s_fam s')) (s_fitted s'))
                  | Ok (OU u') => (mkW (MU u') g bw, ObsNew "Univariate" (u_fitted u'))
                  | Err e => (w, ObsErr e)
                  end
        | MU u => match get_instance_u (PInstU u) [] with
                  | Ok (OS s') => (mkW (MS s') g bw, ObsNew (fam_name (s_fam s')) (s_fitted s'))
                  | Ok (OU u') => (mkW (MU u') g bw, ObsNew "Univariate" (u_fitted u'))
                  | Err e => (w, ObsErr e)
                  end
        | MG x => match new_gm (fst (g_stored x)) (snd (g_stored x)) with
                  | Ok x' => (mkW (MG x') g bw, ObsNew "GaussianMultivariate" (g_fitted x'))
                  | Err e => (w, ObsErr e)
                  end
        | MB b =>                       (* no @store_args on Bivariate: obj.__class__() *)
            let '(bw', r) := new_biv bw (b_cls b) [] in
            match r with
            | Ok (Some b') => (mkW (MB b') g bw', ObsNew (obj_class_name (MB b')) (truthy (b_theta b')))
            | Ok None => (mkW o g bw', ObsNoneObj)
            | Err e => (mkW o g bw', ObsErr e)
            end
        end
    end.

  Fixpoint run_events (w : world) (evs : list event) : world * list obs :=
    match evs with
    | [] => (w, [])
    | e :: r => let '(w1, o) := step w e in
                let '(w2, os) := run_events w1 r in (w2, o :: os)
    end.

  (* default-constructed instance of a class, fresh interpreter state *)
  Definition fresh_obj (c : cls) : result obj :=
    match c with
    | KFam f => s <- new_scipy f [] [] ;; Ok (MS s)
    | KWrapper => u <- new_wrapper [] [] ;; Ok (MU u)
    | KGM => x <- new_gm [] [] ;; Ok (MG x)
    | KBivBase => Ok (MB (mkB None JNone JNone None true))
    | KBiv t => Ok (MB (mkB (Some t) JNone JNone None true))
    end.

  Definition run_history_from (o : obj) (evs : list event) : list obs :=
    snd (run_events (mkW o [] bworld0) evs).

  Definition run_history (c : cls) (evs : list event) : list obs :=
    match fresh_obj c with
    | Ok o => run_history_from o evs
    | Err e => [ObsErr e]
    end.

  (* histories of fits only (theorem 1) *)
  Fixpoint run_fits_s (s : sinst) (hs : list data) (g : grng) : sinst * grng :=
    match hs with
    | [] => (s, g)
    | X :: r => let '(s', g', _) := fit_scipy s X g in run_fits_s s' r g'
    end.
  Fixpoint run_fits_w (u : uinst) (hs : list data) (g : grng) : uinst * grng :=
    match hs with
    | [] => (u, g)
    | X :: r => let '(u', g', _) := fit_wrapper u X g in run_fits_w u' r g'
    end.
  Fixpoint run_fits_b (b : binst) (hs : list data2) : binst :=
    match hs with
    | [] => b
    | X :: r => run_fits_b (fst (fit_biv b X)) r
    end.
  Fixpoint run_fits_g (x : ginst) (hs : list table) (g : grng) : ginst * grng :=
    match hs with
    | [] => (x, g)
    | T :: r => let '(x', g', _) := fit_gm x T g in run_fits_g x' r g'
    end.
End Oracles.

(* ------------------------------------------------------------------------- *)
(* 10. A concrete stub for the oracles, so that everything evaluates          *)
(* ------------------------------------------------------------------------- *)
Module Stub.
  Definition sfit (f : family) (X : data) (start : list Q) : list Q :=
    let mid := ((d_min X + d_max X) / 2)%Q in
    let w := (d_max X - d_min X)%Q in
    match f with
    | FGaussian => [mid; (w / 4)%Q]
    | FBeta => [2; 3; nth 0 start 0; nth 1 start 1]%Q
    | FGamma => [2; (d_min X - 1); (w / 3 + 1)]%Q
    | FStudentT => [5; mid; (w / 5)]%Q
    | FLogLaplace => [3; (d_min X - 1); (w / 2 + 1)]%Q
    | _ => []
    end.
  Definition tg_opt (X : data) (lo hi : Q) : Q * Q := (((lo + hi) / 2)%Q, ((hi - lo) / 4)%Q).
  Definition tolist (X : data) : list Q := d_min X :: repeat (d_max X) (d_n X - 1).
  Definition resample (X : data) (bw w : jv) (n : nat) (g : grng) : list Q :=
    map (fun i => (d_min X + inject_Z (Z.of_nat i) * (d_max X - d_min X) / inject_Z (Z.of_nat (n + List.length g)))%Q)
        (seq 0 n).
  Definition select (X : data) (cands : list cand) : option nat :=
    match cands with [] => None | _ => Some 0%nat end.
  Definition choice (X : data) (k : nat) (g : grng) : data :=
    mkData (d_id X + 1000 + List.length g) (d_const X) (d_min X) (d_max X) k.
  Definition corr (id : nat) (cdfs : list obs) : list (list Q) :=
    map (fun i => map (fun j => if (i =? j)%nat then 1%Q else 0%Q) (seq 0 (List.length cdfs)))
        (seq 0 (List.length cdfs)).
  Definition frank_theta (tau : Q) : result jv := Ok (qj (9 * tau)).

  Definition fit_scipy := fit_scipy sfit tg_opt tolist resample.
  Definition fit_wrapper := fit_wrapper sfit tg_opt tolist resample select choice.
  Definition fit_gm := fit_gm sfit tg_opt tolist resample select choice corr.
  Definition fit_biv := fit_biv frank_theta.
  Definition step := step sfit tg_opt tolist resample select choice corr frank_theta.
  Definition run_history := run_history sfit tg_opt tolist resample select choice corr frank_theta.
  Definition run_history_from := run_history_from sfit tg_opt tolist resample select choice corr frank_theta.

  (* sample data *)
  Definition Xc : data := mkData 1 (Some 3) 3 3 5.            (* five copies of 3.0 *)
  Definition X1 : data := mkData 2 None 1 7 6.                (* [1,2,3,4,5,7] *)
  Definition X10 : data := mkData 3 None 10 70 6.             (* 10 * X1 *)
  Definition X50 : data := mkData 4 None (-2) 2 50.
  Definition P1 : data2 := mkData2 1 false true (JNum (1 # 2)).
  Definition Pneg : data2 := mkData2 2 false true (JNum (-1 # 2)).
  Definition Pnan : data2 := mkData2 3 false true JNaN.
  Definition T1 : table := mkT 1 false true false [(JStr "a", X1); (JStr "b", X50); (JStr "c", Xc)].
  Definition Tempty : table := mkT 2 true true false [].

  Definition six : list event :=
    [Query (QU QCdf) 1; Fit (DUni Xc); Query (QU QCdf) 1; Fit (DUni X1); Query (QU QCdf) 1; ToDict].
End Stub.

(* 6-event examples, one per class family (must evaluate) *)
Eval vm_compute in Stub.run_history (KFam FGaussian) Stub.six.
Eval vm_compute in Stub.run_history (KFam FTrunc)
  [Fit (DUni Stub.X1); ToDict; Fit (DUni Stub.X10); ToDict; RoundTrip; GetInstance].
Eval vm_compute in Stub.run_history (KFam FKDE)
  [Fit (DUni Stub.X10); Fit (DUni (mkData 9 None 0 1 3)); ToDict; Query (QU QLogPdf) 1; RoundTrip; Query (QU QSample) 3].
Eval vm_compute in Stub.run_history KWrapper
  [Query (QU QPdf) 1; Fit (DUni Stub.X1); ToDict; RoundTrip; Query (QU QSample) 2; GetInstance].
Eval vm_compute in Stub.run_history (KBiv Clayton)
  [ToDict; Query (QB BSample) 2; Fit (DBiv Stub.P1); ToDict; Fit (DBiv Stub.Pneg); Query (QB BCdf) 1].
Eval vm_compute in Stub.run_history KGM
  [ToDict; Fit (DTab Stub.Tempty); Fit (DTab Stub.T1); ToDict; RoundTrip; Query (QG GSample) 2].
