(* C20 -- an executable effect language for "does this function write to a
   caller-owned argument?", with a may-alias write analysis.
   Stdlib only, everything evaluates with vm_compute. *)
From Coq Require Import ZArith List Bool Arith.
Import ListNotations.

(* ------------------------------------------------------------------ *)
(* Syntax                                                              *)
(* ------------------------------------------------------------------ *)

Definition loc := nat.
Definition var := nat.

Inductive instr :=
| ICopy (dst src : var)     (* dst = src.copy() / np.array(src) / arithmetic: FRESH location, same content *)
| IView (dst src : var)     (* dst = src[:, i] / src.T / dst = src: SAME location *)
| IFresh (dst : var)        (* dst = np.zeros(..) / np.full(..) / X.corr(): fresh, empty content *)
| IWrite (dst : var)        (* dst[mask] = .. / dst += .. / dst.append(..) / dst[k] = v *)
| ICall (callee : nat) (args : list var)
| IMayView (dst src : var). (* pd.DataFrame(ndarray) / np.asarray / to_numpy(): view or copy, oracle decides *)

Definition prog := list instr.
Definition func := (nat * prog)%type.          (* number of parameters (variables 0..n-1), body *)
Definition funtable := list func.
Definition oracle := list bool.                 (* one boolean consumed per executed IMayView; true = view; [] = copy *)

(* ------------------------------------------------------------------ *)
(* Finite maps as association lists (latest binding first)             *)
(* ------------------------------------------------------------------ *)

Definition amap (A : Type) := list (var * A).

Fixpoint aget {A} (d : A) (m : amap A) (x : var) : A :=
  match m with
  | [] => d
  | (y, v) :: m' => if Nat.eqb x y then v else aget d m' x
  end.

Definition aset {A} (m : amap A) (x : var) (v : A) : amap A := (x, v) :: m.

(* ------------------------------------------------------------------ *)
(* Concrete semantics                                                  *)
(* ------------------------------------------------------------------ *)

Definition store := list (list Z).              (* location l = index l; allocation appends *)
Definition env := amap (option loc).            (* unbound variable = None *)

Definition eget (e : env) (x : var) : option loc := aget None e x.

Definition content (s : store) (l : loc) : list Z := nth l s [].

Definition cell (s : store) (ol : option loc) : list Z :=
  match ol with Some l => content s l | None => [] end.

(* a write conses a marker: the content always changes (its length grows) *)
Definition mark (c : list Z) : list Z := Z.of_nat (length c) :: c.

Fixpoint write (s : store) (l : loc) : store :=
  match s, l with
  | [], _ => []
  | c :: s', 0 => mark c :: s'
  | c :: s', S l' => c :: write s' l'
  end.

Definition cfg := (oracle * env * store)%type.

(* the call handler: callee index, locations of the actuals, oracle, store *)
Definition callh := nat -> list (option loc) -> oracle -> store -> oracle * store.

Definition do_copy (o : oracle) (e : env) (s : store) (dst src : var) : cfg :=
  (o, aset e dst (Some (length s)), s ++ [cell s (eget e src)]).

Definition do_view (o : oracle) (e : env) (s : store) (dst src : var) : cfg :=
  (o, aset e dst (eget e src), s).

Definition step (call : callh) (i : instr) (c : cfg) : cfg :=
  let '(o, e, s) := c in
  match i with
  | ICopy dst src => do_copy o e s dst src
  | IView dst src => do_view o e s dst src
  | IFresh dst => (o, aset e dst (Some (length s)), s ++ [[]])
  | IWrite dst =>
      match eget e dst with
      | Some l => (o, e, write s l)
      | None => (o, e, s)
      end
  | ICall g args =>
      let '(o', s') := call g (map (eget e) args) o s in (o', e, s')
  | IMayView dst src =>
      match o with
      | true :: o' => do_view o' e s dst src
      | false :: o' => do_copy o' e s dst src
      | [] => do_copy [] e s dst src
      end
  end.

Fixpoint run (call : callh) (p : prog) (c : cfg) : cfg :=
  match p with
  | [] => c
  | i :: p' => run call p' (step call i c)
  end.

(* callee frame: parameter i (variable i) is bound to the i-th actual, for i < m *)
Fixpoint bind_args (i m : nat) (locs : list (option loc)) : env :=
  match m, locs with
  | S m', ol :: locs' => (i, ol) :: bind_args (S i) m' locs'
  | _, _ => []
  end.

(* calls: bounded depth; out of fuel or unknown callee = the call does nothing *)
Fixpoint callexec (ft : funtable) (fuel : nat) : callh :=
  fun g locs o s =>
    match fuel with
    | 0 => (o, s)
    | S f =>
        match nth_error ft g with
        | None => (o, s)
        | Some (m, body) =>
            let '(o', _, s') := run (callexec ft f) body (o, bind_args 0 m locs, s) in
            (o', s')
        end
    end.

Definition exec_full (o : oracle) (ft : funtable) (fuel : nat) (e : env) (s : store) (p : prog) : cfg :=
  run (callexec ft fuel) p (o, e, s).

Definition exec (o : oracle) (ft : funtable) (fuel : nat) (e : env) (s : store) (p : prog)
  : env * store :=
  let '(_, e', s') := exec_full o ft fuel e s p in (e', s').

(* the standard initial state of a function with n parameters whose actuals
   have the given contents: parameter i lives at location i *)
Definition init_env (n : nat) : env := bind_args 0 n (map Some (seq 0 n)).
Definition exec_fun (o : oracle) (ft : funtable) (fuel : nat) (f : func) (actuals : store)
  : env * store :=
  exec o ft fuel (init_env (fst f)) actuals (snd f).

(* ------------------------------------------------------------------ *)
(* The static analysis                                                 *)
(* ------------------------------------------------------------------ *)

(* abstract environment: variable -> set of parameters whose ORIGINAL location
   the variable may point to *)
Definition aenv := amap (list nat).
Definition tget (a : aenv) (x : var) : list nat := aget [] a x.

Definition astate := (aenv * list nat)%type.    (* may-alias sets, set of written parameters *)

(* for each callee parameter flagged in the summary, the corresponding actual is written *)
Fixpoint call_writes (a : aenv) (summary : list bool) (args : list var) (W : list nat) : list nat :=
  match summary, args with
  | b :: summary', x :: args' =>
      call_writes a summary' args' (if b then tget a x ++ W else W)
  | _, _ => W
  end.

Definition astep (sumf : nat -> list bool) (i : instr) (st : astate) : astate :=
  let '(a, W) := st in
  match i with
  | ICopy dst _ => (aset a dst [], W)
  | IFresh dst => (aset a dst [], W)
  | IView dst src => (aset a dst (tget a src), W)
  | IMayView dst src => (aset a dst (tget a src), W)
  | IWrite dst => (a, tget a dst ++ W)
  | ICall g args => (a, call_writes a (sumf g) args W)
  end.

Fixpoint analyze (sumf : nat -> list bool) (p : prog) (st : astate) : astate :=
  match p with
  | [] => st
  | i :: p' => analyze sumf p' (astep sumf i st)
  end.

Fixpoint init_aenv_from (i m : nat) : aenv :=
  match m with
  | 0 => []
  | S m' => (i, [i]) :: init_aenv_from (S i) m'
  end.
Definition init_aenv (n : nat) : aenv := init_aenv_from 0 n.

Definition verdict (n : nat) (W : list nat) : list bool :=
  map (fun k => existsb (Nat.eqb k) W) (seq 0 n).

(* summary of callee g; out of fuel = "writes every parameter" (conservative) *)
Fixpoint callsum (ft : funtable) (fuel : nat) (g : nat) : list bool :=
  match nth_error ft g with
  | None => []
  | Some (m, body) =>
      match fuel with
      | 0 => repeat true m
      | S f => verdict m (snd (analyze (callsum ft f) body (init_aenv m, [])))
      end
  end.

Definition writes_params (ft : funtable) (fuel : nat) (n : nat) (p : prog) : list bool :=
  verdict n (snd (analyze (callsum ft fuel) p (init_aenv n, []))).

Definition writes_fun (ft : funtable) (fuel : nat) (f : func) : list bool :=
  writes_params ft fuel (fst f) (snd f).

(* syntactic classes used by the completeness theorem *)
Definition is_basic (i : instr) : bool :=
  match i with ICall _ _ | IMayView _ _ => false | _ => true end.
Definition straight_line (p : prog) : bool := forallb is_basic p.

(* no IMayView anywhere (transitively), every call resolves within depth d:
   on such programs the analysis is exact once both fuels are >= d *)
Fixpoint exact_ok (ft : funtable) (d : nat) (p : prog) : bool :=
  forallb (fun i =>
    match i with
    | IMayView _ _ => false
    | ICall g _ =>
        match d with
        | 0 => false
        | S d' =>
            match nth_error ft g with
            | None => true
            | Some (_, body) => exact_ok ft d' body
            end
        end
    | _ => true
    end) p.

(* ------------------------------------------------------------------ *)
(* The idioms of the library as effect programs                        *)
(* ------------------------------------------------------------------ *)

(* (a) optimize.bisect(f, xmin, xmax): params 0 = xmin, 1 = xmax; 2 = guess
       guess = (xmin + xmax)/2 ; xmin[mask] = .. ; xmax[mask] = .. *)
Definition p_bisect : func := (2, [ICopy 2 0; IWrite 0; IWrite 1]).

(* optimize.chandrupatla(f, xmin, xmax): a = xmax; b = xmin; ...; t = np.full; t[iqi] = .. *)
Definition p_chandrupatla : func :=
  (2, [IView 2 1; IView 3 0; ICopy 4 2; ICopy 5 3; IFresh 6; IWrite 6; IView 2 4]).

(* (b) Bivariate.partial_derivative(X): X_prime = X.copy(); X_prime[:, 1] += delta *)
Definition p_partial_derivative : func := (1, [ICopy 1 0; IWrite 1]).

(* (c) Tree._sort_tau_by_y: param 0 = self.tau_matrix; tau_y = tau_matrix[:, y]; tau_y[y] = nan;
       temp = np.empty; temp[..] = .. *)
Definition p_sort_tau_by_y : func := (1, [IView 1 0; IWrite 1; IFresh 2; IWrite 2]).

(* (d) _generate_scatter_2d_plot(data, columns): columns.append('Data') *)
Definition p_generate_scatter : func := (2, [IWrite 1]).
(* the repaired version: columns = list(columns); columns.append('Data') *)
Definition p_generate_scatter_fixed : func := (2, [ICopy 1 1; IWrite 1]).

(* (d') the one-parameter versions: f(columns): columns.append(..)  /  columns = list(columns); columns.append(..) *)
Definition p_append_param : func := (1, [IWrite 0]).
Definition p_append_copy : func := (1, [ICopy 0 0; IWrite 0]).

(* (e) function table: 0 = Tree._sort_tau_by_y, 1 = DirectTree._build_first_tree,
       2 = Tree.fit(tau_matrix), 3 = VineCopula.fit(X), 4 = _generate_scatter_2d_plot,
       5 = scatter_2d(data, columns), 6 = compare_2d(real, synth, columns), 7 = bisect,
       8 = GaussianKDE.percent_point(U) *)
Definition p_build_first_tree : func :=         (* tau_matrix = self.tau_matrix; _sort_tau_by_y; tau_matrix[:, [T1]] = -10 *)
  (1, [IView 1 0; ICall 0 [0]; IWrite 1]).
Definition p_tree_fit : func :=                  (* self.tau_matrix = tau_matrix; self._build_first_tree() *)
  (1, [IView 1 0; ICall 1 [1]]).
Definition p_vine_fit : func :=                  (* tau = X.corr(); tau_mat = tau.to_numpy(); tree_1.fit(.., tau_mat, ..) *)
  (1, [IFresh 1; IMayView 2 1; ICall 2 [2]]).
Definition p_scatter_2d : func :=                (* data = data.copy(); data['Data'] = 'Real'; _generate(data, columns) *)
  (2, [ICopy 0 0; IWrite 0; ICall 4 [0; 1]]).
Definition p_compare_2d : func :=                (* real, synth = copies; write both; data = concat; _generate(data, columns) *)
  (3, [ICopy 0 0; ICopy 1 1; IWrite 0; IWrite 1; IFresh 3; ICall 4 [3; 2]]).
Definition p_kde_percent_point : func :=         (* X = np.zeros; X[..] = ..; lower/upper = np.full; bisect(f, lower, upper) *)
  (1, [IFresh 1; IWrite 1; IFresh 2; IFresh 3; ICall 7 [2; 3]; IWrite 1]).

Definition lib_table : funtable :=
  [p_sort_tau_by_y; p_build_first_tree; p_tree_fit; p_vine_fit; p_generate_scatter;
   p_scatter_2d; p_compare_2d; p_bisect; p_kde_percent_point].

(* a call with two aliased actuals: g(x, x) where g writes only its first parameter *)
Definition p_write_first : func := (2, [IWrite 0]).
Definition p_call_aliased : func := (2, [IView 2 1; ICall 0 [0; 0]]).
Definition alias_table : funtable := [p_write_first].

(* evaluation smoke tests *)
Eval vm_compute in exec_fun [] lib_table 5 p_bisect [[10%Z]; [20%Z]].
Eval vm_compute in exec_fun [true] lib_table 5 p_vine_fit [[7%Z]].
Eval vm_compute in exec_fun [] lib_table 5 p_tree_fit [[7%Z]].
Eval vm_compute in writes_fun lib_table 5 p_tree_fit.
Eval vm_compute in (exact_ok lib_table 3 (snd p_tree_fit), exact_ok lib_table 1 (snd p_tree_fit), exact_ok lib_table 5 (snd p_vine_fit)).
