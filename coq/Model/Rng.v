(* ====================================================================== *)
(*  C15 -- executable model of the random-state management of             *)
(*  sdv-dev/Copulas  (copulas/utils.py, copulas/datasets.py).             *)
(*                                                                        *)
(*  Stdlib only, no Reals, everything evaluates with [Eval vm_compute].   *)
(*                                                                        *)
(*  Python sources transcribed here:                                      *)
(*    utils.set_random_state      (context manager, try/finally)          *)
(*    utils.random_state          (method decorator)                      *)
(*    utils.validate_random_state                                         *)
(*    <Model>.set_random_state    (self.random_state = validate(...))     *)
(*    datasets.sample_*           (with set_random_state(validate(seed),  *)
(*                                 _dummy_fn): ...)                       *)
(*    datasets.sample_univariate_bimodal (nested generator)               *)
(*    univariate.base.Univariate.sample / .fit(selection_sample_size),    *)
(*    GaussianKDE._fit(sample_size)  -- NOT decorated: [OUndecorated]     *)
(* ====================================================================== *)
From Coq Require Import ZArith List Bool.
Import ListNotations.
Open Scope Z_scope.
Open Scope nat_scope.

(* ---------------------------------------------------------------------- *)
(*  RNG states and tokens                                                 *)
(* ---------------------------------------------------------------------- *)

(* An RNG state is an abstract token: (stream id = seed, #values drawn).   *)
(* Nothing about Mersenne Twister.  A drawn value is identified with the   *)
(* state it was drawn from, so tokens have the same type.                  *)
Definition rng : Type := (Z * nat)%type.

Fixpoint tokens_from (s : Z) (c k : nat) : list rng :=
  match k with
  | O => []
  | S k' => (s, c) :: tokens_from s (S c) k'
  end.

(* draw k (s,c) = ([(s,c);...;(s,c+k-1)], (s,c+k)) *)
Definition draw (k : nat) (r : rng) : list rng * rng :=
  (tokens_from (fst r) (snd r) k, (fst r, snd r + k)).

(* ---------------------------------------------------------------------- *)
(*  The world: numpy's global generator + each model's random_state attr   *)
(* ---------------------------------------------------------------------- *)
Record world : Type := mkWorld {
  global : rng;                    (* np.random global state              *)
  models : list (option rng)       (* model i's .random_state; None=unseeded *)
}.

Definition set_global (r : rng) (w : world) : world :=
  mkWorld r (models w).

Fixpoint update {A : Type} (l : list A) (i : nat) (x : A) : list A :=
  match l, i with
  | [], _ => []
  | _ :: t, O => x :: t
  | h :: t, S i' => h :: update t i' x
  end.

Definition set_model (i : nat) (m : option rng) (w : world) : world :=
  mkWorld (global w) (update (models w) i m).

Definition get_model (w : world) (i : nat) : option (option rng) :=
  nth_error (models w) i.

(* ---------------------------------------------------------------------- *)
(*  Exceptions and computations                                           *)
(* ---------------------------------------------------------------------- *)
Inductive err : Type :=
| TypeError        (* validate_random_state: neither int nor RandomState   *)
| AttributeError   (* set_random_state(None, ..): None.get_state()         *)
| ValueError       (* np.random.RandomState(seed) with seed outside
                      [0, 2**32-1]: "Seed must be between 0 and 2**32 - 1" *)
| BodyError        (* the sampler body raised (NotFittedError, ...)        *)
| NoSuchModel.     (* ill-formed op: model index out of range (harness)    *)

(* inl e = raised e ; inr a = returned a *)
Definition result (A : Type) : Type := (err + A)%type.

(* A Python computation acting on the world that may raise. *)
Definition comp (A : Type) : Type := world -> world * result A.

(* ---------------------------------------------------------------------- *)
(*  validate_random_state                                                 *)
(* ---------------------------------------------------------------------- *)
Inductive seedval : Type :=
| VNone                 (* None                                            *)
| VInt (s : Z)          (* a Python int                                    *)
| VState (r : rng)      (* an np.random.RandomState whose state is r       *)
| VOther.               (* anything else (str, float, tuple, np.int64...)  *)

Definition seed_in_range (s : Z) : bool :=
  (0 <=? s)%Z && (s <? 2 ^ 32)%Z.

(*  def validate_random_state(random_state):
        if random_state is None: return None
        if isinstance(random_state, int):
            return np.random.RandomState(seed=random_state)   # may raise ValueError
        elif isinstance(random_state, np.random.RandomState):
            return random_state
        else: raise TypeError(...)                                          *)
Definition validate_random_state (v : seedval) : result (option rng) :=
  match v with
  | VNone => inr None
  | VInt s => if seed_in_range s then inr (Some (s, O)) else inl ValueError
  | VState r => inr (Some r)
  | VOther => inl TypeError
  end.

(* ---------------------------------------------------------------------- *)
(*  Sampler bodies                                                        *)
(* ---------------------------------------------------------------------- *)
(* (k, raises): draw k values from the CURRENT global generator, then      *)
(* either return them or raise.                                            *)
Definition body : Type := (nat * bool)%type.

Definition run_body (b : body) : comp (list rng) :=
  fun w =>
    let (toks, g') := draw (fst b) (global w) in
    (set_global g' w, if snd b then inl BodyError else inr toks).

(* ---------------------------------------------------------------------- *)
(*  set_random_state (context manager)                                    *)
(* ---------------------------------------------------------------------- *)
(*  @contextlib.contextmanager
    def set_random_state(random_state, set_model_random_state):
        original_state = np.random.get_state()
        np.random.set_state(random_state.get_state())   # AttributeError if None
        try:
            yield
        finally:
            current_random_state = np.random.RandomState()
            current_random_state.set_state(np.random.get_state())
            set_model_random_state(current_random_state)
            np.random.set_state(original_state)

    Entering COPIES the model state into the global generator.  The
    [finally] block runs whether or not the body raised; should the setter
    itself raise inside [finally], the restore is skipped and the setter's
    exception replaces the body's outcome (plain Python semantics).        *)
Definition set_random_state_ctx {A : Type}
    (rs : option rng) (setter : rng -> comp unit) (bd : comp A) : comp A :=
  fun w =>
    let original := global w in
    match rs with
    | None => (w, inl AttributeError)
    | Some r =>
        let w1 := set_global r w in
        let (w2, res) := bd w1 in
        let current := global w2 in
        let (w3, sres) := setter current w2 in
        match sres with
        | inl e => (w3, inl e)
        | inr _ => (set_global original w3, res)
        end
    end.

(*  def set_random_state(self, random_state):
        self.random_state = validate_random_state(random_state)            *)
Definition model_set_random_state (i : nat) (v : seedval) : comp unit :=
  fun w =>
    match validate_random_state v with
    | inl e => (w, inl e)                        (* attribute NOT assigned *)
    | inr m => (set_model i m w, inr tt)
    end.

(* the bound method self.set_random_state handed to the context manager *)
Definition model_setter (i : nat) : rng -> comp unit :=
  fun r => model_set_random_state i (VState r).

(*  def _dummy_fn(state): pass *)
Definition dummy_fn : rng -> comp unit :=
  fun _ w => (w, inr tt).

(* ---------------------------------------------------------------------- *)
(*  random_state (decorator)                                              *)
(* ---------------------------------------------------------------------- *)
(*  def wrapper(self, *args, **kwargs):
        if self.random_state is None:
            return function(self, *args, **kwargs)
        else:
            with set_random_state(self.random_state, self.set_random_state):
                return function(self, *args, **kwargs)                     *)
Definition random_state_wrapper {A : Type} (i : nat) (bd : comp A) : comp A :=
  fun w =>
    match get_model w i with
    | None => (w, inl NoSuchModel)
    | Some None => bd w
    | Some (Some r) => set_random_state_ctx (Some r) (model_setter i) bd w
    end.

(* ---------------------------------------------------------------------- *)
(*  datasets.py                                                           *)
(* ---------------------------------------------------------------------- *)
(*  def sample_xxx(size, seed):
        with set_random_state(validate_random_state(seed), _dummy_fn):
            <draw k values from np.random>
    validate is evaluated BEFORE the context manager is entered.           *)
Definition dataset (seed : seedval) (k : nat) : comp (list rng) :=
  fun w =>
    match validate_random_state seed with
    | inl e => (w, inl e)
    | inr rs => set_random_state_ctx rs dummy_fn (run_body (k, false)) w
    end.

(*  def sample_univariate_bimodal(size, seed):
        with set_random_state(validate_random_state(seed), _dummy_fn):
            bernoulli = sample_univariate_bernoulli(size, seed)   # k1 draws
            mode1 = np.random.normal(size=size) * bernoulli       # } k2 draws
            mode2 = np.random.normal(size=size, loc=10) * ...     # }
    The result lists the inner generator's tokens, then the outer ones.     *)
Definition nested_dataset (seed : seedval) (k1 k2 : nat) : comp (list rng) :=
  fun w =>
    match validate_random_state seed with
    | inl e => (w, inl e)
    | inr rs =>
        set_random_state_ctx rs dummy_fn
          (fun w1 =>
             let (w2, r1) := dataset seed k1 w1 in
             match r1 with
             | inl e => (w2, inl e)
             | inr t1 =>
                 let (w3, r2) := run_body (k2, false) w2 in
                 match r2 with
                 | inl e => (w3, inl e)
                 | inr t2 => (w3, inr (t1 ++ t2))
                 end
             end) w
    end.

(* ---------------------------------------------------------------------- *)
(*  Operations, step, run                                                 *)
(* ---------------------------------------------------------------------- *)
Inductive op : Type :=
| OSample (i : nat) (k : nat) (raises : bool)
    (* a @random_state-decorated sampler of model i
       (Bivariate.sample, GaussianMultivariate.sample, VineCopula.sample,
        ScipyModel.sample, GaussianKDE.sample)                            *)
| OSetState (i : nat) (v : seedval)
    (* model_i.set_random_state(v)                                        *)
| OGlobalDraw (k : nat)
    (* user code drawing k values from np.random directly                 *)
| ODataset (seed : seedval) (k : nat)
    (* copulas.datasets.sample_*(size, seed)                              *)
| ONestedDataset (seed : seedval) (k1 k2 : nat)
    (* copulas.datasets.sample_univariate_bimodal(size, seed)             *)
| OUndecorated (i : nat) (k : nat).
    (* an UNdecorated method of model i that draws from np.random:
       Univariate.sample (delegates to an inner instance built without the
       seed), Univariate.fit with selection_sample_size (np.random.choice),
       GaussianKDE._fit with sample_size (scipy resample)                 *)

Inductive out : Type :=
| OutTokens (l : list rng)   (* returned the sampled values               *)
| OutNone                    (* returned None (set_random_state)          *)
| OutErr (e : err).          (* raised                                    *)

Definition out_of_tokens (r : result (list rng)) : out :=
  match r with inl e => OutErr e | inr l => OutTokens l end.

Definition out_of_unit (r : result unit) : out :=
  match r with inl e => OutErr e | inr _ => OutNone end.

Definition step (w : world) (o : op) : world * out :=
  match o with
  | OSample i k raises =>
      let (w', r) := random_state_wrapper i (run_body (k, raises)) w in
      (w', out_of_tokens r)
  | OSetState i v =>
      match get_model w i with
      | None => (w, OutErr NoSuchModel)
      | Some _ =>
          let (w', r) := model_set_random_state i v w in (w', out_of_unit r)
      end
  | OGlobalDraw k =>
      let (w', r) := run_body (k, false) w in (w', out_of_tokens r)
  | ODataset seed k =>
      let (w', r) := dataset seed k w in (w', out_of_tokens r)
  | ONestedDataset seed k1 k2 =>
      let (w', r) := nested_dataset seed k1 k2 w in (w', out_of_tokens r)
  | OUndecorated i k =>
      match get_model w i with
      | None => (w, OutErr NoSuchModel)
      | Some _ =>
          let (w', r) := run_body (k, false) w in (w', out_of_tokens r)
      end
  end.

Fixpoint run (w : world) (ops : list op) : world * list out :=
  match ops with
  | [] => (w, [])
  | o :: rest =>
      let (w1, x) := step w o in
      let (w2, xs) := run w1 rest in
      (w2, x :: xs)
  end.

(* step-by-step trace for the Python harness:                              *)
(*   (output, global after the op, models after the op)                    *)
Fixpoint run_trace (w : world) (ops : list op)
  : list (out * rng * list (option rng)) :=
  match ops with
  | [] => []
  | o :: rest =>
      let (w1, x) := step w o in
      (x, global w1, models w1) :: run_trace w1 rest
  end.

(* ---------------------------------------------------------------------- *)
(*  Single-model view (used to STATE non-interference)                     *)
(* ---------------------------------------------------------------------- *)
(* The ops addressed to model i, with the index erased. *)
Inductive mop : Type :=
| MSample (k : nat) (raises : bool)
| MSetState (v : seedval).

Definition addressed (i : nat) (o : op) : option mop :=
  match o with
  | OSample j k r => if Nat.eqb j i then Some (MSample k r) else None
  | OSetState j v => if Nat.eqb j i then Some (MSetState v) else None
  | _ => None
  end.

Fixpoint proj (i : nat) (ops : list op) : list mop :=
  match ops with
  | [] => []
  | o :: rest =>
      match addressed i o with
      | Some m => m :: proj i rest
      | None => proj i rest
      end
  end.

(* outputs of the ops addressed to model i *)
Fixpoint outs_of (i : nat) (ops : list op) (outs : list out) : list out :=
  match ops, outs with
  | o :: ops', x :: outs' =>
      match addressed i o with
      | Some _ => x :: outs_of i ops' outs'
      | None => outs_of i ops' outs'
      end
  | _, _ => []
  end.

(* Reference machine for ONE seeded model: it knows nothing about the      *)
(* global generator or about other models.  (For an unseeded model the     *)
(* sample case is a dummy: the real output then depends on [global].)      *)
Definition mstep (m : option rng) (o : mop) : option rng * out :=
  match o with
  | MSample k raises =>
      match m with
      | Some st =>
          let (toks, st') := draw k st in
          (Some st', if raises then OutErr BodyError else OutTokens toks)
      | None => (None, OutErr AttributeError)
      end
  | MSetState v =>
      match validate_random_state v with
      | inl e => (m, OutErr e)
      | inr m' => (m', OutNone)
      end
  end.

Fixpoint mrun (m : option rng) (ops : list mop) : option rng * list out :=
  match ops with
  | [] => (m, [])
  | o :: rest =>
      let (m1, x) := mstep m o in
      let (m2, xs) := mrun m1 rest in
      (m2, x :: xs)
  end.

Definition is_some {A : Type} (x : option A) : bool :=
  match x with Some _ => true | None => false end.

(* model is seeded at every sample call of the sequence *)
Fixpoint seeded_at_samples (m : option rng) (ops : list mop) : bool :=
  match ops with
  | [] => true
  | o :: rest =>
      (match o with MSample _ _ => is_some m | MSetState _ => true end)
      && seeded_at_samples (fst (mstep m o)) rest
  end.

(* ---------------------------------------------------------------------- *)
(*  "Global-safe" operations (used to STATE global_preserved)              *)
(* ---------------------------------------------------------------------- *)
(* Dynamic check, relative to the current world. *)
Definition global_safe (w : world) (o : op) : bool :=
  match o with
  | OSample i _ _ =>
      match get_model w i with
      | Some None => false          (* unseeded: runs on global *)
      | _ => true
      end
  | OSetState _ _ => true
  | OGlobalDraw _ => false
  | ODataset _ _ => true            (* every seed, also None / bad ones *)
  | ONestedDataset _ _ _ => true
  | OUndecorated i _ =>
      match get_model w i with
      | None => true                (* ill-formed op: no effect *)
      | Some _ => false
      end
  end.

Fixpoint all_global_safe (w : world) (ops : list op) : bool :=
  match ops with
  | [] => true
  | o :: rest => global_safe w o && all_global_safe (fst (step w o)) rest
  end.

(* Static (syntactic) sufficient condition: no direct draws, no undecorated *)
(* samplers, and no model is ever un-seeded.                                *)
Definition static_safe (o : op) : bool :=
  match o with
  | OSample _ _ _ => true
  | OSetState _ VNone => false
  | OSetState _ _ => true
  | OGlobalDraw _ => false
  | ODataset _ _ => true
  | ONestedDataset _ _ _ => true
  | OUndecorated _ _ => false
  end.

Definition all_seeded (w : world) : bool := forallb is_some (models w).

(* ---------------------------------------------------------------------- *)
(*  Executable sanity checks                                              *)
(* ---------------------------------------------------------------------- *)
Definition w0 : world :=
  mkWorld (99%Z, 5) [Some (7%Z, 0); None; Some (7%Z, 0)].

Definition ops10 : list op :=
  [ OSample 0 3 false;               (* seeded model 0: tokens (7,0..2)     *)
    OSample 2 3 false;               (* equal seed: equal tokens            *)
    OSample 0 2 true;                (* raises, still advances to (7,5)     *)
    OSample 1 2 false;               (* unseeded: draws (99,5),(99,6)       *)
    OSetState 1 (VInt 11);           (* now seeded                          *)
    OSample 1 1 false;               (* (11,0), global untouched            *)
    ODataset (VInt 42) 4;            (* (42,0..3), world untouched          *)
    ODataset VNone 4;                (* AttributeError, world untouched     *)
    ONestedDataset (VInt 42) 2 3;    (* (42,0),(42,1) ++ (42,0),(42,1),(42,2) *)
    OUndecorated 0 2;                (* seeded model, yet draws (99,7),(99,8) *)
    OSetState 0 VOther;              (* TypeError, state kept               *)
    OSetState 0 (VInt (-1));         (* ValueError, state kept              *)
    OGlobalDraw 1 ].

Eval vm_compute in run w0 ops10.
Eval vm_compute in run_trace w0 ops10.
Eval vm_compute in (proj 0 ops10, outs_of 0 ops10 (snd (run w0 ops10)),
                    mrun (Some (7%Z, 0)) (proj 0 ops10)).
Eval vm_compute in all_global_safe w0 (firstn 3 ops10).
