(* Hand-written executable model of the control skeleton of Bivariate.fit / check_theta / check_fit /
   check_marginal (copulas/bivariate/base.py).  Tied to the implementation by the differential
   correspondence check of C10 (and C19); the numeric pieces (theta domains, compute_theta) are
   generated from the source and passed in as parameters. *)
From Coq Require Import QArith List Bool.
Import ListNotations.

Inductive ext := Fin (q : Q) | PInf | MInf.
Definition ext_le (a b : ext) : bool :=
  match a, b with
  | MInf, _ => true
  | _, PInf => true
  | Fin x, Fin y => Qle_bool x y
  | _, _ => false
  end.
Definition ext_eqb (a b : ext) : bool :=
  match a, b with
  | Fin x, Fin y => Qeq_bool x y
  | PInf, PInf => true
  | MInf, MInf => true
  | _, _ => false
  end.

Inductive err := ValueError | NotFittedError | TypeError | OtherError.
Inductive theta_res := TVal (q : Q) | TInf | TErr.

Record dom := { d_lo : ext; d_hi : ext; d_invalid : list Q }.

(* check_theta: raises ValueError unless lower <= theta <= upper and theta not in invalid_thetas *)
Definition check_theta (d : dom) (th : ext) : bool :=
  ext_le (d_lo d) th && ext_le th (d_hi d) && negb (existsb (fun q => ext_eqb th (Fin q)) (d_invalid d)).

(* check_fit: `if not self.theta` -> NotFittedError (None and 0 are falsy; inf is truthy); then check_theta *)
Definition check_fit (d : dom) (th : option ext) : option err :=
  match th with
  | None => Some NotFittedError
  | Some t => if ext_eqb t (Fin 0) then Some NotFittedError
              else if check_theta d t then None else Some ValueError
  end.

Fixpoint qmin (d : Q) (l : list Q) : Q := match l with [] => d | x :: r => qmin (if Qle_bool x d then x else d) r end.
Fixpoint qmax (d : Q) (l : list Q) : Q := match l with [] => d | x :: r => qmax (if Qle_bool d x then x else d) r end.
(* check_marginal: `min(u) < 0.0 or max(u) > 1.0` -> ValueError (the KS warning is not an error) *)
Definition check_marginal (u : list Q) : bool :=
  match u with
  | [] => true
  | x :: r => negb (negb (Qle_bool 0 (qmin x r)) || negb (Qle_bool (qmax x r) 1))
  end.

Inductive fit_out :=
| FitOk (tau : Q) (theta : ext)
| FitErr (e : err) (tau_assigned : bool) (theta_assigned : option ext).

(* fit: check_marginal U; check_marginal V; self.tau = kendalltau(U,V)[0] (oracle, None = NaN);
   NaN -> ValueError; self.theta = compute_theta(); check_theta() *)
Definition fit_ctl (d : dom) (compute : Q -> theta_res) (U V : list Q) (tau : option Q) : fit_out :=
  if negb (check_marginal U) then FitErr ValueError false None
  else if negb (check_marginal V) then FitErr ValueError false None
  else match tau with
       | None => FitErr ValueError true None
       | Some t =>
           match compute t with
           | TErr => FitErr ValueError true None
           | TInf => if check_theta d PInf then FitOk t PInf else FitErr ValueError true (Some PInf)
           | TVal q => if check_theta d (Fin q) then FitOk t (Fin q) else FitErr ValueError true (Some (Fin q))
           end
       end.

(* a fitted model is usable iff check_fit passes *)
Definition usable (d : dom) (o : fit_out) : bool :=
  match o with
  | FitOk _ th => match check_fit d (Some th) with None => true | Some _ => false end
  | FitErr _ _ _ => true   (* refusing is fine *)
  end.

(* printable form (Coq's Q number notation prints dyadic rationals in hexadecimal) *)
Inductive ext_show := SFin (n : Z) (d : positive) | SPInf | SMInf.
Definition show_ext (e : ext) : ext_show := match e with Fin q => SFin (Qnum q) (Qden q) | PInf => SPInf | MInf => SMInf end.
Inductive fit_show := ShowOk (tn : Z) (td : positive) (th : ext_show) | ShowErr (e : err) (tau_assigned : bool).
Definition show_fit (o : fit_out) : fit_show :=
  match o with
  | FitOk t th => ShowOk (Qnum t) (Qden t) (show_ext th)
  | FitErr e a _ => ShowErr e a
  end.
