(* C20 -- model of copulas.visualization scatter_2d/3d, compare_2d/3d and of
   plotly.express.scatter(data, x, y[, z], color='Data').  Stdlib only, executable. *)
From Coq Require Import ZArith List Bool Arith.
Import ListNotations.

(* ------------------------------------------------------------------ *)
(* plotly.express.scatter with a discrete colour column (the oracle)   *)
(* one trace per distinct colour value, in order of first appearance;  *)
(* each trace holds the points with that colour, in original order;    *)
(* an empty frame gives a figure with NO trace.                        *)
(* ------------------------------------------------------------------ *)
Section Scatter.
  Variable A : Type.                       (* a point: the x/y(/z) coordinates *)
  Variable C : Type.                       (* the colour value *)
  Variable ceqb : C -> C -> bool.

  Fixpoint first_appearance (cs : list C) : list C :=
    match cs with
    | [] => []
    | c :: t => c :: filter (fun x => negb (ceqb x c)) (first_appearance t)
    end.

  Definition trace := (C * list A)%type.   (* trace name, its points *)

  Definition px_scatter (pts : list (A * C)) : list trace :=
    map (fun c => (c, map fst (filter (fun p => ceqb (snd p) c) pts)))
        (first_appearance (map snd pts)).

  Definition trace_points (t : trace) : list (A * C) := map (fun a => (a, fst t)) (snd t).
  Definition fig_points (f : list trace) : list (A * C) := flat_map trace_points f.
End Scatter.
Arguments first_appearance {C}.
Arguments px_scatter {A C}.
Arguments trace_points {A C}.
Arguments fig_points {A C}.

(* ------------------------------------------------------------------ *)
(* Frames                                                              *)
(* ------------------------------------------------------------------ *)

Inductive label := Real | Synthetic.
Definition label_eqb (a b : label) : bool :=
  match a, b with Real, Real | Synthetic, Synthetic => true | _, _ => false end.

Definition name := nat.                    (* a column name *)
Definition data_col : name := 0.           (* the reserved name 'Data' *)

Inductive value := VNum (z : Z) | VNaN | VLab (l : label).

Definition row := list (name * Z).         (* the cells of one row, keyed by column name *)
Record frame := mkFrame { fcols : list name; frows : list row }.

(* a frame after `df['Data'] = label` (possibly several, concatenated) *)
Record tframe := mkTFrame { tcols : list name; trows : list (row * label) }.

Definition mem (c : name) (cs : list name) : bool := existsb (Nat.eqb c) cs.

Fixpoint assoc (c : name) (r : row) : option Z :=
  match r with
  | [] => None
  | (c', z) :: r' => if Nat.eqb c c' then Some z else assoc c r'
  end.

(* cell lookup in a labelled row; a column the row's frame did not have is NaN
   (pd.concat fills with NaN); the 'Data' column holds the label, overwriting
   any user column of that name *)
Definition tcell (r : row * label) (c : name) : value :=
  if Nat.eqb c data_col then VLab (snd r)
  else match assoc c (fst r) with Some z => VNum z | None => VNaN end.

(* df = df.copy(); df['Data'] = lab : appended as last column unless it already exists *)
Definition set_label (lab : label) (f : frame) : tframe :=
  mkTFrame (if mem data_col (fcols f) then fcols f else fcols f ++ [data_col])
           (map (fun r => (r, lab)) (frows f)).

(* pd.concat([a, b], axis=0, ignore_index=True): union of the columns, rows appended *)
Definition concat (a b : tframe) : tframe :=
  mkTFrame (tcols a ++ filter (fun c => negb (mem c (tcols a))) (tcols b))
           (trows a ++ trows b).

(* ------------------------------------------------------------------ *)
(* copulas.visualization                                               *)
(* ------------------------------------------------------------------ *)

Inductive perr :=
| ErrIndex           (* IndexError while formatting the default title: fewer than k names *)
| ErrColumnCount     (* ValueError('Only k columns can be plotted') *)
| ErrNoSuchColumn.   (* ValueError raised by plotly: x/y/z is not a column of data_frame *)

Definition point := list value.            (* [x; y] or [x; y; z] *)
Definition figure := list (trace point label).

(* the columns whose values end up on the axes; `columns = []` models both None and [] (falsy) *)
Definition requested_axes (k : nat) (data : tframe) (columns : list name) : list name :=
  match columns with
  | [] => firstn k (tcols data)
  | _ => columns
  end.

(* _generate_scatter_2d_plot (k = 2) / _generate_scatter_3d_plot (k = 3).
   Returns the CALLER'S `columns` list as it is after the call, and the outcome.
   History (finding F16b, repaired in the source): the helpers used to do `columns.append('Data')` on the caller's
   list, so the first component was `columns ++ [data_col]` and a second identical call raised ErrColumnCount; they now
   build a new list `list(columns) + ['Data']`, the caller's list is returned unchanged. *)
Definition generate_scatter (k : nat) (data : tframe) (columns : list name)
  : list name * (perr + figure) :=
  let caller_columns := columns in
  let cols := match columns with [] => tcols data | _ => columns ++ [data_col] end in
  if negb (Nat.eqb (length cols) (S k)) then (caller_columns, inl ErrColumnCount)
  else
    let axes := firstn k cols in
    if forallb (fun c => mem c (tcols data)) axes
    then (caller_columns,
          inr (px_scatter label_eqb (map (fun r => (map (tcell r) axes, snd r)) (trows data))))
    else (caller_columns, inl ErrNoSuchColumn).

(* the default-title code indexes columns[0..k-1] (or data.columns[0..k-1]) when no title is given *)
Definition title_ok (k : nat) (has_title : bool) (data : tframe) (columns : list name) : bool :=
  has_title ||
  (k <=? length (match columns with [] => tcols data | _ => columns end)).

Definition plot_nd (k : nat) (has_title : bool) (data : tframe) (columns : list name)
  : list name * (perr + figure) :=
  if title_ok k has_title data columns then generate_scatter k data columns
  else (columns, inl ErrIndex).

Definition scatter_nd (k : nat) (has_title : bool) (data : frame) (columns : list name) :=
  plot_nd k has_title (set_label Real data) columns.

Definition compare_nd (k : nat) (has_title : bool) (real synth : frame) (columns : list name) :=
  plot_nd k has_title (concat (set_label Real real) (set_label Synthetic synth)) columns.

Definition scatter_2d := scatter_nd 2.
Definition scatter_3d := scatter_nd 3.
Definition compare_2d := compare_nd 2.
Definition compare_3d := compare_nd 3.

(* what the theorem compares the figure with *)
Definition tagged_points (axes : list name) (lab : label) (f : frame) : list (point * label) :=
  map (fun r => (map (tcell (r, lab)) axes, lab)) (frows f).

(* ------------------------------------------------------------------ *)
(* smoke tests (mirroring a run of the real library)                   *)
(* ------------------------------------------------------------------ *)
Definition fr_real : frame := mkFrame [1; 2] [[(1, 1%Z); (2, 5%Z)]; [(1, 2%Z); (2, 6%Z)]].
Definition fr_synth : frame := mkFrame [2; 3] [[(2, 1%Z); (3, 5%Z)]; [(2, 2%Z); (3, 6%Z)]].

Eval vm_compute in compare_2d false fr_real fr_synth [1; 2].
Eval vm_compute in compare_2d false fr_real fr_synth [1; 9].
Eval vm_compute in compare_2d false fr_real fr_synth [].
Eval vm_compute in compare_2d false fr_real fr_real [].
Eval vm_compute in scatter_2d false fr_real [].
Eval vm_compute in scatter_2d false fr_real [1].
Eval vm_compute in scatter_2d true fr_real [1].
Eval vm_compute in scatter_3d false fr_real [1; 2; 1].
Eval vm_compute in
  px_scatter label_eqb [(1, Synthetic); (2, Real); (3, Synthetic); (4, Real)].

(* ================================================================== *)
(* 1-d plots: dist_1d, compare_1d, _generate_1d_plot                   *)
(* (plotly.figure_factory.create_distplot with show_hist=False,        *)
(* show_rug=False: ONE density curve per group, in the order given)    *)
(* ================================================================== *)
(* what a caller hands over as 1-d data *)
Inductive data1d :=
| D1Array (vs : list Z)                        (* numpy array / list of numbers *)
| D1Series (nm : option name) (vs : list Z)    (* pandas Series: its `name` (None or a column name) and its values *)
| D1Frame (f : frame).                         (* pandas DataFrame: has a default title, is NOT array-like for the density plot *)

Definition ulabel := option (list nat).        (* the `label` argument of dist_1d: None or a string (character codes) *)
Inductive glabel := GFixed (l : label) | GUser (u : ulabel).   (* a group label: 'Real' / 'Synthetic', or the user's *)
Inductive colour := CDark | CGreen | CDefault (i : nat).      (* PlotConfig.DATACEBO_DARK / DATACEBO_GREEN / plotly's i-th default colour *)

Definition truthy_str (s : list nat) : bool := match s with [] => false | _ :: _ => true end.
Definition truthy_opt_str (o : option (list nat)) : bool := match o with Some s => truthy_str s | None => false end.
Definition truthy_glabel (g : glabel) : bool := match g with GFixed _ => true | GUser u => truthy_opt_str u end.

Fixpoint str_eqb (a b : list nat) : bool :=
  match a, b with
  | [], [] => true
  | x :: a', y :: b' => Nat.eqb x y && str_eqb a' b'
  | _, _ => false
  end.
Definition glabel_eqb (a b : glabel) : bool :=
  match a, b with
  | GFixed x, GFixed y => label_eqb x y
  | GUser None, GUser None => true
  | GUser (Some s), GUser (Some t) => str_eqb s t
  | _, _ => false
  end.

(* one curve of the figure: its legend name, its colour, the values whose density it shows, and the index of the group
   over whose value range (x grid) it is drawn *)
Record trace1d := mkTrace1d { t_label : glabel; t_colour : colour; t_xsrc : nat; t_values : list Z }.
(* the figure: title (of type T: Model.Plot does not fix the representation of strings), legend shown or not, the curves in order *)
Record plot1d (T : Type) := mkPlot1d { p_title : T; p_legend : bool; p_traces : list trace1d }.
Arguments mkPlot1d {T}. Arguments p_title {T}. Arguments p_legend {T}. Arguments p_traces {T}.

Inductive perr1d :=
| Err1Index      (* IndexError of `data.columns[0]` in the default-title code (a frame without columns), or of `labels[0]` *)
| Err1Plotly.    (* raised inside create_distplot: a group that is not a non-empty 1-d array-like (a DataFrame, an empty
                    array), no group at all, or a different number of groups and labels *)

(* the values create_distplot draws for one group; a DataFrame is refused (validate_distplot accepts list / ndarray / Series
   only; in a later position min(frame) * 1.0 / gaussian_kde(frame) fail), an empty group has no min / max *)
Definition values1d (d : data1d) : option (list Z) :=
  match d with
  | D1Array [] | D1Series _ [] => None
  | D1Array vs | D1Series _ vs => Some vs
  | D1Frame _ => None
  end.
Fixpoint all_values1d (ds : list data1d) : option (list (list Z)) :=
  match ds with
  | [] => Some []
  | d :: r => match values1d d, all_values1d r with Some v, Some vr => Some (v :: vr) | _, _ => None end
  end.

(* colors[i % len(colors)], plotly's own palette when the list is empty (falsy) *)
Definition colour_at (colors : list colour) (i : nat) : colour :=
  match colors with [] => CDefault (i mod 10) | c :: _ => nth (i mod length colors) colors c end.

Fixpoint distplot_from (i : nat) (labels : list glabel) (colors : list colour) (vss : list (list Z)) : list trace1d :=
  match labels, vss with
  | l :: lr, vs :: vr => mkTrace1d l (colour_at colors i) i vs :: distplot_from (S i) lr colors vr
  | _, _ => []
  end.

(* ff.create_distplot(hist_data, group_labels, show_hist=False, show_rug=False, colors=colors): curve i = group i under
   label i in colour i, drawn over the range of group i *)
Definition create_distplot (data : list data1d) (labels : list glabel) (colors : list colour) : option (list trace1d) :=
  match data, all_values1d data with
  | _ :: _, Some vss => if Nat.eqb (length data) (length labels) then Some (distplot_from 0 labels colors vss) else None
  | _, _ => None
  end.

(* `for i, name in enumerate(labels): fig.update_traces(x=fig.data[i].x, selector={'name': name}, ...)`:
   every curve called `name` is re-drawn over the x grid curve i has at that moment *)
Definition set_xsrc (x : nat) (t : trace1d) : trace1d := mkTrace1d (t_label t) (t_colour t) x (t_values t).
Definition update_x_by_name (fig : list trace1d) (x : nat) (nm : glabel) : list trace1d :=
  map (fun t => if glabel_eqb (t_label t) nm then set_xsrc x t else t) fig.
Fixpoint realign_from (i : nat) (labels : list glabel) (fig : list trace1d) : list trace1d :=
  match labels with
  | [] => fig
  | nm :: r => match nth_error fig i with
               | Some t => realign_from (S i) r (update_x_by_name fig (t_xsrc t) nm)
               | None => fig
               end
  end.

(* _generate_1d_plot(data, title, labels, colors) *)
Definition generate_1d {T : Type} (data : list data1d) (title : T) (labels : list glabel) (colors : list colour)
  : perr1d + plot1d T :=
  match create_distplot data labels colors with
  | None => inl Err1Plotly
  | Some fig =>
      match labels with
      | l0 :: _ => inr (mkPlot1d title (truthy_glabel l0) (realign_from 0 labels fig))      (* showlegend=True if labels[0] else False *)
      | [] => inl Err1Index
      end
  end.

(* the title of a 1-d plot: the caller's, or the default text with the names formatted into it (the TEXT is not modelled) *)
Inductive title1d := TGiven (t : option (list nat)) | TDefault (cols : list name).

(* `if not title: title = '...'; if isinstance(data, pd.DataFrame): += data.columns[0] elif isinstance(data, pd.Series) and
   data.name: += data.name` *)
Definition title_for (title : option (list nat)) (d : data1d) : perr1d + title1d :=
  if truthy_opt_str title then inr (TGiven title)
  else match d with
       | D1Frame f => match fcols f with c :: _ => inr (TDefault [c]) | [] => inl Err1Index end
       | D1Series (Some n) _ => inr (TDefault [n])
       | _ => inr (TDefault [])
       end.

(* the colour each label is drawn in, in the 1-d plots and in the colour maps of the scatter plots *)
Definition colour_of_label (l : label) : colour := match l with Real => CDark | Synthetic => CGreen end.
Definition scatter_labels : list label := [Real].                 (* the labels scatter_2d/3d tag the rows with *)
Definition compare_labels : list label := [Real; Synthetic].      (* compare_2d/3d, compare_1d: in this order *)

Definition dist_1d (title : option (list nat)) (label : ulabel) (data : data1d) : perr1d + plot1d title1d :=
  match title_for title data with
  | inl e => inl e
  | inr t => generate_1d [data] t [GUser label] [CDark]
  end.

Definition compare_1d (title : option (list nat)) (real synth : data1d) : perr1d + plot1d title1d :=
  match title_for title real with
  | inl e => inl e
  | inr t => generate_1d [real; synth] t (map GFixed compare_labels) (map colour_of_label compare_labels)
  end.

Definition s1_real : data1d := D1Series (Some 1) [3; 1; 4]%Z.
Definition a1_synth : data1d := D1Array [2; 7]%Z.
Eval vm_compute in compare_1d None s1_real a1_synth.
Eval vm_compute in compare_1d (Some [84]) a1_synth s1_real.
Eval vm_compute in dist_1d None (Some [76]) s1_real.
Eval vm_compute in dist_1d None None (D1Frame fr_real).
Eval vm_compute in compare_1d None s1_real (D1Frame fr_real).
(* the private helper with a repeated label: both curves end up over the x grid of the FIRST group *)
Eval vm_compute in generate_1d [s1_real; a1_synth] tt [GFixed Real; GFixed Real] [].
