(* C20 -- model of copulas.visualization scatter_2d/3d, compare_2d/3d and of
   plotly.express.scatter(data, x, y[, z], color='Data').  Stdlib only, executable. *)
From Coq Require Import ZArith List Bool Arith.
Import ListNotations.

(* ------------------------------------------------------------------ *)
(* plotly.express.scatter with a discrete colour column (the oracle)   *)
(* one trace per distinct colour value, in order of first appearance;  *)
(* each trace holds the points with that colour, in original order;    *)
(* an empty frame gives a figure with NO trace.                        *)
(* ------------------------------------------------------------------ *)
Section Scatter.
  Variable A : Type.                       (* a point: the x/y(/z) coordinates *)
  Variable C : Type.                       (* the colour value *)
  Variable ceqb : C -> C -> bool.

  Fixpoint first_appearance (cs : list C) : list C :=
    match cs with
    | [] => []
    | c :: t => c :: filter (fun x => negb (ceqb x c)) (first_appearance t)
    end.

  Definition trace := (C * list A)%type.   (* trace name, its points *)

  Definition px_scatter (pts : list (A * C)) : list trace :=
    map (fun c => (c, map fst (filter (fun p => ceqb (snd p) c) pts)))
        (first_appearance (map snd pts)).

  Definition trace_points (t : trace) : list (A * C) := map (fun a => (a, fst t)) (snd t).
  Definition fig_points (f : list trace) : list (A * C) := flat_map trace_points f.
End Scatter.
Arguments first_appearance {C}.
Arguments px_scatter {A C}.
Arguments trace_points {A C}.
Arguments fig_points {A C}.

(* ------------------------------------------------------------------ *)
(* Frames                                                              *)
(* ------------------------------------------------------------------ *)

Inductive label := Real | Synthetic.
Definition label_eqb (a b : label) : bool :=
  match a, b with Real, Real | Synthetic, Synthetic => true | _, _ => false end.

Definition name := nat.                    (* a column name *)
Definition data_col : name := 0.           (* the reserved name 'Data' *)

Inductive value := VNum (z : Z) | VNaN | VLab (l : label).

Definition row := list (name * Z).         (* the cells of one row, keyed by column name *)
Record frame := mkFrame { fcols : list name; frows : list row }.

(* a frame after `df['Data'] = label` (possibly several, concatenated) *)
Record tframe := mkTFrame { tcols : list name; trows : list (row * label) }.

Definition mem (c : name) (cs : list name) : bool := existsb (Nat.eqb c) cs.

Fixpoint assoc (c : name) (r : row) : option Z :=
  match r with
  | [] => None
  | (c', z) :: r' => if Nat.eqb c c' then Some z else assoc c r'
  end.

(* cell lookup in a labelled row; a column the row's frame did not have is NaN
   (pd.concat fills with NaN); the 'Data' column holds the label, overwriting
   any user column of that name *)
Definition tcell (r : row * label) (c : name) : value :=
  if Nat.eqb c data_col then VLab (snd r)
  else match assoc c (fst r) with Some z => VNum z | None => VNaN end.

(* df = df.copy(); df['Data'] = lab : appended as last column unless it already exists *)
Definition set_label (lab : label) (f : frame) : tframe :=
  mkTFrame (if mem data_col (fcols f) then fcols f else fcols f ++ [data_col])
           (map (fun r => (r, lab)) (frows f)).

(* pd.concat([a, b], axis=0, ignore_index=True): union of the columns, rows appended *)
Definition concat (a b : tframe) : tframe :=
  mkTFrame (tcols a ++ filter (fun c => negb (mem c (tcols a))) (tcols b))
           (trows a ++ trows b).

(* ------------------------------------------------------------------ *)
(* copulas.visualization                                               *)
(* ------------------------------------------------------------------ *)

Inductive perr :=
| ErrIndex           (* IndexError while formatting the default title: fewer than k names *)
| ErrColumnCount     (* ValueError('Only k columns can be plotted') *)
| ErrNoSuchColumn.   (* ValueError raised by plotly: x/y/z is not a column of data_frame *)

Definition point := list value.            (* [x; y] or [x; y; z] *)
Definition figure := list (trace point label).

(* the columns whose values end up on the axes; `columns = []` models both None and [] (falsy) *)
Definition requested_axes (k : nat) (data : tframe) (columns : list name) : list name :=
  match columns with
  | [] => firstn k (tcols data)
  | _ => columns
  end.

(* _generate_scatter_2d_plot (k = 2) / _generate_scatter_3d_plot (k = 3).
   Returns the CALLER'S `columns` list as it is after the call, and the outcome.
   History (finding F16b, repaired in the source): the helpers used to do `columns.append('Data')` on the caller's
   list, so the first component was `columns ++ [data_col]` and a second identical call raised ErrColumnCount; they now
   build a new list `list(columns) + ['Data']`, the caller's list is returned unchanged. *)
Definition generate_scatter (k : nat) (data : tframe) (columns : list name)
  : list name * (perr + figure) :=
  let caller_columns := columns in
  let cols := match columns with [] => tcols data | _ => columns ++ [data_col] end in
  if negb (Nat.eqb (length cols) (S k)) then (caller_columns, inl ErrColumnCount)
  else
    let axes := firstn k cols in
    if forallb (fun c => mem c (tcols data)) axes
    then (caller_columns,
          inr (px_scatter label_eqb (map (fun r => (map (tcell r) axes, snd r)) (trows data))))
    else (caller_columns, inl ErrNoSuchColumn).

(* the default-title code indexes columns[0..k-1] (or data.columns[0..k-1]) when no title is given *)
Definition title_ok (k : nat) (has_title : bool) (data : tframe) (columns : list name) : bool :=
  has_title ||
  (k <=? length (match columns with [] => tcols data | _ => columns end)).

Definition plot_nd (k : nat) (has_title : bool) (data : tframe) (columns : list name)
  : list name * (perr + figure) :=
  if title_ok k has_title data columns then generate_scatter k data columns
  else (columns, inl ErrIndex).

Definition scatter_nd (k : nat) (has_title : bool) (data : frame) (columns : list name) :=
  plot_nd k has_title (set_label Real data) columns.

Definition compare_nd (k : nat) (has_title : bool) (real synth : frame) (columns : list name) :=
  plot_nd k has_title (concat (set_label Real real) (set_label Synthetic synth)) columns.

Definition scatter_2d := scatter_nd 2.
Definition scatter_3d := scatter_nd 3.
Definition compare_2d := compare_nd 2.
Definition compare_3d := compare_nd 3.

(* what the theorem compares the figure with *)
Definition tagged_points (axes : list name) (lab : label) (f : frame) : list (point * label) :=
  map (fun r => (map (tcell (r, lab)) axes, lab)) (frows f).

(* ------------------------------------------------------------------ *)
(* smoke tests (mirroring a run of the real library)                   *)
(* ------------------------------------------------------------------ *)
Definition fr_real : frame := mkFrame [1; 2] [[(1, 1%Z); (2, 5%Z)]; [(1, 2%Z); (2, 6%Z)]].
Definition fr_synth : frame := mkFrame [2; 3] [[(2, 1%Z); (3, 5%Z)]; [(2, 2%Z); (3, 6%Z)]].

Eval vm_compute in compare_2d false fr_real fr_synth [1; 2].
Eval vm_compute in compare_2d false fr_real fr_synth [1; 9].
Eval vm_compute in compare_2d false fr_real fr_synth [].
Eval vm_compute in compare_2d false fr_real fr_real [].
Eval vm_compute in scatter_2d false fr_real [].
Eval vm_compute in scatter_2d false fr_real [1].
Eval vm_compute in scatter_2d true fr_real [1].
Eval vm_compute in scatter_3d false fr_real [1; 2; 1].
Eval vm_compute in
  px_scatter label_eqb [(1, Synthetic); (2, Real); (3, Synthetic); (4, Real)].
