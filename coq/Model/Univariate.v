(* MODEL file for the univariate laws (C03 + C04): every definition the Python harness drives.
   Real-valued transcriptions (the task asks for R-functions), so this file imports Reals; it contains
   definitions only.  Proofs are in Spec/{KDE,Uniform,GaussianFit,ConstantLaw,Truncated}.v; an executable
   rational mirror of the branch logic is Model/UnivQ.v (bridged in Spec/UnivQBridge.v).
   The Python sources are quoted at the head of each Spec file. *)
From Coq Require Import Reals List Bool.
From Cop Require Import Lib.NumpyR.
Import ListNotations.
Open Scope R_scope.

(* ==== GaussianKDE (gaussian_kde.py): _get_bounds, cumulative_distribution, percent_point routing ==== *)

(* _get_bounds *)
Definition kde_lower (data : list R) : R := np_min data - 5 * np_std data.
Definition kde_upper (data : list R) : R := np_max data + 5 * np_std data.
Definition kde_get_bounds (data : list R) : R * R := (kde_lower data, kde_upper data).

(* (uppers - lower).dot(weights) for one query point x;  pts = [(x_i, w_i)] *)
Definition kde_cdf (Phi : R -> R) (pts : list (R * R)) (h L x : R) : R :=
  Rsum (map (fun p => (Phi ((x - fst p) / h) - Phi ((L - fst p) / h)) * snd p) pts).

(* the mass the subtraction of `lower` removes *)
Definition kde_delta (Phi : R -> R) (pts : list (R * R)) (h L : R) : R :=
  Rsum (map (fun p => Phi ((L - fst p) / h) * snd p) pts).

(* vectorised form *)
Definition kde_cdf_vec (Phi : R -> R) (pts : list (R * R)) (h L : R) (xs : list R) : list R :=
  map (kde_cdf Phi pts h L) xs.

(* percent_point: routing of one entry *)
Inductive kde_route := RouteNegInf | RoutePosInf | RouteRoot (lo hi u : R).

Definition kde_route_one (lo hi u : R) : kde_route :=
  if Rleb u EPSILON then RouteNegInf            (* is_zero, assigned last: wins *)
  else if Rleb (1 - EPSILON) u then RoutePosInf (* is_one *)
  else RouteRoot lo hi u.

(* range check on the whole array, then per-entry routing; None = ValueError *)
Definition kde_ppf_route (lo hi : R) (us : list R) : option (list kde_route) :=
  if orb (List.existsb (fun u => Rltb 1 u) us) (List.existsb (fun u => Rltb u 0) us) then None
  else Some (map (kde_route_one lo hi) us).

Definition weights_ok (pts : list (R * R)) : Prop :=
  List.Forall (fun p => 0 <= snd p) pts /\ Rsum (map snd pts) = 1.


(* ==== UniformUnivariate (uniform.py) with scipy.stats.uniform closed forms ==== *)
Definition unif_cdf (loc scale x : R) : R := np_clip ((x - loc) / scale) 0 1.
Definition unif_pdf (loc scale x : R) : R :=
  if andb (Rleb loc x) (Rleb x (loc + scale)) then 1 / scale else 0.
Definition unif_logpdf (loc scale x : R) : option R :=     (* None = -inf *)
  if andb (Rleb loc x) (Rleb x (loc + scale)) then Some (np_log (1 / scale)) else None.
Definition unif_ppf_raw (loc scale q : R) : R := loc + q * scale.
Definition unif_ppf (loc scale q : R) : option R :=        (* None = nan *)
  if andb (Rleb 0 q) (Rleb q 1) then Some (unif_ppf_raw loc scale q) else None.

(* UniformUnivariate._fit / _fit_constant: (loc, scale) *)
Definition uniform_fit (X : list R) : R * R := (np_min X, np_max X - np_min X).
Definition uniform_is_constant (params : R * R) : bool := Reqb (snd params) 0.
Definition uniform_extract_constant (params : R * R) : R := fst params.


(* ==== GaussianUnivariate._fit (gaussian.py) ==== *)
Definition gaussian_fit (X : list R) : R * R := (np_mean X, np_std X).
Definition gaussian_is_constant (params : R * R) : bool := Reqb (snd params) 0.

(* sum of squared deviations about c *)
Definition sse (X : list R) (c : R) : R := Rsum (map (fun x => (x - c) * (x - c)) X).

(* normal log-likelihood without the constant -n/2 ln(2 pi) *)
Definition loglik (X : list R) (mu s : R) : R :=
  - INR (length X) * ln s - sse X mu / (2 * (s * s)).

(* full normal log-likelihood, Σ ln pdf *)
Definition norm_logpdf (mu s x : R) : R :=
  - ln s - ln (sqrt (2 * PI)) - (x - mu) * (x - mu) / (2 * (s * s)).
Definition loglik_full (X : list R) (mu s : R) : R := Rsum (map (norm_logpdf mu s) X).


(* ==== degenerate law (base.py, the four _constant_ methods) ==== *)
Definition const_cdf (c x : R) : R := if Rlt_dec x c then 0 else 1.
Definition const_pdf (c x : R) : R := if Req_EM_T x c then 1 else 0.
Definition const_ppf (c q : R) : R := c.
Definition const_sample (c : R) (n : nat) : list R := repeat c n.

(* array versions *)
Definition const_cdf_vec (c : R) (xs : list R) : list R := map (const_cdf c) xs.
Definition const_pdf_vec (c : R) (xs : list R) : list R := map (const_pdf c) xs.
Definition const_ppf_vec (c : R) (qs : list R) : list R := map (const_ppf c) qs.

(* _check_constant_value: Some c when np.unique(X) has exactly one element *)
Definition check_constant_value (X : list R) : option R :=
  match X with
  | [] => None
  | x :: r => if forallb (Reqb x) r then Some x else None
  end.

(* the point-mass law at c assigns probability p to the event A *)
Definition point_mass (c : R) (A : R -> Prop) (p : R) : Prop := (A c /\ p = 1) \/ (~ A c /\ p = 0).


(* ==== TruncatedGaussian._fit (truncated_gaussian.py) ==== *)
Record tg_params := { tg_a : R; tg_b : R; tg_loc : R; tg_scale : R }.

Definition tg_min (user_min : option R) (X : list R) : R :=
  match user_min with Some m => m | None => np_min X - EPSILON end.
Definition tg_max (user_max : option R) (X : list R) : R :=
  match user_max with Some m => m | None => np_max X + EPSILON end.

(* what is passed to fmin_slsqp: starting point and box *)
Definition tg_start (X : list R) : R * R := (np_mean X, np_std X).
Definition tg_box (mn mx : R) : (R * R) * (R * R) := ((mn, mx), (0, (mx - mn) * (mx - mn))).

(* opt = the optimiser's answer *)
Definition tg_fit (user_min user_max : option R) (X : list R) (opt : R * R) : tg_params :=
  let mn := tg_min user_min X in
  let mx := tg_max user_max X in
  let (loc, scale) := opt in
  {| tg_a := (mn - loc) / scale; tg_b := (mx - loc) / scale; tg_loc := loc; tg_scale := scale |}.

Definition tg_is_constant (p : tg_params) : bool := Reqb (tg_a p) (tg_b p).

(* support of scipy.stats.truncnorm(a, b, loc, scale) *)
Definition tg_support (p : tg_params) : R * R :=
  (tg_loc p + tg_a p * tg_scale p, tg_loc p + tg_b p * tg_scale p).


