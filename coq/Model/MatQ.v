(* C12: exact rational linear algebra on lists, used to EVALUATE (vm_compute) the conditional
   distribution of GaussianMultivariate._get_conditional_distribution on captured inputs:

     frame.loc[rows, cols].to_numpy()        ->  locq     (selection BY LABEL)
     A @ B, A @ v, A - B, u + v, u - v       ->  mmulq mvmulq msubq vaddq vsubq
     np.zeros(k)                             ->  zerosq
     np.linalg.inv(A)                        ->  invq : Gauss-Jordan elimination, whose result is
                                                 CHECKED (A * X = I exactly) before it is returned,
                                                 so no correctness proof of the elimination is
                                                 needed (Spec/MatQProofs.v: invq_sound).
   All values are normalised with Qred. *)
From Coq Require Import QArith List Bool Arith.
From Cop Require Import Model.PearsonQ Model.CondSample.
Import ListNotations.
Open Scope Q_scope.

Definition vecq := list Q.
Definition matq := list (list Q).

Definition zerosq (k : nat) : vecq := repeat 0 k.
Definition vaddq (u v : vecq) : vecq := qmap2 (fun a b => Qred (a + b)) u v.
Definition vsubq (u v : vecq) : vecq := qmap2 (fun a b => Qred (a - b)) u v.
Definition dotq (u v : vecq) : Q := Qsum (qmap2 (fun a b => Qred (a * b)) u v).
Definition mvmulq (A : matq) (v : vecq) : vecq := map (fun r => dotq r v) A.
Definition msubq (A B : matq) : matq := qmap2 vsubq A B.
Definition maddq (A B : matq) : matq := qmap2 vaddq A B.

(* column j of a matrix *)
Definition colq (A : matq) (j : nat) : vecq := map (fun r => nth j r 0) A.
(* A (m x k) @ B (k x p): p is read off the first row of B; an empty B gives m empty rows *)
Definition ncolsq (B : matq) : nat := match B with [] => O | r :: _ => length r end.
Definition mmulq (A B : matq) : matq :=
  map (fun r => map (fun j => dotq r (colq B j)) (seq 0 (ncolsq B))) A.
Definition transposeq (A : matq) : matq := map (colq A) (seq 0 (ncolsq A)).

Definition identq (n : nat) : matq :=
  map (fun i => map (fun j => if Nat.eqb i j then 1 else 0) (seq 0 n)) (seq 0 n).

Definition eq_matq (A B : matq) : bool := eq_tables A B.

(* ---- selection by label -------------------------------------------- *)
Definition pos_of (l : label) (ls : list label) : nat :=
  match index_of l ls with Some i => i | None => length ls end.

(* frame.loc[rs, cs].to_numpy(); an unknown label would raise KeyError in pandas -- the caller
   (Model.CondSample.normal_samples) rules that out before this function is reached; here such a
   label selects the default 0 *)
Definition locq (fr : lframe label Q) (rs cs : list label) : matq :=
  map (fun r => let row := nth (pos_of r (lf_index fr)) (lf_data fr) [] in
                map (fun c => nth (pos_of c (lf_columns fr)) row 0) cs) rs.

(* ---- Gauss-Jordan inverse ------------------------------------------- *)
Definition scale_row (c : Q) (r : vecq) : vecq := map (fun a => Qred (c * a)) r.
(* r - f * p *)
Definition elim_row (k : nat) (p r : vecq) : vecq :=
  let f := nth k r 0 in
  if Qeq_bool f 0 then r else qmap2 (fun a b => Qred (a - f * b)) r p.

(* first row of [rest] with a non-zero entry in column k: (rows before, pivot row, rows after) *)
Fixpoint find_pivot (k : nat) (rest : list vecq) : option (list vecq * vecq * list vecq) :=
  match rest with
  | [] => None
  | r :: rs =>
      if Qeq_bool (nth k r 0) 0
      then match find_pivot k rs with
           | Some (pre, p, post) => Some (r :: pre, p, post)
           | None => None
           end
      else Some ([], r, rs)
  end.

(* [done]: rows already holding the pivots of columns 0..k-1 (in that order);
   [rest]: rows not yet used.  One step per column. *)
Fixpoint gauss_jordan (steps k : nat) (done rest : list vecq) : option (list vecq) :=
  match steps with
  | O => match rest with [] => Some done | _ => None end
  | S steps' =>
      match find_pivot k rest with
      | None => None
      | Some (pre, p, post) =>
          let p' := scale_row (/ nth k p 0) p in
          gauss_jordan steps' (S k) (map (elim_row k p') done ++ [p'])
                       (map (elim_row k p') (pre ++ post))
      end
  end.

Definition augment (A : matq) : list vecq :=
  let n := length A in
  map (fun ir => snd ir ++ map (fun j => if Nat.eqb (fst ir) j then 1 else 0) (seq 0 n))
      (combine (seq 0 n) A).

Definition is_square (A : matq) : bool := forallb (fun r => Nat.eqb (length r) (length A)) A.

(* None: not square, singular, or (impossible if the elimination is right) a failed check *)
Definition invq (A : matq) : option matq :=
  if negb (is_square A) then None else
  let n := length A in
  match gauss_jordan n 0 [] (augment A) with
  | None => None
  | Some rows =>
      let X := map (skipn n) rows in
      if eq_matq (mmulq A X) (identq n) && eq_matq (mmulq X A) (identq n) && is_square X
         && Nat.eqb (length X) n
      then Some X else None
  end.

(* total version handed to the generated code as the np.linalg.inv oracle *)
Definition invq_total (A : matq) : matq := match invq A with Some X => X | None => [] end.

(* ---- hand-written reference of _get_conditional_distribution (the generated definition
        Gen_gmcond_q.gm_cond_dist_q must be equal to it: Props/C12.v) --- *)
Definition cond_dist_q (inv : matq -> matq) (correlation : lframe label Q)
           (conditions : list (label * Q)) : vecq * matq * list label :=
  let columns2 := map fst conditions in
  let columns1 := difference isort (lf_columns correlation) columns2 in
  let sigma11 := locq correlation columns1 columns1 in
  let sigma12 := locq correlation columns1 columns2 in
  let sigma21 := locq correlation columns2 columns1 in
  let sigma22 := locq correlation columns2 columns2 in
  let K := mmulq sigma12 (inv sigma22) in
  (vaddq (zerosq (length columns1)) (mvmulq K (vsubq (map snd conditions) (zerosq (length columns2)))),
   msubq sigma11 (mmulq K sigma21),
   columns1).

(* printing helpers: Coq prints Q in hexadecimal for large values, so expose Z pairs *)
Definition showq (q : Q) : Z * positive := (Qnum q, Qden q).
Definition showv (v : vecq) := map showq v.
Definition showm (M : matq) := map showv M.

(* evaluation examples *)
Example invq_example :
  invq [[2; 1]; [1; 1]] = Some [[1; -1 # 1]; [-1 # 1; 2]] /\ invq [[1; 2]; [2; 4]] = None /\
  invq [[0; 1]; [1; 0]] = Some [[0; 1]; [1; 0]].
Proof. vm_compute. auto. Qed.
