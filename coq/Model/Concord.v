(* C01: (a) concordance bookkeeping behind Kendall's tau, generic in the order;
         (b) GaussianMultivariate.sample(num_rows) (unconditional branch) schema.
   Executable, stdlib only, no Reals.

   (a) For two paired columns xs, ys, a pair of rows (i, j), i < j, is
         concordant   if (x_i - x_j) and (y_i - y_j) have the same non-zero sign,
         discordant   if opposite non-zero signs,
         tied in x / tied in y / tied in both otherwise.
       scipy.stats.kendalltau (variant 'b', the default):
         tau_b = (con - dis) / sqrt((n0 - n1) * (n0 - n2)),
         n0 = n(n-1)/2, n1 = #pairs tied in x (incl. tied in both), n2 = same for y.
       The model computes the integer ingredients; the division / square root is done
       in the proof file over R.

   (b) Python being modelled (copulas/multivariate/gaussian.py):

     def _get_normal_samples(self, num_rows, conditions):
         if conditions is None:
             covariance = self.correlation
             columns = self.columns
             means = np.zeros(len(columns))
         ...
         samples = np.random.multivariate_normal(means, covariance, size=num_rows)
         return pd.DataFrame(samples, columns=columns)

     @random_state
     def sample(self, num_rows=1, conditions=None):
         self.check_fit()
         samples = self._get_normal_samples(num_rows, conditions)
         output = {}
         for column_name, univariate in zip(self.columns, self.univariates):
             if conditions and column_name in conditions: ...
             else:
                 cdf = stats.norm.cdf(samples[column_name])        # lookup BY LABEL
                 output[column_name] = univariate.percent_point(cdf)
         return pd.DataFrame(data=output)
*)
From Coq Require Import List Bool Arith ZArith QArith.
Import ListNotations.

(* ------------------------------------------------------------------ *)
(** * (a) concordance *)

Inductive pclass := Concordant | Discordant | TiedX | TiedY | TiedXY.

Definition pclass_eqb (a b : pclass) : bool :=
  match a, b with
  | Concordant, Concordant | Discordant, Discordant
  | TiedX, TiedX | TiedY, TiedY | TiedXY, TiedXY => true
  | _, _ => false
  end.

(* classification from the two comparisons (x_i ? x_j), (y_i ? y_j) *)
Definition classify_cmp (cx cy : comparison) : pclass :=
  match cx, cy with
  | Eq, Eq => TiedXY
  | Eq, _ => TiedX
  | _, Eq => TiedY
  | Lt, Lt | Gt, Gt => Concordant
  | _, _ => Discordant
  end.

(* all pairs (l_i, l_j) with i < j, in lexicographic order of (i, j) *)
Fixpoint pairs {T : Type} (l : list T) : list (T * T) :=
  match l with
  | [] => []
  | a :: tl => map (pair a) tl ++ pairs tl
  end.

Section Concord.
  Variables A B : Type.
  Variable cmpA : A -> A -> comparison.
  Variable cmpB : B -> B -> comparison.

  Definition classify (p q : A * B) : pclass :=
    classify_cmp (cmpA (fst p) (fst q)) (cmpB (snd p) (snd q)).

  Definition count_class (c : pclass) (l : list (A * B)) : Z :=
    Z.of_nat (length (filter (fun pq => pclass_eqb (classify (fst pq) (snd pq)) c) (pairs l))).

  Record kendall_counts := {
    con : Z;     (* concordant pairs *)
    dis : Z;     (* discordant pairs *)
    n0 : Z;      (* all pairs = n(n-1)/2 *)
    n1 : Z;      (* pairs tied in x *)
    n2 : Z       (* pairs tied in y *)
  }.

  Definition kendall (l : list (A * B)) : kendall_counts :=
    {| con := count_class Concordant l;
       dis := count_class Discordant l;
       n0 := Z.of_nat (length (pairs l));
       n1 := count_class TiedX l + count_class TiedXY l;
       n2 := count_class TiedY l + count_class TiedXY l |}%Z.

  (* tau_b = tau_num / sqrt(tau_den2); tau_a = tau_num / n0 *)
  Definition tau_num (k : kendall_counts) : Z := (con k - dis k)%Z.
  Definition tau_den2 (k : kendall_counts) : Z := ((n0 k - n1 k) * (n0 k - n2 k))%Z.
End Concord.

Arguments con {_}.
Arguments dis {_}.

(* rational instance for execution *)
Definition kendallQ (xs ys : list Q) := kendall Q Q Qcompare Qcompare (combine xs ys).
Definition kendallZ (xs ys : list Z) := kendall Z Z Z.compare Z.compare (combine xs ys).

Eval vm_compute in kendallZ [1; 2; 3; 4; 4]%Z [1; 3; 2; 4; 5]%Z.
(* the same after the strictly increasing maps x -> 2x+1, y -> y^3 *)
Eval vm_compute in kendallZ (map (fun x => 2 * x + 1) [1; 2; 3; 4; 4])%Z
                            (map (fun y => y * y * y) [1; 3; 2; 4; 5])%Z.
Eval vm_compute in kendallQ [1#2; 1#3; 1#4] [3#1; 2#1; 2#1].

(* ------------------------------------------------------------------ *)
(** * (b) GaussianMultivariate.sample, unconditional *)

Inductive sample_error :=
| NotFittedError
| ValueError_shape     (* pd.DataFrame(samples, columns=columns): width mismatch *)
| KeyError.            (* samples[column_name] with an unknown label (unreachable) *)

Inductive sresult (T : Type) := SOk (a : T) | SErr (e : sample_error).
Arguments SOk {T} a.
Arguments SErr {T} e.

Section GaussianSample.
  Variables label Zt U V corr : Type.
  Variable label_eqb : label -> label -> bool.
  Variable Phi : Zt -> U.                       (* stats.norm.cdf, element-wise *)

  Record gmodel := {
    g_fitted : bool;
    g_columns : list label;
    g_univariates : list (U -> V);              (* percent_point of each marginal, element-wise *)
    g_correlation : corr
  }.

  (* np.random.multivariate_normal(np.zeros(d), covariance, size=n): the oracle gets
     d, the covariance and n, and returns the rows of the (n, d) array *)
  Variable mvn_draw : nat -> corr -> nat -> list (list Zt).

  Fixpoint sassoc {T} (k : label) (l : list (label * T)) : option T :=
    match l with
    | [] => None
    | (k', v) :: tl => if label_eqb k k' then Some v else sassoc k tl
    end.

  (* samples[column_name] on the frame (hdr, rows) *)
  Definition scell (hdr : list label) (r : list Zt) (c : label) : option Zt :=
    sassoc c (combine hdr r).

  Definition frame_column (hdr : list label) (rws : list (list Zt)) (c : label)
    : option (list Zt) :=
    if existsb (label_eqb c) hdr
    then Some (flat_map (fun r => match scell hdr r c with Some z => [z] | None => [] end) rws)
    else None.

  (* positional column j of a list of rows *)
  Definition pos_column (rws : list (list Zt)) (j : nat) : list Zt :=
    flat_map (fun r => match nth_error r j with Some z => [z] | None => [] end) rws.

  (* output[k] = v on an insertion-ordered dict *)
  Fixpoint dict_set {T} (k : label) (v : T) (d : list (label * T)) : list (label * T) :=
    match d with
    | [] => [(k, v)]
    | (k', v') :: tl => if label_eqb k k' then (k', v) :: tl else (k', v') :: dict_set k v tl
    end.

  Fixpoint sample_loop (hdr : list label) (rws : list (list Zt))
           (cu : list (label * (U -> V))) (output : list (label * list V))
    : sresult (list (label * list V)) :=
    match cu with
    | [] => SOk output
    | (c, ppf) :: tl =>
        match frame_column hdr rws c with
        | None => SErr KeyError
        | Some zs => sample_loop hdr rws tl (dict_set c (map (fun z => ppf (Phi z)) zs) output)
        end
    end.

  (* the returned DataFrame: columns in dict order, each a list of num_rows cells *)
  Definition sample (m : gmodel) (num_rows : nat) : sresult (list (label * list V)) :=
    if negb (g_fitted m) then SErr NotFittedError
    else
      let d := length (g_columns m) in
      let rws := mvn_draw d (g_correlation m) num_rows in
      if negb (forallb (fun r => length r =? d) rws) then SErr ValueError_shape
      else sample_loop (g_columns m) rws (combine (g_columns m) (g_univariates m)) [].
End GaussianSample.

(* evaluation: labels 10,20,30; ppf_j(Phi z) = 100*j + z; a fixed 2x3 draw *)
Definition demo_model : gmodel nat nat nat nat :=
  {| g_fitted := true; g_columns := [10; 20; 30]%nat;
     g_univariates := [fun u => 100 + u; fun u => 200 + u; fun u => 300 + u]%nat;
     g_correlation := 0%nat |}.
Eval vm_compute in
    sample nat nat nat nat nat Nat.eqb (fun z => z)
           (fun d _ n => [[1; 2; 3]; [4; 5; 6]]%nat) demo_model 2.
