(* ------------------------------------------------------------------------- *)
(*  Model/RootFind.v                                                          *)
(*  Gallina model of copulas/optimize/__init__.py  (`bisect`, `chandrupatla`) *)
(*  over an abstract arithmetic record, plus the PrimFloat instance.          *)
(*  Definitions only (the theorems are in Spec/RootFindR.v).                  *)
(* ------------------------------------------------------------------------- *)
From Coq Require Import List ZArith Bool PrimFloat Uint63.
Import ListNotations.
Set Implicit Arguments.

(* ------------------------------------------------------------------------- *)
(* 1. The arithmetic record: exactly what the two algorithms use.             *)
(* ------------------------------------------------------------------------- *)
Record arith (T : Type) := mk_arith {
  add : T -> T -> T;
  sub : T -> T -> T;
  mul : T -> T -> T;
  div : T -> T -> T;
  abs : T -> T;
  zero : T;
  one  : T;
  two  : T;
  half : T;                  (* the literal 0.5 *)
  eps  : T;                  (* np.finfo(float).eps = 2^-52 *)
  leb : T -> T -> bool;      (* x <= y *)
  ltb : T -> T -> bool;      (* x <  y *)
  eqb : T -> T -> bool;      (* x == y *)
  sign : T -> T;             (* np.sign : -1 / 0 / 1 (nan for nan) *)
  minimum : T -> T -> T;     (* np.minimum *)
  maximum : T -> T -> T      (* np.maximum *)
}.

(* ------------------------------------------------------------------------- *)
(* 2. Per-lane test functions (operation order is part of the contract).      *)
(* ------------------------------------------------------------------------- *)
Inductive fn (T : Type) :=
| FLin (a b : T)        (* a*x + b *)
| FCub (a r : T)        (* a*(((x-r)*(x-r))*(x-r)) *)
| FSat (a r : T)        (* a*((x-r)/(1+|x-r|)) *)
| FCubLin (a r b : T).  (* a*(((x-r)*(x-r))*(x-r)) + b*(x-r) *)

Section Generic.
Variable T : Type.
Variable A : arith T.

Definition feval (g : fn T) (x : T) : T :=
  match g with
  | FLin a b => add A (mul A a x) b
  | FCub a r =>
      let d := sub A x r in mul A a (mul A (mul A d d) d)
  | FSat a r =>
      let d := sub A x r in mul A a (div A d (add A (one A) (abs A d)))
  | FCubLin a r b =>
      let d := sub A x r in
      add A (mul A a (mul A (mul A d d) d)) (mul A b d)
  end.

(* ------------------------------------------------------------------------- *)
(* 3. bisect                                                                  *)
(* ------------------------------------------------------------------------- *)
(* One lane of the batch: its function and its current bracket. *)
Record blane := mk_blane { bf : T -> T; blo : T; bhi : T }.

(* zip the three input vectors; None if the lengths differ *)
Fixpoint bzip (fs : list (T -> T)) (xmin xmax : list T) : option (list blane) :=
  match fs, xmin, xmax with
  | [], [], [] => Some []
  | f :: fs', lo :: xmin', hi :: xmax' =>
      match bzip fs' xmin' xmax' with
      | Some r => Some (mk_blane f lo hi :: r)
      | None => None
      end
  | _, _, _ => None
  end.

(*  guess  = (xmin + xmax) / 2.0
    fguess = f(guess)
    xmin[fguess <= 0] = guess[fguess <= 0]
    xmax[fguess >= 0] = guess[fguess >= 0]          (both fire if fguess == 0) *)
Definition bguess (l : blane) : T := div A (add A (blo l) (bhi l)) (two A).

Definition bstep (l : blane) : blane :=
  let g := bguess l in
  let fg := bf l g in
  {| bf := bf l;
     blo := if leb A fg (zero A) then g else blo l;
     bhi := if leb A (zero A) fg then g else bhi l |}.

Definition bwidth (l : blane) : T := sub A (bhi l) (blo l).

(* ndarray.max(): left fold of np.maximum (only called on non-empty lists) *)
Definition maxl (ws : list T) : T :=
  match ws with
  | [] => zero A
  | w :: r => fold_left (maximum A) r w
  end.

(* (xmax - xmin).max() < tol *)
Definition bstop (tol : T) (ls : list blane) : bool :=
  ltb A (maxl (map bwidth ls)) tol.

(* the `for _ in range(maxiter)` loop; returns final lanes and the number of
   executed loop bodies (k0 + that number) *)
Fixpoint bisect_loop (fuel : nat) (tol : T) (ls : list blane) (k : nat)
  : list blane * nat :=
  match fuel with
  | O => (ls, k)
  | S n =>
      let ls' := map bstep ls in
      if bstop tol ls' then (ls', S k) else bisect_loop n tol ls' (S k)
  end.

(* state after exactly k loop bodies, ignoring the stop test *)
Fixpoint bisect_iter (k : nat) (ls : list blane) : list blane :=
  match k with
  | O => ls
  | S k' => bisect_iter k' (map bstep ls)
  end.

Fixpoint blane_iter (k : nat) (l : blane) : blane :=
  match k with
  | O => l
  | S k' => blane_iter k' (bstep l)
  end.

(* return (xmin + xmax) / 2.0 *)
Definition bresult (l : blane) : T := bguess l.

(* assert (f(xmin) <= 0.0).all() ; assert (f(xmax) >= 0.0).all() *)
Definition bprecond (ls : list blane) : bool :=
  forallb (fun l => leb A (bf l (blo l)) (zero A)) ls &&
  forallb (fun l => leb A (zero A) (bf l (bhi l))) ls.

(* Core on lanes.  None = AssertionError; also None for the empty batch with
   maxiter > 0, where numpy raises ValueError in `.max()` of an empty array. *)
Definition bisect_lanes (maxiter : nat) (tol : T) (ls : list blane)
  : option (list blane * nat) :=
  if bprecond ls then
    match ls, maxiter with
    | [], S _ => None
    | _, _ => Some (bisect_loop maxiter tol ls 0)
    end
  else None.

(* full information: final lanes (function, xmin, xmax) and iteration count *)
Definition bisect_full_fun (maxiter : nat) (tol : T)
  (fs : list (T -> T)) (xmin xmax : list T) : option (list blane * nat) :=
  match bzip fs xmin xmax with
  | None => None
  | Some ls => bisect_lanes maxiter tol ls
  end.

Definition bisect_fun (maxiter : nat) (tol : T)
  (fs : list (T -> T)) (xmin xmax : list T) : option (list T) :=
  match bisect_full_fun maxiter tol fs xmin xmax with
  | None => None
  | Some r => Some (map bresult (fst r))
  end.

(* the versions over the `fn` datatype *)
Definition bisect (maxiter : nat) (tol : T)
  (fs : list (fn T)) (xmin xmax : list T) : option (list T) :=
  bisect_fun maxiter tol (map feval fs) xmin xmax.

(* result, final xmin, final xmax, number of iterations *)
Definition bisect_full (maxiter : nat) (tol : T)
  (fs : list (fn T)) (xmin xmax : list T)
  : option (list T * list T * list T * nat) :=
  match bisect_full_fun maxiter tol (map feval fs) xmin xmax with
  | None => None
  | Some (ls, k) => Some (map bresult ls, map blo ls, map bhi ls, k)
  end.

(* ------------------------------------------------------------------------- *)
(* 4. chandrupatla (array branch)                                             *)
(* ------------------------------------------------------------------------- *)
(* Per-lane loop state at the top of the `while` body. *)
Record cstate := mk_cstate {
  cf : T -> T; cmin : T; cmax : T;          (* constant through the loop *)
  ca : T; cb : T; cc : T;
  cfa : T; cfb : T; cfc : T;
  ct : T;
  cterm : bool }.

(* Per-lane state at the `if np.all(terminate): break` line. *)
Record cmid := mk_cmid {
  mst : cstate;        (* a b c fa fb fc terminate updated, t still the old t *)
  mxm : T; mfm : T; mtlim : T }.

(* a = xmax; b = xmin; fa = f(a); fb = f(b); fc = fa; c = a; t = 0.5;
   terminate = False *)
Definition cinit (l : blane) : cstate :=
  mk_cstate (bf l) (blo l) (bhi l)
            (bhi l) (blo l) (bhi l)
            (bf l (bhi l)) (bf l (blo l)) (bf l (bhi l))
            (half A) false.

(* None if the lengths differ *)
Definition czip (fs : list (T -> T)) (xmin xmax : list T) : option (list cstate) :=
  match bzip fs xmin xmax with
  | Some ls => Some (map cinit ls)
  | None => None
  end.

(* assert (np.sign(fa) * np.sign(fb) <= 0).all() *)
Definition cprecond (ls : list cstate) : bool :=
  forallb (fun s => leb A (mul A (sign A (cfa s)) (sign A (cfb s))) (zero A)) ls.

(* np.clip(x, lo, hi) = minimum(maximum(x, lo), hi) *)
Definition clip (x lo hi : T) : T := minimum A (maximum A x lo) hi.

(* tol = 2 * eps_m * np.abs(xm) + eps_a      with eps_m = eps, eps_a = 2 * eps *)
Definition ctol (xm : T) : T :=
  add A (mul A (mul A (two A) (eps A)) (abs A xm)) (mul A (two A) (eps A)).

(* From the top of the loop body to the terminate update. *)
Definition cphase1 (s : cstate) : cmid :=
  let a := ca s in let b := cb s in
  let fa := cfa s in let fb := cfb s in
  (* xt = np.clip(a + t * (b - a), xmin, xmax) ; ft = f(xt) *)
  let xt := clip (add A a (mul A (ct s) (sub A b a))) (cmin s) (cmax s) in
  let ft := cf s xt in
  (* samesign = np.sign(ft) == np.sign(fa) *)
  let samesign := eqb A (sign A ft) (sign A fa) in
  (* c = choose(samesign,[b,a]); b = choose(samesign,[a,b]);
     fc = choose(samesign,[fb,fa]); fb = choose(samesign,[fa,fb]); a = xt; fa = ft *)
  let c' := if samesign then a else b in
  let b' := if samesign then b else a in
  let fc' := if samesign then fa else fb in
  let fb' := if samesign then fb else fa in
  (* fa_is_smaller = |fa| < |fb| ; xm, fm *)
  let smaller := ltb A (abs A ft) (abs A fb') in
  let xm := if smaller then xt else b' in
  let fm := if smaller then ft else fb' in
  (* tlim = tol / |b - c| *)
  let tlim := div A (ctol xm) (abs A (sub A b' c')) in
  (* terminate = terminate or (fm == 0 or tlim > 0.5) *)
  let term := cterm s || (eqb A fm (zero A) || ltb A (half A) tlim) in
  {| mst := {| cf := cf s; cmin := cmin s; cmax := cmax s;
               ca := xt; cb := b'; cc := c';
               cfa := ft; cfb := fb'; cfc := fc';
               ct := ct s; cterm := term |};
     mxm := xm; mfm := fm; mtlim := tlim |}.

(* The IQI step, with the source's association order:
   fa/(fb-fa)*fc/(fb-fc) + (c-a)/(b-a)*fa/(fc-fa)*fb/(fc-fb)
   = ((fa/(fb-fa))*fc)/(fb-fc) + (((((c-a)/(b-a))*fa)/(fc-fa))*fb)/(fc-fb) *)
Definition ciqi_t (a b c fa fb fc : T) : T :=
  add A
    (div A (mul A (div A fa (sub A fb fa)) fc) (sub A fb fc))
    (div A (mul A (div A (mul A (div A (sub A c a) (sub A b a)) fa)
                         (sub A fc fa)) fb)
           (sub A fc fb)).

(* From after the break test to the end of the loop body (computes next t). *)
Definition cphase2 (m : cmid) : cstate :=
  let s := mst m in
  let a := ca s in let b := cb s in let c := cc s in
  let fa := cfa s in let fb := cfb s in let fc := cfc s in
  let tlim := mtlim m in
  (* xi = (a - b) / (c - b) ; phi = (fa - fb) / (fc - fb) *)
  let xi := div A (sub A a b) (sub A c b) in
  let phi := div A (sub A fa fb) (sub A fc fb) in
  (* iqi = phi**2 < xi and (1 - phi)**2 < 1 - xi *)
  let iqi := ltb A (mul A phi phi) xi &&
             ltb A (mul A (sub A (one A) phi) (sub A (one A) phi))
                   (sub A (one A) xi) in
  let t0 := if iqi then ciqi_t a b c fa fb fc else half A in
  (* t = np.minimum(1 - tlim, np.maximum(tlim, t)) *)
  let t' := minimum A (sub A (one A) tlim) (maximum A tlim t0) in
  {| cf := cf s; cmin := cmin s; cmax := cmax s;
     ca := a; cb := b; cc := c; cfa := fa; cfb := fb; cfc := fc;
     ct := t'; cterm := cterm s |}.

Definition cstep (s : cstate) : cstate := cphase2 (cphase1 s).

Definition call_term (ms : list cmid) : bool :=
  forallb (fun m => cterm (mst m)) ms.

(* while maxiter > 0: ...   `prev` is the cmid list of the previous iteration
   (returned when the fuel runs out); k counts executed loop bodies. *)
Fixpoint chand_loop (fuel : nat) (ls : list cstate) (prev : list cmid) (k : nat)
  : list cmid * nat :=
  match fuel with
  | O => (prev, k)
  | S n =>
      let ms := map cphase1 ls in
      if call_term ms then (ms, S k)
      else chand_loop n (map cphase2 ms) ms (S k)
  end.

(* state at the top of the loop body after exactly k complete bodies *)
Fixpoint chand_iter (k : nat) (ls : list cstate) : list cstate :=
  match k with
  | O => ls
  | S k' => chand_iter k' (map cstep ls)
  end.

Fixpoint cstate_iter (k : nat) (s : cstate) : cstate :=
  match k with
  | O => s
  | S k' => cstate_iter k' (cstep s)
  end.

(* Core on lane states.  None = AssertionError, or maxiter = 0
   (UnboundLocalError: xm is never bound). *)
Definition chand_lanes (maxiter : nat) (ls : list cstate)
  : option (list cmid * nat) :=
  if cprecond ls then
    match maxiter with
    | O => None
    | S _ => Some (chand_loop maxiter ls [] 0)
    end
  else None.

Definition chandrupatla_full_fun (maxiter : nat)
  (fs : list (T -> T)) (xmin xmax : list T) : option (list cmid * nat) :=
  match czip fs xmin xmax with
  | None => None
  | Some ls => chand_lanes maxiter ls
  end.

Definition chandrupatla_fun (maxiter : nat)
  (fs : list (T -> T)) (xmin xmax : list T) : option (list T) :=
  match chandrupatla_full_fun maxiter fs xmin xmax with
  | None => None
  | Some r => Some (map mxm (fst r))
  end.

Definition chandrupatla (maxiter : nat)
  (fs : list (fn T)) (xmin xmax : list T) : option (list T) :=
  chandrupatla_fun maxiter (map feval fs) xmin xmax.

(* xm, and the last a b c, terminate flags, number of loop bodies executed *)
Definition chandrupatla_full (maxiter : nat)
  (fs : list (fn T)) (xmin xmax : list T)
  : option (list T * list (T * T * T) * list bool * nat) :=
  match chandrupatla_full_fun maxiter (map feval fs) xmin xmax with
  | None => None
  | Some (ms, k) =>
      Some (map mxm ms,
            map (fun m => (ca (mst m), cb (mst m), cc (mst m))) ms,
            map (fun m => cterm (mst m)) ms, k)
  end.

End Generic.

(* ------------------------------------------------------------------------- *)
(* 5. The binary64 instance (PrimFloat primitives only).                      *)
(* ------------------------------------------------------------------------- *)
Definition f_isnan (x : float) : bool := negb (PrimFloat.eqb x x).

(* np.sign: nan -> nan, +-0 -> 0 *)
Definition f_sign (x : float) : float :=
  if PrimFloat.ltb 0%float x then 1%float
  else if PrimFloat.ltb x 0%float then (-1)%float
  else if PrimFloat.eqb x x then 0%float
  else x.

(* np.maximum / np.minimum: propagate nan; on a tie (only observable for
   +0 / -0) the second argument is returned, as numpy 2.x does on x86-64
   (checked: np.maximum(0.,-0.) = -0., np.clip(0.,-0.,1.) = -0.). *)
Definition f_maximum (x y : float) : float :=
  if f_isnan x then x else if f_isnan y then y
  else if PrimFloat.ltb y x then x else y.
Definition f_minimum (x y : float) : float :=
  if f_isnan x then x else if f_isnan y then y
  else if PrimFloat.ltb x y then x else y.

Definition FA : arith float := {|
  add := PrimFloat.add; sub := PrimFloat.sub;
  mul := PrimFloat.mul; div := PrimFloat.div;
  abs := PrimFloat.abs;
  zero := 0%float; one := 1%float; two := 2%float;
  half := 0x1p-1%float; eps := 0x1p-52%float;
  leb := PrimFloat.leb; ltb := PrimFloat.ltb; eqb := PrimFloat.eqb;
  sign := f_sign; minimum := f_minimum; maximum := f_maximum |}.

(* ------------------------------------------------------------------------- *)
(* 6. Executed examples                                                       *)
(* ------------------------------------------------------------------------- *)
Definition tol1em8 : float := 0x1.5798ee2308c3ap-27%float.   (* 1e-8 *)

(* the two lanes of DESIGN.md A.4:  x^3 - 0.3  and  x - 0.1  on [0,1] *)
Definition ex_f1 (x : float) : float :=
  PrimFloat.sub (PrimFloat.mul x (PrimFloat.mul x x)) 0x1.3333333333333p-2%float.
Definition ex_f2 (x : float) : float :=
  PrimFloat.sub x 0x1.999999999999ap-4%float.

Eval vm_compute in
  bisect_fun FA 50 tol1em8 [ex_f1; ex_f2] [0%float; 0%float] [1%float; 1%float].
Eval vm_compute in
  option_map snd
    (bisect_full_fun FA 50 tol1em8 [ex_f1; ex_f2] [0%float; 0%float] [1%float; 1%float]).
Eval vm_compute in
  chandrupatla_fun FA 50 [ex_f1; ex_f2] [0%float; 0%float] [1%float; 1%float].

(* lanes from the `fn` datatype *)
Definition ex_fs : list (fn float) :=
  [ FLin 1%float (-0x1.999999999999ap-4)%float;            (* x - 0.1 *)
    FCub 1%float 0x1.3333333333333p-2%float;               (* (x-0.3)^3 *)
    FSat 2%float 0x1.6666666666666p-1%float;               (* 2*(x-0.7)/(1+|x-0.7|) *)
    FCubLin 1%float 0x1p-2%float 0x1p-1%float ].           (* (x-.25)^3 + (x-.25)/2 *)
Definition ex_lo := [0%float; 0%float; 0%float; 0%float].
Definition ex_hi := [1%float; 1%float; 1%float; 1%float].

Eval vm_compute in bisect_full FA 50 tol1em8 ex_fs ex_lo ex_hi.
Eval vm_compute in chandrupatla_full FA 50 ex_fs ex_lo ex_hi.

(* the assertion failures *)
Eval vm_compute in bisect FA 50 tol1em8 [FLin 1%float 1%float] [0%float] [1%float].       (* f(xmin) = 1 > 0 *)
Eval vm_compute in chandrupatla FA 50 [FLin 1%float 1%float] [0%float] [1%float].
(* maxiter = 0 *)
Eval vm_compute in bisect FA 0 tol1em8 [FLin 1%float (-0x1p-2)%float] [0%float] [1%float]. (* Some [0.5] *)
Eval vm_compute in chandrupatla FA 0 [FLin 1%float (-0x1p-2)%float] [0%float] [1%float].   (* None *)

(* ------------------------------------------------------------------------- *)
(* 7. Executed findings                                                       *)
(* ------------------------------------------------------------------------- *)
(* F-A: a lane that has converged EXACTLY (here: degenerate bracket
   xmin = xmax = 0.25 = root, so b = c, tlim = tol/0 = +inf, next t = -inf)
   turns into nan when other lanes keep the loop alive for >= 2 more bodies:
   xt = a + (-inf)*(b-a) = nan, then b <- a = nan and xm = b = nan. *)
Definition exA_fs : list (fn float) :=
  [ FLin 1%float (-0x1p-2)%float;                (* x - 0.25 *)
    FCub 1%float 0x1.3333333333333p-2%float ].   (* (x-0.3)^3 *)
Eval vm_compute in chandrupatla FA 50 [FLin 1%float (-0x1p-2)%float] [0x1p-2%float] [0x1p-2%float].
  (* alone: Some [0.25] *)
Eval vm_compute in chandrupatla FA 1 exA_fs [0x1p-2%float; 0%float] [0x1p-2%float; 1%float].
Eval vm_compute in chandrupatla FA 2 exA_fs [0x1p-2%float; 0%float] [0x1p-2%float; 1%float].
Eval vm_compute in chandrupatla FA 3 exA_fs [0x1p-2%float; 0%float] [0x1p-2%float; 1%float].
  (* lane 0 = nan from the third body on *)
Eval vm_compute in chandrupatla FA 50 exA_fs [0x1p-2%float; 0%float] [0x1p-2%float; 1%float].

(* F-B: chandrupatla is not lane independent at the bit level: a lane that has
   terminated keeps being updated (t = 1 - tlim) while other lanes run. *)
Definition exB_f : fn float :=
  FLin 0x1.ec2ac37a63562p-2%float (-0x1.50d9805c78077p-4)%float.
Definition exB_lo : float := 0x1.219e79f679047p-4%float.
Definition exB_hi : float := 0x1.8d7f4122138d7p+1%float.
Eval vm_compute in chandrupatla_full FA 50 [exB_f] [exB_lo] [exB_hi].
Eval vm_compute in
  chandrupatla_full FA 50 [exB_f; FCub 1%float 0x1.3333333333333p-2%float]
                    [exB_lo; 0%float] [exB_hi; 1%float].
