(* C12: label bookkeeping of GaussianMultivariate.sample(num_rows, conditions).
   Structural, executable model; no Reals.  Values are an arbitrary type [V];
   everything numerical is an oracle passed as a function:

     score c v      = stats.norm.ppf(univariate_c.cdf(v).clip(EPSILON, 1-EPSILON))
     ppf c u        = univariate_c.percent_point(u)
     Phi x          = stats.norm.cdf(x)
     cond_params columns1 nconds = (mu_bar, sigma_bar) of _get_conditional_distribution
                      (reads self.correlation by label: .loc[columns1, columns2] ...;
                       its algebra is the subject of Spec/Schur.v)
     uncond_params  = (zeros, self.correlation)
     mvn mu S n     = np.random.multivariate_normal(mu, S, size=n)   (n rows)
     sort           = the ordering applied inside pandas Index.difference

   Python being modelled (copulas/multivariate/gaussian.py, after the fixes fa9ce3f / baa4f86):

     def _transform_to_normal(self, X):            # X : Series  ->  one-row frame
         U = []
         for column_name, univariate in zip(self.columns, self.univariates):
             if column_name in X:                  # TRAINING order
                 U.append(univariate.cdf(X[column_name]).clip(EPSILON, 1 - EPSILON))
         return stats.norm.ppf(np.column_stack(U)) # ValueError when U == []

     def _get_normal_samples(self, num_rows, conditions):
         if conditions is None: ... columns = self.columns
         else:
             conditions = pd.Series(conditions)
             normal_conditions = self._transform_to_normal(conditions)[0]
             known = [column for column in self.columns if column in conditions.index]
             normal_conditions = pd.Series(normal_conditions, index=known)
                                                   # labelled in TRAINING order, like the scores
             means, covariance, columns = self._get_conditional_distribution(normal_conditions)
         samples = np.random.multivariate_normal(means, covariance, size=num_rows)
         return pd.DataFrame(samples, columns=columns)

     def sample(self, num_rows=1, conditions=None):
         samples = self._get_normal_samples(num_rows, conditions)
         output = {}
         for column_name, univariate in zip(self.columns, self.univariates):
             if conditions is not None and column_name in conditions:
                 output[column_name] = np.full(num_rows, conditions[column_name])
             else:
                 cdf = stats.norm.cdf(samples[column_name])    # lookup BY LABEL
                 output[column_name] = univariate.percent_point(cdf)
         return pd.DataFrame(data=output)

   HISTORY.  Before fa9ce3f the scores were relabelled positionally with the conditions' own key order
   (`pd.Series(normal_conditions, index=conditions.index)`, finding F19: the dict order changed the
   conditional law; an unknown label raised ValueError(length mismatch)); before baa4f86 the loop tested
   `if conditions and ...`, i.e. bool(Series), which raised for every Series (finding F11).  The model of
   that version is in the git history of this file (commit 1b936f8).
*)
From Coq Require Import List Arith Bool.
Import ListNotations.

Definition label := nat.

Inductive error :=
| ValueError_no_arrays            (* np.column_stack([]): "need at least one array to concatenate" *)
| ValueError_length_mismatch (n_values n_index : nat)
                                  (* pd.Series(values, index=...): "Length of values does not match length of index" *)
| ValueError_empty_draw           (* np.random.multivariate_normal with an empty mean:
                                     "cannot reshape array of size 0 into shape (0)" *)
| ValueError_shape                (* pd.DataFrame(samples, columns=...) shape mismatch *)
| ValueError_series_truth         (* bool(pd.Series): "The truth value of a Series is ambiguous";
                                     not produced any more since baa4f86 (kept for the regression check) *)
| KeyError (l : label).           (* .loc / samples[column_name] with an unknown label *)

Inductive result (A : Type) := Ok (a : A) | Err (e : error).
Arguments Ok {A} a.
Arguments Err {A} e.

Definition bind {A B} (r : result A) (f : A -> result B) : result B :=
  match r with Ok a => f a | Err e => Err e end.

(* the two containers the docstring allows for [conditions] *)
Inductive container := Dict | Series.

Definition mem (l : label) (ls : list label) : bool := existsb (Nat.eqb l) ls.

Fixpoint lookup {A} (l : label) (kv : list (label * A)) : option A :=
  match kv with
  | [] => None
  | (k, v) :: r => if Nat.eqb l k then Some v else lookup l r
  end.

Fixpoint index_of (c : label) (l : list label) : option nat :=
  match l with
  | [] => None
  | x :: r => if Nat.eqb c x then Some 0
              else match index_of c r with Some i => Some (S i) | None => None end
  end.

Fixpoint sequence {A} (l : list (option A)) : option (list A) :=
  match l with
  | [] => Some []
  | None :: _ => None
  | Some a :: r => match sequence r with Some r' => Some (a :: r') | None => None end
  end.

(* insertion sort on labels: the concrete ordering used for evaluation *)
Fixpoint insert (x : label) (l : list label) : list label :=
  match l with
  | [] => [x]
  | y :: r => if Nat.leb x y then x :: y :: r else y :: insert x r
  end.
Fixpoint isort (l : list label) : list label :=
  match l with [] => [] | x :: r => insert x (isort r) end.

Section Model.
Variable V : Type.
Variable sort : list label -> list label.
Variable score : label -> V -> V.
Variable ppf : label -> V -> V.
Variable Phi : V -> V.
Variable cond_params : list label -> list (label * V) -> list V * list (list V).
Variable uncond_params : list V * list (list V).
Variable mvn : list V -> list (list V) -> nat -> list (list V).

(* fitted model: training columns, in training order *)
Variable columns : list label.

(* pandas Index.difference: unique elements of self not in other, sorted *)
Definition difference (self other : list label) : list label :=
  sort (nodup Nat.eq_dec (filter (fun c => negb (mem c other)) self)).

(* DataFrame with labelled columns, row-major data *)
Record frame := mkFrame { header : list label; rows : list (list V) }.

Definition mk_frame (data : list (list V)) (hdr : list label) : result frame :=
  if forallb (fun r => Nat.eqb (length r) (length hdr)) data
  then Ok (mkFrame hdr data) else Err ValueError_shape.

(* frame[c] : lookup by label *)
Definition frame_col (f : frame) (c : label) : result (list V) :=
  match index_of c (header f) with
  | None => Err (KeyError c)
  | Some i =>
      match sequence (map (fun r => nth_error r i) (rows f)) with
      | Some col => Ok col
      | None => Err ValueError_shape
      end
  end.

(* _transform_to_normal applied to the conditions Series: scores in TRAINING order *)
Definition transform_conditions (conds : list (label * V)) : result (list V) :=
  let U := flat_map (fun c => match lookup c conds with
                              | Some v => [score c v]
                              | None => []
                              end) columns in
  match U with
  | [] => Err ValueError_no_arrays
  | _ => Ok U
  end.

(* `column in conditions.index` / `column_name in conditions` *)
Definition has_key (c : label) (conds : list (label * V)) : bool :=
  match lookup c conds with Some _ => true | None => false end.

(* known = [column for column in self.columns if column in conditions.index] *)
Definition known (conds : list (label * V)) : list label :=
  filter (fun c => has_key c conds) columns.

(* pd.Series(values, index=labels): ValueError on a length mismatch *)
Definition relabel (labels : list label) (vals : list V) : result (list (label * V)) :=
  if Nat.eqb (length vals) (length labels)
  then Ok (combine labels vals)
  else Err (ValueError_length_mismatch (length vals) (length labels)).

Definition normal_conditions (conds : list (label * V)) : result (list (label * V)) :=
  bind (transform_conditions conds) (relabel (known conds)).

(* columns1 of _get_conditional_distribution *)
Definition columns1 (conds : list (label * V)) : list label :=
  difference columns (map fst conds).

(* .loc[columns1, columns2] raises KeyError for a label that is not a column *)
Definition first_unknown (ls : list label) : option label :=
  find (fun l => negb (mem l columns)) ls.

(* _get_normal_samples *)
Definition normal_samples (num_rows : nat) (conditions : option (list (label * V)))
  : result frame :=
  match conditions with
  | None =>
      let '(mu, Sg) := uncond_params in
      match columns with
      | [] => Err ValueError_empty_draw
      | _ => mk_frame (mvn mu Sg num_rows) columns
      end
  | Some conds =>
      bind (normal_conditions conds) (fun nconds =>
        match first_unknown (map fst nconds) with
        | Some l => Err (KeyError l)
        | None =>
            let cols1 := columns1 nconds in
            let '(mu, Sg) := cond_params cols1 nconds in
            match cols1 with
            | [] => Err ValueError_empty_draw
            | _ => mk_frame (mvn mu Sg num_rows) cols1
            end
        end)
  end.

(* body of the output loop for one training column.  The container kind no longer matters:
   `conditions is not None and column_name in conditions` and `conditions[column_name]` mean the same
   for a dict and for a Series (membership in / lookup by the index). *)
Definition output_column (kind : container) (num_rows : nat)
           (conditions : option (list (label * V))) (samples : frame) (c : label)
  : result (label * list V) :=
  let sampled :=
    bind (frame_col samples c) (fun col => Ok (c, map (fun x => ppf c (Phi x)) col)) in
  match conditions with
  | None => sampled
  | Some conds =>
      match lookup c conds with
      | Some v => Ok (c, repeat v num_rows)  (* np.full(num_rows, conditions[c]) *)
      | None => sampled
      end
  end.

Fixpoint mapM {A B} (f : A -> result B) (l : list A) : result (list B) :=
  match l with
  | [] => Ok []
  | a :: r => bind (f a) (fun b => bind (mapM f r) (fun r' => Ok (b :: r')))
  end.

(* sample: the returned frame as the ordered dict  label -> column values *)
Definition sample (kind : container) (num_rows : nat)
           (conditions : option (list (label * V))) : result (list (label * list V)) :=
  bind (normal_samples num_rows conditions) (fun samples =>
    mapM (output_column kind num_rows conditions samples) columns).

End Model.

(* ------------------------------------------------------------------ *)
(* evaluation on a toy instance: V = nat, score c v = 100*c + v,
   ppf c u = 1000*c + u, Phi = S, the "draw" row k is mu shifted by k.   *)
Module Demo.
Definition score (c v : nat) := 100 * c + v.
Definition ppf (c u : nat) := 1000 * c + u.
Definition Phi (x : nat) := S x.
(* mu_bar_i := 10 * label_i, so the label each draw component belongs to stays visible *)
Definition cond_params (cols1 : list label) (nc : list (label * nat)) :=
  (map (fun c => 10 * c) cols1, @nil (list nat)).
Definition uncond (columns : list label) := (map (fun _ => 0) columns, @nil (list nat)).
Definition mvn (mu : list nat) (Sg : list (list nat)) (n : nat) : list (list nat) :=
  map (fun k => map (fun m => m + k) mu) (seq 0 n).

Definition run kind columns n conds :=
  sample nat isort score ppf Phi cond_params (uncond columns) mvn columns kind n conds.

(* training order [2;0;1], condition on column 0 *)
Eval vm_compute in run Dict [2;0;1] 2 (Some [(0, 7)]).
(* = Ok [(2, [2021; 2022]); (0, [7; 7]); (1, [1011; 1012])] *)
Eval vm_compute in normal_conditions nat Demo.score [2;0;1] [(0, 7); (2, 5)].
(* = Ok [(2, 205); (0, 7)] : every label carries its own score, in training order *)
Eval vm_compute in run Dict [2;0;1] 2 (Some [(9, 7); (0, 1)]).
(* the unknown label 9 is ignored: same as conditions {0: 1} *)
Eval vm_compute in run Dict [2;0;1] 2 (Some [(9, 7)]).
(* = Err ValueError_no_arrays *)
Eval vm_compute in run Dict [2;0;1] 2 (Some []).
(* = Err ValueError_no_arrays *)
Eval vm_compute in run Dict [2;0] 2 (Some [(2, 7); (0, 1)]).
(* = Err ValueError_empty_draw *)
Eval vm_compute in run Series [2;0;1] 2 (Some [(0, 7)]).
(* = the Dict result *)
Eval vm_compute in run Dict [2;0;1] 2 None.
End Demo.
