(* Executable rational mirror of the branch logic of Model/Univariate.v (no Reals).
   Every float is a dyadic rational, so these functions can be run by `Eval vm_compute` on the exact
   values the Python harness feeds to the library.  Spec/UnivQBridge.v proves that they commute with
   the real-number model through Q2R.  Transcendental parts (ndtr, np.std, log) have no mirror. *)
From Coq Require Import QArith List Bool.
Import ListNotations.
Open Scope Q_scope.

Definition Qltb (x y : Q) : bool := negb (Qle_bool y x).
Definition qmin (x y : Q) : Q := if Qle_bool x y then x else y.
Definition qmax (x y : Q) : Q := if Qle_bool x y then y else x.
Definition qclip (x lo hi : Q) : Q := qmin (qmax x lo) hi.

Fixpoint qlist_min (d : Q) (l : list Q) : Q := match l with [] => d | x :: r => qlist_min (qmin d x) r end.
Fixpoint qlist_max (d : Q) (l : list Q) : Q := match l with [] => d | x :: r => qlist_max (qmax d x) r end.
Definition q_np_min (l : list Q) : Q := match l with [] => 0 | x :: r => qlist_min x r end.
Definition q_np_max (l : list Q) : Q := match l with [] => 0 | x :: r => qlist_max x r end.

(* EPSILON = 2^-23 *)
Definition qEPSILON : Q := 1 # 8388608.

(* GaussianKDE.percent_point routing *)
Inductive qroute := QNegInf | QPosInf | QRoot (lo hi u : Q).
Definition qroute_one (lo hi u : Q) : qroute :=
  if Qle_bool u qEPSILON then QNegInf
  else if Qle_bool (1 - qEPSILON) u then QPosInf
  else QRoot lo hi u.
Definition q_ppf_route (lo hi : Q) (us : list Q) : option (list qroute) :=
  if orb (existsb (fun u => Qltb 1 u) us) (existsb (fun u => Qltb u 0) us) then None
  else Some (map (qroute_one lo hi) us).

(* constant law *)
Definition qconst_cdf (c x : Q) : Q := if Qltb x c then 0 else 1.
Definition qconst_pdf (c x : Q) : Q := if Qeq_bool x c then 1 else 0.
Definition qconst_ppf (c q : Q) : Q := c.
Definition qconst_sample (c : Q) (n : nat) : list Q := repeat c n.
Definition qcheck_constant_value (X : list Q) : option Q :=
  match X with [] => None | x :: r => if forallb (Qeq_bool x) r then Some x else None end.

(* uniform *)
Definition qunif_cdf (loc scale x : Q) : Q := qclip ((x - loc) / scale) 0 1.
Definition qunif_pdf (loc scale x : Q) : Q :=
  if andb (Qle_bool loc x) (Qle_bool x (loc + scale)) then 1 / scale else 0.
Definition qunif_ppf (loc scale q : Q) : option Q :=
  if andb (Qle_bool 0 q) (Qle_bool q 1) then Some (loc + q * scale) else None.
Definition quniform_fit (X : list Q) : Q * Q := (q_np_min X, q_np_max X - q_np_min X).
Definition quniform_is_constant (p : Q * Q) : bool := Qeq_bool (snd p) 0.

(* truncated Gaussian: stored a, b for an optimiser answer (loc, scale) *)
Definition qtg_min (user_min : option Q) (X : list Q) : Q :=
  match user_min with Some m => m | None => q_np_min X - qEPSILON end.
Definition qtg_max (user_max : option Q) (X : list Q) : Q :=
  match user_max with Some m => m | None => q_np_max X + qEPSILON end.
Definition qtg_ab (user_min user_max : option Q) (X : list Q) (loc scale : Q) : Q * Q :=
  ((qtg_min user_min X - loc) / scale, (qtg_max user_max X - loc) / scale).
Definition qtg_support (a b loc scale : Q) : Q * Q := (loc + a * scale, loc + b * scale).

(* ---- evaluation checks ---- *)
Example ev_route : q_ppf_route (-5) 7 [0; 1 # 16777216; 1 # 2; 1 - (1 # 8388608); 1]
                   = Some [QNegInf; QNegInf; QRoot (-5) 7 (1 # 2); QPosInf; QPosInf].
Proof. vm_compute. reflexivity. Qed.
Example ev_route_err : q_ppf_route 0 1 [1 # 2; 3 # 2] = None /\ q_ppf_route 0 1 [-1 # 2] = None.
Proof. vm_compute. split; reflexivity. Qed.
Example ev_const : map (qconst_cdf 3) [2; 3; 4] = [0; 1; 1] /\ map (qconst_pdf 3) [2; 3; 4] = [0; 1; 0]
                   /\ qconst_sample 3 2 = [3; 3] /\ qcheck_constant_value [3; 3; 3] = Some 3
                   /\ qcheck_constant_value [3; 4] = None.
Proof. vm_compute. repeat split; reflexivity. Qed.
Example ev_unif : quniform_fit [2; 5; 3] = (2, 5 - 2)%Q /\ Qeq_bool (qunif_cdf 2 3 (11 # 4)) (1 # 4) = true
                  /\ qunif_ppf 2 3 (3 # 2) = None.
Proof. vm_compute. repeat split; reflexivity. Qed.
Example ev_tg : let (a, b) := qtg_ab (Some 0) (Some 10) [1; 2] 4 2 in
                Qeq_bool a (-2) = true /\ Qeq_bool b 3 = true.
Proof. vm_compute. split; reflexivity. Qed.
