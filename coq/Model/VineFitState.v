(* ========================================================================= *)
(*  Hand-written model of the ATTRIBUTE PROTOCOL of VineCopula.__init__ and    *)
(*  VineCopula.fit (copulas/multivariate/vine.py): which attributes exist, in  *)
(*  which order they are assigned, what each one is bound to (symbolically:     *)
(*  Lib.PyVineFit.vval), and what a fit that raises leaves behind.              *)
(*  Props/C16_fit.v proves the definitions generated from the AST by            *)
(*  tools/vf/vinefitgen.py equal to these.                                      *)
(* ========================================================================= *)
From Coq Require Import String List Bool.
From Cop Require Import Lib.PyVineFit.
From Cop Require Model.Lifecycle Spec.VineSerial.
Import ListNotations.
Open Scope string_scope.

(* VineCopula.__init__(self, vine_type, random_state=None), after @store_args *)
Definition vine_init_attrs : vobj :=
  [("random_state", VValidRS (VParam "random_state")); ("vine_type", VParam "vine_type");
   ("u_matrix", VNone); ("model", VClass "GaussianKDE")].

Definition setattrs (o : vobj) (l : list (string * vval)) : vobj :=
  fold_left (fun o p => setattr o (fst p) (snd p)) l o.

(* fit(self, X, truncated=3): before the marginal loop *)
Definition fit_pre : list (string * vval) :=
  [("n_sample", VShape 0 (VParam "X")); ("n_var", VShape 1 (VParam "X"));
   ("columns", VAttr (VParam "X") "columns"); ("tau_mat", VKendall (VParam "X"));
   ("u_matrix", VEmptyMat (VSelf "n_sample") (VSelf "n_var"));
   ("truncated", VParam "truncated"); ("depth", VSub1 (VSelf "n_var"));
   ("trees", VEmptyList); ("unis", VEmptyList); ("ppfs", VEmptyList)].
(* the marginal loop, when every column could be fitted *)
Definition fit_marg : list (string * vval) :=
  [("u_matrix", VCdfCols (VSelf "model") (VParam "X")); ("unis", VUnis (VSelf "model") (VParam "X"));
   ("ppfs", VPpfs (VSelf "model") (VParam "X"))].
(* train_vine(self.vine_type), then fitted = True LAST *)
Definition fit_post : list (string * vval) :=
  [("trees", VTrees (VSelf "vine_type")); ("fitted", VTrue)].

Definition vine_fit_state (out : fit_outcome) (self : vobj) : vobj * bool :=
  let s1 := setattrs self fit_pre in
  match out with
  | RaisesInMarginal => (s1, false)
  | _ => let s2 := setattrs s1 fit_marg in
         match out with
         | RaisesInTrainVine => (s2, false)
         | _ => (setattrs s2 fit_post, true)
         end
  end.

Lemma getattr_setattr o a v b : getattr (setattr o a v) b = if String.eqb b a then Some v else getattr o b.
Proof.
  induction o as [|[c w] o IH]; simpl.
  - reflexivity.
  - destruct (String.eqb a c) eqn:E; simpl.
    + apply String.eqb_eq in E. subst c. destruct (String.eqb b a); reflexivity.
    + rewrite IH. destruct (String.eqb b c) eqn:E2; [|reflexivity].
      apply String.eqb_eq in E2. subst c. rewrite String.eqb_sym, E. reflexivity.
Qed.

(* the keys VineCopula.to_dict reads from a fitted instance (Spec.VineSerial.vine_body_keys) *)
Definition to_dict_attrs : list string :=
  ["n_sample"; "n_var"; "depth"; "truncated"; "trees"; "tau_mat"; "u_matrix"; "unis"; "columns"].

(* a fit that returns: `fitted` is True and every attribute to_dict serialises is bound, whatever the object was before *)
Theorem fit_returns_serialisable : forall self,
  snd (vine_fit_state FitReturns self) = true /\
  getattr (fst (vine_fit_state FitReturns self)) "fitted" = Some VTrue /\
  forall a, In a to_dict_attrs -> getattr (fst (vine_fit_state FitReturns self)) a <> None.
Proof.
  intros self. split; [reflexivity|]. unfold vine_fit_state, setattrs, fit_pre, fit_marg, fit_post. cbn [fold_left fst snd].
  split.
  - rewrite !getattr_setattr. reflexivity.
  - intros a Ha. unfold to_dict_attrs in Ha. cbn [In] in Ha.
    repeat (destruct Ha as [<-|Ha]; [rewrite !getattr_setattr; cbn; discriminate|]). destruct Ha.
Qed.

(* a fit that raises while fitting a marginal (or inside train_vine) does not touch `fitted` *)
Theorem fit_raises_keeps_fitted : forall out self, out <> FitReturns ->
  snd (vine_fit_state out self) = false /\
  getattr (fst (vine_fit_state out self)) "fitted" = getattr self "fitted".
Proof.
  intros out self H. destruct out; [congruence| |];
    (split; [reflexivity|]); unfold vine_fit_state, setattrs, fit_pre, fit_marg; cbn [fold_left fst snd];
    rewrite !getattr_setattr; reflexivity.
Qed.

(* on a fresh instance: exactly these attributes, in this order *)
Example fit_fresh_attrs :
  attr_names (fst (vine_fit_state FitReturns vine_init_attrs))
  = ["random_state"; "vine_type"; "u_matrix"; "model"; "n_sample"; "n_var"; "columns"; "tau_mat"; "truncated"; "depth";
     "trees"; "unis"; "ppfs"; "fitted"].
Proof. reflexivity. Qed.
Example fit_fresh_raises_in_marginal :
  getattr (fst (vine_fit_state RaisesInMarginal vine_init_attrs)) "fitted" = None /\
  getattr (fst (vine_fit_state RaisesInMarginal vine_init_attrs)) "trees" = Some VEmptyList /\
  getattr (fst (vine_fit_state RaisesInMarginal vine_init_attrs)) "u_matrix" = Some (VEmptyMat (VSelf "n_sample") (VSelf "n_var")).
Proof. repeat split; reflexivity. Qed.

(* ------------------------------------------------------------------ *)
(* what the attribute bindings of __init__ mean for Spec.VineSerial.vine (type, random state, no fitted body): the constructor
   call as a function of (parameter names, required names, bindings) *)
Section Init.
Import Cop.Model.Lifecycle Cop.Spec.VineSerial.
Definition init_of_attrs (names required : list string) (attrs : vobj) (args : list jv) (kw : list (string * jv)) : result vine :=
  bind (bind_args names args kw) (fun b =>
  match getattr attrs "vine_type", getattr attrs "random_state", getattr attrs "u_matrix" with
  | Some (VParam p), Some (VValidRS (VParam q)), Some VNone =>
      if existsb (String.eqb p) required then
        match lookup p b with
        | None => Err TypeErr                (* missing required positional argument *)
        | Some vt => bind (validate_rs (getd q b JNone)) (fun rs => Ok (mkVine vt rs None))
        end
      else Err Unmodelled
  | _, _, _ => Err Unmodelled
  end).

Theorem init_of_attrs_new_vine : forall args kw,
  init_of_attrs vine_init_names vine_init_required vine_init_attrs args kw = new_vine args kw.
Proof. intros args kw. reflexivity. Qed.
End Init.
