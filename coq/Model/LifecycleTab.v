(* ========================================================================= *)
(*  C19 (+ C14): oracle-TABLE instance of the life-cycle machines              *)
(*                                                                            *)
(*  Model/Lifecycle.v is parametrised by eight scipy/numpy oracles and ships  *)
(*  a crude arithmetic stub (Module Stub).  For the differential              *)
(*  correspondence with the real library the harness (tools/vf/lifecycle.py)  *)
(*  captures the oracle VALUES of a concrete run (scipy fits, fmin_slsqp,     *)
(*  X.tolist(), gaussian_kde.resample, the selected candidate, np.random.     *)
(*  choice, the correlation matrix, Frank's least_squares) and hands them to  *)
(*  the SAME machine as finite lookup tables.  Nothing of the control flow is *)
(*  in the tables: which oracle is consulted, with which arguments, what is   *)
(*  stored where, which exception escapes and what state it leaves behind is  *)
(*  all computed by Lifecycle.step.  A missing table entry evaluates to a     *)
(*  default that cannot agree with the library (fail closed).                 *)
(*                                                                            *)
(*  Also here:                                                                *)
(*   - [query_wrapper_rs]: Univariate.sample as it is SINCE the F9 fix        *)
(*     (decorated with @random_state): a seeded wrapper draws from its own    *)
(*     stream.  Lifecycle.query_wrapper predates that fix; the two agree      *)
(*     whenever the wrapper is unseeded or the query is not `sample`          *)
(*     (lemmas below), which is all the Spec theorems use.                    *)
(*   - [run_trace]: observation + "did the global generator / the model's own *)
(*     generator advance" per step.                                           *)
(*   - the definition-before-use analysis of the np.empty tau matrix of       *)
(*     Tree.get_tau_matrix against the cells the k-th trees read (F8).        *)
(* ========================================================================= *)
From Coq Require Import ZArith QArith Qabs List String Bool Arith Lia.
From Cop Require Import Model.Lifecycle Model.Vine.
Import ListNotations.
Open Scope list_scope.
Set Implicit Arguments.

(* ------------------------------------------------------------------------- *)
(* 1. Tables                                                                  *)
(* ------------------------------------------------------------------------- *)
Definition fam_eqb (a b : family) : bool :=
  match a, b with
  | FGaussian, FGaussian | FUniform, FUniform | FBeta, FBeta | FGamma, FGamma
  | FStudentT, FStudentT | FLogLaplace, FLogLaplace | FTrunc, FTrunc | FKDE, FKDE => true
  | _, _ => false
  end.

(* |a - b| <= 1e-9 (1 + |b|) : float arithmetic of the library vs exact arithmetic of the model *)
Definition Qclose (a b : Q) : bool :=
  Qle_bool (Qabs (a - b)) ((1 # 1000000000) * (1 + Qabs b)).

Record otab := mkOT {
  ot_sfit : list (family * nat * list Q);        (* (family, d_id)        -> scipy `fit` result *)
  ot_tg : list (nat * Q * Q * (Q * Q));          (* (d_id, min, max)      -> fmin_slsqp (loc, scale) *)
  ot_tolist : list (nat * list Q);               (* d_id                  -> X.tolist() *)
  ot_resample : list (nat * nat * nat * list Q); (* (d_id, n, |global draws so far|) -> resample(n) *)
  ot_select : list (nat * nat * option nat);     (* (d_id of the selection sample, number of candidates) -> index of the winner *)
  ot_choice : list (nat * nat * nat * data);     (* (d_id, k, |global draws so far|) -> np.random.choice *)
  ot_corr : list (nat * list Q * list (list Q)); (* (t_id, fingerprint of the columns' cdf behaviours) -> correlation matrix *)
  ot_frank : list (Q * result jv)                (* tau                   -> Frank theta (or the exception) *)
}.

Definition empty_tab := mkOT [] [] [] [] [] [] [] [].

(* one number per marginal behaviour (the same table fitted twice by resampling marginals has two
   different correlation matrices): the constant / loc / first KDE point *)
Definition jv_first (j : jv) : Q :=
  match j with
  | JNum q => q
  | JList (JNum q :: _) => q
  | JList (JList (JNum q :: _) :: _) => q
  | _ => 0
  end.
Definition obs_fp (o : obs) : Q :=
  match o with
  | ObsConst _ (Some c) => jv_first c
  | ObsScipy _ _ p => match lookup "loc" p with Some v => jv_first v | None => 0 end
  | ObsKde _ m _ => jv_first (km_dataset m)
  | _ => 0
  end.
Fixpoint all_close (a b : list Q) : bool :=
  match a, b with
  | [], [] => true
  | x :: r, y :: r' => Qclose x y && all_close r r'
  | _, _ => false
  end.

Section Tab.
  Variable t : otab.

  Definition t_sfit (f : family) (X : data) (start : list Q) : list Q :=
    match find (fun e => fam_eqb (fst (fst e)) f && (snd (fst e) =? d_id X)%nat) (ot_sfit t) with
    | Some e => snd e
    | None => []
    end.

  Definition t_tg (X : data) (lo hi : Q) : Q * Q :=
    match find (fun e => let '(i, a, b, _) := e in (i =? d_id X)%nat && Qclose lo a && Qclose hi b) (ot_tg t) with
    | Some e => snd e
    | None => (0, 0)%Q
    end.

  Definition t_tolist (X : data) : list Q :=
    match find (fun e => (fst e =? d_id X)%nat) (ot_tolist t) with
    | Some e => snd e
    | None => []
    end.

  Definition t_resample (X : data) (bw w : jv) (n : nat) (g : grng) : list Q :=
    match find (fun e => let '(i, k, gl, _) := e in
                         (i =? d_id X)%nat && (k =? n)%nat && (gl =? List.length g)%nat) (ot_resample t) with
    | Some e => snd e
    | None => []
    end.

  Definition t_select (X : data) (cands : list cand) : option nat :=
    match find (fun e => (fst (fst e) =? d_id X)%nat && (snd (fst e) =? List.length cands)%nat) (ot_select t) with
    | Some e => snd e
    | None => None
    end.

  Definition t_choice (X : data) (k : nat) (g : grng) : data :=
    match find (fun e => let '(i, k', gl, _) := e in
                         (i =? d_id X)%nat && (k' =? k)%nat && (gl =? List.length g)%nat) (ot_choice t) with
    | Some e => snd e
    | None => mkData 0 None 0 0 0
    end.

  Definition t_corr (id : nat) (cdfs : list obs) : list (list Q) :=
    match find (fun e => (fst (fst e) =? id)%nat && all_close (map obs_fp cdfs) (snd (fst e))) (ot_corr t) with
    | Some e => snd e
    | None => []
    end.

  Definition t_frank (tau : Q) : result jv :=
    match find (fun e => Qeq_bool (fst e) tau) (ot_frank t) with
    | Some e => snd e
    | None => Err Unmodelled
    end.

  Definition step0 := step t_sfit t_tg t_tolist t_resample t_select t_choice t_corr t_frank.
  Definition fit_scipy_t := fit_scipy t_sfit t_tg t_tolist t_resample.
  Definition fit_wrapper_t := fit_wrapper t_sfit t_tg t_tolist t_resample t_select t_choice.
  Definition fit_gm_t := fit_gm t_sfit t_tg t_tolist t_resample t_select t_choice t_corr.
  Definition fit_biv_t := fit_biv t_frank.

  (* ----------------------------------------------------------------------- *)
  (* 2. Univariate.sample under @random_state (current source)                *)
  (* ----------------------------------------------------------------------- *)
  Definition setu_rs (r : option rstate) (u : uinst) : uinst :=
    mkU (u_cands u) r (u_sel_ss u) (u_fitted u) (u_instance u) (u_stored u).

  Definition query_wrapper_rs (u : uinst) (k : qkind) (n : nat) (g : grng) : uinst * grng * obs :=
    match k, u_rs u with
    | QSample, Some (seed, ds) =>
        (* with set_random_state(self.random_state, ...): the global generator IS the wrapper's
           stream while the body runs; it is restored afterwards, the stream is stored back *)
        let '(u', ds', o) := query_wrapper u QSample n ds in
        (setu_rs (Some (seed, ds')) u', g,
         match o with
         | ObsDraw what m (RsGlobal d) => ObsDraw what m (RsOwn (seed, d))
         | o' => o'
         end)
    | _, _ => query_wrapper u k n g
    end.

  Lemma query_wrapper_rs_unseeded : forall u k n g,
      u_rs u = None -> query_wrapper_rs u k n g = query_wrapper u k n g.
  Proof. intros u k n g H. unfold query_wrapper_rs. rewrite H. destruct k; reflexivity. Qed.

  Lemma query_wrapper_rs_not_sample : forall u k n g,
      k <> QSample -> query_wrapper_rs u k n g = query_wrapper u k n g.
  Proof. intros u k n g H. unfold query_wrapper_rs. destruct k; try reflexivity. congruence. Qed.

  Lemma query_wrapper_rs_unfitted : forall u k n g,
      u_fitted u = false -> snd (query_wrapper_rs u k n g) = ObsErr NotFitted /\ snd (fst (query_wrapper_rs u k n g)) = g.
  Proof.
    intros u k n g H. unfold query_wrapper_rs, query_wrapper. rewrite H. simpl.
    destruct k; try (split; reflexivity). destruct (u_rs u) as [[seed ds]|]; split; reflexivity.
  Qed.

  Definition tstep (w : world) (e : event) : world * obs :=
    match w_obj w, e with
    | MU u, Query (QU k) n =>
        let '(u', g', r) := query_wrapper_rs u k n (w_g w) in (mkW (MU u') g' (w_bw w), r)
    | _, _ => step0 w e
    end.

  (* ----------------------------------------------------------------------- *)
  (* 3. Traces                                                                *)
  (* ----------------------------------------------------------------------- *)
  Definition own_draws (o : obj) : option nat :=
    let f := fun (r : option rstate) => match r with Some (_, ds) => Some (List.length ds) | None => None end in
    match o with
    | MS s => f (s_rs s) | MU u => f (u_rs u) | MB b => f (b_rs b) | MG x => f (g_rs x)
    end.

  (* (observation, number of consumptions of the global generator so far,
      number of consumptions of the object's own generator so far) *)
  Fixpoint run_trace (w : world) (evs : list event) : list (obs * nat * option nat) :=
    match evs with
    | [] => []
    | e :: r => let '(w1, o) := tstep w e in
                (o, List.length (w_g w1), own_draws (w_obj w1)) :: run_trace w1 r
    end.

  Definition trace_of (o : result obj) (evs : list event) : list (obs * nat * option nat) :=
    match o with
    | Ok x => run_trace (mkW x [] bworld0) evs
    | Err e => [(ObsErr e, 0%nat, None)]
    end.
End Tab.

(* constructors of the object under test, as the harness writes them *)
Definition mk_scipy (f : family) (args : list jv) (kw : list (string * jv)) : result obj :=
  s <- new_scipy f args kw ;; Ok (MS s).
Definition mk_wrapper (args : list uarg) (kw : list (string * uarg)) : result obj :=
  u <- new_wrapper args kw ;; Ok (MU u).
Definition mk_gm (args : list garg) (kw : list (string * garg)) : result obj :=
  x <- new_gm args kw ;; Ok (MG x).
Definition mk_biv (t : ctype) (kw : list (string * jv)) : result obj :=
  match snd (new_biv bworld0 (Some t) kw) with
  | Ok (Some b) => Ok (MB b)
  | Ok None => Err Unmodelled
  | Err e => Err e
  end.

(* the table instance and the stub agree on everything that consults no oracle *)
Example tab_unfitted_example :
  map (fun x => fst (fst x))
      (trace_of empty_tab (mk_scipy FGaussian [] []) [Query (QU QCdf) 1; ToDict; Query (QU QSample) 2])
  = [ObsErr NotFitted; ObsErr NotFitted; ObsErr NotFitted].
Proof. reflexivity. Qed.

(* ------------------------------------------------------------------------- *)
(* 4. Definition before use of the np.empty tau matrix (F8)                    *)
(* ------------------------------------------------------------------------- *)
(* Tree.get_tau_matrix (run on the PREVIOUS tree, whose edges are [prev]) allocates
   `tau = np.empty([m, m])` and writes exactly the cells (i, j) with j in edges[i].neighbors,
   i.e. (Tree._get_constraints) the pairs i <> j with edges[i].is_adjacent(edges[j]). *)
Definition tau_written (prev : list edge) (i j : nat) : bool :=
  existsb (Nat.eqb j) (nth i (get_constraints prev) []).

(* cells of that matrix read while building the next tree (level = the next tree's self.level) *)
(* RegularTree._build_kth_tree, first round of the Prim loop (visited = {0}):
   `neg_tau[x][k]` for every candidate pair that passes _check_constraint; the winner's cell is
   stored as new_edge.tau *)
Definition regular_reads (level : nat) (prev : list edge) (visited : list nat) : list (nat * nat) :=
  cands (List.length prev) (ok_kth level prev) visited.
(* DirectTree._build_kth_tree: `new_edge.tau = self.tau_matrix[k, k + 1]` *)
Definition direct_reads (prev : list edge) : list (nat * nat) :=
  map (fun k => (k, S k)) (seq 0 (List.length prev - 1)).
(* CenterTree._build_kth_tree: _sort_tau_by_y(anchor = 0) reads column 0 (cell (0,0) is overwritten first) *)
Definition center_reads (prev : list edge) : list (nat * nat) :=
  map (fun i => (i, 0%nat)) (seq 1 (List.length prev - 1)).

Definition unwritten_reads (prev : list edge) (reads : list (nat * nat)) : list (nat * nat) :=
  filter (fun c => negb (tau_written prev (fst c) (snd c))) reads.

(* second tree (built from a first tree: D = {}): reading pairs that pass _check_constraint(level 2)
   means the two edges share a node, which is exactly is_adjacent *)
Lemma level2_constraint_is_adjacent : forall a b : edge,
    e_D a = [] -> e_D b = [] -> (e_L a <? e_R a)%nat = true -> (e_L b <? e_R b)%nat = true ->
    (e_L a =? e_L b)%nat && (e_R a =? e_R b)%nat = false ->
    forall bound, (e_R a <? bound)%nat = true -> (e_R b <? bound)%nat = true -> (bound <=? 6)%nat = true ->
    check_constraint 2 a b = is_adjacent a b.
Proof.
  intros [ia la ra da pa] [ib lb rb db pb]; simpl. intros -> -> H1 H2 H3 bound H4 H5 H6.
  apply Nat.ltb_lt in H1, H2, H4, H5. apply Nat.leb_le in H6.
  assert (Hra : (ra < 6)%nat) by lia. assert (Hrb : (rb < 6)%nat) by lia.
  unfold check_constraint, is_adjacent, set_union, universe, U; simpl.
  repeat (destruct la as [|la]; try lia); repeat (destruct ra as [|ra]; try lia);
  repeat (destruct lb as [|lb]; try lia); repeat (destruct rb as [|rb]; try lia);
  try reflexivity; simpl in H3; try discriminate H3.
Qed.

(* a D-vine on 4 variables: first tree 0-1-2-3, second tree (0,2|1), (1,3|2) *)
Definition dvine_t1 : list edge :=
  [mkEdge 0 0 1 [] None; mkEdge 1 1 2 [] None; mkEdge 2 2 3 [] None].
Definition dvine_t2 : list edge :=
  [mkEdge 0 0 2 [1%nat] (Some (0%nat, 1%nat)); mkEdge 1 1 3 [2%nat] (Some (1%nat, 2%nat))].

Example dvine_t2_is_the_model's_second_tree : direct_kth_opt 3 dvine_t1 = Some dvine_t2.
Proof. reflexivity. Qed.

(* level 2 reads only written cells, for all three vine types, on this vine *)
Example def_before_use_level2_example :
  unwritten_reads dvine_t1 (regular_reads 2 dvine_t1 [0%nat]) = [] /\
  unwritten_reads dvine_t1 (regular_reads 2 dvine_t1 [0%nat; 1%nat]) = [] /\
  unwritten_reads dvine_t1 (direct_reads dvine_t1) = [].
Proof. repeat split; reflexivity. Qed.

(* level 3: the two second-tree edges satisfy _check_constraint (they share the NODE (1,2) of the
   first tree) but are not `is_adjacent` (no common CONDITIONED variable): nothing was written *)
Theorem def_before_use_refuted :
  get_constraints dvine_t2 = [[]; []] /\
  check_constraint 3 (nth 0 dvine_t2 (mkEdge 0 0 0 [] None)) (nth 1 dvine_t2 (mkEdge 0 0 0 [] None)) = true /\
  regular_reads 3 dvine_t2 [0%nat] = [(0%nat, 1%nat)] /\
  unwritten_reads dvine_t2 (regular_reads 3 dvine_t2 [0%nat]) = [(0%nat, 1%nat)] /\
  unwritten_reads dvine_t2 (direct_reads dvine_t2) = [(0%nat, 1%nat)].
Proof. repeat split; reflexivity. Qed.

(* five variables, regular vine: TWO candidate cells are compared by `sorted(adj_set, key=neg_tau)`
   and both are unwritten: uninitialised memory decides the structure *)
Definition rvine5_t2 : list edge :=
  [mkEdge 0 0 2 [1%nat] (Some (0%nat, 1%nat)); mkEdge 1 1 3 [2%nat] (Some (1%nat, 2%nat));
   mkEdge 2 1 4 [2%nat] (Some (1%nat, 3%nat))].
(* first tree 0-1, 1-2, 2-3, 2-4 ; second tree (0,2|1) (1,3|2) (1,4|2) *)
Theorem def_before_use_structure_refuted :
  regular_reads 3 rvine5_t2 [0%nat] = [(0%nat, 1%nat); (0%nat, 2%nat)] /\
  unwritten_reads rvine5_t2 (regular_reads 3 rvine5_t2 [0%nat]) = [(0%nat, 1%nat); (0%nat, 2%nat)].
Proof. split; reflexivity. Qed.

(* C-vines are safe at every level: all edges of a C-vine tree share the conditioned root, so
   column 0 is written in every row but row 0 (checked here on the 5-variable C-vine) *)
Definition cvine5_t1 : list edge :=
  [mkEdge 0 0 1 [] None; mkEdge 1 0 2 [] None; mkEdge 2 0 3 [] None; mkEdge 3 0 4 [] None].
Definition cvine5_t2 : list edge :=
  [mkEdge 0 1 2 [0%nat] (Some (0%nat, 1%nat)); mkEdge 1 1 3 [0%nat] (Some (0%nat, 2%nat));
   mkEdge 2 1 4 [0%nat] (Some (0%nat, 3%nat))].
Example def_before_use_center_example :
  unwritten_reads cvine5_t1 (center_reads cvine5_t1) = [] /\
  unwritten_reads cvine5_t2 (center_reads cvine5_t2) = [].
Proof. split; reflexivity. Qed.
