(* C13: GaussianMultivariate._transform_to_normal and the density / CDF wrappers.
   Executable structural model; no Reals.  Cells have an arbitrary type [V], scores an
   arbitrary type [S]; the j-th fitted univariate enters only through its per-cell
   score function

       u_j v = stats.norm.ppf( clip( univariate_j.cdf(v), EPSILON, 1 - EPSILON ) )

   (cdf, clip and norm.ppf are all element-wise on a column, so a column of scores
   is [map u_j column]).

   Python being modelled (copulas/multivariate/gaussian.py):

     def _transform_to_normal(self, X):
         if isinstance(X, pd.Series):
             X = X.to_frame().T                     # one row, header = the Series index
         elif not isinstance(X, pd.DataFrame):
             if len(X.shape) == 1:
                 X = [X]                            # 1-d array: one row
             X = pd.DataFrame(X, columns=self.columns)   # POSITIONAL, training order;
                                                    # ValueError on a width mismatch
         U = []
         for column_name, univariate in zip(self.columns, self.univariates):
             if column_name in X:                   # missing columns: silently skipped
                 column = X[column_name]            # lookup BY LABEL (any column order)
                 U.append(univariate.cdf(column.to_numpy()).clip(EPSILON, 1 - EPSILON))
         return stats.norm.ppf(np.column_stack(U)) # ValueError when U == []

     def probability_density(self, X):
         self.check_fit()
         transformed = self._transform_to_normal(X)
         return stats.multivariate_normal.pdf(transformed, cov=self.correlation, allow_singular=True)
     def cumulative_distribution(self, X):
         self.check_fit()
         transformed = self._transform_to_normal(X)
         return stats.multivariate_normal.cdf(transformed, cov=self.correlation)
     # copulas/multivariate/base.py
     def log_probability_density(self, X):
         return np.log(self.probability_density(X))

   A DataFrame is a header (column labels, here assumed pairwise distinct — with a
   duplicated label pandas returns a 2-d object from X[label] and the behaviour is
   different) plus rows; every row has one cell per header entry ([wf_frame]).
*)
From Coq Require Import List Bool Arith.
Import ListNotations.

Inductive error :=
| NotFittedError
| ValueError_shape          (* pd.DataFrame(X, columns=self.columns): width mismatch *)
| ValueError_no_arrays      (* np.column_stack([]): need at least one array to concatenate *)
| IllFormedFrame.           (* not a pandas behaviour: the input violates [wf_frame] *)

Inductive result (A : Type) := Ok (a : A) | Err (e : error).
Arguments Ok {A} a.
Arguments Err {A} e.

Section Scores.
  Variables label V S : Type.
  Variable label_eqb : label -> label -> bool.

  Record frame := { header : list label; rows : list (list V) }.

  Definition wf_frame (f : frame) : bool :=
    forallb (fun r => length r =? length (header f)) (rows f).

  Inductive container :=
  | CFrame (f : frame)                       (* pd.DataFrame *)
  | CArray2 (rws : list (list V))            (* 2-d ndarray, list of rows *)
  | CSeries (items : list (label * V))       (* pd.Series: index label -> value *)
  | CArray1 (xs : list V).                   (* 1-d ndarray *)

  Fixpoint assoc {B} (k : label) (l : list (label * B)) : option B :=
    match l with
    | [] => None
    | (k', v) :: tl => if label_eqb k k' then Some v else assoc k tl
    end.

  Definition mem (k : label) (l : list label) : bool := existsb (label_eqb k) l.

  (* the container normalisation at the top of _transform_to_normal *)
  Definition to_frame (columns : list label) (X : container) : result frame :=
    match X with
    | CFrame f => Ok f
    | CSeries items => Ok {| header := map fst items; rows := [map snd items] |}
    | CArray1 xs =>
        if length xs =? length columns
        then Ok {| header := columns; rows := [xs] |}
        else Err ValueError_shape
    | CArray2 rws =>
        if forallb (fun r => length r =? length columns) rws
        then Ok {| header := columns; rows := rws |}
        else Err ValueError_shape
    end.

  (* the cell of row r (laid out according to hdr) under label c: X[c] restricted to one row *)
  Definition cell (hdr : list label) (r : list V) (c : label) : option V :=
    assoc c (combine hdr r).

  (* one row of np.column_stack(U): loop over zip(columns, univariates) in TRAINING order *)
  Definition score_row (cu : list (label * (V -> S))) (hdr : list label) (r : list V) : list S :=
    flat_map (fun cu_j => match cell hdr r (fst cu_j) with
                          | Some v => [snd cu_j v]
                          | None => []
                          end) cu.

  (* the (label, univariate) pairs whose label occurs in the header *)
  Definition present (cu : list (label * (V -> S))) (hdr : list label) :=
    filter (fun cu_j => mem (fst cu_j) hdr) cu.

  Definition transform_frame (cu : list (label * (V -> S))) (f : frame) : result (list (list S)) :=
    if negb (wf_frame f) then Err IllFormedFrame
    else match present cu (header f) with
         | [] => Err ValueError_no_arrays
         | _ => Ok (map (score_row cu (header f)) (rows f))
         end.

  (* self.columns, self.univariates are separate lists, paired by zip *)
  Definition transform_to_normal (columns : list label) (univariates : list (V -> S))
             (X : container) : result (list (list S)) :=
    match to_frame columns X with
    | Err e => Err e
    | Ok f => transform_frame (combine columns univariates) f
    end.

  (* ---- density / CDF wrappers ---- *)
  Variables corr P : Type.
  (* stats.multivariate_normal.pdf(scores, cov=correlation, allow_singular=True)
     and .cdf(scores, cov=correlation): one value per row, or a scipy ValueError *)
  Variable mvn_pdf : list (list S) -> corr -> bool (* allow_singular *) -> result (list P).
  Variable mvn_cdf : list (list S) -> corr -> result (list P).
  Variable np_log : P -> P.

  Record model := {
    fitted : bool;
    columns : list label;
    univariates : list (V -> S);
    correlation : corr
  }.

  Definition probability_density (m : model) (X : container) : result (list P) :=
    if negb (fitted m) then Err NotFittedError
    else match transform_to_normal (columns m) (univariates m) X with
         | Err e => Err e
         | Ok scores => mvn_pdf scores (correlation m) true
         end.

  Definition cumulative_distribution (m : model) (X : container) : result (list P) :=
    if negb (fitted m) then Err NotFittedError
    else match transform_to_normal (columns m) (univariates m) X with
         | Err e => Err e
         | Ok scores => mvn_cdf scores (correlation m)
         end.

  Definition log_probability_density (m : model) (X : container) : result (list P) :=
    match probability_density m X with
    | Err e => Err e
    | Ok ps => Ok (map np_log ps)
    end.

  (* pandas X[hdr']: the frame re-laid out with the columns in the order hdr' *)
  Definition reindex_row (hdr : list label) (r : list V) (hdr' : list label) : list V :=
    flat_map (fun c => match cell hdr r c with Some v => [v] | None => [] end) hdr'.

  Definition reindex (f : frame) (hdr' : list label) : frame :=
    {| header := hdr'; rows := map (fun r => reindex_row (header f) r hdr') (rows f) |}.
End Scores.

Arguments Build_frame {label V}.
Arguments header {label V}.
Arguments rows {label V}.
Arguments CFrame {label V}.
Arguments CArray2 {label V}.
Arguments CSeries {label V}.
Arguments CArray1 {label V}.

(* ------------------------------------------------------------------ *)
(* evaluation checks: labels nat, cells nat, score of column j = 100*j + v *)
Definition demo_cols := [10; 20; 30].
Definition demo_univs : list (nat -> nat) :=
  [fun v => 100 + v; fun v => 200 + v; fun v => 300 + v].
Definition demo_frame := Build_frame [10; 20; 30] [[1; 2; 3]; [4; 5; 6]].

Eval vm_compute in transform_to_normal nat nat nat Nat.eqb demo_cols demo_univs (CFrame demo_frame).
Eval vm_compute in transform_to_normal nat nat nat Nat.eqb demo_cols demo_univs
                     (CFrame (reindex nat nat Nat.eqb demo_frame [30; 10; 20])).
Eval vm_compute in transform_to_normal nat nat nat Nat.eqb demo_cols demo_univs
                     (CArray2 [[1; 2; 3]; [4; 5; 6]]).
Eval vm_compute in transform_to_normal nat nat nat Nat.eqb demo_cols demo_univs
                     (CSeries [(30, 6); (10, 4); (20, 5)]).
Eval vm_compute in transform_to_normal nat nat nat Nat.eqb demo_cols demo_univs (CArray1 [4; 5; 6]).
(* missing column 20: silently a 2-column matrix *)
Eval vm_compute in transform_to_normal nat nat nat Nat.eqb demo_cols demo_univs
                     (CFrame (Build_frame [30; 10] [[3; 1]; [6; 4]])).
(* no training column at all: ValueError *)
Eval vm_compute in transform_to_normal nat nat nat Nat.eqb demo_cols demo_univs
                     (CFrame (Build_frame [77] [[3]; [6]])).
(* wrong width *)
Eval vm_compute in transform_to_normal nat nat nat Nat.eqb demo_cols demo_univs (CArray1 [4; 5]).
