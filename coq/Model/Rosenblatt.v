(* C09: Bivariate.sample — conditional-inversion (Rosenblatt) sampling.
   Executable structural model, no Reals.

   Python being modelled (copulas/bivariate/base.py):

     def sample(self, n_samples):
         if self.tau > 1 or self.tau < -1:
             raise ValueError('The range for correlation measure is [-1,1].')
         v = np.random.uniform(0, 1, n_samples)
         c = np.random.uniform(0, 1, n_samples)
         u = self.percent_point(c, v)
         return np.column_stack((u, v))

   self.tau is None on an unfitted instance: `None > 1` raises TypeError.
   The global generator is an explicit state token [rng]; [uniform g n] is the oracle for
   np.random.uniform(0, 1, n) returning the drawn vector and the advanced state.
   [percent_point c v] is the (family specific, batch level) oracle; None = it raised. *)
From Coq Require Import List Bool Arith QArith.
Import ListNotations.

Definition Qltb (x y : Q) : bool := negb (Qle_bool y x).

Inductive error :=
| TypeError_tau_None        (* '>' not supported between instances of 'NoneType' and 'int' *)
| ValueError_tau_range      (* The range for correlation measure is [-1,1]. *)
| PercentPointRaised        (* check_fit / brentq raised inside percent_point *)
| ValueError_shape.         (* np.column_stack: arrays of different length *)

Inductive result (A : Type) := Ok (a : A) | Err (e : error).
Arguments Ok {A} a.
Arguments Err {A} e.

Section BivariateSample.
  Variables T rng : Type.
  Variable uniform : rng -> nat -> list T * rng.
  Variable percent_point : list T -> list T -> option (list T).

  Definition tau_out_of_range (tau : Q) : bool := Qltb 1 tau || Qltb tau (-1).

  (* returns the (n,2) array as a list of rows (u_i, v_i), and the generator state *)
  Definition sample (tau : option Q) (n : nat) (g : rng) : result (list (T * T)) * rng :=
    match tau with
    | None => (Err TypeError_tau_None, g)
    | Some t =>
        if tau_out_of_range t then (Err ValueError_tau_range, g)
        else
          let (v, g1) := uniform g n in          (* FIRST draw: v *)
          let (c, g2) := uniform g1 n in         (* SECOND draw: c *)
          match percent_point c v with
          | None => (Err PercentPointRaised, g2)
          | Some u =>
              if length u =? length v then (Ok (combine u v), g2)
              else (Err ValueError_shape, g2)
          end
    end.

  (* element-wise percent_point, for families where it is a per-row root find *)
  Fixpoint map2 (f : T -> T -> T) (c v : list T) : list T :=
    match c, v with
    | x :: c', y :: v' => f x y :: map2 f c' v'
    | _, _ => []
    end.
End BivariateSample.

(* evaluation: rng = stream position, uniform g n = [g+1 .. g+n], ppf c v = 100*c + v *)
Definition demo_uniform (g n : nat) : list nat * nat :=
  (map (fun i => g + i + 1)%nat (seq 0 n), (g + n)%nat).
Eval vm_compute in
    sample nat nat demo_uniform (fun c v => Some (map2 nat (fun x y => 100 * x + y)%nat c v))
           (Some (1#2)) 3%nat 0%nat.
Eval vm_compute in
    sample nat nat demo_uniform (fun c v => Some (map2 nat (fun x y => 100 * x + y)%nat c v))
           (Some (3#2)) 3%nat 0%nat.
Eval vm_compute in
    sample nat nat demo_uniform (fun c v => Some (map2 nat (fun x y => 100 * x + y)%nat c v))
           None 3%nat 0%nat.
