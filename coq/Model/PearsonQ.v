(* C02: executable rational-arithmetic version of the Pearson sums of Spec/PearsonDefs.v and a
   DECISION PROCEDURE that certifies, without square roots, that a rational r is within tol of the
   real-number correlation entry  cov / (sqrt var_x * sqrt var_y)  (0 when a variance vanishes).
   Soundness (w.r.t. PearsonDefs over R, through Q2R) is proved in Spec/PearsonQProofs.v.
   Every intermediate value is normalised with Qred so that vm_compute stays small on binary64
   inputs (dyadic rationals with 53-bit numerators). *)
From Coq Require Import QArith List Bool Arith.
Import ListNotations.
Open Scope Q_scope.

Fixpoint qmap2 {A B C : Type} (f : A -> B -> C) (x : list A) (y : list B) : list C :=
  match x, y with
  | a :: x', b :: y' => f a b :: qmap2 f x' y'
  | _, _ => []
  end.

Fixpoint Qsum (l : list Q) : Q :=
  match l with [] => 0 | x :: r => Qred (x + Qsum r) end.

Definition meanq (l : list Q) : Q := Qred (Qsum l / inject_Z (Z.of_nat (length l))).

Definition covq (x y : list Q) : Q :=
  let mx := meanq x in
  let my := meanq y in
  Qsum (qmap2 (fun a b => Qred ((a - mx) * (b - my))) x y).

Definition varq (x : list Q) : Q := covq x x.

(* np.clip on rationals *)
Definition qmaxb (a b : Q) : Q := if Qle_bool a b then b else a.
Definition qminb (a b : Q) : Q := if Qle_bool a b then a else b.
Definition clipq (x lo hi : Q) : Q := qminb (qmaxb x lo) hi.

(* decides  c / sqrt P <= u   (P > 0)  using only + * and comparisons:
     u >= 0 : c <= 0  or  c^2 <= u^2 P
     u <  0 : c <  0  and u^2 P <= c^2                                         *)
Definition div_le (c P u : Q) : bool :=
  if Qle_bool 0 u
  then Qle_bool c 0 || Qle_bool (c * c) (u * u * P)
  else negb (Qle_bool 0 c) && Qle_bool (u * u * P) (c * c).

(* | corr_entry x y - r | <= tol ? *)
Definition check_entry (x y : list Q) (r tol : Q) : bool :=
  let vx := varq x in
  let vy := varq y in
  if Qeq_bool vx 0 || Qeq_bool vy 0
  then Qle_bool (- tol) r && Qle_bool r tol
  else
    let c := covq x y in
    let P := Qred (vx * vy) in
    div_le c P (r + tol) && div_le (- c) P (tol - r).

Definition entryq (M : list (list Q)) (i j : nat) : Q := nth j (nth i M []) 0.

(* the ridge term of _get_correlation at position (i,j) *)
Definition ridge_term (ill : bool) (eps : Q) (i j : nat) : Q :=
  if ill then (if Nat.eqb i j then eps else 0) else 0.

(* positions (i,j) where the matrix M (the implementation's floats, as rationals) is NOT within tol
   of  get_correlation ill eps cols ; [] = the whole matrix is certified *)
Definition bad_entries (cols : list (list Q)) (ill : bool) (eps : Q) (M : list (list Q)) (tol : Q)
  : list (nat * nat) :=
  let d := length cols in
  flat_map (fun i =>
    flat_map (fun j =>
      if check_entry (nth i cols []) (nth j cols []) (entryq M i j - ridge_term ill eps i j) tol
      then [] else [(i, j)]) (seq 0 d)) (seq 0 d).

Definition shape_ok (d : nat) (M : list (list Q)) : bool :=
  Nat.eqb (length M) d && forallb (fun r => Nat.eqb (length r) d) M.

(* exact symmetry of a rational matrix *)
Definition symmetric_q (M : list (list Q)) : bool :=
  let d := length M in
  forallb (fun i => forallb (fun j => Qeq_bool (entryq M i j) (entryq M j i)) (seq 0 d)) (seq 0 d).

(* elementwise equality of two tables (clip correspondence) *)
Fixpoint eq_rows (a b : list Q) : bool :=
  match a, b with
  | [], [] => true
  | x :: a', y :: b' => Qeq_bool x y && eq_rows a' b'
  | _, _ => false
  end.
Fixpoint eq_tables (a b : list (list Q)) : bool :=
  match a, b with
  | [], [] => true
  | x :: a', y :: b' => eq_rows x y && eq_tables a' b'
  | _, _ => false
  end.

(* labelled square frame: pd.DataFrame(data, index=idx, columns=hdr) *)
Record lframe (L V : Type) := mkLFrame { lf_index : list L; lf_columns : list L; lf_data : list (list V) }.
Arguments mkLFrame {L V}.
Arguments lf_index {L V}.
Arguments lf_columns {L V}.
Arguments lf_data {L V}.
