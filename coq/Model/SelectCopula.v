(* C11: control skeleton of copulas.bivariate.select_copula over Q.
   Executable, stdlib only, no Reals.   None : option Q  stands for a float NaN.

   Python being modelled (copulas/bivariate/__init__.py):

     COMPUTE_EMPIRICAL_STEPS = 50
     def _compute_empirical(X):
         z_left = []; z_right = []; L = []; R = []
         U, V = split_matrix(X)
         N = len(U)
         base = np.linspace(EPSILON, 1.0 - EPSILON, COMPUTE_EMPIRICAL_STEPS)
         for k in range(COMPUTE_EMPIRICAL_STEPS):
             left = sum(np.logical_and(U <= base[k], V <= base[k])) / N
             right = sum(np.logical_and(U >= base[k], V >= base[k])) / N
             if left > 0:
                 z_left.append(base[k])
                 L.append(left / base[k] ** 2)
             if right > 0:
                 z_right.append(base[k])
                 R.append(right / (1 - z_right[k]) ** 2)      # indexes z_right with k !
         return z_left, L, z_right, R

     def _compute_tail(c, z):
         return (1.0 - 2 * np.asarray(z) + c) / (np.power(1.0 - np.asarray(z), 2))

     def _compute_candidates(copulas, left_tail, right_tail):
         left = []; right = []
         X_left = np.column_stack((left_tail, left_tail))
         X_right = np.column_stack((right_tail, right_tail))
         for copula in copulas:
             left.append(copula.cumulative_distribution(X_left) / np.power(left_tail, 2))
             right.append(_compute_tail(copula.cumulative_distribution(X_right), right_tail))
         return left, right

     def select_copula(X):
         frank = Frank()
         frank.fit(X)
         if frank.tau <= 0:
             return frank
         copula_candidates = [frank]
         for copula_class in [Clayton, Gumbel]:
             try:
                 copula = copula_class()
                 copula.tau = frank.tau
                 copula._compute_theta()          # theta = compute_theta(); check_theta()
                 copula_candidates.append(copula)
             except ValueError:
                 pass
         left_tail, empirical_left_aut, right_tail, empirical_right_aut = _compute_empirical(X)
         candidate_left_auts, candidate_right_auts = _compute_candidates(
             copula_candidates, left_tail, right_tail)
         empirical_aut = np.concatenate((empirical_left_aut, empirical_right_aut))
         candidate_auts = [np.concatenate((left, right))
                           for left, right in zip(candidate_left_auts, candidate_right_auts)]
         diff_left = [np.sum((empirical_left_aut - left) ** 2) for left in candidate_left_auts]
         diff_right = [np.sum((empirical_right_aut - right) ** 2) for right in candidate_right_auts]
         diff_both = [np.sum((empirical_aut - candidate) ** 2) for candidate in candidate_auts]
         score_left = pd.Series(diff_left).rank(ascending=False)
         score_right = pd.Series(diff_right).rank(ascending=False)
         score_both = pd.Series(diff_both).rank(ascending=False)
         score = score_left + score_right + score_both
         selected_copula = np.argmax(score.to_numpy())
         return copula_candidates[selected_copula]

   Calibration (clayton.py / gumbel.py / base.py):
     Clayton.compute_theta: tau == 1 -> inf ; else 2*tau/(1-tau) ; theta_interval [0, inf]
     Gumbel.compute_theta : tau == 1 -> raise ValueError ; else 1/(1-tau) ; theta_interval [1, inf]
     check_theta: if (not lower <= theta <= upper) or theta in invalid_thetas: raise ValueError
*)
From Coq Require Import List Bool Arith QArith.
Import ListNotations.

Definition Qltb (x y : Q) : bool := negb (Qle_bool y x).

Inductive family := Frank | Clayton | Gumbel.
Inductive theta := Finite (q : Q) | PosInf.
Record copula := { fam : family; c_tau : Q; c_theta : theta }.

Inductive error :=
| FrankFitRaised        (* Frank().fit(X) raised (bad marginals, nan tau, theta check, TypeError ...) *)
| IndexError            (* z_right[k] out of range *)
| ZeroDivisionError     (* N = 0 *)
| ValueError_empty.     (* np.argmax of an empty sequence (unreachable) *)

Inductive result (A : Type) := Ok (a : A) | Err (e : error).
Arguments Ok {A} a.
Arguments Err {A} e.

(* ------------------------------------------------------------------ *)
(** * calibration of the extra candidates *)

(* lower <= theta <= +inf *)
Definition check_theta (lower : Q) (t : theta) : bool :=
  match t with Finite q => Qle_bool lower q | PosInf => true end.

(* None = ValueError raised inside the try-block *)
Definition clayton_theta (tau : Q) : option theta :=
  let t := if Qeq_bool tau 1 then PosInf else Finite (2 * tau / (1 - tau)) in
  if check_theta 0 t then Some t else None.

Definition gumbel_theta (tau : Q) : option theta :=
  if Qeq_bool tau 1 then None
  else let t := Finite (1 / (1 - tau)) in
       if check_theta 1 t then Some t else None.

Definition opt_candidate (f : family) (tau : Q) (t : option theta) : list copula :=
  match t with Some th => [ {| fam := f; c_tau := tau; c_theta := th |} ] | None => [] end.

(* copula_candidates, in the Python order Frank, Clayton, Gumbel *)
Definition candidates (tau : Q) (frank_theta : theta) : list copula :=
  {| fam := Frank; c_tau := tau; c_theta := frank_theta |}
    :: opt_candidate Clayton tau (clayton_theta tau)
    ++ opt_candidate Gumbel tau (gumbel_theta tau).

(* ------------------------------------------------------------------ *)
(** * _compute_empirical *)

Record emp := { z_left : list Q; L : list Q; z_right : list Q; R : list Q }.

Section Empirical.
  Variable UV : list (Q * Q).          (* the rows of X *)

  Definition count_le (b : Q) : nat :=
    length (filter (fun uv => Qle_bool (fst uv) b && Qle_bool (snd uv) b) UV).
  Definition count_ge (b : Q) : nat :=
    length (filter (fun uv => Qle_bool b (fst uv) && Qle_bool b (snd uv)) UV).

  Definition N : nat := length UV.
  Definition frac (c : nat) : Q := inject_Z (Z.of_nat c) / inject_Z (Z.of_nat N).

  Definition left_of (b : Q) : Q := frac (count_le b).
  Definition right_of (b : Q) : Q := frac (count_ge b).

  Definition emp_step (k : nat) (b : Q) (st : emp) : result emp :=
    let left := left_of b in
    let right := right_of b in
    let st1 :=
        if Qltb 0 left
        then {| z_left := z_left st ++ [b]; L := L st ++ [left / (b * b)];
                z_right := z_right st; R := R st |}
        else st in
    if Qltb 0 right then
      let zr := z_right st1 ++ [b] in
      match nth_error zr k with                      (* z_right[k] *)
      | Some z => Ok {| z_left := z_left st1; L := L st1;
                        z_right := zr; R := R st1 ++ [right / ((1 - z) * (1 - z))] |}
      | None => Err IndexError
      end
    else Ok st1.

  Fixpoint emp_loop (base : list Q) (k : nat) (st : emp) : result emp :=
    match base with
    | [] => Ok st
    | b :: tl =>
        match emp_step k b st with
        | Ok st' => emp_loop tl (S k) st'
        | Err e => Err e
        end
    end.

  Definition compute_empirical (base : list Q) : result emp :=
    match UV with
    | [] => match base with [] => Ok {| z_left := []; L := []; z_right := []; R := [] |}
                          | _ => Err ZeroDivisionError end
    | _ => emp_loop base 0 {| z_left := []; L := []; z_right := []; R := [] |}
    end.
End Empirical.

(* ------------------------------------------------------------------ *)
(** * _compute_candidates, L2 distances, ranks, argmax *)

Definition oadd (a b : option Q) : option Q :=
  match a, b with Some x, Some y => Some (x + y) | _, _ => None end.

Section Scores.
  (* copula.cumulative_distribution at the diagonal point (z, z); None = nan *)
  Variable cdf : copula -> Q -> option Q.

  Definition cand_left (c : copula) (left_tail : list Q) : list (option Q) :=
    map (fun z => match cdf c z with Some v => Some (v / (z * z)) | None => None end) left_tail.

  Definition compute_tail (cv : option Q) (z : Q) : option Q :=
    match cv with Some v => Some ((1 - 2 * z + v) / ((1 - z) * (1 - z))) | None => None end.

  Definition cand_right (c : copula) (right_tail : list Q) : list (option Q) :=
    map (fun z => compute_tail (cdf c z) z) right_tail.

  (* np.sum((empirical - candidate) ** 2); both have the same length by construction *)
  Fixpoint sq_dist (e : list Q) (c : list (option Q)) : option Q :=
    match e, c with
    | x :: e', Some y :: c' => oadd (Some ((x - y) * (x - y))) (sq_dist e' c')
    | _ :: _, None :: _ => None
    | _, _ => Some 0
    end.

  (* pd.Series(d).rank(ascending=False): method='average', nan stays nan and is not counted *)
  Definition count_gt (x : Q) (d : list (option Q)) : nat :=
    length (filter (fun o => match o with Some y => Qltb x y | None => false end) d).
  Definition count_eq (x : Q) (d : list (option Q)) : nat :=
    length (filter (fun o => match o with Some y => Qeq_bool x y | None => false end) d).
  Definition rank_desc (d : list (option Q)) : list (option Q) :=
    map (fun o => match o with
                  | Some x => Some (inject_Z (Z.of_nat (count_gt x d))
                                    + (inject_Z (Z.of_nat (count_eq x d)) + 1) / 2)
                  | None => None
                  end) d.

  Fixpoint add3 (a b c : list (option Q)) : list (option Q) :=
    match a, b, c with
    | x :: a', y :: b', z :: c' => oadd (oadd x y) z :: add3 a' b' c'
    | _, _, _ => []
    end.

  (* np.argmax: the first nan if there is one, otherwise the first maximum *)
  Fixpoint first_nan (l : list (option Q)) (i : nat) : option nat :=
    match l with
    | [] => None
    | None :: _ => Some i
    | Some _ :: tl => first_nan tl (S i)
    end.

  Fixpoint argmax_from (l : list (option Q)) (i best_i : nat) (best : Q) : nat :=
    match l with
    | [] => best_i
    | Some x :: tl => if Qltb best x then argmax_from tl (S i) i x
                      else argmax_from tl (S i) best_i best
    | None :: tl => argmax_from tl (S i) best_i best       (* not reached: no nan here *)
    end.

  Definition np_argmax (l : list (option Q)) : option nat :=
    match first_nan l 0 with
    | Some i => Some i
    | None => match l with
              | Some x :: tl => Some (argmax_from tl 1 0 x)
              | _ => None
              end
    end.

  Definition scores (cands : list copula) (e : emp) : list (option Q) :=
    let lefts := map (fun c => cand_left c (z_left e)) cands in
    let rights := map (fun c => cand_right c (z_right e)) cands in
    let diff_left := map (sq_dist (L e)) lefts in
    let diff_right := map (sq_dist (R e)) rights in
    let diff_both := map (fun lr => sq_dist (L e ++ R e) (fst lr ++ snd lr)) (combine lefts rights) in
    add3 (rank_desc diff_left) (rank_desc diff_right) (rank_desc diff_both).

  (* frank_fit = the outcome of Frank().fit(X): Some (tau, theta) or None if it raised *)
  Definition select_copula (frank_fit : option (Q * theta)) (UV : list (Q * Q)) (base : list Q)
    : result copula :=
    match frank_fit with
    | None => Err FrankFitRaised
    | Some (tau, th) =>
        if Qle_bool tau 0 then Ok {| fam := Frank; c_tau := tau; c_theta := th |}
        else
          let cands := candidates tau th in
          match compute_empirical UV base with
          | Err e => Err e
          | Ok e =>
              match np_argmax (scores cands e) with
              | None => Err ValueError_empty
              | Some i => match nth_error cands i with
                          | Some c => Ok c
                          | None => Err IndexError
                          end
              end
          end
    end.
End Scores.

(* ------------------------------------------------------------------ *)
(** * evaluation *)
Definition demo_base : list Q := [1#10; 3#10; 5#10; 7#10; 9#10].
Definition demo_UV : list (Q * Q) := [(1#10, 2#10); (3#10, 1#10); (5#10, 7#10); (9#10, 8#10)].
Eval vm_compute in compute_empirical demo_UV demo_base.
Eval vm_compute in candidates (1#2) (Finite 5).
Eval vm_compute in candidates 1 (Finite 5).
Eval vm_compute in np_argmax [Some 3; Some 5; Some 5; Some 1].
Eval vm_compute in np_argmax [Some 3; None; Some 5].
Eval vm_compute in rank_desc [Some 1; None; Some 1; Some (1#2)].
(* independence copula u*v for Frank, min for Clayton, a third for Gumbel: *)
Definition demo_cdf (c : copula) (z : Q) : option Q :=
  match fam c with
  | Frank => Some (z * z)
  | Clayton => Some z
  | Gumbel => Some (z * z * (3#2) - z * z * z * (1#2))
  end.
Eval vm_compute in select_copula demo_cdf (Some (1#2, Finite 5)) demo_UV demo_base.
Eval vm_compute in select_copula demo_cdf (Some (-1#2, Finite (-5))) demo_UV demo_base.

(* the grid actually used by the library: np.linspace(EPSILON, 1 - EPSILON, 50) with
   EPSILON = np.finfo(np.float32).eps = 2^-23 (exact rationals; numpy rounds each
   point to binary64, which does not change their order) *)
Definition EPSILON : Q := 1 # 8388608.
Definition linspace (a b : Q) (n : nat) : list Q :=
  map (fun k => a + inject_Z (Z.of_nat k) * ((b - a) / inject_Z (Z.of_nat (n - 1)))) (seq 0 n).
Definition library_base : list Q := linspace EPSILON (1 - EPSILON) 50.
Eval vm_compute in (length library_base, hd 0 library_base, Qred (last library_base 0)).
