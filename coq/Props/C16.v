(* C16 — a fitted vine is a regular vine of the requested type and depth.

   Model: coq/Model/Vine.v (hand-written executable transcription of copulas/multivariate/tree.py and
   VineCopula.train_vine; structure only: the tau matrices of all levels, numpy's argsort tie-breaking
   [tie], Python's set-iteration order [order] and the head of CPython's sort [sel = pick_py] are
   inputs).  The theorems below are restated in full from coq/Spec/Vine*.v and closed by [exact]; they
   hold for EVERY sequence of tau matrices (NaN and ties included), every permutation [order], and every
   tie-breaking that sorts row 0 last ([good_sort]; the stable sort always does).

   The model is tied to the current source on every run by tools/vf/props/C16.py (vm_compute replay of
   the real Tree classes and of VineCopula.fit with the recorded tau matrices / argsort / set orders, and
   the proved-sound validator [valid_vine] run on the implementation's own output).  In addition the small pure
   "edge kernel" of tree.py (_check_constraint, _identify_eds_ing, is_adjacent, sort_edge, get_child_edge,
   _get_constraints) is GENERATED from the Python AST on every run (tools/vf/vinegen.py -> Gen_vinekernel.v, denotations
   in coq/Lib/PySet.v) and PROVED equal to the hand-written definitions for all inputs ([C16_bridge_*] at the end).

   Regular vines are proved at EVERY level and truncation ([C16_regular_vine_all_levels]: the construction
   always returns a RegularVine, the escape branch is never taken [C16_regular_escape_never],
   _check_constraint IS the proximity condition [C16_regular_constraint_iff_proximity], no pair of variables
   is conditioned twice [C16_regular_pairs_distinct]); the first tree is a MAXIMUM spanning tree of the
   |tau| graph for NaN-free symmetric tau [C16_regular_first_is_mst] (counting argument: k distinct edges of
   a forest touch >= k+1 nodes, coq/Spec/VineRegular4..6.v, VineMST.v).
   What is NOT claimed:
   - the k-th tree (k >= 2) of a regular vine is NOT claimed to be a maximum spanning tree (tree.py fills
     tau[i, j] with the tau of edge i alone, and only for is_adjacent pairs: finding F8). *)
From Coq Require Import List Arith ZArith QArith Lia Bool Permutation.
From Cop Require Import Lib.FinGraph Model.Vine Model.BivCtl Spec.VineDefs Spec.VineSets
     Spec.VineSort Spec.VineCenter Spec.VineDirect Spec.VineRegular
     Spec.VinePySort Spec.VineValid Spec.VineRegular2 Spec.VinePairs Spec.VineRegular3 Spec.VineProofs
     Spec.VineMST Spec.VineRegular4 Spec.VineRegular5 Spec.VineRegular6 Lib.PySet.
From CopRun Require Import Gen_bivq.
From CopRun Require Import Gen_vinekernel.
Import ListNotations.
Open Scope nat_scope.

(* ================= depth, edge counts, full C-vine / D-vine statements ================= *)
Theorem C16_center_vine_ok :
  forall (tie : tie_t) (sel : sel_t) (d t : nat) (taus : nat -> tmat) (order : order_t),
  d >= 2 ->
  (forall j : nat, j < d - 1 -> good_sort tie (d - j) (taus j)) ->
  exists (T1 : list edge) (ts : list (list edge)),
    train_vine_gen_opt tie sel Center d t taus order = Some (T1 :: ts) /\
    length (T1 :: ts) = Nat.max 1 (Nat.min (d - 1) t) /\
    (forall (k : nat) (T : list edge), nth_error (T1 :: ts) k = Some T -> length T = d - 1 - k) /\
    T1 = center_first_gen tie d (taus 0) /\
    is_star 0 d (graph1 T1) /\
    (forall e : edge, In e T1 -> e_D e = nil /\ e_par e = None /\ e_L e < e_R e < d) /\
    chain center_step 1 T1 ts /\
    (exists (K : list nat) (x : nat -> nat), CinvK 0 K x T1 /\ cchain K x ts).
Proof. exact center_vine_ok. Qed.

Theorem C16_direct_vine_ok :
  forall (tie : tie_t) (sel : sel_t) (d t : nat) (taus : nat -> tmat) (order : order_t),
  d >= 2 ->
  good_sort tie d (taus 0) ->
  tau_ok d (taus 0) ->
  exists (T1 : list edge) (ts : list (list edge)),
    train_vine_gen_opt tie sel Direct d t taus order = Some (T1 :: ts) /\
    length (T1 :: ts) = Nat.max 1 (Nat.min (d - 1) t) /\
    (forall (k : nat) (T : list edge), nth_error (T1 :: ts) k = Some T -> length T = d - 1 - k) /\
    T1 = direct_first_gen tie d (taus 0) /\
    is_path d (graph1 T1) /\
    (forall e : edge, In e T1 -> e_D e = nil /\ e_par e = None /\ e_L e < e_R e < d) /\
    chain direct_step 1 T1 ts /\
    (exists W : list nat,
       NoDup W /\ (forall (i : nat) (T : list edge), nth_error (T1 :: ts) i = Some T -> dends W i T)).
Proof. exact direct_vine_ok. Qed.

(* the statement of the property for C- and D-vines, as the record Spec.VineValid.RegularVine
   (number of trees, edge counts, first tree star/path on the variables, every later tree star/path on
   the edges of the previous one, proximity, D = U_a ∩ U_b, {L,R} = U_a △ U_b, |D| = k, no pair twice) *)
Theorem C16_center_vine_regular :
  forall (tie : tie_t) (sel : sel_t) (d t : nat) (taus : nat -> tmat) (order : order_t),
  d >= 2 ->
  (forall j : nat, j < d - 1 -> good_sort tie (d - j) (taus j)) ->
  exists v : list (list edge),
    train_vine_gen_opt tie sel Center d t taus order = Some v /\ RegularVine Center d t v.
Proof. exact center_vine_regular. Qed.

Theorem C16_direct_vine_regular :
  forall (tie : tie_t) (sel : sel_t) (d t : nat) (taus : nat -> tmat) (order : order_t),
  d >= 2 ->
  good_sort tie d (taus 0) ->
  tau_ok d (taus 0) ->
  exists v : list (list edge),
    train_vine_gen_opt tie sel Direct d t taus order = Some v /\ RegularVine Direct d t v.
Proof. exact direct_vine_regular. Qed.

(* stable argsort: no hypothesis on the tau matrices of a C-vine at all *)
Theorem C16_center_vine_regular_stable :
  forall (d t : nat) (taus : nat -> tmat) (order : order_t),
  d >= 2 ->
  exists v : list (list edge), train_vine_opt Center d t taus order = Some v /\ RegularVine Center d t v.
Proof. exact center_vine_regular_stable. Qed.

Theorem C16_direct_vine_regular_stable :
  forall (d t : nat) (taus : nat -> tmat) (order : order_t),
  d >= 2 ->
  tau_ok d (taus 0) ->
  exists v : list (list edge), train_vine_opt Direct d t taus order = Some v /\ RegularVine Direct d t v.
Proof. exact direct_vine_regular_stable. Qed.

(* depth alone, for the three types (d >= 2, any t -- t = 0 still gives one tree) *)
Theorem C16_depth_center :
  forall tie sel d t taus order, d >= 2 ->
  (forall j : nat, j < d - 1 -> good_sort tie (d - j) (taus j)) ->
  exists v, train_vine_gen_opt tie sel Center d t taus order = Some v /\
            length v = Nat.max 1 (Nat.min (d - 1) t) /\
            (forall k T, nth_error v k = Some T -> length T = d - 1 - k).
Proof.
  intros tie sel d t taus order Hd Hg.
  destruct (center_vine_ok tie sel d t taus order Hd Hg) as (T1 & ts & H1 & H2 & H3 & _).
  exists (T1 :: ts). auto.
Qed.

Theorem C16_depth_direct :
  forall tie sel d t taus order, d >= 2 -> good_sort tie d (taus 0) -> tau_ok d (taus 0) ->
  exists v, train_vine_gen_opt tie sel Direct d t taus order = Some v /\
            length v = Nat.max 1 (Nat.min (d - 1) t) /\
            (forall k T, nth_error v k = Some T -> length T = d - 1 - k).
Proof.
  intros tie sel d t taus order Hd Hg Hok.
  destruct (direct_vine_ok tie sel d t taus order Hd Hg Hok) as (T1 & ts & H1 & H2 & H3 & _).
  exists (T1 :: ts). auto.
Qed.

(* ================= first trees ================= *)
Theorem C16_center_first_star :
  forall (n : nat) (tau : tmat),
  n >= 2 ->
  let T := center_first n tau in
  length T = n - 1 /\
  (forall (i : nat) (e : edge),
   nth_error T i = Some e -> e_idx e = i /\ e_L e = 0 /\ e_D e = nil /\ e_par e = None) /\
  Permutation (map e_R T) (seq 1 (n - 1)) /\ is_star 0 n (graph1 T) /\ is_tree n (graph1 T).
Proof. exact center_first_star. Qed.

Theorem C16_center_first_star_gen :
  forall (tie : tie_t) (n : nat) (tau : tmat),
  n >= 1 ->
  good_sort tie n tau ->
  let T := center_first_gen tie n tau in
  length T = n - 1 /\
  (forall (i : nat) (e : edge),
   nth_error T i = Some e -> e_idx e = i /\ e_L e = 0 /\ e_D e = nil /\ e_par e = None) /\
  Permutation (map e_R T) (seq 1 (n - 1)) /\ is_star 0 n (graph1 T).
Proof. exact center_first_star_gen. Qed.

(* Hamiltonian path, under the hypothesis that no off-diagonal tau is <= -10 (true of any Kendall tau) *)
Theorem C16_direct_first_path :
  forall (n : nat) (tau : tmat),
  n >= 2 ->
  tau_ok n tau ->
  let T := direct_first n tau in length T = n - 1 /\ is_path n (graph1 T) /\ is_tree n (graph1 T).
Proof. exact direct_first_path. Qed.

Theorem C16_direct_first_path_gen :
  forall (tie : tie_t) (n : nat) (tau : tmat),
  n >= 2 ->
  good_sort tie n tau ->
  tau_ok n tau ->
  let T := direct_first_gen tie n tau in
  let W := direct_nodes tie n tau in
  Permutation W (seq 0 n) /\
  length T = n - 1 /\
  (forall (k : nat) (e : edge), nth_error T k = Some e -> direct_edge_spec W k e) /\
  is_path n (graph1 T).
Proof. exact direct_first_path_gen. Qed.

(* spanning tree for every tau (NaN, ties), every set order, Python's own sort *)
Theorem C16_regular_first_spanning :
  forall (n : nat) (tau : tmat) (order : list (nat * nat) -> list (nat * nat)),
  perm_fun order ->
  n >= 1 ->
  let T := regular_first n tau order in
  length T = n - 1 /\
  idx_ok T /\
  (forall e : edge, In e T -> e_D e = nil /\ e_par e = None /\ e_L e < e_R e < n) /\
  is_tree n (graph1 T).
Proof. exact regular_first_spanning_py. Qed.

(* cut property (Prim): every chosen edge is a maximum-|tau| edge crossing the current cut, hence the
   first tree is a maximum spanning tree of the |tau| graph (tau without NaN) *)
Theorem C16_regular_first_greedy :
  forall (n : nat) (tau : tmat) (order : list (nat * nat) -> list (nat * nat)),
  perm_fun order ->
  n >= 1 ->
  tau_nonan n tau ->
  let tr := fst (fst (regular_first_run pick_py n tau order)) in
  forall p i x k : nat,
  nth_error tr p = Some (i, x, k) ->
  let V := 0 :: map thd (firstn p tr) in
  In x V /\
  ~ In k V /\
  k < n /\
  (forall x' k' : nat, In x' V -> k' < n -> ~ In k' V -> abs_le (tget tau x' k') (tget tau x k)).
Proof. exact regular_first_greedy_py. Qed.

Theorem C16_regular_first_pairs_distinct :
  forall (n : nat) (tau : tmat) (order : list (nat * nat) -> list (nat * nat)),
  perm_fun order -> n >= 1 ->
  NoDup (map (fun e : edge => (e_L e, e_R e)) (regular_first n tau order)).
Proof.
  intros n tau order Ho Hn.
  exact (regular_first_pairs_distinct pick_py n tau order pick_py_sel_in pick_py_sel_some Ho Hn).
Qed.

(* ================= k-th trees ================= *)
Theorem C16_center_kth_star :
  forall (tie : tie_t) (n : nat) (tau : tmat) (prev : list edge) (k : nat),
  n = length prev ->
  n >= 1 ->
  good_sort tie n tau ->
  Cinv k prev ->
  exists T : list edge,
    center_kth_opt_gen tie n tau prev = Some T /\ center_step (S k) prev T /\ Cinv (S k) T.
Proof. exact center_kth_star. Qed.

Theorem C16_direct_kth_path :
  forall (n : nat) (prev : list edge) (W : list nat) (idx : nat),
  n = length prev ->
  n >= 1 ->
  Dinv W idx prev ->
  exists T : list edge, direct_kth_opt n prev = Some T /\ direct_step (S idx) prev T /\ Dinv W (S idx) T.
Proof. exact direct_kth_path. Qed.

(* progress: if the constraint graph of the previous tree is connected, the `adj_set = {}` escape branch
   is never taken, the loop ends within n-1 rounds, and the result is a spanning tree of that graph *)
Theorem C16_regular_kth_progress :
  forall (level n : nat) (tau : tmat) (prev : list edge) (order : list (nat * nat) -> list (nat * nat)),
  perm_fun order ->
  n = length prev ->
  n >= 1 ->
  Uinv level prev ->
  connected n (okgraph n (ok_kth level prev)) ->
  snd (regular_kth_run pick_py (n - 1) level n tau prev order) = Done /\
  (exists T : list edge,
     regular_kth_opt level n tau prev order = Some T /\
     length T = n - 1 /\
     idx_ok T /\
     is_tree n (par_graph T) /\
     (forall a b : nat, In (a, b) (par_graph T) -> adj (okgraph n (ok_kth level prev)) a b) /\
     (forall c : edge, In c T -> child_ok prev c /\ length (e_D c) = level - 1) /\ Uinv (level + 1) T).
Proof. exact regular_kth_progress_py. Qed.

(* whatever RegularTree._build_kth_tree returns is a spanning tree of the constraint graph *)
Theorem C16_regular_kth_sound :
  forall (sel : sel_t) (level n : nat) (tau : tmat) (prev : list edge)
    (order : list (nat * nat) -> list (nat * nat)) (T : list edge),
  sel_in sel ->
  perm_fun order ->
  n = length prev ->
  n >= 1 ->
  regular_kth_opt_gen sel level n tau prev order = Some T ->
  length T = n - 1 /\
  idx_ok T /\
  is_tree n (par_graph T) /\
  (forall a b : nat, In (a, b) (par_graph T) -> adj (okgraph n (ok_kth level prev)) a b) /\
  (forall c : edge,
   In c T ->
   exists (i j : nat) (a b : edge),
     e_par c = Some (i, j) /\
     i <> j /\
     nth_error prev i = Some a /\
     nth_error prev j = Some b /\
     get_child_edge (e_idx c) (i, a) (j, b) = Some c /\ check_constraint level a b = true).
Proof. exact regular_kth_sound. Qed.

Theorem C16_regular_vine_sound :
  forall (tie : tie_t) (sel : sel_t) (d t : nat) (taus : nat -> tmat)
    (order : list (nat * nat) -> list (nat * nat)) (v : list (list edge)),
  sel_in sel ->
  sel_some sel ->
  perm_fun order ->
  d >= 2 ->
  train_vine_gen_opt tie sel Regular d t taus order = Some v ->
  length v = Nat.max 1 (Nat.min (d - 1) t) /\
  (forall (k : nat) (T : list edge), nth_error v k = Some T -> length T = d - 1 - k) /\
  (exists (T1 : list edge) (ts : list (list edge)),
     v = T1 :: ts /\
     T1 = regular_first_gen sel d (taus 0) order /\
     is_tree d (graph1 T1) /\ (forall e : edge, In e T1 -> edge1_ok d e) /\ chain regular_step 1 T1 ts).
Proof. exact regular_vine_sound. Qed.

(* Python's default truncated = 3 (and every truncation <= 3, every d): the construction always returns,
   and all clauses of the property except "no pair twice" hold, for every tau sequence and set order *)
Theorem C16_regular_vine_three :
  forall (d t : nat) (taus : nat -> tmat) (order : list (nat * nat) -> list (nat * nat)),
  perm_fun order ->
  d >= 2 ->
  Nat.min (d - 1) t <= 3 ->
  exists v : list (list edge), train_vine_opt Regular d t taus order = Some v /\ VineCore Regular d t v.
Proof. exact regular_vine_core_three. Qed.

Theorem C16_regular_second_tree :
  forall (n : nat) (tau1 tau2 : tmat) (order : list (nat * nat) -> list (nat * nat)),
  perm_fun order ->
  n >= 2 ->
  let T1 := regular_first n tau1 order in
  snd (regular_kth_run pick_py (n - 2) 2 (n - 1) tau2 T1 order) = Done /\
  (exists T2 : list edge,
     regular_kth_opt 2 (n - 1) tau2 T1 order = Some T2 /\
     length T2 = n - 2 /\
     idx_ok T2 /\
     is_tree (n - 1) (par_graph T2) /\ (forall c : edge, In c T2 -> child_edge_ok 0 T1 c) /\ Uinv 3 T2).
Proof. exact regular_second_tree_ok. Qed.

Theorem C16_regular_third_tree :
  forall (n : nat) (tau1 tau2 tau3 : tmat) (order : list (nat * nat) -> list (nat * nat)),
  perm_fun order ->
  n >= 3 ->
  let T1 := regular_first n tau1 order in
  exists T2 T3 : list edge,
    regular_kth_opt 2 (n - 1) tau2 T1 order = Some T2 /\
    regular_kth_opt 3 (n - 2) tau3 T2 order = Some T3 /\
    snd (regular_kth_run pick_py (n - 3) 3 (n - 2) tau3 T2 order) = Done /\
    length T2 = n - 2 /\
    length T3 = n - 3 /\
    idx_ok T3 /\
    is_tree (n - 2) (par_graph T3) /\ (forall c : edge, In c T3 -> child_edge_ok 1 T2 c) /\ Uinv 4 T3.
Proof. exact regular_third_tree_ok. Qed.


(* ================= regular vines at EVERY level (no bound on d, on the truncation, on the tau matrices) ============ *)
Theorem C16_regular_vine_all_levels :
  forall (d t : nat) (taus : nat -> tmat) (order : list (nat * nat) -> list (nat * nat)),
  perm_fun order ->
  d >= 2 ->
  exists v : list (list edge),
    train_vine_opt Regular d t taus order = Some v /\
    train_vine Regular d t taus order = v /\ RegularVine Regular d t v.
Proof. exact regular_vine_regular_all_levels. Qed.

Theorem C16_regular_vine_all_levels_gen :
  forall (tie : tie_t) (sel : sel_t) (d t : nat) (taus : nat -> tmat) (order : list (nat * nat) -> list (nat * nat)),
  sel_in sel -> sel_some sel -> perm_fun order -> d >= 2 ->
  exists v : list (list edge), train_vine_gen_opt tie sel Regular d t taus order = Some v /\ RegularVine Regular d t v.
Proof. exact regular_vine_regular_gen. Qed.

(* the "no admissible edge" escape branch of _build_kth_tree is dead code for vines built by train_vine *)
Theorem C16_regular_escape_never :
  forall (d t : nat) (taus : nat -> tmat) (order : list (nat * nat) -> list (nat * nat))
         (k : nat) (Tp T : list edge) (v : list (list edge)),
  perm_fun order -> d >= 2 -> train_vine_opt Regular d t taus order = Some v ->
  nth_error v k = Some Tp -> nth_error v (S k) = Some T ->
  snd (regular_kth_run pick_py (length Tp - 1) (k + 2) (length Tp) (taus (S k)) Tp order) = Done.
Proof. exact regular_escape_never. Qed.

(* Tree._check_constraint decides exactly the proximity condition, at every level of a fitted regular vine *)
Theorem C16_regular_constraint_iff_proximity :
  forall (d t : nat) (taus : nat -> tmat) (order : list (nat * nat) -> list (nat * nat))
         (v : list (list edge)) (k : nat) (T : list edge) (s s' : nat) (a b : edge),
  perm_fun order -> d >= 2 -> train_vine_opt Regular d t taus order = Some v ->
  nth_error v k = Some T -> nth_error T s = Some a -> nth_error T s' = Some b -> s <> s' ->
  (check_constraint (k + 2) a b = true <-> share_node k a b).
Proof. exact regular_constraint_iff_proximity. Qed.

Theorem C16_regular_pairs_distinct :
  forall (d t : nat) (taus : nat -> tmat) (order : list (nat * nat) -> list (nat * nat)),
  perm_fun order -> d >= 2 ->
  exists v : list (list edge),
    train_vine_opt Regular d t taus order = Some v /\
    NoDup (map (fun e => (e_L e, e_R e)) (concat v)).
Proof. exact regular_pairs_distinct. Qed.

(* Prim's algorithm on |tau|: the first tree has maximal total |tau| among ALL spanning trees *)
Theorem C16_regular_first_is_mst :
  forall (n : nat) (tau : tmat) (order : list (nat * nat) -> list (nat * nat)),
  perm_fun order -> n >= 1 -> tau_nonan n tau -> tau_sym n tau ->
  spanning_tree n (graph1 (regular_first n tau order)) /\
  forall g : graph, spanning_tree n g ->
    (tau_weight tau g <= tau_weight tau (graph1 (regular_first n tau order)))%Q.
Proof. exact regular_first_is_mst_py. Qed.

(* ================= child edges: conditioned / conditioning sets ================= *)
Theorem C16_child_sets :
  forall (idx : nat) (lp rp : nat * edge) (c : edge),
  get_child_edge idx lp rp = Some c ->
  e_idx c = idx /\
  e_par c = Some (fst lp, fst rp) /\
  e_L c < e_R c /\
  set_symdiff (U (snd lp)) (U (snd rp)) = e_L c :: e_R c :: nil /\
  (forall v : nat,
   v = e_L c \/ v = e_R c <->
   In v (U (snd lp)) /\ ~ In v (U (snd rp)) \/ ~ In v (U (snd lp)) /\ In v (U (snd rp))) /\
  e_D c = set_inter (U (snd lp)) (U (snd rp)) /\
  (forall v : nat, In v (e_D c) <-> In v (U (snd lp)) /\ In v (U (snd rp))) /\
  incr (e_D c) /\ ~ In (e_L c) (e_D c) /\ ~ In (e_R c) (e_D c).
Proof. exact child_sets. Qed.

(* ================= _check_constraint versus proximity ================= *)
Theorem C16_constraint_of_proximity :
  forall (level : nat) (a b : edge) (M : list nat),
  NoDup M ->
  NoDup (U a) ->
  NoDup (U b) ->
  length (U a) = level ->
  length (U b) = level ->
  level = S (length M) ->
  incl M (U a) ->
  incl M (U b) -> ~ (forall v : nat, In v (U a) <-> In v (U b)) -> check_constraint level a b = true.
Proof. exact constraint_of_proximity. Qed.

Theorem C16_constraint_is_proximity_level2 :
  forall a b : edge,
  edge1_plain a ->
  edge1_plain b -> check_constraint 2 a b = true <-> share_first a b /\ (e_L a, e_R a) <> (e_L b, e_R b).
Proof. exact constraint_is_proximity_level2. Qed.

Theorem C16_constraint_is_proximity_level3 :
  forall (n : nat) (tau1 tau2 : tmat) (order : order_t),
  perm_fun order ->
  n >= 2 ->
  forall T2 : list edge,
  regular_kth_opt 2 (n - 1) tau2 (regular_first n tau1 order) order = Some T2 ->
  forall (s s' : nat) (c c' : edge),
  s <> s' ->
  nth_error T2 s = Some c ->
  nth_error T2 s' = Some c' -> check_constraint 3 c c' = true -> share_par c c'.
Proof. exact constraint_is_proximity_level3. Qed.

(* ================= no pair conditioned twice (C- and D-vines; first tree of an R-vine above) ========= *)
Theorem C16_center_pairs_distinct :
  forall (ts : list (list edge)) (K : list nat) (x : nat -> nat) (T : list edge),
  cinv K x T -> cends K x T -> K <> nil -> cchain K x ts -> NoDup (map LR (concat (T :: ts))).
Proof. exact center_pairs_distinct. Qed.

Theorem C16_direct_pairs_distinct :
  forall (W : list nat) (v : list (list edge)),
  NoDup W ->
  (forall (i : nat) (T : list edge), nth_error v i = Some T -> dends W i T) -> NoDup (map LR (concat v)).
Proof. exact direct_pairs_distinct. Qed.

(* ================= the executable validator run on the implementation's output ================= *)
Theorem C16_valid_vine_sound :
  forall (ty : vine_type) (d t : nat) (v : list (list edge)),
  valid_vine ty d t v = true -> RegularVine ty d t v.
Proof. exact valid_vine_sound. Qed.

(* what the per-run check concludes for one fitted vine: if the structure read off the implementation
   is accepted by the validator it satisfies every structural clause of the property *)
Corollary C16_run_conclusion :
  forall ty d t v, valid_vine ty d t v = true ->
  length v = Nat.max 1 (Nat.min (d - 1) t) /\
  (forall k T, nth_error v k = Some T -> length T = d - 1 - k) /\
  (forall T, nth_error v 0 = Some T ->
     (forall e, In e T -> edge1_ok d e) /\ tree_shape ty d (graph1 T)) /\
  (forall k Tp T, nth_error v k = Some Tp -> nth_error v (S k) = Some T ->
     (forall c, In c T -> child_edge_ok k Tp c) /\ tree_shape ty (length Tp) (par_graph T)) /\
  NoDup (map (fun e => (e_L e, e_R e)) (concat v)).
Proof.
  intros ty d t v H. destruct (valid_vine_sound ty d t v H) as [H1 H2 H3 H4 H5]. auto.
Qed.

(* ================= limits and refutations found by the model ================= *)
(* a tau <= -10 (not a Kendall tau) breaks the D-vine path: np.argmax returns a used column *)
Theorem C16_direct_first_refuted :
  direct_T1 4 tau_m10 = 3 :: 0 :: 2 :: 0 :: nil /\
  map (fun e : edge => (e_L e, e_R e)) (direct_first 4 tau_m10) = (0, 3) :: (0, 2) :: (0, 2) :: nil.
Proof. exact direct_first_refuted. Qed.

(* the `adj_set = {}` escape branch never makes progress: the Python loop would spin forever *)
Theorem C16_escape_diverges :
  forall (sel : (nat * nat -> option Q) -> list (nat * nat) -> option (nat * nat))
    (level n : nat) (tau : tmat) (prev : list edge) (order : list (nat * nat) -> list (nat * nat))
    (fuel : nat) (V : list nat) (u : nat) (unv : list nat),
  In u V ->
  length V <> n ->
  sel (neg_tau tau) (order (cands n (ok_kth level prev) V)) = None ->
  prim_loop sel fuel n (ok_kth level prev) (neg_tau tau) order true V (u :: unv) = (nil, V, OutOfFuel).
Proof. exact escape_diverges. Qed.

Theorem C16_regular_kth_spins :
  forall fuel : nat,
  regular_kth_run pick_py fuel 2 2 ((None :: None :: nil) :: (None :: None :: nil) :: nil)
    ({| e_idx := 0; e_L := 0; e_R := 1; e_D := nil; e_par := None |}
     :: {| e_idx := 1; e_L := 2; e_R := 3; e_D := nil; e_par := None |} :: nil) id_order =
  (nil, 0 :: nil, OutOfFuel).
Proof. exact regular_kth_spins. Qed.

(* with a NaN in the matrix `sorted(adj_set, key=...)[0]` is not the maximum-|tau| candidate *)
Theorem C16_regular_first_nan_not_greedy :
  map (fun e : edge => (e_L e, e_R e)) (regular_first 4 tau_nan_greedy id_order) =
  (0, 1) :: (0, 2) :: (0, 3) :: nil.
Proof. exact regular_first_nan_not_greedy. Qed.

(* an unstable argsort that puts row 0 before a NaN row (same key -10) gives a self-loop, not a star *)
Theorem C16_center_first_unstable_refuted :
  perm_fun (tie_of ((1 :: 0 :: 2 :: nil) :: nil)) /\
  map (fun e : edge => (e_L e, e_R e))
    (center_first_gen (tie_of ((1 :: 0 :: 2 :: nil) :: nil)) 3 tau_nan3) = (0, 2) :: (0, 0) :: nil.
Proof. exact center_first_unstable_refuted. Qed.

(* ================= admissible theta: the generated domains (copulas/bivariate/*.py) ================= *)
Theorem C16_theta_admissible_clayton (q : Q) :
  check_theta clayton_dom (Fin q) = true <-> (0 <= q)%Q.
Proof.
  unfold check_theta, clayton_dom. cbn [d_lo d_hi d_invalid ext_le existsb negb].
  rewrite !andb_true_r. apply Qle_bool_iff.
Qed.

Theorem C16_theta_admissible_gumbel (q : Q) :
  check_theta gumbel_dom (Fin q) = true <-> (1 <= q)%Q.
Proof.
  unfold check_theta, gumbel_dom. cbn [d_lo d_hi d_invalid ext_le existsb negb].
  rewrite !andb_true_r. apply Qle_bool_iff.
Qed.

Theorem C16_theta_admissible_frank (q : Q) :
  check_theta frank_dom (Fin q) = true <-> ~ (q == 0)%Q.
Proof.
  unfold check_theta, frank_dom. cbn [d_lo d_hi d_invalid ext_le existsb negb ext_eqb andb orb].
  rewrite orb_false_r. destruct (Qeq_bool q (0 # 1)) eqn:E; simpl.
  - apply Qeq_bool_iff in E. split; [discriminate|]. intros H. contradiction.
  - split; [|reflexivity]. intros _ H. apply Qeq_bool_iff in H. congruence.
Qed.

(* ================= non-vacuity ================= *)
(* the hypotheses are satisfiable and the model builds genuinely different vines of full depth *)
Example C16_nonvacuous :
  good_sort id_tie 4 tauA /\
  run_valid Center 4 3 (fun _ => tauA) id_order = true /\
  run_valid Direct 4 3 (fun _ => tauA) id_order = true /\
  run_valid Regular 4 3 (fun _ => tauA) id_order = true /\
  run_valid Regular 5 9 (fun _ => tauB) (@rev _) = true /\
  option_map (@length _) (train_vine_opt Regular 5 9 (fun _ => tauB) id_order) = Some 4 /\
  map show (regular_first 4 tauA id_order)
  = [(0, (0, 2), [], None); (1, (0, 1), [], None); (2, (1, 3), [], None)] /\
  valid_vine Direct 4 1
    [[mkEdge 0 0 3 [] None; mkEdge 1 0 2 [] None; mkEdge 2 0 2 [] None]] = false.
Proof.
  split; [apply good_sort_id; lia|].
  repeat split; vm_compute; reflexivity.
Qed.

(* ================= the edge kernel GENERATED from the AST of tree.py equals the hand-written model =================
   Gen_vinekernel.v is produced on every run by tools/vf/vinegen.py from the current source of
   Tree._check_constraint, Edge._identify_eds_ing, Edge.is_adjacent, Edge.sort_edge, Edge.get_child_edge,
   Tree._get_constraints (and Edge.get_conditional_uni, bridged in C17.v); the Python operations are denoted by
   coq/Lib/PySet.v.  Each theorem holds for ALL inputs (edges with arbitrary, not necessarily canonical, D lists). *)
Theorem C16_bridge_check_constraint :
  forall (level : nat) (e1 e2 : edge),
  gen_check_constraint level e1 e2 = check_constraint level e1 e2.
Proof.
  intros level e1 e2. unfold gen_check_constraint, check_constraint. cbv zeta.
  match goal with
  | |- (pyset_len ?s =? _) = _ =>
      replace (pyset_len s) with (length (set_union (U e1) (U e2)))
  end.
  - reflexivity.
  - symmetry. apply pyset_len_eq; [apply incr_set_union|].
    intros v. unfold U. autorewrite with pyset. simpl. tauto.
Qed.
Print Assumptions C16_bridge_check_constraint.

(* None = the ValueError of `left, right = sorted(A ^ B)` when |A ^ B| <> 2 *)
Theorem C16_bridge_identify_eds_ing :
  forall a b : edge, gen_identify_eds_ing a b = identify_eds_ing a b.
Proof.
  intros a b. unfold gen_identify_eds_ing, identify_eds_ing. cbv zeta.
  match goal with
  | |- match pyset_sorted ?s with _ => _ end = _ =>
      replace (pyset_sorted s) with (set_symdiff (U a) (U b))
  end.
  2:{ symmetry. apply pyset_sorted_eq; [apply incr_set_symdiff|].
      intros v. unfold U. autorewrite with pyset. simpl. tauto. }
  match goal with
  | |- context [pyset_and ?x ?y] =>
      replace (pyset_and x y) with (set_inter (U a) (U b))
  end.
  2:{ symmetry. apply pyset_eq; [apply incr_pyset_and | apply incr_set_inter |].
      intros v. unfold U. autorewrite with pyset. simpl. tauto. }
  destruct (set_symdiff (U a) (U b)) as [|l [|r [|x t]]]; reflexivity.
Qed.
Print Assumptions C16_bridge_identify_eds_ing.

Example C16_bridge_identify_nonvacuous :
  gen_identify_eds_ing (mkEdge 0 0 2 [] None) (mkEdge 1 0 1 [] None) = Some (1, 2, [0]) /\
  gen_identify_eds_ing (mkEdge 0 0 2 [] None) (mkEdge 1 1 3 [] None) = None /\
  gen_identify_eds_ing (mkEdge 0 0 2 [] None) (mkEdge 1 0 2 [] None) = None /\
  gen_identify_eds_ing (mkEdge 0 1 3 [2; 0; 2] None) (mkEdge 1 0 4 [3; 2] None) = Some (1, 4, [0; 2; 3]).
Proof. vm_compute. repeat split; reflexivity. Qed.

Theorem C16_bridge_is_adjacent :
  forall a b : edge, gen_is_adjacent a b = is_adjacent a b.
Proof.
  intros a b. unfold gen_is_adjacent, is_adjacent.
  apply Bool.eq_true_iff_eq. rewrite !orb_true_iff, !Nat.eqb_eq. lia.
Qed.
Print Assumptions C16_bridge_is_adjacent.

(* Edge.sort_edge: the generated key under Python's tuple order is edge_key_le, and the stable sort by it is sort_edge *)
Theorem C16_bridge_edge_key :
  forall a b : edge, pytuple2_le (gen_edge_key a) (gen_edge_key b) = edge_key_le a b.
Proof. intros a b. reflexivity. Qed.
Print Assumptions C16_bridge_edge_key.

Theorem C16_bridge_sort_edge :
  forall l : list edge, gen_sort_edge l = sort_edge l.
Proof.
  intros l. unfold gen_sort_edge, py_sorted_key, sort_edge, sort_edge_by.
  apply isort_by_ext. intros x y. apply C16_bridge_edge_key.
Qed.
Print Assumptions C16_bridge_sort_edge.

(* a parent = (position in the previous tree's edge list, edge) *)
Theorem C16_bridge_get_child_edge :
  forall (idx : nat) (lp rp : nat * edge),
  gen_get_child_edge idx lp rp = get_child_edge idx lp rp.
Proof.
  intros idx lp rp. unfold gen_get_child_edge, get_child_edge.
  rewrite C16_bridge_identify_eds_ing.
  destruct (identify_eds_ing (snd lp) (snd rp)) as [[[l r] d]|]; reflexivity.
Qed.
Print Assumptions C16_bridge_get_child_edge.

(* the double loop with `neighbors.append` is the map/filter of the model *)
Theorem C16_bridge_get_constraints :
  forall edges : list edge, gen_get_constraints edges = get_constraints edges.
Proof.
  intros edges. unfold gen_get_constraints, get_constraints.
  rewrite py_double_loop_append. fold (py_enumerate edges).
  apply map_ext. intros ek. f_equal. apply filter_ext. intros ie.
  rewrite C16_bridge_is_adjacent, (Nat.eqb_sym (fst ie) (fst ek)). reflexivity.
Qed.
Print Assumptions C16_bridge_get_constraints.

Print Assumptions C16_center_vine_ok.
Print Assumptions C16_direct_vine_ok.
Print Assumptions C16_center_vine_regular.
Print Assumptions C16_direct_vine_regular.
Print Assumptions C16_center_first_star.
Print Assumptions C16_direct_first_path.
Print Assumptions C16_regular_first_spanning.
Print Assumptions C16_regular_first_greedy.
Print Assumptions C16_center_kth_star.
Print Assumptions C16_direct_kth_path.
Print Assumptions C16_regular_kth_progress.
Print Assumptions C16_regular_kth_sound.
Print Assumptions C16_regular_vine_sound.
Print Assumptions C16_regular_vine_three.
Print Assumptions C16_regular_vine_all_levels.
Print Assumptions C16_regular_vine_all_levels_gen.
Print Assumptions C16_regular_escape_never.
Print Assumptions C16_regular_constraint_iff_proximity.
Print Assumptions C16_regular_pairs_distinct.
Print Assumptions C16_regular_first_is_mst.
Print Assumptions C16_child_sets.
Print Assumptions C16_constraint_of_proximity.
Print Assumptions C16_constraint_is_proximity_level2.
Print Assumptions C16_constraint_is_proximity_level3.
Print Assumptions C16_center_pairs_distinct.
Print Assumptions C16_direct_pairs_distinct.
Print Assumptions C16_valid_vine_sound.
Print Assumptions C16_run_conclusion.
Print Assumptions C16_direct_first_refuted.
Print Assumptions C16_escape_diverges.
Print Assumptions C16_regular_first_nan_not_greedy.
Print Assumptions C16_center_first_unstable_refuted.
Print Assumptions C16_theta_admissible_frank.
