(* ========================================================================= *)
(*  C16 (vinefit): Tree.get_tau_matrix and the body of VineCopula.__init__ /   *)
(*  VineCopula.fit outside train_vine, GENERATED from the AST on every run      *)
(*  (tools/vf/vinefitgen.py -> Gen_vinefit.v), equal to the hand-written models *)
(*  Model.VineData.tau_matrix_cols / Model.LifecycleTab.tau_written /           *)
(*  Model.VineFitState, for ALL inputs.  Finding F8 is a theorem about the      *)
(*  generated functions ([C16_F8_generated_*]).                                 *)
(*  Copied into the build directory and compiled after C16_regular.v.           *)
(* ========================================================================= *)
From Coq Require Import String List Arith ZArith QArith Lia Bool.
From Cop Require Import Lib.FinGraph Model.Vine Spec.VineDefs Spec.VineSets Model.VineData Model.LifecycleTab Lib.PySet Lib.PyMat Lib.PyPrim Lib.PyVineFit
  Model.VineFitState.
From Cop Require Spec.VineSerial.
From CopRun Require Import Gen_vinekernel Gen_vinebuild Gen_vinefit.
Import ListNotations.
Open Scope nat_scope.

(* ------------------------------------------------------------------ *)
(** * 0. the kernel bridges this file needs (re-proved here: C16.v / C17.v are not imported) *)
Lemma fit_identify_eds_ing : forall a b : edge, gen_identify_eds_ing a b = identify_eds_ing a b.
Proof.
  intros a b. unfold gen_identify_eds_ing, identify_eds_ing. cbv zeta.
  match goal with
  | |- match pyset_sorted ?s with _ => _ end = _ =>
      replace (pyset_sorted s) with (set_symdiff (U a) (U b))
  end.
  2:{ symmetry. apply pyset_sorted_eq; [apply incr_set_symdiff|].
      intros v. unfold U. autorewrite with pyset. simpl. tauto. }
  match goal with
  | |- context [pyset_and ?x ?y] =>
      replace (pyset_and x y) with (set_inter (U a) (U b))
  end.
  2:{ symmetry. apply pyset_eq; [apply incr_pyset_and | apply incr_set_inter |].
      intros v. unfold U. autorewrite with pyset. simpl. tauto. }
  destruct (set_symdiff (U a) (U b)) as [|l [|r [|x t]]]; reflexivity.
Qed.

Lemma fit_get_conditional_uni : forall lp rp : edge_data, gen_get_conditional_uni lp rp = get_conditional_uni lp rp.
Proof.
  intros lp rp. unfold gen_get_conditional_uni, get_conditional_uni. rewrite fit_identify_eds_ing.
  destruct (identify_eds_ing (ed_edge lp) (ed_edge rp)) as [[[l r] d]|]; reflexivity.
Qed.

Lemma fit_is_adjacent : forall a b : edge, gen_is_adjacent a b = is_adjacent a b.
Proof.
  intros a b. unfold gen_is_adjacent, is_adjacent.
  apply Bool.eq_true_iff_eq. rewrite !orb_true_iff, !Nat.eqb_eq. lia.
Qed.

Lemma fit_get_constraints : forall edges : list edge, gen_get_constraints edges = get_constraints edges.
Proof.
  intros edges. unfold gen_get_constraints, get_constraints.
  rewrite py_double_loop_append. fold (py_enumerate edges).
  apply map_ext. intros ek. f_equal. apply filter_ext. intros ie.
  rewrite fit_is_adjacent, (Nat.eqb_sym (fst ie) (fst ek)). reflexivity.
Qed.

(* every neighbour index is a position of the edge list *)
Lemma get_constraints_bound : forall (es : list edge) i j, In j (nth i (get_constraints es) []) -> j < length es.
Proof.
  intros es i j H.
  destruct (nth_in_or_default i (get_constraints es) []) as [Hin|Hd]; [|rewrite Hd in H; destruct H].
  unfold get_constraints in Hin, H. apply in_map_iff in Hin. destruct Hin as [ek [Hrow _]].
  rewrite <- Hrow in H. apply in_map_iff in H. destruct H as [ie [Hj Hie]]. apply filter_In in Hie. destruct Hie as [Hie _].
  destruct ie as [a b]. apply in_combine_l in Hie. apply in_seq in Hie. simpl in Hj. lia.
Qed.

(* ------------------------------------------------------------------ *)
(** * 1. Tree.get_tau_matrix                                           *)
(* the edge's stored select_copula inputs are get_conditional_uni of its two parents (true of every edge built by
   Model.VineData.child_data: [child_data_inputs]) *)
Definition inputs_from_parents (prev : list edge_data) (x : edge_data) : Prop :=
  exists lp rp, py_parents prev x = Some (lp, rp) /\ get_conditional_uni lp rp = Some (ed_inputs x).

Lemma child_data_inputs : forall t prev c x, child_data t prev c = Some x -> inputs_from_parents prev x.
Proof.
  intros t prev c x H. unfold child_data in H.
  destruct (e_par c) as [[i j]|] eqn:Ep; [|discriminate].
  destruct (nth_error prev i) as [lp|] eqn:Ei; [|discriminate].
  destruct (nth_error prev j) as [rp|] eqn:Ej; [|discriminate].
  destruct (get_conditional_uni lp rp) as [[lu ru]|] eqn:Eg; [|discriminate].
  injection H as <-. exists lp, rp. unfold py_parents. simpl. rewrite Ep, Ei, Ej. split; [reflexivity|exact Eg].
Qed.

Definition cell_map {A : Type} (kt : col -> col -> A) (m : list (list (option (col * col)))) : omat A :=
  map (map (option_map (fun p => kt (fst p) (snd p)))) m.

(* t = 0-based index of the tree (self.level = t + 1); neighbors = what the GENERATED _get_constraints leaves in edge.neighbors *)
Theorem C16_bridge_get_tau_matrix :
  forall (A : Type) (kt : col -> col -> A) (t : nat) (prev Dt : list edge_data),
  (t >= 1 -> Forall (inputs_from_parents prev) Dt) ->
  gen_get_tau_matrix kt (S t) prev (gen_get_constraints (map ed_edge Dt)) Dt
  = Some (cell_map kt (tau_matrix_cols t Dt)).
Proof.
  intros A kt t prev Dt Hin. unfold gen_get_tau_matrix. cbv zeta. rewrite fit_get_constraints, opt_eta.
  destruct Dt as [|d0 Dt0] eqn:EDt; [reflexivity|]. rewrite <- EDt in *. clear EDt Dt0.
  set (n := length Dt). set (nbs := get_constraints (map ed_edge Dt)).
  set (g := fun i => kt (fst (tau_cols t (nth i Dt d0))) (snd (tau_cols t (nth i Dt d0)))).
  rewrite (py_for_opt_ext_in (py_range n) _
             (fun m i => py_for_opt (py_neighbors nbs i) (fun m' j => omat_set m' i j (g i)) m)).
  2:{ intros m i Hi. unfold py_range in Hi. apply in_seq in Hi.
      unfold py_getitem. rewrite (nth_error_nth' Dt d0) by (fold n; lia). rewrite opt_eta.
      apply py_for_opt_ext_in. intros m' j _. subst g. cbv beta.
      destruct t as [|t'].
      - cbn [Nat.eqb]. rewrite opt_eta. reflexivity.
      - cbn [Nat.eqb].
        assert (Hx : inputs_from_parents prev (nth i Dt d0)).
        { assert (HF := Hin ltac:(lia)). rewrite Forall_forall in HF. apply HF. apply nth_In. fold n. lia. }
        destruct Hx as (lp & rp & Hp & Hg). rewrite Hp, fit_get_conditional_uni, Hg.
        unfold tau_cols. cbn [Nat.eqb]. destruct (ed_inputs (nth i Dt d0)) as [lu ru]. cbn [fst snd]. rewrite opt_eta. reflexivity. }
  rewrite omat_fill.
  2:{ intros i _ j Hj. unfold py_neighbors, nbs in Hj. apply get_constraints_bound in Hj. rewrite map_length in Hj. exact Hj. }
  f_equal. subst n.
  set (G := fun i x => map (option_map (fun p => kt (fst p) (snd p)))
              (map (fun j => if memb j (nth i nbs []) then Some (tau_cols t x) else None) (seq 0 (length Dt)))).
  change (map (fun i => map (fun j => if memb j (py_neighbors nbs i) then Some (g i) else None) (seq 0 (length Dt))) (seq 0 (length Dt))
          = map (fun r => map (option_map (fun p => kt (fst p) (snd p))) r)
                (map (fun ix => map (fun j => if memb j (nth (fst ix) nbs []) then Some (tau_cols t (snd ix)) else None) (seq 0 (length Dt)))
                     (combine (seq 0 (length Dt)) Dt))).
  rewrite map_map.
  change (map (fun i => map (fun j => if memb j (py_neighbors nbs i) then Some (g i) else None) (seq 0 (length Dt))) (seq 0 (length Dt))
          = map (fun ix => G (fst ix) (snd ix)) (combine (seq 0 (length Dt)) Dt)).
  rewrite (map_combine_seq G d0 Dt 0). apply map_ext. intros i. rewrite Nat.sub_0_r. unfold G. rewrite map_map. apply map_ext. intros j.
  unfold py_neighbors, g. destruct (memb j (nth i nbs [])); reflexivity.
Qed.
Print Assumptions C16_bridge_get_tau_matrix.

(* with kt = pair: the generated function IS Model.VineData.tau_matrix_cols *)
Lemma cell_map_pair : forall m, cell_map (@pair col col) m = m.
Proof.
  intros m. unfold cell_map. rewrite <- (map_id m) at 2. apply map_ext. intros row. rewrite <- (map_id row) at 2.
  apply map_ext. intros [[a b]|]; reflexivity.
Qed.
Theorem C16_bridge_get_tau_matrix_cols :
  forall (t : nat) (prev Dt : list edge_data), (t >= 1 -> Forall (inputs_from_parents prev) Dt) ->
  gen_get_tau_matrix pair (S t) prev (gen_get_constraints (map ed_edge Dt)) Dt = Some (tau_matrix_cols t Dt).
Proof. intros t prev Dt H. rewrite C16_bridge_get_tau_matrix by exact H. rewrite cell_map_pair. reflexivity. Qed.
Print Assumptions C16_bridge_get_tau_matrix_cols.

(* on the trees the data plane of the model builds (every level) *)
Corollary C16_bridge_get_tau_matrix_child_data :
  forall (t : nat) (prev : list edge_data) (T : list edge) (Dt : list edge_data),
  map_opt (child_data (S t) prev) T = Some Dt ->
  gen_get_tau_matrix pair (S (S t)) prev (gen_get_constraints (map ed_edge Dt)) Dt = Some (tau_matrix_cols (S t) Dt).
Proof.
  intros t prev T Dt H. apply C16_bridge_get_tau_matrix_cols. intros _.
  revert Dt H. induction T as [|c T IH]; intros Dt H; simpl in H.
  - injection H as <-. constructor.
  - destruct (child_data (S t) prev c) as [x|] eqn:Ex; [|discriminate].
    destruct (map_opt (child_data (S t) prev) T) as [r|]; [|discriminate]. injection H as <-.
    constructor; [eapply child_data_inputs; exact Ex|apply IH; reflexivity].
Qed.
Print Assumptions C16_bridge_get_tau_matrix_child_data.

(* which cells are written: exactly Model.LifecycleTab.tau_written *)
Theorem C16_bridge_tau_written :
  forall (A : Type) (kt : col -> col -> A) (t : nat) (prev Dt : list edge_data) (m : omat A) (i j : nat),
  (t >= 1 -> Forall (inputs_from_parents prev) Dt) ->
  gen_get_tau_matrix kt (S t) prev (gen_get_constraints (map ed_edge Dt)) Dt = Some m ->
  i < length Dt -> j < length Dt ->
  exists c, omat_get m i j = Some c /\ (c <> None <-> tau_written (map ed_edge Dt) i j = true).
Proof.
  intros A kt t prev Dt m i j Hin Hm Hi Hj. rewrite C16_bridge_get_tau_matrix in Hm by exact Hin. injection Hm as <-.
  destruct Dt as [|d0 Dt0] eqn:EDt; [simpl in Hi; lia|]. rewrite <- EDt in *. clear EDt Dt0.
  set (nbs := get_constraints (map ed_edge Dt)).
  set (G := fun i x => map (option_map (fun p => kt (fst p) (snd p)))
              (map (fun j => if memb j (nth i nbs []) then Some (tau_cols t x) else None) (seq 0 (length Dt)))).
  assert (E : cell_map kt (tau_matrix_cols t Dt) = map (fun ix => G (fst ix) (snd ix)) (combine (seq 0 (length Dt)) Dt)).
  { unfold cell_map, tau_matrix_cols. cbv zeta. fold nbs. rewrite map_map. reflexivity. }
  rewrite E, (map_combine_seq G d0 Dt 0). unfold omat_get.
  rewrite (nth_error_map_seq _ (length Dt) 0 i Hi). cbn [Nat.add]. unfold G. rewrite map_map.
  rewrite (nth_error_map_seq _ (length Dt) 0 j Hj). cbn [Nat.add].
  eexists. split; [reflexivity|]. unfold tau_written. fold nbs. fold (memb j (nth i nbs [])).
  destruct (memb j (nth i nbs [])); simpl; split; intros H; congruence.
Qed.
Print Assumptions C16_bridge_tau_written.

(* ------------------------------------------------------------------ *)
(** * 2. F8 as a theorem about the GENERATED functions                  *)
(* the witness of Model.LifecycleTab.def_before_use_refuted: a D-vine on 4 variables, second tree (0,2|1), (1,3|2) *)
Definition f8_t1 : list edge_data := map (fun e => mk_first e (e_L e, e_R e)) dvine_t1.
Definition f8_t2 : list edge_data := match map_opt (child_data 1 f8_t1) dvine_t2 with Some D => D | None => [] end.
(* the candidate set `adj_set` the generated RegularTree._build_kth_tree builds in the first round of Prim's loop of tree 3
   (visited = {0}); every element e of it is read as neg_tau[e[0]][e[1]] by the generated sort key *)
Definition f8_generated_reads : option (list (nat * nat)) :=
  py_for_opt (pyset_iter [0]) (gen_regular_kth_loop2 3 2 dvine_t2 [0]) [].

Example C16_F8_generated_unwritten_read :
  map ed_edge f8_t2 = dvine_t2 /\
  f8_generated_reads = Some [(0, 1)] /\
  option_map (fun m => omat_get m 0 1)
    (gen_get_tau_matrix pair 2 f8_t1 (gen_get_constraints (map ed_edge f8_t2)) f8_t2) = Some (Some None) /\
  gen_get_tau_matrix pair 2 f8_t1 (gen_get_constraints (map ed_edge f8_t2)) f8_t2 = Some [[None; None]; [None; None]].
Proof. vm_compute. repeat split; reflexivity. Qed.
Print Assumptions C16_F8_generated_unwritten_read.

(* F8b: DirectTree._build_kth_tree stores `self.tau_matrix[k, k + 1]` as edge.tau (a data-plane statement of the generated gen_direct_kth; the
   cells are LifecycleTab.direct_reads); CenterTree reads column 0 (center_reads).  On the same witness the direct read is unwritten in the
   generated matrix; on the 5-variable C-vine every cell CenterTree reads is written *)
Definition f8_c1 : list edge_data := map (fun e => mk_first e (e_L e, e_R e)) cvine5_t1.
Example C16_F8b_generated_direct_center :
  option_map (fun m => map (fun c => omat_get m (fst c) (snd c)) (direct_reads dvine_t2))
    (gen_get_tau_matrix pair 2 f8_t1 (gen_get_constraints (map ed_edge f8_t2)) f8_t2) = Some [Some None] /\
  option_map (fun m => map (fun c => omat_get m (fst c) (snd c)) (center_reads cvine5_t1))
    (gen_get_tau_matrix pair 1 [] (gen_get_constraints (map ed_edge f8_c1)) f8_c1)
  = Some [Some (Some (CMarg 0, CMarg 2)); Some (Some (CMarg 0, CMarg 3)); Some (Some (CMarg 0, CMarg 4))].
Proof. vm_compute. split; reflexivity. Qed.
Print Assumptions C16_F8b_generated_direct_center.

(* the third tree the generated builder returns follows whatever the unwritten cell holds only through edge.tau (one candidate);
   with five variables two unwritten cells are COMPARED: the generated third tree depends on them.  rvine5_t2: second tree
   (0,2|1) (1,3|2) (1,4|2) of a regular vine; the generated matrix of that tree has row 0 entirely unwritten, and two matrices that agree
   on every written cell give two different generated third trees *)
Definition f8_r1 : list edge := [mkEdge 0 0 1 [] None; mkEdge 1 1 2 [] None; mkEdge 2 2 3 [] None; mkEdge 3 2 4 [] None].
Definition f8_rd1 : list edge_data := map (fun e => mk_first e (e_L e, e_R e)) f8_r1.
Definition f8_rd2 : list edge_data := match map_opt (child_data 1 f8_rd1) rvine5_t2 with Some D => D | None => [] end.
Definition f8_fill (q01 q02 : Q) : tmat :=
  [[Some 0%Q; Some q01; Some q02]; [Some 0%Q; Some 0%Q; Some (1 # 2)%Q]; [Some 0%Q; Some (1 # 2)%Q; Some 0%Q]].

Example C16_F8_generated_structure_depends :
  map ed_edge f8_rd2 = rvine5_t2 /\
  gen_get_tau_matrix pair 2 f8_rd1 (gen_get_constraints (map ed_edge f8_rd2)) f8_rd2
    = Some [[None; None; None];
            [None; None; Some (CH 0 1 (CMarg 1) (CMarg 2), CH 0 2 (CMarg 3) (CMarg 2))];
            [None; Some (CH 0 1 (CMarg 1) (CMarg 2), CH 0 3 (CMarg 4) (CMarg 2)); None]] /\
  py_for_opt (pyset_iter [0]) (gen_regular_kth_loop2 3 3 rvine5_t2 [0]) [] = Some [(0, 1); (0, 2)] /\
  gen_regular_kth id_tie pick_py (fun l => l) 3 3 (np_array (f8_fill (1 # 10) (9 # 10))) rvine5_t2 []
  <> gen_regular_kth id_tie pick_py (fun l => l) 3 3 (np_array (f8_fill (9 # 10) (1 # 10))) rvine5_t2 [].
Proof. vm_compute. repeat split; try reflexivity. intros H. discriminate H. Qed.
Print Assumptions C16_F8_generated_structure_depends.

(* ------------------------------------------------------------------ *)
(** * 3. VineCopula.__init__ and VineCopula.fit outside train_vine       *)
Theorem C16_bridge_vine_init :
  gen_vine_init_names = Cop.Spec.VineSerial.vine_init_names /\
  gen_vine_init_required = Cop.Spec.VineSerial.vine_init_required /\
  gen_vine_init_attrs = vine_init_attrs.
Proof. repeat split; reflexivity. Qed.
Print Assumptions C16_bridge_vine_init.

(* the constructor call these bindings denote IS Spec.VineSerial.new_vine (the model C14_rest.v / serialrestgen use for cls(vine_type)) *)
Theorem C16_bridge_vine_init_new_vine : forall (args : list Cop.Model.Lifecycle.jv) (kw : list (string * Cop.Model.Lifecycle.jv)),
  init_of_attrs gen_vine_init_names gen_vine_init_required gen_vine_init_attrs args kw = Cop.Spec.VineSerial.new_vine args kw.
Proof.
  intros args kw. destruct C16_bridge_vine_init as (-> & -> & ->). apply init_of_attrs_new_vine.
Qed.
Print Assumptions C16_bridge_vine_init_new_vine.

Theorem C16_bridge_vine_fit_state : forall (out : fit_outcome) (self : vobj),
  gen_vine_fit_state out self = vine_fit_state out self.
Proof. intros out self. destruct out; reflexivity. Qed.
Print Assumptions C16_bridge_vine_fit_state.

(* consequences for the generated function (Model.VineFitState.fit_returns_serialisable / fit_raises_keeps_fitted) *)
Theorem C16_vine_fit_returns : forall self,
  snd (gen_vine_fit_state FitReturns self) = true /\
  getattr (fst (gen_vine_fit_state FitReturns self)) "fitted" = Some VTrue /\
  forall a, In a to_dict_attrs -> getattr (fst (gen_vine_fit_state FitReturns self)) a <> None.
Proof. intros self. rewrite C16_bridge_vine_fit_state. apply fit_returns_serialisable. Qed.
Theorem C16_vine_fit_raises : forall out self, out <> FitReturns ->
  snd (gen_vine_fit_state out self) = false /\
  getattr (fst (gen_vine_fit_state out self)) "fitted" = getattr self "fitted".
Proof. intros out self H. rewrite C16_bridge_vine_fit_state. apply fit_raises_keeps_fitted. exact H. Qed.
Example C16_vine_fit_fresh :
  attr_names (fst (gen_vine_fit_state FitReturns gen_vine_init_attrs))
  = ["random_state"; "vine_type"; "u_matrix"; "model"; "n_sample"; "n_var"; "columns"; "tau_mat"; "truncated"; "depth";
     "trees"; "unis"; "ppfs"; "fitted"]%string /\
  to_dict_attrs = Cop.Spec.VineSerial.vine_body_keys.
Proof. split; reflexivity. Qed.
Print Assumptions C16_vine_fit_returns.
Print Assumptions C16_vine_fit_raises.
