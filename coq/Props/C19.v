(* C19 — Model life-cycle: fit is a pure function of its inputs; misuse fails loudly.

   Models: Cop.Model.Lifecycle (hand-written executable state machines of the ScipyModel families, the
   Univariate wrapper, Bivariate, GaussianMultivariate, get_instance; tied to the library by the history
   correspondence of tools/vf/props/C19.py, evaluated by vm_compute over Cop.Model.LifecycleTab, the
   oracle-table instance) and the vine structure model Cop.Model.Vine for the definition-before-use part.
   Deep proofs: Cop.Spec.LifecycleProofs.  Which classes / methods carry the decorators and guards is
   GENERATED from the AST of the tree under test on every run (CopRun.Gen_c19facts).

   The full-strength statement of the property is still FALSE of the current code in places.  It is kept visible
   below ([fit_pure_full], [unfitted_raises_full_biv], [def_before_use_full]) next to its refutation with a concrete
   witness (each witness is replayed on the real library by the check: findings F7, F8, F9b, F22, F26, F29) and next to the strongest statement that does hold.
   History: F5 (constant overrides never cleared), F6 (TruncatedGaussian remembered data-derived bounds), F12
   (GaussianKDE.log_probability_density raised) and F24 (<Subclass>.from_dict) were reported by this check and are
   FIXED in /repo; their refutations (C19_fit_pure_full_refuted for all 8 families, C19_fit_pure_tg_refuted,
   C19_subclass_from_dict_refuted) have been replaced by the theorems that now hold. *)
From Coq Require Import ZArith QArith List String Bool Lia.
From Cop Require Import Model.Lifecycle Model.Vine Model.LifecycleTab Spec.LifecycleProofs.
From CopRun Require Import Gen_c19facts Gen_unictl.
Import ListNotations.
Open Scope string_scope.
Open Scope list_scope.

(* ===================================================================================================== *)
(* T1  fit is a pure function of (constructor arguments, X)                                               *)
(* ===================================================================================================== *)
Section T1.
  (* scipy / numpy oracles: ANY functions (the theorems hold for every behaviour of scipy) *)
  Variable o_sfit : family -> data -> list Q -> list Q.
  Variable o_tg_opt : data -> Q -> Q -> Q * Q.
  Variable o_tolist : data -> list Q.
  Variable o_resample : data -> jv -> jv -> nat -> grng -> list Q.
  Variable o_select : data -> list cand -> option nat.
  Variable o_choice : data -> nat -> grng -> data.
  Variable o_corr : nat -> list obs -> list (list Q).
  Variable o_frank_theta : Q -> result jv.

  Notation fit := (fit_scipy o_sfit o_tg_opt o_tolist o_resample).
  Notation run_fits := (run_fits_s o_sfit o_tg_opt o_tolist o_resample).
  Notation fitw := (fit_wrapper o_sfit o_tg_opt o_tolist o_resample o_select o_choice).
  Notation run_fitsw := (run_fits_w o_sfit o_tg_opt o_tolist o_resample o_select o_choice).
  Notation fitg := (fit_gm o_sfit o_tg_opt o_tolist o_resample o_select o_choice o_corr).
  Notation run_fitsg := (run_fits_g o_sfit o_tg_opt o_tolist o_resample o_select o_choice o_corr).
  Notation fitb := (fit_biv o_frank_theta).
  Notation run_fitsb := (run_fits_b o_frank_theta).

  (* --- the full statement, per ScipyModel family: after ANY history of fits, a successful fit of X gives a model
         that no public query (to_dict, cdf, pdf, ppf, logpdf, sample) can tell from a fresh model fitted on X --- *)
  Definition fit_pure_full_at (f : family) : Prop :=
    forall s0 hs X g0 g, new_scipy f [] [] = Ok s0 ->
      er (fit (fst (run_fits s0 hs g0)) X g) = None ->
      observe_s (st (fit (fst (run_fits s0 hs g0)) X g)) = observe_s (st (fit s0 X g)).

  (* HOLDS for seven of the eight families since the F5 / F6 fixes, whatever the constructor arguments.
     (Before: refuted for all eight by [fit(constant 3.0); fit(X)] -- the instance-level constant overrides were
     never removed -- and for TruncatedGaussian by [fit X; fit 10X].) *)
  Theorem C19_fit_pure_scipy_full : forall s0 hs X g0 g,
      s_fam s0 <> FKDE ->
      er (fit (fst (run_fits s0 hs g0)) X g) = None ->
      observe_s (st (fit (fst (run_fits s0 hs g0)) X g)) = observe_s (st (fit s0 X g)).
  Proof. exact (fit_pure_scipy_full o_sfit o_tg_opt o_tolist o_resample). Qed.
  (* the six plain families: fit never fails, no hypothesis at all *)
  Theorem C19_fit_pure_plain : forall s0 hs X g0 g,
      plain (s_fam s0) ->
      observe_s (st (fit (fst (run_fits s0 hs g0)) X g)) = observe_s (st (fit s0 X g)).
  Proof. exact (fit_pure_plain o_sfit o_tg_opt o_tolist o_resample). Qed.
  Theorem C19_fit_pure_tg : forall s0 hs X g0 g,
      s_fam s0 = FTrunc ->
      er (fit (fst (run_fits s0 hs g0)) X g) = None ->
      observe_s (st (fit (fst (run_fits s0 hs g0)) X g)) = observe_s (st (fit s0 X g)).
  Proof. exact (fit_pure_tg o_sfit o_tg_opt o_tolist o_resample). Qed.

  (* the former F5 witness [fit const 3.0; fit X]: the degenerate state of the first fit is there, and is gone
     after the second, for every family *)
  Theorem C19_refit_after_constant_fixed : forall f,
      exists s0 hs X, new_scipy f [] [] = Ok s0 /\ hs = [Stub.Xc] /\ X = Stub.X1 /\
        forall g0 g,
          sm_cdf (observe_s (fst (run_fits s0 hs g0))) = ObsConst QCdf (Some (JNum 3)) /\
          s_ov (st (fit (fst (run_fits s0 hs g0)) X g)) = no_ov /\
          s_const (st (fit (fst (run_fits s0 hs g0)) X g)) = None /\
          (forall k c, sm_cdf (observe_s (st (fit (fst (run_fits s0 hs g0)) X g))) <> ObsConst k c) /\
          (er (fit (fst (run_fits s0 hs g0)) X g) = None ->
           observe_s (st (fit (fst (run_fits s0 hs g0)) X g)) = observe_s (st (fit s0 X g))).
  Proof. exact (refit_after_constant_fixed o_sfit o_tg_opt o_tolist o_resample). Qed.

  (* --- GaussianKDE still caches _sample_size (F7): purity under `benign` --- *)
  (* benign s0 hs X :=  stable s0 (not a GaussianKDE, or sample_size given by the user)
                    \/ every earlier dataset constant *)
  Theorem C19_fit_pure_scipy_partial : forall s0 hs X g0 g,
      benign s0 hs X ->
      er (fit (fst (run_fits s0 hs g0)) X g) = None ->
      eqv (st (fit (fst (run_fits s0 hs g0)) X g)) (st (fit s0 X g)) /\
      snd (fst (fit (fst (run_fits s0 hs g0)) X g)) = snd (fst (fit s0 X g)) /\
      er (fit s0 X g) = None.
  Proof. exact (fit_pure_scipy_partial o_sfit o_tg_opt o_tolist o_resample). Qed.
  Theorem C19_fit_pure_scipy_partial_observe : forall s0 hs X g0 g,
      benign s0 hs X ->
      er (fit (fst (run_fits s0 hs g0)) X g) = None ->
      observe_s (st (fit (fst (run_fits s0 hs g0)) X g)) = observe_s (st (fit s0 X g)).
  Proof. exact (fit_pure_scipy_partial_observe o_sfit o_tg_opt o_tolist o_resample). Qed.
  Theorem C19_fit_pure_kde_partial : forall s0 hs X g0 g,
      s_fam s0 = FKDE ->
      truthy (s_ss s0) = true ->
      er (fit (fst (run_fits s0 hs g0)) X g) = None ->
      observe_s (st (fit (fst (run_fits s0 hs g0)) X g)) = observe_s (st (fit s0 X g)).
  Proof. exact (fit_pure_kde o_sfit o_tg_opt o_tolist o_resample). Qed.
  Theorem C19_fit_pure_after_constants_partial : forall s0 hs X g0 g,
      Forall isconst hs ->
      er (fit (fst (run_fits s0 hs g0)) X g) = None ->
      observe_s (st (fit (fst (run_fits s0 hs g0)) X g)) = observe_s (st (fit s0 X g)).
  Proof. exact (fit_pure_after_constants o_sfit o_tg_opt o_tolist o_resample). Qed.

  (* --- Univariate wrapper, Clayton/Frank/Gumbel, GaussianMultivariate: FULL strength for successful fits
         (the whole result triple -- state, global generator, exception -- is the same as on a fresh object).
         NB the wrapper's result still depends on the global generator g when selection_sample_size is set (F9b). --- *)
  Theorem C19_fit_pure_wrapper : forall u0 hs X g0 g,
      er (fitw (fst (run_fitsw u0 hs g0)) X g) = None ->
      fitw (fst (run_fitsw u0 hs g0)) X g = fitw u0 X g.
  Proof. exact (fit_pure_wrapper o_sfit o_tg_opt o_tolist o_resample o_select o_choice). Qed.
  Theorem C19_fit_pure_biv : forall b0 hs X,
      b_cls b0 <> Some Independence ->
      snd (fitb (run_fitsb b0 hs) X) = None ->
      fitb (run_fitsb b0 hs) X = fitb b0 X.
  Proof. exact (fit_pure_biv o_frank_theta). Qed.
  Theorem C19_fit_pure_gm : forall x0 hs T g0 g,
      er (fitg (fst (run_fitsg x0 hs g0)) T g) = None ->
      fitg (fst (run_fitsg x0 hs g0)) T g = fitg x0 T g.
  Proof. exact (fit_pure_gm o_sfit o_tg_opt o_tolist o_resample o_select o_choice o_corr). Qed.

  (* ===================================================================================================== *)
  (* T3  validation: empty / non-numeric / NaN training data => ValueError, state and generator unchanged  *)
  (* ===================================================================================================== *)
  Theorem C19_validation : forall x T g,
      t_empty T = true \/ t_numeric T = false \/ t_has_nan T = true ->
      fitg x T g = (x, g, Some ValueErr).
  Proof. exact (validation o_sfit o_tg_opt o_tolist o_resample o_select o_choice o_corr). Qed.

  (* ===================================================================================================== *)
  (* T4  get_instance (the parts that quantify over fit histories)                                         *)
  (* ===================================================================================================== *)
  Theorem C19_get_instance_ignores_fit_state : forall s hs g kw,
      get_instance_u (PInstS (fst (run_fits s hs g))) kw = get_instance_u (PInstS s) kw.
  Proof. exact (get_instance_ignores_fit_state o_sfit o_tg_opt o_tolist o_resample). Qed.
  Theorem C19_get_instance_ignores_fit_state_wrapper : forall u hs g kw,
      get_instance_u (PInstU (fst (run_fitsw u hs g))) kw = get_instance_u (PInstU u) kw.
  Proof. exact (get_instance_ignores_fit_state_wrapper o_sfit o_tg_opt o_tolist o_resample o_select o_choice). Qed.
  (* classes with @store_args: the clone of a (re)fitted instance IS the object the constructor call built
     (KDE options, truncation bounds, seed), whatever was fitted in between *)
  Theorem C19_get_instance_replays_ctor : forall f a k s hs g,
      has_store_args f = true -> new_scipy f a k = Ok s ->
      get_instance_u (PInstS (fst (run_fits s hs g))) [] = Ok (OS s).
  Proof. exact (get_instance_replays_ctor o_sfit o_tg_opt o_tolist o_resample). Qed.
  Theorem C19_get_instance_replays_ctor_wrapper : forall a k u hs g,
      new_wrapper a k = Ok u ->
      get_instance_u (PInstU (fst (run_fitsw u hs g))) [] = Ok (OU u).
  Proof. exact (get_instance_replays_ctor_wrapper o_sfit o_tg_opt o_tolist o_resample o_select o_choice). Qed.
  (* classes WITHOUT @store_args: the clone is the default-constructed object: a seed given to the prototype is lost (F29) *)
  Theorem C19_get_instance_no_store_args : forall f a k s hs g,
      has_store_args f = false -> new_scipy f a k = Ok s ->
      get_instance_u (PInstS (fst (run_fits s hs g))) [] = Ok (OS (fresh f)).
  Proof. exact (get_instance_no_store_args o_sfit o_tg_opt o_tolist o_resample). Qed.
End T1.

(* ---------- the full statement over ALL oracles, and the refutations that remain (Stub oracles) ---------- *)
Definition fit_pure_full (f : family) : Prop :=
  forall o1 o2 o3 o4 s0 hs X g0 g, new_scipy f [] [] = Ok s0 ->
    er (fit_scipy o1 o2 o3 o4 (fst (run_fits_s o1 o2 o3 o4 s0 hs g0)) X g) = None ->
    observe_s (st (fit_scipy o1 o2 o3 o4 (fst (run_fits_s o1 o2 o3 o4 s0 hs g0)) X g))
    = observe_s (st (fit_scipy o1 o2 o3 o4 s0 X g)).
Theorem C19_fit_pure_full : forall f, f <> FKDE -> fit_pure_full f.
Proof.
  intros f Hf o1 o2 o3 o4 s0 hs X g0 g Hn He. apply fit_pure_scipy_full; [|exact He].
  rewrite new_scipy_default in Hn. inversion Hn; subst s0. destruct f; simpl; congruence.
Qed.
(* ... and is still REFUTED for GaussianKDE (F7) *)
Theorem C19_fit_pure_full_kde_refuted : ~ fit_pure_full FKDE.
Proof.
  intro H.
  specialize (H Stub.sfit Stub.tg_opt Stub.tolist Stub.resample (fresh FKDE) [Stub.X50] Stub.X1 [] [] eq_refl).
  assert (E : er (fit_scipy Stub.sfit Stub.tg_opt Stub.tolist Stub.resample
                    (fst (run_fits_s Stub.sfit Stub.tg_opt Stub.tolist Stub.resample (fresh FKDE) [Stub.X50] [])) Stub.X1 []) = None)
    by (vm_compute; reflexivity).
  apply H in E. apply (f_equal sm_dict) in E. vm_compute in E. discriminate E.
Qed.
(* the former F6 witness TruncatedGaussian() : [fit X; fit 10X]: no bound is stored on the instance any more *)
Theorem C19_fit_pure_tg_witness_fixed :
  exists s0 hs X, new_scipy FTrunc [] [] = Ok s0 /\ hs = [Stub.X1] /\ X = Stub.X10 /\
    observe_s (sst (sfit (srun s0 hs) X [])) = observe_s (sst (sfit s0 X [])) /\
    s_min (sst (sfit (srun s0 hs) X [])) = JNone /\
    s_max (sst (sfit (srun s0 hs) X [])) = JNone /\
    to_dict_scipy (sst (sfit (srun s0 hs) X []))
    = Ok (JDict [("a", JNum (-2)); ("b", JNum 2); ("loc", JNum 40); ("scale", qj ((60 + 2 * EPS) / 4));
                 ("type", JStr "copulas.univariate.truncated_gaussian.TruncatedGaussian")]).
Proof. exact fit_pure_tg_witness_fixed. Qed.
(* F7: GaussianKDE() : [fit X50; fit X6] resamples 50 points from the 6 and consumes the GLOBAL generator *)
Theorem C19_fit_pure_kde_refuted :
  exists s0 hs X, new_scipy FKDE [] [] = Ok s0 /\
    observe_s (sst (sfit (srun s0 hs) X [])) <> observe_s (sst (sfit s0 X [])) /\
    s_ss (srun s0 hs) = natj 50 /\
    (exists l, lookup "dataset" (match s_params (sst (sfit (srun s0 hs) X [])) with Some p => p | None => [] end)
               = Some (JList [JList l]) /\ List.length l = 50%nat) /\
    (exists l, lookup "dataset" (match s_params (sst (sfit s0 X [])) with Some p => p | None => [] end)
               = Some (JList l) /\ List.length l = 6%nat) /\
    snd (fst (sfit (srun s0 hs) X [])) = [mkDraw (JStr "kde.fit.resample") 50].
Proof. exact fit_pure_kde_refuted. Qed.
(* F7 (constant data): [fit X50; fit const] serialises 50 copies instead of len(X) *)
Theorem C19_fit_pure_kde_const_refuted :
  exists s0 hs X, new_scipy FKDE [] [] = Ok s0 /\ d_const X <> None /\
    to_dict_scipy (sst (sfit (srun s0 hs) X [])) <> to_dict_scipy (sst (sfit s0 X [])).
Proof. exact fit_pure_kde_const_refuted. Qed.
(* F22: a failing fit is not atomic -- GaussianKDE keeps the NEW _params with the OLD _model *)
Theorem C19_kde_failed_fit_not_atomic :
  exists s0 X1 X2 s e,
    new_scipy FKDE [] [("sample_size", natj 1)] = Ok s0 /\
    sfit (set_ss JNone s0) X1 [] = (s, [], None) /\
    sfit (set_ss (natj 1) s) X2 [] = (e, [mkDraw (JStr "kde.fit.resample") 1], Some ValueErr) /\
    s_fitted e = true /\ s_params e <> s_params s /\ s_model e = s_model s.
Proof. exact kde_failed_fit_not_atomic. Qed.
(* F9b: Univariate(selection_sample_size=3).fit reads (and advances) the GLOBAL generator: two global states,
   two different fitted models *)
Theorem C19_fit_wrapper_reads_global_rng :
  exists u X g1 g2,
    new_wrapper [] [("selection_sample_size", UJ (natj 3))] = Ok u /\
    er (fitw2 u X g1) = None /\ er (fitw2 u X g2) = None /\
    to_dict_wrapper (fst (fst (fitw2 u X g1))) <> to_dict_wrapper (fst (fst (fitw2 u X g2))) /\
    snd (fst (fitw2 u X g1)) = mkDraw (JStr "choice") 3 :: g1.
Proof. exact fit_wrapper_reads_global_rng. Qed.
(* F22: Univariate: [fit good; fit data on which no candidate can be fitted] leaves fitted = True, _instance = None *)
Theorem C19_fit_failure_not_atomic_wrapper :
  exists u u1, new_wrapper [] [] = Ok u /\ fitw3 u Stub.X1 [] = (u1, [], None) /\
    er (fitw3 u1 Xbad []) = Some AttributeErr /\
    u_fitted (fst (fst (fitw3 u1 Xbad []))) = true /\ u_instance (fst (fst (fitw3 u1 Xbad []))) = None /\
    q_u (OU (fst (fst (fitw3 u1 Xbad [])))) QCdf = ObsErr AttributeErr /\
    to_dict_wrapper (fst (fst (fitw3 u1 Xbad []))) = Err AttributeErr /\
    q_u (OU (fst (fst (fitw3 u Xbad [])))) QCdf = ObsErr NotFitted.
Proof. exact fit_failure_not_atomic_wrapper. Qed.
(* F22: Clayton: [fit good; fit negatively dependent] raises ValueError but keeps the rejected theta: every query now raises *)
Theorem C19_fit_failure_not_atomic_biv :
  exists b X, fitb clayton0 Stub.P1 = (b, None) /\
    snd (fitb b X) = Some ValueErr /\
    b_theta (fst (fitb b X)) = JNum (-2 # 3) /\
    q_b b BCdf = ObsBiv BCdf Clayton (JNum 2) /\
    q_b (fst (fitb b X)) BCdf = ObsErr ValueErr.
Proof. exact fit_failure_not_atomic_biv. Qed.
(* F22: Clayton: [fit good; fit constant column] raises but stores tau = nan and keeps answering with the OLD theta *)
Theorem C19_fit_pure_biv_full_refuted :
  exists b0 hs X,
    observe_b (fst (fitb (run_fits_b Stub.frank_theta b0 hs) X)) <> observe_b (fst (fitb b0 X)) /\
    b_tau (fst (fitb (run_fits_b Stub.frank_theta b0 hs) X)) = JNaN /\
    q_b (fst (fitb (run_fits_b Stub.frank_theta b0 hs) X)) BCdf = ObsBiv BCdf Clayton (JNum 2) /\
    q_b (fst (fitb b0 X)) BCdf = ObsErr NotFitted.
Proof. exact fit_pure_biv_full_refuted. Qed.

(* ===================================================================================================== *)
(* T2  querying / sampling / serialising an unfitted model raises NotFittedError                          *)
(* ===================================================================================================== *)
Theorem C19_unfitted_raises_scipy : forall f a k s q n g,
    new_scipy f a k = Ok s ->
    query_scipy s q n g = (s, g, ObsErr NotFitted) /\ to_dict_scipy s = Err NotFitted.
Proof. exact unfitted_raises_scipy. Qed.
Theorem C19_unfitted_raises_scipy_gen : forall s q n g,
    s_fitted s = false -> s_ov s = no_ov ->
    query_scipy s q n g = (s, g, ObsErr NotFitted) /\ to_dict_scipy s = Err NotFitted.
Proof. exact unfitted_raises_scipy_gen. Qed.
Theorem C19_unfitted_raises_wrapper : forall a k u q n g,
    new_wrapper a k = Ok u ->
    query_wrapper u q n g = (u, g, ObsErr NotFitted) /\ to_dict_wrapper u = Err NotFitted.
Proof. exact unfitted_raises_wrapper. Qed.
(* ... also for Univariate.sample as it is since the F9 fix (under @random_state; seeded or not) *)
Theorem C19_unfitted_raises_wrapper_rs : forall u k n g,
    u_fitted u = false ->
    snd (query_wrapper_rs u k n g) = ObsErr NotFitted /\ snd (fst (query_wrapper_rs u k n g)) = g.
Proof. exact query_wrapper_rs_unfitted. Qed.
Theorem C19_unfitted_raises_gm : forall a k x q n g,
    new_gm a k = Ok x ->
    query_gm x q n g = (x, g, ObsErr NotFitted) /\ to_dict_gm x = Err NotFitted.
Proof. exact unfitted_raises_gm. Qed.
(* Clayton / Frank / Gumbel: the guard is `not self.theta` (theta None or 0); every query, and sample since the F23 fix *)
Theorem C19_unfitted_raises_biv : forall b t k n g,
    b_cls b = Some t -> t <> Independence -> theta_unset b = true -> b_init b = true ->
    query_biv b k n g = (b, g, ObsErr NotFitted).
Proof. exact unfitted_raises_biv. Qed.
(* the full statement for the bivariate classes: every query and sample of a never-fitted copula raises NotFittedError and
   leaves the copula and every generator untouched.  (Refuted before the F23 fix: sample() compared tau = None with 1 and
   raised TypeError.)  to_dict() is not a query: it serialises the unfitted copula (theta = tau = None), which C14 requires
   to round-trip to an unfitted copula (C14_unfitted_biv_roundtrip). *)
Definition unfitted_raises_full_biv : Prop :=
  forall t rs k n g, t <> Independence ->
    query_biv (mkB (Some t) JNone JNone rs true) k n g = (mkB (Some t) JNone JNone rs true, g, ObsErr NotFitted).
Theorem C19_unfitted_raises_full_biv : unfitted_raises_full_biv.
Proof. intros t rs k n g Ht. apply (unfitted_raises_biv _ t); auto. Qed.
Theorem C19_unfitted_biv_sample : forall t rs n g,
    query_biv (mkB (Some t) JNone JNone rs true) BSample n g
    = (mkB (Some t) JNone JNone rs true, g, ObsErr NotFitted).
Proof. exact unfitted_biv_sample. Qed.
Theorem C19_unfitted_biv_to_dict_serialises : forall t rs i,
    to_dict_biv (mkB (Some t) JNone JNone rs i)
    = Ok (JDict [("copula_type", JStr (ctype_NAME t)); ("theta", JNone); ("tau", JNone)]).
Proof. exact unfitted_biv_to_dict_refuted. Qed.
(* with theta = 0 (Clayton fitted on tau = 0 data, F14a) sample() raises NotFittedError before drawing (before the fix: after
   consuming two draws of the generator) *)
Theorem C19_unfitted_biv_sample_theta0 : forall t n g,
    query_biv (mkB (Some t) (JNum 0) (JNum 0) None true) BSample n g
    = (mkB (Some t) (JNum 0) (JNum 0) None true, g, ObsErr NotFitted).
Proof. exact unfitted_biv_sample_theta0. Qed.

(* ===================================================================================================== *)
(* T4  get_instance: a NEW unfitted object of the prototype's class                                        *)
(* ===================================================================================================== *)
Theorem C19_get_instance_fresh : forall p kw o,
    get_instance_u p kw = Ok o ->
    pristine_u o /\ fitted_u o = false /\ proto_class p = Ok (class_u o).
Proof. exact get_instance_fresh. Qed.
Theorem C19_get_instance_kwargs_override : forall s k kw,
    get_instance_u (PInstS s) (k :: kw) = new_u (KFam (s_fam s)) [] (k :: kw).
Proof. exact get_instance_kwargs_override. Qed.
(* "configured like the prototype" is REFUTED for the six classes without @store_args (F29) *)
Theorem C19_get_instance_drops_seed :
  exists s s', new_scipy FGaussian [] [("random_state", natj 42)] = Ok s /\
    get_instance_u (PInstS s) [] = Ok (OS s') /\ s_rs s = Some (42%Z, []) /\ s_rs s' = None.
Proof. exact get_instance_drops_seed. Qed.
Theorem C19_get_instance_tg_example :
  exists s s1 s2,
    new_scipy FTrunc [JNum 0] [("random_state", natj 7)] = Ok s /\
    sst (sfit s Stub.X1 []) = s1 /\ s_max s1 = JNone /\
    get_instance_u (PInstS s1) [] = Ok (OS s2) /\ s2 = s /\ s_max s2 = JNone /\
    (exists s3, get_instance_u (PInstS s1) [("random_state", UJ JNone)] = Ok (OS s3) /\ s_min s3 = JNone).
Proof. exact get_instance_tg_example. Qed.
Theorem C19_get_instance_names :
  (exists s, get_instance_u (PName "copulas.univariate.gaussian.GaussianUnivariate") [] = Ok (OS s) /\ s_fam s = FGaussian) /\
  (exists s, get_instance_u (PName "copulas.univariate.GaussianKDE") [("sample_size", UJ (natj 5))] = Ok (OS s) /\ s_ss s = natj 5) /\
  (exists u, get_instance_u (PName "copulas.univariate.Univariate") [] = Ok (OU u)) /\
  get_instance_u (PName "Nope") [] = Err ValueErr /\
  get_instance_u (PName "copulas.nomodule.Nope") [] = Err ImportErr /\
  get_instance_u (PName "copulas.univariate.gaussian.Nope") [] = Err AttributeErr /\
  get_instance_u (PName "copulas.univariate.gaussian.GaussianUnivariate") [("foo", UJ (JNum 3))] = Err TypeErr /\
  get_instance_u (PFamCls FGaussian) [("random_state", UJ (JNum (3 # 2)))] = Err TypeErr.
Proof. exact get_instance_names. Qed.
(* construction through the Bivariate entry point: 'independence' evaluates to None (F26) *)
Theorem C19_dispatch_independence_refuted : forall th ta,
    new_biv bworld0 None [("copula_type", JStr "independence")] = (mkBW true [] false, Ok None) /\
    from_dict_biv bworld0 None (biv_dict Independence th ta) = (mkBW true [] false, Err AttributeErr).
Proof. exact dispatch_independence_refuted. Qed.
(* <Subclass>.from_dict / .load: since the F24 fix the class it is called on does not matter (before: Frank.from_dict in
   a fresh interpreter raised AttributeError, and the outcome depended on which class had been used first) *)
Theorem C19_subclass_from_dict_fixed : forall w c j,
    from_dict_biv w (Some c) j = from_dict_biv w None j.
Proof. exact subclass_from_dict_fixed. Qed.
Theorem C19_subclass_from_dict_roundtrip : forall w c t th ta,
    t <> Independence ->
    from_dict_biv w (Some c) (biv_dict t th ta)
    = (mkBW true (bw_own_empty w) (bw_indep_imported w), Ok (mkB (Some t) th ta None true)).
Proof. exact subclass_from_dict_roundtrip. Qed.
Theorem C19_subclass_from_dict_history_independent : forall th ta,
    from_dict_biv bworld0 (Some Frank) (biv_dict Frank th ta)
    = (mkBW true [] false, Ok (mkB (Some Frank) th ta None true)) /\
    from_dict_biv (mkBW true [Frank] false) (Some Frank) (biv_dict Frank th ta)
    = (mkBW true [Frank] false, Ok (mkB (Some Frank) th ta None true)) /\
    from_dict_biv (mkBW true [Frank] false) (Some Clayton) (biv_dict Frank th ta)
    = (mkBW true [Frank] false, Ok (mkB (Some Frank) th ta None true)).
Proof. exact subclass_from_dict_history_independent. Qed.

(* ===================================================================================================== *)
(* T5  no result depends on uninitialised memory (vines; structure model Cop.Model.Vine)                   *)
(* ===================================================================================================== *)
(* Tree.get_tau_matrix allocates np.empty and writes the cells (i, j), j in edges[i].neighbors
   (is_adjacent: a shared CONDITIONED variable); the next tree reads [regular_reads] / [direct_reads] /
   [center_reads].  Full statement: every cell read was written. *)
Definition def_before_use_full : Prop :=
  forall level prev visited,
    unwritten_reads prev (regular_reads level prev visited) = [] /\ unwritten_reads prev (direct_reads prev) = [].
(* second trees are fine: on edges of a first tree _check_constraint(level 2) IS is_adjacent *)
Theorem C19_level2_constraint_is_adjacent : forall a b : edge,
    e_D a = [] -> e_D b = [] -> (e_L a <? e_R a)%nat = true -> (e_L b <? e_R b)%nat = true ->
    (e_L a =? e_L b)%nat && (e_R a =? e_R b)%nat = false ->
    forall bound, (e_R a <? bound)%nat = true -> (e_R b <? bound)%nat = true -> (bound <=? 6)%nat = true ->
    check_constraint 2 a b = is_adjacent a b.
Proof. exact level2_constraint_is_adjacent. Qed.
(* REFUTED from the third tree on (finding F8): D-vine 0-1-2-3, second tree (0,2|1), (1,3|2): the pair passes
   _check_constraint(level 3) but shares no conditioned variable: cell (0,1) is read, nothing was written *)
Theorem C19_def_before_use_refuted :
  get_constraints dvine_t2 = [[]; []] /\
  check_constraint 3 (nth 0 dvine_t2 (mkEdge 0 0 0 [] None)) (nth 1 dvine_t2 (mkEdge 0 0 0 [] None)) = true /\
  regular_reads 3 dvine_t2 [0%nat] = [(0%nat, 1%nat)] /\
  unwritten_reads dvine_t2 (regular_reads 3 dvine_t2 [0%nat]) = [(0%nat, 1%nat)] /\
  unwritten_reads dvine_t2 (direct_reads dvine_t2) = [(0%nat, 1%nat)].
Proof. exact def_before_use_refuted. Qed.
Theorem C19_def_before_use_full_refuted : ~ def_before_use_full.
Proof.
  intros H. destruct (H 3%nat dvine_t2 [0%nat]) as [H1 _].
  destruct def_before_use_refuted as (_ & _ & _ & H2 & _). rewrite H2 in H1. discriminate H1.
Qed.
(* with five variables two unwritten cells are COMPARED: uninitialised memory chooses the structure *)
Theorem C19_def_before_use_structure_refuted :
  regular_reads 3 rvine5_t2 [0%nat] = [(0%nat, 1%nat); (0%nat, 2%nat)] /\
  unwritten_reads rvine5_t2 (regular_reads 3 rvine5_t2 [0%nat]) = [(0%nat, 1%nat); (0%nat, 2%nat)].
Proof. exact def_before_use_structure_refuted. Qed.

(* ===================================================================================================== *)
(* Bridges: the control skeleton of copulas/univariate/base.py, GENERATED from the AST on every run       *)
(* (CopRun.Gen_unictl, tools/vf/unictlgen.py), equals the hand-written Model.Lifecycle                     *)
(* ===================================================================================================== *)
(* Gen_unictl.v has a fixed vocabulary (its header: the M monad over (sinst * installed generator), attribute get/set, the
   override table, the np.unique summary, scipy delegation, @random_state) and one definition per method, built statement by
   statement from the source.  Each theorem below is about ALL states / inputs.  The subclass hooks (_fit, _fit_constant,
   _is_constant, _extract_constant) are parameters of the generated definitions; they are instantiated with the model's own view
   of them ([model__fit] ... : the corresponding pieces of Lifecycle.fit_scipy / is_constant / extract_constant).  GaussianKDE
   overrides the five query methods and _set_params, hence [s_fam s <> FKDE] there (checked against the source by the
   translator: which family class defines which skeleton method). *)
Ltac m_unfold := unfold m_seq, m_bind, m_ret, m_raise, m_lift, py_get_fitted, py_set_fitted, py_set__constant_value, py_get__params,
  py_set__params, py_bind_method, py_instance_dict_pop, py_first_unique, py_dict_copy.

Theorem C19_bridge_check_fit : forall s src,
  gen_Univariate_check_fit (s, src) = ((s, src), if s_fitted s then Ok tt else Err NotFitted).
Proof. intros. unfold gen_Univariate_check_fit. m_unfold. cbn [fst snd]. destruct (s_fitted s); reflexivity. Qed.

Theorem C19_bridge_replace_constant_methods : forall s src,
  gen_Univariate__replace_constant_methods (s, src) = ((set_ov all_ov s, src), Ok tt).
Proof. intros. reflexivity. Qed.

Theorem C19_bridge_set_constant_value : forall c s src,
  gen_Univariate__set_constant_value c (s, src) = ((set_constant c s, src), Ok tt).
Proof. intros. reflexivity. Qed.

Theorem C19_bridge_check_constant_value : forall X s src,
  gen_Univariate__check_constant_value X (s, src) =
  match d_const X with
  | Some c => ((set_constant (qj c) s, src), Ok true)
  | None => ((set_ov no_ov (set_const None s), src), Ok false)
  end.
Proof.
  intros. unfold gen_Univariate__check_constant_value, py_unique.
  destruct (d_const X) as [c|]; [reflexivity|].
  destruct (d_n X =? 0)%nat; reflexivity.
Qed.

Section UniCtlFit.
  Variable o_sfit : family -> data -> list Q -> list Q.
  Variable o_tg_opt : data -> Q -> Q -> Q * Q.
  Variable o_tolist : data -> list Q.
  Variable o_resample : data -> jv -> jv -> nat -> grng -> list Q.

  (* the model's view of the subclass hook _fit_constant(X): assigns _params *)
  Definition model__fit_constant (X : data) : M unit := fun w =>
    match d_const X with
    | Some c => match constant_params o_sfit (fst w) X c with
                | Ok p => ((set_params (Some p) (fst w), snd w), Ok tt)
                | Err e => (w, Err e)
                end
    | None => (w, Err Unmodelled)
    end.
  (* the model's view of the subclass hook _fit(X) *)
  Definition model__fit (X : data) : M unit := fun w =>
    let s := fst w in
    match snd w with
    | RsOwn _ => (w, Err Unmodelled)
    | RsGlobal g =>
      match s_fam s with
      | FTrunc =>
          let lo := if is_none (s_min s) then qj (d_min X - EPS) else s_min s in
          let hi := if is_none (s_max s) then qj (d_max X + EPS) else s_max s in
          match jv_q lo, jv_q hi with
          | Some lo, Some hi =>
              let '(loc, scale) := o_tg_opt X lo hi in
              let p := [("a", jdiv (lo - loc) scale); ("b", jdiv (hi - loc) scale);
                        ("loc", qj loc); ("scale", qj scale)] in
              ((set_params (Some p) s, RsGlobal g), Ok tt)
          | _, _ => (w, Err TypeErr)
          end
      | FKDE =>
          let step :=
            if truthy (s_ss s) then
              match kde_check (d_n X) false (s_bw s) (s_w s) with
              | None =>
                  match jv_nat (s_ss s) with
                  | Some n => Ok (JList [JList (map qj (o_resample X (s_bw s) (s_w s) n g))],
                                  mkDraw (JStr "kde.fit.resample") n :: g)
                  | None => Err TypeErr
                  end
              | Some e => Err e
              end
            else Ok (JList (map qj (o_tolist X)), g) in
          match step with
          | Err e => (w, Err e)
          | Ok (ds, g1) =>
              let s1 := set_params (Some [("dataset", ds)]) s in
              let '(s2, m) := kde_get_model s1 in
              match m with
              | Ok km => ((set_model (Some km) s2, RsGlobal g1), Ok tt)
              | Err e => ((s2, RsGlobal g1), Err e)
              end
          end
      | f => ((set_params (Some (plain_params o_sfit f X)) s, RsGlobal g), Ok tt)
      end
    end.

  Definition run_fit (c : M unit) (s : sinst) (g : grng) : sinst * grng * option err :=
    let '((s', src'), r) := c (s, RsGlobal g) in
    (s', match src' with RsGlobal g' => g' | RsOwn _ => g end, match r with Ok _ => None | Err e => Some e end).

  Theorem C19_bridge_scipy_fit : forall s X g,
    run_fit (gen_ScipyModel_fit model__fit_constant model__fit X) s g
    = fit_scipy o_sfit o_tg_opt o_tolist o_resample s X g.
  Proof.
    intros. unfold run_fit, gen_ScipyModel_fit, fit_scipy.
    unfold m_seq at 1. unfold m_bind at 1. unfold m_bind at 1.
    rewrite C19_bridge_check_constant_value.
    destruct (d_const X) as [c|] eqn:EC.
    - unfold model__fit_constant. rewrite EC. m_unfold. cbn [fst snd].
      destruct (constant_params o_sfit (set_constant (qj c) s) X c); reflexivity.
    - unfold model__fit. m_unfold. cbn [fst snd].
      set (s0 := set_ov no_ov (set_const None s)).
      destruct (s_fam s0) eqn:EF; try reflexivity.
      + destruct (jv_q (if is_none (s_min s0) then qj (d_min X - EPS) else s_min s0)); [|reflexivity].
        destruct (jv_q (if is_none (s_max s0) then qj (d_max X + EPS) else s_max s0)); [|reflexivity].
        destruct (o_tg_opt X q q0). reflexivity.
      + match goal with |- context [if truthy ?a then ?b else ?c] => destruct (if truthy a then b else c) as [[ds g1]|e] end; [|reflexivity].
        destruct (kde_get_model (set_params (Some [("dataset", ds)]) s0)) as [s2 [km|e]]; reflexivity.
  Qed.

  (* the fit-purity theorems, transferred to the generated fit *)
  Definition gen_fit (s : sinst) (X : data) (g : grng) : sinst * grng * option err :=
    run_fit (gen_ScipyModel_fit model__fit_constant model__fit X) s g.
  Fixpoint gen_run_fits (s : sinst) (hs : list data) (g : grng) : sinst * grng :=
    match hs with
    | [] => (s, g)
    | X :: r => let '(s', g', _) := gen_fit s X g in gen_run_fits s' r g'
    end.
  Lemma gen_run_fits_bridge : forall hs s g,
    gen_run_fits s hs g = run_fits_s o_sfit o_tg_opt o_tolist o_resample s hs g.
  Proof.
    induction hs as [|X r IH]; intros s g; [reflexivity|].
    cbn [gen_run_fits run_fits_s]. unfold gen_fit. rewrite C19_bridge_scipy_fit.
    destruct (fit_scipy o_sfit o_tg_opt o_tolist o_resample s X g) as [[s' g'] e]. apply IH.
  Qed.
  Theorem C19_gen_fit_pure_scipy_full : forall s0 hs X g0 g,
      s_fam s0 <> FKDE ->
      er (gen_fit (fst (gen_run_fits s0 hs g0)) X g) = None ->
      observe_s (st (gen_fit (fst (gen_run_fits s0 hs g0)) X g)) = observe_s (st (gen_fit s0 X g)).
  Proof.
    intros s0 hs X g0 g. rewrite gen_run_fits_bridge. unfold gen_fit. rewrite !C19_bridge_scipy_fit.
    apply fit_pure_scipy_full.
  Qed.
  Theorem C19_gen_fit_pure_plain : forall s0 hs X g0 g,
      plain (s_fam s0) ->
      observe_s (st (gen_fit (fst (gen_run_fits s0 hs g0)) X g)) = observe_s (st (gen_fit s0 X g)).
  Proof.
    intros s0 hs X g0 g. rewrite gen_run_fits_bridge. unfold gen_fit. rewrite !C19_bridge_scipy_fit.
    apply fit_pure_plain.
  Qed.
End UniCtlFit.

Definition model__is_constant : M bool :=
  fun w => (w, match s_params (fst w) with Some p => is_constant (s_fam (fst w)) p | None => Err TypeErr end).
Definition model__extract_constant : M jv :=
  fun w => (w, match s_params (fst w) with Some p => extract_constant (s_fam (fst w)) p | None => Err TypeErr end).

Theorem C19_bridge_set_params : forall s src p, s_fam s <> FKDE ->
  gen_ScipyModel__set_params model__is_constant model__extract_constant p (s, src) =
  match set_params_scipy s p with
  | Ok s' => ((s', src), Ok tt)
  | Err e => ((set_params (Some p) s, src), Err e)
  end.
Proof.
  intros s src p HF. unfold gen_ScipyModel__set_params, set_params_scipy, model__is_constant, model__extract_constant, bind.
  m_unfold. cbv beta iota delta [fst snd].
  change (s_params (set_params (Some p) s)) with (Some p). change (s_fam (set_params (Some p) s)) with (s_fam s).
  cbv beta iota.
  destruct (is_constant (s_fam s) p) as [[|]|e]; try reflexivity.
  - cbv beta iota delta [fst snd].
    change (s_params (set_params (Some p) s)) with (Some p). change (s_fam (set_params (Some p) s)) with (s_fam s).
    cbv beta iota.
    destruct (extract_constant (s_fam s) p); [|reflexivity]. rewrite C19_bridge_set_constant_value. reflexivity.
  - destruct (s_fam s); try reflexivity. congruence.
Qed.

(* ---- queries ---- *)
Definition run_q (c : M obs) (s : sinst) (g : grng) : sinst * grng * obs :=
  let '((s', src'), r) := c (s, RsGlobal g) in
  (s', match src' with RsGlobal g' => g' | RsOwn _ => g end, match r with Ok o => o | Err e => ObsErr e end).

Lemma class_query_plain : forall s k, s_fam s <> FKDE ->
  class_query s k = if negb (s_fitted s) then ObsErr NotFitted
                    else match s_params s with Some p => ObsScipy k (s_fam s) p | None => ObsErr TypeErr end.
Proof. intros s k H. unfold class_query. destruct (s_fam s); try reflexivity. congruence. Qed.

Lemma gen_plain_query : forall meth k s src, scipy_slot meth = Some k -> s_fam s <> FKDE ->
  m_seq gen_Univariate_check_fit (py_model_call meth) (s, src)
  = ((s, src), match class_query s k with ObsErr e => Err e | o => Ok o end).
Proof.
  intros meth k s src Hm HF. unfold m_seq, m_bind. rewrite C19_bridge_check_fit, class_query_plain by exact HF.
  destruct (s_fitted s); [|reflexivity]. unfold py_model_call. rewrite Hm. cbn [fst negb].
  destruct (s_params s); reflexivity.
Qed.

Ltac plain_query HF :=
  unfold run_q, py_call_query, query_scipy; cbn [fst snd];
  match goal with |- context [ov_slot ?n] => let v := eval vm_compute in (ov_slot n) in change (ov_slot n) with v end;
  cbv beta iota;
  match goal with
  | |- context [overridden ?s ?k] => destruct (overridden s k); [reflexivity|]
  | _ => idtac
  end.

Theorem C19_bridge_query_pdf : forall s n g, s_fam s <> FKDE ->
  run_q (py_call_query "probability_density" gen_ScipyModel_probability_density) s g = query_scipy s QPdf n g.
Proof.
  intros s n g HF. plain_query HF. unfold gen_ScipyModel_probability_density.
  rewrite (gen_plain_query "pdf" QPdf) by (reflexivity || exact HF).
  rewrite class_query_plain by exact HF. destruct (s_fitted s); [|reflexivity]. destruct (s_params s); reflexivity.
Qed.
Theorem C19_bridge_query_cdf : forall s n g, s_fam s <> FKDE ->
  run_q (py_call_query "cumulative_distribution" gen_ScipyModel_cumulative_distribution) s g = query_scipy s QCdf n g.
Proof.
  intros s n g HF. plain_query HF. unfold gen_ScipyModel_cumulative_distribution.
  rewrite (gen_plain_query "cdf" QCdf) by (reflexivity || exact HF).
  rewrite class_query_plain by exact HF. destruct (s_fitted s); [|reflexivity]. destruct (s_params s); reflexivity.
Qed.
Theorem C19_bridge_query_ppf : forall s n g, s_fam s <> FKDE ->
  run_q (py_call_query "percent_point" gen_ScipyModel_percent_point) s g = query_scipy s QPpf n g.
Proof.
  intros s n g HF. plain_query HF. unfold gen_ScipyModel_percent_point.
  rewrite (gen_plain_query "ppf" QPpf) by (reflexivity || exact HF).
  rewrite class_query_plain by exact HF. destruct (s_fitted s); [|reflexivity]. destruct (s_params s); reflexivity.
Qed.
(* log_probability_density is NOT one of the four replaced attributes: always the class method; every scipy MODEL_CLASS has logpdf *)
Theorem C19_bridge_query_logpdf : forall s n g, s_fam s <> FKDE ->
  run_q (py_call_query "log_probability_density" gen_ScipyModel_log_probability_density) s g = query_scipy s QLogPdf n g.
Proof.
  intros s n g HF. plain_query HF. change (overridden s QLogPdf) with false. cbv iota.
  unfold gen_ScipyModel_log_probability_density.
  unfold m_seq at 1. unfold m_bind at 1. rewrite C19_bridge_check_fit, class_query_plain by exact HF.
  destruct (s_fitted s); [|reflexivity].
  unfold m_bind, py_model_hasattr, py_model_call. cbn [fst negb].
  change (scipy_slot "logpdf") with (Some QLogPdf). cbv beta iota. cbn [fst snd].
  destruct (s_params s); reflexivity.
Qed.
Lemma set_rs_same : forall s, set_rs (s_rs s) s = s.
Proof. destruct s; reflexivity. Qed.
Theorem C19_bridge_query_sample : forall s n g, s_fam s <> FKDE ->
  run_q (py_call_query "sample" (gen_ScipyModel_sample n)) s g = query_scipy s QSample n g.
Proof.
  intros s n g HF. plain_query HF. unfold gen_ScipyModel_sample, py_random_state. cbn [fst snd].
  rewrite class_query_plain by exact HF.
  destruct (s_rs s) as [[seed ds]|] eqn:ER.
  - unfold m_seq, m_bind. rewrite C19_bridge_check_fit.
    destruct (s_fitted s); cbn [negb fst snd]; [|rewrite <- ER, set_rs_same; reflexivity].
    unfold py_model_rvs. cbn [fst snd].
    destruct (s_params s); cbn [fst snd push_draw]; [reflexivity|rewrite <- ER, set_rs_same; reflexivity].
  - unfold m_seq, m_bind. rewrite C19_bridge_check_fit.
    destruct (s_fitted s); cbn [negb fst snd]; [|reflexivity].
    unfold py_model_rvs. cbn [fst snd].
    destruct (s_params s); reflexivity.
Qed.

(* ---- to_dict / from_dict ---- *)
Definition dict_result (r : result params) : result jv := match r with Ok d => Ok (JDict d) | Err e => Err e end.
Theorem C19_bridge_get_params : forall s src,
  gen_ScipyModel__get_params (s, src) = ((s, src), match s_params s with Some p => Ok p | None => Err AttributeErr end).
Proof. intros. unfold gen_ScipyModel__get_params, m_bind, py_get__params, py_copy_opt, m_lift. cbn [fst]. destruct (s_params s); reflexivity. Qed.
Theorem C19_bridge_to_dict : forall s src, exists r,
  gen_Univariate_to_dict gen_ScipyModel__get_params (s, src) = ((s, src), r) /\ dict_result r = to_dict_scipy s.
Proof.
  intros. unfold gen_Univariate_to_dict, to_dict_scipy.
  unfold m_seq at 1. unfold m_bind at 1. rewrite C19_bridge_check_fit.
  destruct (s_fitted s); [|eexists; split; reflexivity]. cbn [negb].
  unfold m_bind at 1. rewrite C19_bridge_get_params.
  destruct (s_params s) as [p|]; [|eexists; split; reflexivity].
  unfold m_bind, py_self_class_is, py_qualified_name_self, py_qualified_name__instance, m_ret, py_setitem. cbn [fst].
  assert (E : String.eqb "Univariate" (fam_name (s_fam s)) = false) by (destruct (s_fam s); reflexivity).
  rewrite E. eexists; split; reflexivity.
Qed.

Definition as_scipy (r : result pyobj) : result sinst :=
  match r with Ok (PoS s) => Ok s | Ok _ => Err Unmodelled | Err e => Err e end.
Theorem C19_bridge_univariate_set_params : gen_Univariate__set_params_raises = NotImplementedErr.
Proof. reflexivity. Qed.
Theorem C19_bridge_from_dict : forall j,
  as_scipy (gen_Univariate_from_dict (gen_ScipyModel__set_params model__is_constant model__extract_constant) j)
  = from_dict_scipy j.
Proof.
  intros j. unfold gen_Univariate_from_dict, from_dict_scipy.
  destruct j; try reflexivity. unfold r_bind, py_jv_copy, py_dict_pop. cbn [bind].
  destruct (dict_pop "type" d) as [[v rest]|]; [|reflexivity]. cbn [bind fst snd].
  destruct v; try reflexivity.
  unfold py_get_instance. destruct (resolve_name s) as [c|e]; [|reflexivity]. cbn [bind].
  destruct c as [f| | | |t]; try reflexivity.
  rewrite new_scipy_default. cbn [bind]. unfold py_obj__set_params.
  assert (HS : s_fam (fresh f) = f) by reflexivity.
  destruct f; rewrite HS;
    try (unfold py_run_on; rewrite C19_bridge_set_params by (rewrite HS; discriminate);
         destruct (set_params_scipy _ rest); reflexivity).
  destruct (set_params_scipy (fresh FKDE) rest); reflexivity.
Qed.

(* ===================================================================================================== *)
(* Facts of the CURRENT source (generated from the AST on every run)                                       *)
(* ===================================================================================================== *)
(* @store_args: exactly these classes; it is what Lifecycle.has_store_args / u_stored / g_stored assume *)
Theorem C19_store_args_classes :
  store_args_classes = ["GaussianKDE"; "GaussianMultivariate"; "TruncatedGaussian"; "Univariate"; "VineCopula"].
Proof. vm_compute. reflexivity. Qed.
Theorem C19_model_store_args_agrees : forall f,
    has_store_args f = existsb (String.eqb (fam_name f)) store_args_classes.
Proof. intros f. destruct f; vm_compute; reflexivity. Qed.
(* @check_valid_values wraps (as the outermost decorator) the fit of both public multivariate models *)
Theorem C19_validated_fits : validated_fits = [("GaussianMultivariate", true); ("VineCopula", true)].
Proof. vm_compute. reflexivity. Qed.
(* the public query methods whose first statement is self.check_fit() *)
Theorem C19_check_fit_first :
  check_fit_first =
  [("Bivariate", "percent_point"); ("Bivariate", "sample");
   ("Clayton", "cumulative_distribution"); ("Clayton", "partial_derivative"); ("Clayton", "percent_point"); ("Clayton", "probability_density");
   ("Frank", "cumulative_distribution"); ("Frank", "partial_derivative"); ("Frank", "percent_point"); ("Frank", "probability_density");
   ("GaussianKDE", "cumulative_distribution"); ("GaussianKDE", "log_probability_density"); ("GaussianKDE", "percent_point");
   ("GaussianKDE", "probability_density"); ("GaussianKDE", "sample");
   ("GaussianMultivariate", "cumulative_distribution"); ("GaussianMultivariate", "probability_density"); ("GaussianMultivariate", "sample");
   ("GaussianMultivariate", "to_dict");
   ("Gumbel", "cumulative_distribution"); ("Gumbel", "partial_derivative"); ("Gumbel", "percent_point"); ("Gumbel", "probability_density");
   ("Independence", "percent_point");
   ("ScipyModel", "cumulative_distribution"); ("ScipyModel", "log_probability_density"); ("ScipyModel", "percent_point");
   ("ScipyModel", "probability_density"); ("ScipyModel", "sample");
   ("Univariate", "cumulative_distribution"); ("Univariate", "log_probability_density"); ("Univariate", "percent_point");
   ("Univariate", "probability_density"); ("Univariate", "sample"); ("Univariate", "to_dict"); ("VineCopula", "sample")].
Proof. vm_compute. reflexivity. Qed.
(* ... and those that do not: the log-densities delegate to a guarded method; Bivariate.to_dict and VineCopula.to_dict of an
   unfitted object serialise it by design (C14: unfitted models round-trip); Tree/Edge.to_dict are helpers.  Bivariate.sample and
   VineCopula.sample moved to the list above with the F23 / F30 fixes (before: TypeError / AttributeError when unfitted) *)
Theorem C19_no_check_fit_first :
  no_check_fit_first =
  [("Bivariate", "log_probability_density"); ("Bivariate", "partial_derivative"); ("Bivariate", "to_dict");
   ("Edge", "to_dict");
   ("Independence", "cumulative_distribution"); ("Independence", "partial_derivative"); ("Independence", "probability_density");
   ("Multivariate", "log_probability_density"); ("Tree", "to_dict"); ("VineCopula", "to_dict")].
Proof. vm_compute. reflexivity. Qed.
(* the guards themselves *)
Theorem C19_guard_shapes :
  guard_shapes =
  [("check_constant_value", "uniques = np.unique(X) ;; if len(uniques) == 1: self._set_constant_value(uniques[0]) return True ;; self._constant_value = None ;; for method_name in ('cumulative_distribution', 'percent_point', 'probability_density', 'sample'): self.__dict__.pop(method_name, None) ;; return False");
   ("check_fit:Bivariate", "if not self.theta: raise NotFittedError('This model is not fitted.') ;; self.check_theta()");
   ("check_fit:Multivariate", "if not self.fitted: raise NotFittedError('This model is not fitted.')");
   ("check_fit:Univariate", "if not self.fitted: raise NotFittedError('This model is not fitted.')");
   ("check_valid_values", "if isinstance(X, pd.DataFrame): W = X.to_numpy() else: W = X ;; if not len(W): raise ValueError('Your dataset is empty.') ;; if not (np.issubdtype(W.dtype, np.floating) or np.issubdtype(W.dtype, np.integer)): raise ValueError('There are non-numerical values in your data.') ;; if np.isnan(W).any().any(): raise ValueError('There are nan values in your data.') ;; return function(self, X, *args, **kwargs)");
   ("get_instance", "instance = None ;; if isinstance(obj, str): package, name = obj.rsplit('.', 1) instance = getattr(importlib.import_module(package), name)(**kwargs) elif isinstance(obj, type): instance = obj(**kwargs) elif kwargs: instance = obj.__class__(**kwargs) else: args = getattr(obj, '__args__', ()) kwargs = getattr(obj, '__kwargs__', {}) instance = obj.__class__(*args, **kwargs) ;; return instance");
   ("store_args", "args_copy = deepcopy(args) ;; kwargs_copy = deepcopy(kwargs) ;; __init__(self, *args, **kwargs) ;; self.__args__ = args_copy ;; self.__kwargs__ = kwargs_copy")].
Proof. vm_compute. reflexivity. Qed.
(* what the fit paths assign on self: nothing else is state a fit can leave behind.  Since the fixes
   _check_constant_value resets _constant_value (and pops the four overrides, see guard_shapes: F5) and
   TruncatedGaussian._fit assigns only _params (F6); GaussianKDE._get_model still assigns _sample_size (F7). *)
Theorem C19_fit_writes :
  fit_writes =
  [("BetaUnivariate", "_fit", ["_params"]); ("BetaUnivariate", "_fit_constant", ["_params"]);
   ("Bivariate", "_compute_theta", ["theta"]); ("Bivariate", "fit", ["tau"]);
   ("GammaUnivariate", "_fit", ["_params"]); ("GammaUnivariate", "_fit_constant", ["_params"]);
   ("GaussianKDE", "_fit", ["_model"; "_params"]); ("GaussianKDE", "_fit_constant", ["_params"]);
   ("GaussianKDE", "_get_model", ["_sample_size"]); ("GaussianKDE", "_set_params", ["_model"; "_params"]);
   ("GaussianMultivariate", "fit", ["columns"; "correlation"; "fitted"; "univariates"]);
   ("GaussianUnivariate", "_fit", ["_params"]); ("GaussianUnivariate", "_fit_constant", ["_params"]);
   ("Independence", "fit", []);
   ("LogLaplace", "_fit", ["_params"]); ("LogLaplace", "_fit_constant", ["_params"]);
   ("Multivariate", "fit", []);
   ("ScipyModel", "_fit", []); ("ScipyModel", "_set_params", ["_params"]); ("ScipyModel", "fit", ["fitted"]);
   ("StudentTUnivariate", "_fit", ["_params"]); ("StudentTUnivariate", "_fit_constant", ["_params"]);
   ("Tree", "fit", ["edges"; "fitted"; "level"; "n_nodes"; "previous_tree"; "tau_matrix"; "u_matrix"]);
   ("TruncatedGaussian", "_fit", ["_params"]); ("TruncatedGaussian", "_fit_constant", ["_params"]);
   ("UniformUnivariate", "_fit", ["_params"]); ("UniformUnivariate", "_fit_constant", ["_params"]);
   ("Univariate", "_check_constant_value", ["_constant_value"]);
   ("Univariate", "_replace_constant_methods", ["cumulative_distribution"; "percent_point"; "probability_density"; "sample"]);
   ("Univariate", "_set_constant_value", ["_constant_value"]);
   ("Univariate", "_set_params", []);
   ("Univariate", "fit", ["_instance"; "fitted"]);
   ("VineCopula", "fit", ["columns"; "depth"; "fitted"; "n_sample"; "n_var"; "ppfs"; "tau_mat"; "trees"; "truncated"; "u_matrix"; "unis"])].
Proof. vm_compute. reflexivity. Qed.


(* ===================================================================================================== *)
(* Non-vacuity                                                                                             *)
(* ===================================================================================================== *)
Example C19_benign_nonvacuous :
  benign (fresh FGaussian) [Stub.X1; Stub.X10] Stub.X50 /\
  benign (fresh FGaussian) [Stub.X1; Stub.Xc] Stub.Xc /\
  er (sfit (srun (fresh FGaussian) [Stub.X1; Stub.X10]) Stub.X50 []) = None.
Proof. exact benign_nonvacuous_plain. Qed.
Example C19_benign_nonvacuous_tg :
  exists s0, new_scipy FTrunc [JNum 0; JNum 100] [] = Ok s0 /\
    benign s0 [Stub.X1; Stub.X10] Stub.X50 /\
    er (sfit (srun s0 [Stub.X1; Stub.X10]) Stub.X50 []) = None.
Proof. exact benign_nonvacuous_tg. Qed.
Example C19_benign_nonvacuous_kde :
  exists s0, new_scipy FKDE [natj 4] [] = Ok s0 /\
    benign s0 [Stub.X1; Stub.X10] Stub.X50 /\
    er (sfit (srun s0 [Stub.X1; Stub.X10]) Stub.X50 []) = None.
Proof. exact benign_nonvacuous_kde. Qed.
Example C19_validation_nonvacuous :
  exists x, new_gm [] [] = Ok x /\
    Stub.fit_gm x Stub.Tempty [] = (x, [], Some ValueErr) /\
    exists x1, Stub.fit_gm x Stub.T1 [] = (x1, [], None) /\
               Stub.fit_gm x1 Stub.Tempty [] = (x1, [], Some ValueErr) /\
               Stub.fit_gm x1 (mkT 3 false false false []) [] = (x1, [], Some ValueErr) /\
               Stub.fit_gm x1 (mkT 4 false true true []) [] = (x1, [], Some ValueErr).
Proof. exact validation_nonvacuous. Qed.
(* the machine really runs a history: unfitted query, constant fit, degenerate answer, refit, normal answer again
   (before the F5 fix the last observation was still ObsConst QCdf (Some 3)) *)
Example C19_history_example :
  Stub.run_history (KFam FGaussian)
    [Query (QU QCdf) 1; Fit (DUni Stub.Xc); Query (QU QCdf) 1; Fit (DUni Stub.X1); Query (QU QCdf) 1]
  = [ObsErr NotFitted; ObsNone; ObsConst QCdf (Some (JNum 3)); ObsNone;
     ObsScipy QCdf FGaussian [("loc", JNum 4); ("scale", JNum (3 # 2))]].
Proof. vm_compute. reflexivity. Qed.

Print Assumptions C19_fit_pure_full.
Print Assumptions C19_fit_pure_full_kde_refuted.
Print Assumptions C19_refit_after_constant_fixed.
Print Assumptions C19_fit_pure_scipy_partial.
Print Assumptions C19_fit_pure_plain.
Print Assumptions C19_fit_pure_tg.
Print Assumptions C19_fit_pure_kde_partial.
Print Assumptions C19_fit_pure_wrapper.
Print Assumptions C19_fit_pure_biv.
Print Assumptions C19_fit_pure_gm.
Print Assumptions C19_fit_pure_tg_witness_fixed.
Print Assumptions C19_subclass_from_dict_fixed.
Print Assumptions C19_fit_pure_kde_refuted.
Print Assumptions C19_fit_failure_not_atomic_biv.
Print Assumptions C19_fit_failure_not_atomic_wrapper.
Print Assumptions C19_validation.
Print Assumptions C19_unfitted_raises_scipy.
Print Assumptions C19_unfitted_raises_wrapper.
Print Assumptions C19_unfitted_raises_gm.
Print Assumptions C19_unfitted_raises_biv.
Print Assumptions C19_unfitted_raises_full_biv.
Print Assumptions C19_get_instance_fresh.
Print Assumptions C19_get_instance_replays_ctor.
Print Assumptions C19_get_instance_no_store_args.
Print Assumptions C19_def_before_use_full_refuted.
Print Assumptions C19_level2_constraint_is_adjacent.
Print Assumptions C19_check_fit_first.
Print Assumptions C19_fit_writes.
Print Assumptions C19_bridge_check_fit.
Print Assumptions C19_bridge_replace_constant_methods.
Print Assumptions C19_bridge_set_constant_value.
Print Assumptions C19_bridge_check_constant_value.
Print Assumptions C19_bridge_scipy_fit.
Print Assumptions C19_bridge_set_params.
Print Assumptions C19_bridge_query_pdf.
Print Assumptions C19_bridge_query_cdf.
Print Assumptions C19_bridge_query_ppf.
Print Assumptions C19_bridge_query_logpdf.
Print Assumptions C19_bridge_query_sample.
Print Assumptions C19_bridge_get_params.
Print Assumptions C19_bridge_to_dict.
Print Assumptions C19_bridge_univariate_set_params.
Print Assumptions C19_bridge_from_dict.
Print Assumptions C19_gen_fit_pure_scipy_full.
Print Assumptions C19_gen_fit_pure_plain.
