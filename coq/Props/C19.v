From Coq Require Import ZArith QArith List String Bool.
From Cop Require Import Model.Lifecycle Model.LifecycleTab Spec.LifecycleProofs.
From CopRun Require Import Gen_c19facts.
Import ListNotations.
