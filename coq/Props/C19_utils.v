(* C19 (second file) -- copulas/utils.py: get_instance, get_qualified_name, store_args, check_valid_values.
   Gen_utils.v is generated from the CURRENT source on every run (tools/vf/utilsgen.py); this file proves every generated
   definition equal to the hand-written model of coq/Model/Lifecycle.v, for all inputs.  It is copied into the build directory
   and compiled on every run.  Nothing here is proved about CPython: the py_* vocabulary (header of Gen_utils.v) is the
   denotation of the Python operations and part of the trusted base. *)
From Coq Require Import ZArith QArith List String Bool Lia.
From Cop Require Import Model.Lifecycle.
From CopRun Require Import Gen_utils.
Import ListNotations.
Open Scope string_scope.
Open Scope list_scope.

(* ------------------------------------------------------------------------------------------------------------------ *)
(* 1. get_instance                                                                                                     *)
(* ------------------------------------------------------------------------------------------------------------------ *)
Lemma uargs_jv_map_UJ : forall a, uargs_jv (map UJ a) = Some a.
Proof. induction a as [|x a IH]; simpl; [reflexivity | rewrite IH; reflexivity]. Qed.

Lemma ukw_jv_map_UJ : forall k, ukw_jv (map (fun kv : string * jv => (fst kv, UJ (snd kv))) k) = Some k.
Proof. induction k as [|[n j] k IH]; simpl; [reflexivity | rewrite IH; reflexivity]. Qed.

Lemma r_bind_return : forall (r : result uobj), r_bind r (fun i => py_return_opt (Some i)) = r.
Proof. intros [a|e]; reflexivity. Qed.

Lemma resolve_name_split : forall s,
  resolve_name s =
  r_bind (py_rsplit_dot_unpack2 (PName s)) (fun '(m, n) => r_bind (py_import_module m) (fun m' => py_getattr_module m' n)).
Proof.
  intros s. unfold resolve_name, py_rsplit_dot_unpack2.
  destruct (rsplit_dot s) as [[m n]|]; [|reflexivity].
  cbv beta iota delta [r_bind py_import_module].
  destruct (mem_str m known_modules); reflexivity.
Qed.

(* the generated get_instance IS the model's get_instance_u: for a qualified name (incl. every failure: no dot, unknown module,
   unknown attribute), a class, an instance with keyword arguments (stored arguments ignored), an instance without (the arguments
   @store_args recorded are replayed; none recorded: the bare class) *)
Theorem C19u_bridge_get_instance : forall (p : uproto) (kw : list (string * uarg)),
  gen_get_instance p kw = get_instance_u p kw.
Proof.
  intros p kw. unfold gen_get_instance, get_instance_u.
  destruct p as [n | | f | s | u]; simpl.
  - (* qualified name *)
    rewrite resolve_name_split. unfold py_rsplit_dot_unpack2.
    destruct (rsplit_dot n) as [[m nm]|]; [|reflexivity].
    cbv beta iota delta [r_bind py_import_module bind].
    destruct (mem_str m known_modules); [|reflexivity].
    destruct (py_getattr_module m nm) as [c|e]; [|reflexivity].
    unfold py_call_class. destruct (new_u c [] kw); reflexivity.
  - apply r_bind_return.
  - apply r_bind_return.
  - (* instance of a scipy family *)
    destruct kw as [|kv kw]; simpl.
    + unfold py_getattr___args__, py_getattr___kwargs__, py_getattr, py_call_class.
      destruct (s_stored s) as [[a k]|]; simpl.
      * rewrite uargs_jv_map_UJ, ukw_jv_map_UJ. destruct (new_scipy (s_fam s) a k); reflexivity.
      * destruct (new_scipy (s_fam s) [] []); reflexivity.
    + unfold py_call_class. apply r_bind_return.
  - (* instance of the selecting wrapper *)
    destruct kw as [|kv kw]; simpl.
    + unfold py_getattr___args__, py_getattr___kwargs__, py_getattr, py_call_class. simpl.
      destruct (u_stored u) as [a k]; simpl. destruct (new_wrapper a k); reflexivity.
    + unfold py_call_class. apply r_bind_return.
Qed.
Print Assumptions C19u_bridge_get_instance.

(* consequence, stated on the generated function: a new object is unfitted, whatever the prototype's state *)
Theorem C19u_get_instance_unfitted : forall p kw o, gen_get_instance p kw = Ok o -> fitted_u o = false.
Proof.
  intros p kw o H. rewrite C19u_bridge_get_instance in H.
  assert (Hs : forall f a k s, new_scipy f a k = Ok s -> s_fitted s = false).
  { intros f a k s0 Hn. unfold new_scipy in Hn.
    destruct (bind_args (init_names f) a k) as [b|]; simpl in Hn; [|discriminate].
    destruct (validate_rs (getd "random_state" b JNone)) as [rs|]; simpl in Hn; [|discriminate].
    inversion Hn; reflexivity. }
  assert (Hw : forall a k u, new_wrapper a k = Ok u -> u_fitted u = false).
  { intros a k u0 Hn. unfold new_wrapper in Hn.
    repeat match type of Hn with
           | bind ?r _ = Ok _ => destruct r eqn:?; simpl in Hn; [|discriminate]
           end.
    inversion Hn; reflexivity. }
  assert (Hu : forall c a k o', new_u c a k = Ok o' -> fitted_u o' = false).
  { intros c a k o' Hn. unfold new_u in Hn. destruct c as [f| | | |t]; try discriminate.
    - destruct (uargs_jv a), (ukw_jv k); try discriminate.
      destruct (new_scipy f l l0) eqn:E; simpl in Hn; [|discriminate]. inversion Hn; subst; simpl. eapply Hs; eauto.
    - destruct (new_wrapper a k) eqn:E; simpl in Hn; [|discriminate]. inversion Hn; subst; simpl. eapply Hw; eauto. }
  unfold get_instance_u in H.
  destruct p as [n | | f | s | u].
  - destruct (resolve_name n); simpl in H; [|discriminate]. eapply Hu; eauto.
  - eapply Hu; eauto.
  - eapply Hu; eauto.
  - destruct kw; [|eapply Hu; eauto].
    destruct (s_stored s) as [[a k]|].
    + destruct (new_scipy (s_fam s) a k) eqn:E; simpl in H; [|discriminate]. inversion H; subst; simpl. eapply Hs; eauto.
    + destruct (new_scipy (s_fam s) [] []) eqn:E; simpl in H; [|discriminate]. inversion H; subst; simpl. eapply Hs; eauto.
  - destruct kw; [|eapply Hu; eauto].
    destruct (new_wrapper (fst (u_stored u)) (snd (u_stored u))) eqn:E; simpl in H; [|discriminate].
    inversion H; subst; simpl. eapply Hw; eauto.
Qed.
Print Assumptions C19u_get_instance_unfitted.

(* non-vacuity: the generated function on concrete prototypes *)
Example C19u_get_instance_runs :
  (exists o, gen_get_instance (PName "copulas.univariate.GaussianKDE") [] = Ok o /\ class_u o = KFam FKDE) /\
  gen_get_instance (PName "GaussianKDE") [] = Err ValueErr /\
  gen_get_instance (PName "copulas.nowhere.GaussianKDE") [] = Err ImportErr /\
  gen_get_instance (PName "copulas.univariate.Nothing") [] = Err AttributeErr /\
  (exists o, gen_get_instance (PFamCls FTrunc) [("minimum", UJ (JNum (0 # 1)))] = Ok o /\ class_u o = KFam FTrunc).
Proof. repeat split; try reflexivity; eexists; split; reflexivity. Qed.

(* ------------------------------------------------------------------------------------------------------------------ *)
(* 2. get_qualified_name                                                                                               *)
(* ------------------------------------------------------------------------------------------------------------------ *)
Theorem C19u_bridge_get_qualified_name : forall o : qobj, gen_get_qualified_name o = fqn (qobj_cls o).
Proof.
  intros [c|c]; destruct c as [f | | | | t]; try destruct f; try destruct t; reflexivity.
Qed.
Print Assumptions C19u_bridge_get_qualified_name.

(* the recorded `type` of a model resolves back to its class (what from_dict relies on) *)
Theorem C19u_qualified_name_resolves : forall c : cls, resolve_name (gen_get_qualified_name (QInstance c)) = Ok c.
Proof.
  intros c. rewrite C19u_bridge_get_qualified_name. simpl.
  destruct c as [f | | | | t]; try destruct f; try destruct t; reflexivity.
Qed.
Print Assumptions C19u_qualified_name_resolves.

(* ------------------------------------------------------------------------------------------------------------------ *)
(* 3. store_args                                                                                                       *)
(* ------------------------------------------------------------------------------------------------------------------ *)
(* the model's constructor WITHOUT the decorator: bind the arguments, validate the seed, build the record, nothing stored *)
Definition model_init_plain (f : family) (args : list jv) (kw : list (string * jv)) : result sinst :=
  b <- bind_args (init_names f) args kw ;;
  rs <- validate_rs (getd "random_state" b JNone) ;;
  Ok (mkS f false None None no_ov rs
          (getd "minimum" b JNone) (getd "maximum" b JNone)
          (getd "sample_size" b JNone) (getd "bw_method" b JNone) (getd "weights" b JNone)
          None None).
Definition set_stored (st : option (list jv * list (string * jv))) (s : sinst) : sinst :=
  mkS (s_fam s) (s_fitted s) (s_params s) (s_const s) (s_ov s) (s_rs s) (s_min s) (s_max s) (s_ss s) (s_bw s) (s_w s) (s_model s) st.
Definition model_setattr_args (a : list jv) (s : sinst) : sinst :=
  set_stored (Some (a, match s_stored s with Some (_, k) => k | None => [] end)) s.
Definition model_setattr_kwargs (k : list (string * jv)) (s : sinst) : sinst :=
  set_stored (Some (match s_stored s with Some (a, _) => a | None => [] end, k)) s.

Theorem C19u_bridge_store_args : forall f args kw,
  new_scipy f args kw =
  if has_store_args f
  then gen_store_args (model_init_plain f) model_setattr_args model_setattr_kwargs args kw
  else model_init_plain f args kw.
Proof.
  intros f args kw. unfold new_scipy, gen_store_args, model_init_plain, py_deepcopy.
  destruct (bind_args (init_names f) args kw) as [b|e]; simpl; [|destruct (has_store_args f); reflexivity].
  destruct (validate_rs (getd "random_state" b JNone)) as [rs|e]; simpl; [|destruct (has_store_args f); reflexivity].
  destruct (has_store_args f); reflexivity.
Qed.
Print Assumptions C19u_bridge_store_args.

Theorem C19u_bridge_store_args_families : forall f, In f gen_store_args_families <-> has_store_args f = true.
Proof.
  intros f; destruct f; simpl; split; intro H; try reflexivity; try discriminate;
    repeat match goal with
           | H : _ \/ _ |- _ => destruct H
           | H : False |- _ => destruct H
           | H : _ = _ |- _ => discriminate H
           end; auto.
Qed.
Print Assumptions C19u_bridge_store_args_families.

(* what get_instance replays is what the constructor was given: a prototype instance built with (args, kw) yields, without keyword
   arguments, an object equal to a fresh construction with (args, kw) *)
Theorem C19u_get_instance_replays_constructor : forall f args kw s,
  has_store_args f = true -> new_scipy f args kw = Ok s ->
  gen_get_instance (PInstS s) [] = r_bind (new_scipy f args kw) (fun x => Ok (OS x)).
Proof.
  intros f args kw s Hst Hn. rewrite C19u_bridge_get_instance. simpl.
  assert (Hs : s_fam s = f /\ s_stored s = Some (args, kw)).
  { unfold new_scipy in Hn. rewrite Hst in Hn.
    destruct (bind_args (init_names f) args kw) as [b|]; simpl in Hn; [|discriminate].
    destruct (validate_rs (getd "random_state" b JNone)) as [rs|]; simpl in Hn; [|discriminate].
    inversion Hn; subst; split; reflexivity. }
  destruct Hs as [Hf Hs]. rewrite Hs, Hf. destruct (new_scipy f args kw); reflexivity.
Qed.
Print Assumptions C19u_get_instance_replays_constructor.

(* ------------------------------------------------------------------------------------------------------------------ *)
(* 4. check_valid_values                                                                                               *)
(* ------------------------------------------------------------------------------------------------------------------ *)
Theorem C19u_bridge_check_valid_values :
  forall (A : Type) (f : table -> result A) (is_frame isf isi : bool) (T : table),
  t_numeric T = isf || isi ->
  gen_check_valid_values f is_frame isf isi T =
  if t_empty T then Err ValueErr
  else if negb (t_numeric T) then Err ValueErr
  else if t_has_nan T then Err ValueErr
  else f T.
Proof.
  intros A f fr isf isi T H. unfold gen_check_valid_values, py_isinstance_DataFrame, py_len_truthy, py_to_numpy, py_isnan_any_any.
  rewrite H. destruct fr, (t_empty T), isf, isi, (t_has_nan T); reflexivity.
Qed.
Print Assumptions C19u_bridge_check_valid_values.

Section Validated.
  Variable o_sfit : family -> data -> list Q -> list Q.
  Variable o_tg_opt : data -> Q -> Q -> Q * Q.
  Variable o_tolist : data -> list Q.
  Variable o_resample : data -> jv -> jv -> nat -> grng -> list Q.
  Variable o_select : data -> list cand -> option nat.
  Variable o_choice : data -> nat -> grng -> data.
  Variable o_corr : nat -> list obs -> list (list Q).
  Let fitgm := fit_gm o_sfit o_tg_opt o_tolist o_resample o_select o_choice o_corr.

  (* whenever the GENERATED validation refuses a table, the model's fit returns that error and leaves the object and the global
     generator exactly as they were ("rejects ... with ValueError and stays unfitted") *)
  Theorem C19u_refused_table_leaves_model : forall (x : ginst) (T : table) (g : grng) (fr isf isi : bool) (e : err),
    t_numeric T = isf || isi ->
    gen_check_valid_values (fun _ => Ok tt) fr isf isi T = Err e ->
    fitgm x T g = (x, g, Some e) /\ e = ValueErr.
  Proof.
    intros x T g fr isf isi e Hn H. rewrite (C19u_bridge_check_valid_values _ _ fr isf isi T Hn) in H.
    unfold fitgm, fit_gm.
    destruct (t_empty T); [inversion H; split; reflexivity|].
    destruct (t_numeric T); simpl in *; [|inversion H; split; reflexivity].
    destruct (t_has_nan T); [inversion H; split; reflexivity|discriminate].
  Qed.

  (* and the converse: a table the generated validation lets through is not refused by the validation prefix of the model *)
  Theorem C19u_accepted_table_reaches_columns : forall (x : ginst) (T : table) (g : grng) (fr isf isi : bool),
    t_numeric T = isf || isi ->
    gen_check_valid_values (fun _ => Ok tt) fr isf isi T = Ok tt ->
    t_empty T = false /\ t_numeric T = true /\ t_has_nan T = false.
  Proof.
    intros x T g fr isf isi Hn H. rewrite (C19u_bridge_check_valid_values _ _ fr isf isi T Hn) in H.
    destruct (t_empty T); [discriminate|]. destruct (t_numeric T); simpl in *; [|discriminate].
    destruct (t_has_nan T); [discriminate|]. repeat split.
  Qed.
End Validated.
Print Assumptions C19u_refused_table_leaves_model.
Print Assumptions C19u_accepted_table_reaches_columns.

Example C19u_check_valid_values_runs :
  gen_check_valid_values (fun _ => Ok tt) true true false (mkT 2 true true false []) = Err ValueErr /\
  gen_check_valid_values (fun _ => Ok tt) true false false (mkT 3 false false false []) = Err ValueErr /\
  gen_check_valid_values (fun _ => Ok tt) false false true (mkT 4 false true true []) = Err ValueErr /\
  gen_check_valid_values (fun _ => Ok tt) false false true (mkT 5 false true false []) = Ok tt.
Proof. repeat split. Qed.
