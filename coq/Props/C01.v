(* C01 — Gaussian-copula synthetic data keeps schema, marginals and dependence.

   Object of the theorems: gm_sample / gm_get_normal_samples, GENERATED on every run from the
   current source of copulas/multivariate/gaussian.py (sample, _get_normal_samples, unconditional
   branch) by tools/vf/gmscores.py -> CopRun.Gen_gm_sample; bridged to Cop.Model.Concord.

   Deterministic core proved here, for EVERY draw Z returned by np.random.multivariate_normal:
     - the draw is requested with zero means of length d, covariance = the fitted correlation, size = n;
     - the output has the training header in order, n cells per column, none missing;
     - column j = map (ppf_j o Phi) (column j of Z): the j-th label goes with the j-th marginal;
     - a constant marginal reproduces its constant in every row;
     - {ppf_j(Phi z) <= x} = {Phi z <= cdf_j x} under the quantile (Galois) property of (cdf_j, ppf_j)
       (proved in Spec for the uniform and the constant law), i.e. column j has CDF cdf_j whenever Z_j
       is standard normal;
     - for strictly increasing marginals the Kendall concordance counts (hence tau-a/b/c) of any two
       output columns EQUAL those of the corresponding columns of Z.
   Statistical residue (NOT theorems): that numpy's draw is N(0, correlation); that the population
   Kendall tau of a bivariate normal is (2/pi) asin(rho); recovery of generating marginals and
   correlation "within sampling error" (consistency of the estimators). *)
From Coq Require Import Reals List Bool Arith Lia Lra ZArith QArith.
From Cop Require Import Lib.NumpyR Model.Univariate Model.Concord Spec.ConcordProofs Spec.Uniform Spec.ConstantLaw.
From CopRun Require Import Gen_gm_sample.
Import ListNotations.
Close Scope R_scope.
Open Scope nat_scope.

(* ====================================================================== *)
(** * Bridge: generated sampler = Model.Concord.sample *)
Section Bridge.
  Variables label Zt U V corr : Type.
  Variable label_eqb : label -> label -> bool.
  Variable norm_cdf : Zt -> U.
  Variable np_random_multivariate_normal : means_arg -> corr -> nat -> list (list Zt).

  (* the model's draw oracle: zero means of the given length *)
  Definition draw_of (d : nat) (c : corr) (n : nat) : list (list Zt) :=
    np_random_multivariate_normal (NpZeros d) c n.

  Lemma C01_bridge_loop : forall hdr rws cu out,
      gm_sample_loop label Zt U V label_eqb norm_cdf hdr rws cu out =
      sample_loop label Zt U V label_eqb norm_cdf hdr rws cu out.
  Proof.
    intros hdr rws cu. induction cu as [|[c ppf] tl IH]; intros out; simpl; auto.
    destruct (frame_column label Zt label_eqb hdr rws c); auto.
    rewrite map_map. apply IH.
  Qed.

  Lemma C01_bridge_sample : forall m n,
      gm_sample label Zt U V corr label_eqb norm_cdf np_random_multivariate_normal m n =
      sample label Zt U V corr label_eqb norm_cdf draw_of m n.
  Proof.
    intros m n. unfold gm_sample, sample, gm_get_normal_samples, draw_of.
    destruct (negb (g_fitted _ _ _ _ m)); auto. cbv zeta.
    destruct (negb (forallb _ _)); auto. simpl. apply C01_bridge_loop.
  Qed.
End Bridge.

(* ====================================================================== *)
(** * Schema, pairing, no missing values, constant columns *)
Section C01.
  Variables label Zt U V corr : Type.
  Variable label_eqb : label -> label -> bool.
  Hypothesis label_eqb_spec : forall a b, label_eqb a b = true <-> a = b.
  Variable norm_cdf : Zt -> U.
  Variable np_random_multivariate_normal : means_arg -> corr -> nat -> list (list Zt).

  Notation gmodel := (gmodel label U V corr).
  Notation gsample := (gm_sample label Zt U V corr label_eqb norm_cdf np_random_multivariate_normal).
  Notation cols m := (g_columns label U V corr m).
  Notation univs m := (g_univariates label U V corr m).

  (** [C01_schema] (and C01_right_marginal_right_column): n rows, the training header in order,
      and column j is map (ppf_j o Phi) (column j of Z) where Z is the draw requested with
      zero means of length d, covariance = fitted correlation, size = n *)
  Theorem C01_schema : forall (m : gmodel) n,
      g_fitted _ _ _ _ m = true -> NoDup (cols m) -> length (univs m) = length (cols m) ->
      let d := length (cols m) in
      let Z := np_random_multivariate_normal (NpZeros d) (g_correlation _ _ _ _ m) n in
      length Z = n -> Forall (fun r => length r = d) Z ->
      exists out,
        gsample m n = SOk out /\
        map fst out = cols m /\
        Forall (fun col => length (snd col) = n) out /\
        forall j c ppf,
          nth_error (cols m) j = Some c -> nth_error (univs m) j = Some ppf ->
          nth_error out j = Some (c, map (fun z => ppf (norm_cdf z)) (pos_column Zt Z j)).
  Proof.
    intros m n Hf Hnd Hl d Z HZn HZd.
    destruct (sample_schema label Zt U V corr label_eqb label_eqb_spec norm_cdf
                (draw_of Zt corr np_random_multivariate_normal) m n Hf Hnd Hl HZn HZd)
      as [out [H1 H2]].
    exists out. rewrite C01_bridge_sample. auto.
  Qed.

  Theorem C01_not_fitted : forall (m : gmodel) n,
      g_fitted _ _ _ _ m = false -> gsample m n = SErr NotFittedError.
  Proof. intros m n H. unfold gm_sample. rewrite H. reflexivity. Qed.

  (* every output cell is ppf_j(Phi z) for a cell z of Z *)
  Lemma out_cells : forall (m : gmodel) n out,
      length (univs m) = length (cols m) -> map fst out = cols m ->
      (forall j c ppf,
          nth_error (cols m) j = Some c -> nth_error (univs m) j = Some ppf ->
          nth_error out j = Some (c, map (fun z => ppf (norm_cdf z))
                                         (pos_column Zt (np_random_multivariate_normal
                                            (NpZeros (length (cols m))) (g_correlation _ _ _ _ m) n) j))) ->
      forall col, In col out ->
        exists j ppf, nth_error (univs m) j = Some ppf /\ nth_error (cols m) j = Some (fst col) /\
                      snd col = map (fun z => ppf (norm_cdf z))
                                    (pos_column Zt (np_random_multivariate_normal
                                       (NpZeros (length (cols m))) (g_correlation _ _ _ _ m) n) j).
  Proof.
    intros m n out Hl Hhdr Hcol col Hin.
    destruct (In_nth_error out col Hin) as [j Hj].
    assert (Hjl : j < length out) by (apply nth_error_Some; congruence).
    assert (Hlo : length out = length (cols m)) by (rewrite <- Hhdr, map_length; reflexivity).
    destruct (nth_error (cols m) j) as [c|] eqn:Ec; [|apply nth_error_None in Ec; lia].
    destruct (nth_error (univs m) j) as [ppf|] eqn:Eu; [|apply nth_error_None in Eu; lia].
    pose proof (Hcol j c ppf Ec Eu) as H. rewrite Hj in H. inversion H; subst col.
    exists j, ppf. simpl. auto.
  Qed.

  (** [C01_no_missing]: no cell of the output is missing when every ppf_j is total *)
  Variable is_missing : V -> bool.
  Theorem C01_no_missing : forall (m : gmodel) n,
      g_fitted _ _ _ _ m = true -> NoDup (cols m) -> length (univs m) = length (cols m) ->
      let d := length (cols m) in
      let Z := np_random_multivariate_normal (NpZeros d) (g_correlation _ _ _ _ m) n in
      length Z = n -> Forall (fun r => length r = d) Z ->
      Forall (fun ppf => forall u, is_missing (ppf u) = false) (univs m) ->
      exists out, gsample m n = SOk out /\
                  Forall (fun col => length (snd col) = n /\
                                     Forall (fun v => is_missing v = false) (snd col)) out.
  Proof.
    intros m n Hf Hnd Hl d Z HZn HZd Htot.
    destruct (C01_schema m n Hf Hnd Hl HZn HZd) as [out [H1 [H2 [H3 H4]]]].
    exists out. split; auto. apply Forall_forall. intros col Hin. split.
    - rewrite Forall_forall in H3. auto.
    - destruct (out_cells m n out Hl H2 H4 col Hin) as [j [ppf [Hu [_ ->]]]].
      apply Forall_forall. intros v Hv. apply in_map_iff in Hv. destruct Hv as [z [<- _]].
      rewrite Forall_forall in Htot. apply Htot. eapply nth_error_In; eauto.
  Qed.

  (** [C01_constant]: a marginal whose percent_point is constant (the degenerate replacement
      installed for a constant training column) reproduces the constant in all n rows *)
  Theorem C01_constant : forall (m : gmodel) n j cj ppf c,
      g_fitted _ _ _ _ m = true -> NoDup (cols m) -> length (univs m) = length (cols m) ->
      let d := length (cols m) in
      let Z := np_random_multivariate_normal (NpZeros d) (g_correlation _ _ _ _ m) n in
      length Z = n -> Forall (fun r => length r = d) Z ->
      nth_error (cols m) j = Some cj -> nth_error (univs m) j = Some ppf -> (forall u, ppf u = c) ->
      exists out, gsample m n = SOk out /\ nth_error out j = Some (cj, repeat c n).
  Proof.
    intros m n j cj ppf c Hf Hnd Hl d Z HZn HZd Hc Hu Hconst.
    destruct (C01_schema m n Hf Hnd Hl HZn HZd) as [out [H1 [H2 [H3 H4]]]].
    exists out. split; auto. rewrite (H4 j cj ppf Hc Hu). do 2 f_equal.
    assert (Hlen : length (pos_column Zt Z j) = n).
    { rewrite <- HZn. apply (pos_column_length Zt Z j d HZd).
      apply nth_error_Some. congruence. }
    assert (Hrep : forall zs : list Zt, map (fun z => ppf (norm_cdf z)) zs = repeat c (length zs)).
    { induction zs as [|a zs IH]; simpl; auto. rewrite Hconst, IH. reflexivity. }
    rewrite Hrep. f_equal. exact Hlen.
  Qed.
End C01.

(* ====================================================================== *)
(** * The pairing of labels and marginals established by fit (generated _fit_columns) *)
Section FitPairing.
  Variables label Col Dist Univ : Type.
  Variable get_distribution_for_column : label -> Dist.
  Variable fit_column : Col -> Dist -> label -> Univ.

  Notation fit_one := (fun item : label * Col =>
                         fit_column (snd item) (get_distribution_for_column (fst item)) (fst item)).

  Lemma fit_columns_loop_spec : forall items cols univs,
      gm_fit_columns_loop label Col Dist Univ get_distribution_for_column fit_column items cols univs =
      (cols ++ map fst items, univs ++ map fit_one items).
  Proof.
    induction items as [|it tl IH]; intros cols univs; simpl.
    - rewrite !app_nil_r. reflexivity.
    - rewrite IH, <- !app_assoc. reflexivity.
  Qed.

  (** [C01_right_marginal_right_column], fit side: self.columns is the header of the training table
      in order, self.univariates has the same length, and its j-th entry is the marginal fitted on
      the j-th column (with the distribution configured for the j-th label) *)
  Theorem C01_fit_pairing : forall (X : list (label * Col)),
      let st := gm_fit_columns_state label Col Dist Univ get_distribution_for_column fit_column X in
      fst st = map fst X /\ snd st = map fit_one X /\ length (snd st) = length (fst st) /\
      forall j c col, nth_error X j = Some (c, col) ->
                      nth_error (fst st) j = Some c /\
                      nth_error (snd st) j = Some (fit_column col (get_distribution_for_column c) c).
  Proof.
    intros X st. subst st. unfold gm_fit_columns_state, gm_fit_columns.
    rewrite fit_columns_loop_spec. simpl. repeat split.
    - rewrite !map_length. reflexivity.
    - rewrite nth_error_map, H. reflexivity.
    - rewrite nth_error_map, H. reflexivity.
  Qed.
End FitPairing.

(* ====================================================================== *)
(** * Marginals and rank dependence (over R) *)
Open Scope R_scope.

(** [C01_marginal]: under the quantile (Galois) property of the fitted pair (cdf_j, ppf_j), the
    event {output cell <= x} is {Phi z <= cdf_j x}: the output's marginal CDF is cdf_j whenever
    Phi(Z_j) is uniform, i.e. Z_j standard normal *)
Theorem C01_marginal : forall (Phi ppf cdf : R -> R) z x,
    (forall q y, 0 < q < 1 -> (ppf q <= y <-> q <= cdf y)) -> 0 < Phi z < 1 ->
    (ppf (Phi z) <= x <-> Phi z <= cdf x).
Proof. intros Phi ppf cdf z x H Hz. apply H. exact Hz. Qed.

(* the Galois hypothesis holds for the uniform and for the constant law (Spec.Uniform, Spec.ConstantLaw) *)
Theorem C01_marginal_uniform : forall loc scale (Phi : R -> R) z x,
    0 < scale -> 0 < Phi z < 1 ->
    (unif_ppf_raw loc scale (Phi z) <= x <-> Phi z <= unif_cdf loc scale x).
Proof.
  intros loc scale Phi z x Hs Hz.
  apply (C01_marginal Phi (unif_ppf_raw loc scale) (unif_cdf loc scale)); auto.
  intros q y Hq. apply unif_ppf_galois; lra.
Qed.

Theorem C01_marginal_constant : forall c (Phi : R -> R) z x,
    0 < Phi z < 1 -> (const_ppf c (Phi z) <= x <-> Phi z <= const_cdf c x).
Proof.
  intros c Phi z x Hz.
  apply (C01_marginal Phi (const_ppf c) (const_cdf c)); auto.
  intros q y Hq. apply const_ppf_is_quantile; lra.
Qed.

Section RankDependence.
  Variable Phi : R -> R.
  Hypothesis Phi_increasing : forall a b, a < b -> Phi a < Phi b.
  Hypothesis Phi_range : forall z, 0 < Phi z < 1.

  Definition unit_open (u : R) : Prop := 0 < u < 1.

  Lemma compose_incr : forall ppf, incr_on unit_open ppf -> incr_on (fun _ => True) (fun z => ppf (Phi z)).
  Proof. intros ppf H a b _ _ Hab. apply H; try apply Phi_range. apply Phi_increasing. exact Hab. Qed.

  (** [C01_rank_dependence]: for strictly increasing marginal quantile functions every pair of
      rows is concordant / discordant / tied in the output iff it is in Z, so all Kendall counts,
      tau-a and tau-b of the output columns EQUAL those of the columns of Z — for every draw *)
  Theorem C01_rank_dependence : forall ppf_i ppf_j zi zj,
      incr_on unit_open ppf_i -> incr_on unit_open ppf_j ->
      let xi := map (fun z => ppf_i (Phi z)) zi in
      let xj := map (fun z => ppf_j (Phi z)) zj in
      kendallR xi xj = kendallR zi zj /\
      tau_b (kendallR xi xj) = tau_b (kendallR zi zj) /\
      tau_a (kendallR xi xj) = tau_a (kendallR zi zj).
  Proof.
    intros ppf_i ppf_j zi zj Hi Hj xi xj.
    assert (E : kendallR xi xj = kendallR zi zj).
    { apply (concord_invariant (fun _ => True) (fun _ => True)).
      - apply compose_incr; auto.
      - apply compose_incr; auto.
      - apply Forall_forall; auto.
      - apply Forall_forall; auto. }
    rewrite E. auto.
  Qed.

  Theorem C01_pair_concordance : forall ppf_i ppf_j z1 w1 z2 w2,
      incr_on unit_open ppf_i -> incr_on unit_open ppf_j ->
      ((ppf_i (Phi z1) - ppf_i (Phi z2)) * (ppf_j (Phi w1) - ppf_j (Phi w2)) > 0 <-> (z1 - z2) * (w1 - w2) > 0) /\
      ((ppf_i (Phi z1) - ppf_i (Phi z2)) * (ppf_j (Phi w1) - ppf_j (Phi w2)) < 0 <-> (z1 - z2) * (w1 - w2) < 0).
  Proof.
    intros ppf_i ppf_j z1 w1 z2 w2 Hi Hj.
    destruct (concordant_pair_iff (fun _ => True) (fun _ => True)
                (fun z => ppf_i (Phi z)) (fun z => ppf_j (Phi z)) z1 w1 z2 w2
                (compose_incr _ Hi) (compose_incr _ Hj) I I I I) as [H1 [H2 _]].
    split; assumption.
  Qed.

  (* the same, stated on the output of the generated sampler *)
  Variables label corr : Type.
  Variable label_eqb : label -> label -> bool.
  Hypothesis label_eqb_spec : forall a b, label_eqb a b = true <-> a = b.
  Variable np_random_multivariate_normal : means_arg -> corr -> nat -> list (list R).

  Theorem C01_sample_rank_dependence : forall (m : gmodel label R R corr) n i j ci cj ppf_i ppf_j,
      g_fitted _ _ _ _ m = true -> NoDup (g_columns _ _ _ _ m) ->
      length (g_univariates _ _ _ _ m) = length (g_columns _ _ _ _ m) ->
      let d := length (g_columns _ _ _ _ m) in
      let Z := np_random_multivariate_normal (NpZeros d) (g_correlation _ _ _ _ m) n in
      length Z = n -> Forall (fun r => length r = d) Z ->
      nth_error (g_columns _ _ _ _ m) i = Some ci -> nth_error (g_univariates _ _ _ _ m) i = Some ppf_i ->
      nth_error (g_columns _ _ _ _ m) j = Some cj -> nth_error (g_univariates _ _ _ _ m) j = Some ppf_j ->
      incr_on unit_open ppf_i -> incr_on unit_open ppf_j ->
      exists out xi xj,
        gm_sample label R R R corr label_eqb Phi np_random_multivariate_normal m n = SOk out /\
        nth_error out i = Some (ci, xi) /\ nth_error out j = Some (cj, xj) /\
        kendallR xi xj = kendallR (pos_column R Z i) (pos_column R Z j).
  Proof.
    intros m n i j ci cj ppf_i ppf_j Hf Hnd Hl d Z HZn HZd Hci Hui Hcj Huj Hi Hj.
    destruct (C01_schema label R R R corr label_eqb label_eqb_spec Phi np_random_multivariate_normal
                m n Hf Hnd Hl HZn HZd) as [out [H1 [_ [_ H4]]]].
    exists out, (map (fun z => ppf_i (Phi z)) (pos_column R Z i)),
           (map (fun z => ppf_j (Phi z)) (pos_column R Z j)).
    repeat split; auto.
    apply (C01_rank_dependence ppf_i ppf_j _ _ Hi Hj).
  Qed.
End RankDependence.
Close Scope R_scope.

Print Assumptions C01_schema.
Print Assumptions C01_no_missing.
Print Assumptions C01_constant.
Print Assumptions C01_fit_pairing.
Print Assumptions C01_marginal_uniform.
Print Assumptions C01_rank_dependence.
Print Assumptions C01_sample_rank_dependence.

(* ====================================================================== *)
(** * evaluation instance used by the correspondence check: labels and cells of Z are integer tokens,
      Phi is the identity on tokens, the j-th percent_point tags its argument with j; the draw
      oracle returns the rows it is given provided it is called with NpZeros d, covariance token 7
      and the requested size (otherwise an empty draw, which the comparison then exposes) *)
Definition tok_gmodel (is_fitted : bool) (cols : list Z) : gmodel Z Z (nat * Z) nat :=
  {| g_fitted := is_fitted; g_columns := cols;
     g_univariates := map (fun j u => (j, u)) (seq 0 (length cols)); g_correlation := 7 |}.

Definition tok_draw (d_expected : nat) (Zs : list (list Z)) (means : means_arg) (c : nat) (n : nat)
  : list (list Z) :=
  match means with
  | NpZeros d => if (d =? d_expected) && (c =? 7) && (n =? length Zs) then Zs else []
  end.

Definition c01_sample (b : bool) (cols : list Z) (Zs : list (list Z)) (n : nat) :=
  gm_sample Z Z Z (nat * Z) nat Z.eqb (fun z => z) (tok_draw (length cols) Zs) (tok_gmodel b cols) n.

(* _fit_columns on tokens: the univariate fitted for a column records (column, distribution, label) *)
Definition c01_fit (X : list (Z * Z)) :=
  gm_fit_columns_state Z Z Z (Z * Z * Z) (fun l => (l + 1000)%Z) (fun col dist l => (col, dist, l)) X.

Definition show_counts (k : kendall_counts) : list Z := [@con k; @dis k; n0 k; n1 k; n2 k].
Definition c01_kendall (xs ys : list Q) := show_counts (kendallQ xs ys).

(* non-vacuity *)
Example C01_demo_sample :
  c01_sample true [10; 20; 30]%Z [[1; 2; 3]; [4; 5; 6]]%Z 2 =
  SOk [(10%Z, [(0, 1%Z); (0, 4%Z)]); (20%Z, [(1, 2%Z); (1, 5%Z)]); (30%Z, [(2, 3%Z); (2, 6%Z)])].
Proof. reflexivity. Qed.

Example C01_demo_fit :
  c01_fit [(10, 110); (20, 120)]%Z = ([10; 20], [(110, 1010, 10); (120, 1020, 20)])%Z.
Proof. reflexivity. Qed.

Example C01_demo_schema_applies :
  exists out, c01_sample true [10; 20; 30]%Z [[1; 2; 3]; [4; 5; 6]]%Z 2 = SOk out /\ map fst out = [10; 20; 30]%Z.
Proof.
  destruct (C01_schema Z Z Z (nat * Z) nat Z.eqb (fun a b => Z.eqb_eq a b) (fun z => z)
              (tok_draw 3 [[1; 2; 3]; [4; 5; 6]]%Z) (tok_gmodel true [10; 20; 30]%Z) 2) as [out [H1 [H2 _]]];
    try reflexivity.
  - repeat constructor; simpl; intuition discriminate.
  - repeat constructor.
  - exists out. split; auto.
Qed.

Open Scope R_scope.
Example C01_rank_hypotheses_inhabited :
  exists Phi ppf, (forall a b, a < b -> Phi a < Phi b) /\ incr_on (fun u => 0 < u < 1) ppf.
Proof.
  exists (fun x => x), (fun x => 2 * x + 1). split; [intros; lra|]. intros a b _ _ H. lra.
Qed.
