(* C14, vine serialisation GENERATED from the AST: bridge theorems.

   Gen_vineserial.v (tools/vf/vineserialgen.py, regenerated on every run from copulas/multivariate/tree.py and vine.py; the
   Python operations are denoted by coq/Lib/PyVineSerial.v) holds one Gallina definition per function:

     Edge.to_dict                     -> gen_Edge_to_dict
     Tree._serialize_previous_tree    -> gen_Tree__serialize_previous_tree
     Tree.to_dict                     -> gen_Tree_to_dict
     Tree._deserialize_previous_tree  -> gen_Tree__deserialize_previous_tree
     Tree.from_dict                   -> gen_Tree_from_dict
     VineCopula._deserialize_trees    -> gen_VineCopula__deserialize_trees

   Each is proved EQUAL, for all inputs, to the hand-written definition of Spec/VineSerial.v the C14 vine theorems
   (C14_vine_relink, C14_vine_to_dict_roundtrip, ...) are about.  This file is copied into the build directory and compiled on
   every run against the freshly generated file. *)
From Coq Require Import ZArith QArith List String Bool Lia PeanoNat.
From Cop Require Import Model.Lifecycle Spec.LifecycleProofs Spec.VineSerial Lib.PyVineSerial.
From CopRun Require Import Gen_vineserial.
Import ListNotations.
Open Scope string_scope.
Open Scope list_scope.
Open Scope nat_scope.

(* ------------------------------------------------------------------ *)
(** * Edge.to_dict: the eleven keys in order, which attribute under which key, parents recursively (None when the list is
      empty or None), U as a nested list (None when it is None) *)
Theorem C14_bridge_Edge_to_dict : forall e : edge, gen_Edge_to_dict e = edge_to_dict e.
Proof.
  fix IH 1. intros e. destruct e as [i l r d ps nb nm th ta u lk].
  assert (Hps : forall q : list edge, map gen_Edge_to_dict q = map edge_to_dict q).
  { intros q. induction q as [|x q IHq]; [reflexivity|]. cbn [map]. rewrite (IH x), IHq. reflexivity. }
  cbn [gen_Edge_to_dict edge_to_dict]. cbv zeta.
  unfold py_e_parents_truthy, py_e_parents_map, py_e_U_is_not_none, py_e_U_tolist, py_None, py_e_index, py_e_L, py_e_R, py_e_D,
    py_e_neighbors, py_e_name, py_e_theta, py_e_tau, py_e_likelihood.
  cbn [ea_index ea_L ea_R ea_D ea_parents ea_neighbors ea_name ea_theta ea_tau ea_U ea_likelihood].
  assert (HU : (if match u with JNone => false | _ => true end then PJ u else PJ JNone) = PJ u) by (destruct u; reflexivity).
  rewrite HU.
  destruct ps as [[|p q]|]; try reflexivity.
  rewrite (Hps (p :: q)). reflexivity.
Qed.
Print Assumptions C14_bridge_Edge_to_dict.

(* ------------------------------------------------------------------ *)
(** * Tree.to_dict (with _serialize_previous_tree): the three header keys, `fitted` third, the early return of an unfitted
      tree, then the five body keys in order; previous_tree only at level 1 *)
Theorem C14_bridge_Tree__serialize_previous_tree : forall (ty : ttype) (b : tbody),
  gen_Tree__serialize_previous_tree (mkTree ty (Some b))
  = (if tb_level b =? 1 then match tb_prev b with PrevArr a => Ok (PJ a) | _ => Err AttributeErr end else Ok (PJ JNone)).
Proof. intros ty b. reflexivity. Qed.

Theorem C14_bridge_Tree_to_dict : forall t : tree, gen_Tree_to_dict t = tree_to_dict t.
Proof.
  intros [ty [b|]]; [|reflexivity].
  unfold gen_Tree_to_dict. cbv zeta. rewrite C14_bridge_Tree__serialize_previous_tree.
  assert (He : map gen_Edge_to_dict (tb_edges b) = map edge_to_dict (tb_edges b)).
  { apply map_ext. exact C14_bridge_Edge_to_dict. }
  unfold tree_to_dict, py_t_fitted, py_t_level, py_t_n_nodes, py_t_tau_matrix_tolist, py_t_edges_map, py_t_attr, tree_body.
  cbn [negb bind]. rewrite He.
  destruct (tb_level b =? 1); [destruct (tb_prev b) as [a|k|]|]; reflexivity.
Qed.
Print Assumptions C14_bridge_Tree_to_dict.

(* ------------------------------------------------------------------ *)
(** * Tree.from_dict (with _deserialize_previous_tree): which key goes into which attribute; `previous` is used unless
      the level is 1 *)
Theorem C14_bridge_Tree_from_dict : forall (p : pv) (previous : prevt),
  gen_Tree_from_dict p previous = tree_from_dict p previous.
Proof.
  intros p previous. destruct p as [j|c nm|l|d]; try reflexivity.
  unfold gen_Tree_from_dict, tree_from_dict, gen_Tree__deserialize_previous_tree, py_getitem, py_get_tree, py_truthy, py_int_attr,
    py_np_array, py_eq_nat, py_edges_from_dicts, py_tree_fitted, py_tree_unfitted.
  destruct (pget "tree_type" d) as [x|e]; [|reflexivity]. cbn [bind].
  destruct (get_tree x) as [ty|e]; [|reflexivity]. cbn [bind].
  destruct (pget "fitted" d) as [f|e]; [|reflexivity]. cbn [bind].
  destruct (pv_truthy f); [|reflexivity].
  destruct (pget "level" d) as [lv|e]; [|reflexivity]. cbn [bind].
  destruct (as_nat lv) as [n|e]; [|reflexivity]. cbn [bind].
  destruct (pget "n_nodes" d) as [nn|e]; [|reflexivity]. cbn [bind].
  destruct (as_nat nn) as [m|e]; [|reflexivity]. cbn [bind].
  destruct (pget "tau_matrix" d) as [ta|e]; [|reflexivity]. cbn [bind].
  destruct (as_jv ta) as [tj|e]; [|reflexivity]. cbn [bind].
  destruct (n =? 1).
  - destruct (pget "previous_tree" d) as [pt|e]; [|reflexivity]. cbn [bind].
    destruct (as_jv pt) as [a|e]; [|reflexivity]. cbn [bind].
    destruct (pget "edges" d) as [es|e]; [|reflexivity]. cbn [bind].
    destruct es as [j|c nm|q|dd]; reflexivity.
  - cbn [bind]. destruct (pget "edges" d) as [es|e]; [|reflexivity]. cbn [bind].
    destruct es as [j|c nm|q|dd]; reflexivity.
Qed.
Print Assumptions C14_bridge_Tree_from_dict.

(* ------------------------------------------------------------------ *)
(** * VineCopula._deserialize_trees: the values are the model's, and the object handed to tree k + 1 as `previous` is the
      object that ends up at position k of the returned list (allocation number = position) *)
Definition loop_body (d : pv) (st : tobj * list tobj * nat) : result (tobj * list tobj * nat) :=
  let '(prev, trees, next) := st in
  bind (py_alloc next (gen_Tree_from_dict d (py_prev_obj prev)))
       (fun '(o, next') => Ok (o, trees ++ [o], next')).

Lemma last_default {A} (l : list A) (a d d' : A) : last (a :: l) d = last (a :: l) d'.
Proof. revert a. induction l as [|b l IH]; intros a; [reflexivity|]. cbn [last]. apply (IH b). Qed.

Lemma deser_loop : forall (l : list pv) (k : nat) (tk : tree) (trees : list tobj),
  py_for_result loop_body l ((k, tk), trees, S k)
  = bind (deser_rest l k)
         (fun ts => Ok (last (combine (seq (S k) (List.length ts)) ts) (k, tk), trees ++ combine (seq (S k) (List.length ts)) ts, S k + List.length ts)).
Proof.
  induction l as [|d l IH]; intros k tk trees.
  - cbn [py_for_result deser_rest bind List.length seq combine last]. rewrite app_nil_r, Nat.add_0_r. reflexivity.
  - cbn [py_for_result deser_rest]. unfold loop_body at 1. unfold py_alloc, py_prev_obj. cbn [fst].
    rewrite C14_bridge_Tree_from_dict.
    destruct (tree_from_dict d (PrevObj k)) as [t|e]; [|reflexivity]. cbn [bind].
    rewrite IH. destruct (deser_rest l (S k)) as [ts|e]; [|reflexivity]. cbn [bind List.length seq combine].
    rewrite <- app_assoc. cbn [app]. f_equal. f_equal; [f_equal|lia].
    destruct (combine (seq (S (S k)) (List.length ts)) ts) as [|p l0]; [reflexivity|].
    change (last ((S k, t) :: p :: l0) (k, tk)) with (last (p :: l0) (k, tk)). apply last_default.
Qed.

Theorem C14_bridge_deserialize_trees : forall l : list pv,
  gen_VineCopula__deserialize_trees l
  = bind (deserialize_trees l) (fun ts => Ok (combine (seq 0 (List.length ts)) ts)).
Proof.
  intros [|d l]; [reflexivity|].
  unfold gen_VineCopula__deserialize_trees, deserialize_trees, py_list_get, py_list_from, py_alloc, py_prev_none. cbv zeta.
  cbn [nth_error skipn bind]. rewrite C14_bridge_Tree_from_dict.
  destruct (tree_from_dict d PrevNone) as [t|e]; [|reflexivity]. cbn [bind].
  change (py_for_result _ l ((0, t), [(0, t)], 1)) with (py_for_result loop_body l ((0, t), [(0, t)], 1)).
  rewrite deser_loop. destruct (deser_rest l 0) as [ts|e]; reflexivity.
Qed.
Print Assumptions C14_bridge_deserialize_trees.

(* read back: the values are those of the model, the allocation numbers are the positions *)
Lemma combine_seq_facts {A} (ts : list A) (s : nat) :
  map snd (combine (seq s (List.length ts)) ts) = ts /\
  map fst (combine (seq s (List.length ts)) ts) = seq s (List.length ts) /\
  List.length (combine (seq s (List.length ts)) ts) = List.length ts.
Proof.
  revert s. induction ts as [|t ts IH]; intros s; [repeat split; reflexivity|].
  destruct (IH (S s)) as (H1 & H2 & H3). cbn [List.length seq combine map fst snd]. rewrite H1, H2, H3. repeat split; reflexivity.
Qed.

Corollary C14_gen_deserialize_trees_values : forall (l : list pv) (objs : list tobj),
  gen_VineCopula__deserialize_trees l = Ok objs ->
  deserialize_trees l = Ok (map snd objs) /\ map fst objs = seq 0 (List.length objs).
Proof.
  intros l objs H. rewrite C14_bridge_deserialize_trees in H.
  destruct (deserialize_trees l) as [ts|e]; [|discriminate]. cbn [bind] in H. injection H as <-.
  destruct (combine_seq_facts ts 0) as (H1 & H2 & H3).
  split; [f_equal; symmetry; exact H1 | etransitivity; [exact H2 | f_equal; symmetry; exact H3]].
Qed.

(* hence the round-trip theorem of the model is a theorem about the generated functions: serialising a chained list of trees with
   the generated Tree.to_dict and reading it back with the generated _deserialize_trees gives the same trees, tree k + 1 linked to
   the object at position k *)
Theorem C14_gen_vine_relink : forall (ts : list tree) (ds : list pv),
  chained ts = true -> all_ok (map gen_Tree_to_dict ts) = Ok ds ->
  gen_VineCopula__deserialize_trees ds = Ok (combine (seq 0 (List.length ts)) ts).
Proof.
  intros ts ds Hc Hd. rewrite (map_ext _ _ C14_bridge_Tree_to_dict) in Hd.
  rewrite C14_bridge_deserialize_trees, (vine_relink ts ds Hc Hd). reflexivity.
Qed.
Print Assumptions C14_gen_vine_relink.
