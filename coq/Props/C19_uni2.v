(* ===================================================================================================== *)
(* C19, second bridge layer: what tools/vf/unictlgen.py left hand-written in Model/Lifecycle.v -- the       *)
(* family hooks of the eight ScipyModel classes, GaussianKDE's own methods, the selecting Univariate       *)
(* wrapper -- GENERATED from the AST on every run (CopRun.Gen_uniwrap, tools/vf/uniwrapgen.py) and proved   *)
(* EQUAL to the hand-written model for ALL states / generator states / inputs (the C19_bridge2_ theorems).             *)
(* Compiled against the freshly generated files and C19_bridges.v = the bridge block of C19.v (the hook     *)
(* cuts it out, so that a failure of another statement of C19.v does not hide this layer).                  *)
(* ===================================================================================================== *)
From Coq Require Import ZArith QArith List String Bool Lia.
From Cop Require Import Model.Lifecycle Model.Vine Model.LifecycleTab Spec.LifecycleProofs.
From CopRun Require Import Gen_c19facts Gen_unictl Gen_uniwrap C19_bridges.
Import ListNotations.
Open Scope string_scope.
Open Scope list_scope.

(* the oracles of Model.Lifecycle's Section Oracles, as one record (Gen_uniwrap.oracles) *)
Notation fit_scipy_O O := (fit_scipy (or_sfit O) (or_tg_opt O) (or_tolist O) (or_resample O)).
Notation model_fit_constant_O O := (model__fit_constant (or_sfit O)).
Notation model_fit_O O := (model__fit (or_sfit O) (or_tg_opt O) (or_tolist O) (or_resample O)).

Ltac h_unfold := unfold m_seq, m_bind, m_ret, m_raise, m_lift, py_set__params, py_params_getitem, py_params_setitem, py_first_unique,
  py_get_min, py_get_max, py_get__sample_size, py_set__sample_size, py_get_bw_method, py_get_weights, py_get__model, py_set__model,
  py_list_repeat, py_jv_sub_num, py_fmin_slsqp_truncnorm, py_gaussian_kde_data, py_gaussian_kde_jv, py_kde_resample, py_unique_count_jv,
  py_index0, py_scipy_fit, py_dict_copy; unfold m_seq, m_bind, m_ret, m_raise, m_lift.

Lemma m_seq_eq : forall A (c : M unit) (k : M A) w,
  m_seq c k w = let (w1, r) := c w in match r with Ok _ => k w1 | Err e => (w1, Err e) end.
Proof. reflexivity. Qed.
Lemma m_bind_eq : forall A B (c : M A) (k : A -> M B) w,
  m_bind c k w = let (w1, r) := c w in match r with Ok a => k a w1 | Err e => (w1, Err e) end.
Proof. reflexivity. Qed.

Lemma jv_nat_natj : forall n, jv_nat (natj n) = Some n.
Proof. intros n. unfold jv_nat, natj. cbn [Qden inject_Z Qnum]. rewrite Pos.eqb_refl, Nat2Z.id. reflexivity. Qed.

(* ===================================================================================================== *)
(* 1. The family hooks                                                                                     *)
(* ===================================================================================================== *)

(* ---- _is_constant / _extract_constant: for every state ---- *)
Theorem C19_bridge2_hook_is_constant : forall O w, gen_hook__is_constant O w = model__is_constant w.
Proof.
  intros O [s src]. unfold gen_hook__is_constant, model__is_constant, py_dispatch, is_constant. cbn [fst snd].
  destruct (s_fam s); cbn [fam_name lookup String.eqb Ascii.eqb Bool.eqb];
    unfold gen_GaussianUnivariate__is_constant, gen_UniformUnivariate__is_constant, gen_BetaUnivariate__is_constant,
      gen_GammaUnivariate__is_constant, gen_StudentTUnivariate__is_constant, gen_LogLaplace__is_constant,
      gen_TruncatedGaussian__is_constant, gen_GaussianKDE__is_constant; h_unfold; cbn [fst snd];
    destruct (s_params s) as [p|]; try reflexivity.
  1-6: destruct (lookup "scale" p); reflexivity.
  - destruct (lookup "a" p); [|reflexivity]. destruct (lookup "b" p); reflexivity.
  - destruct (lookup "dataset" p) as [ds|]; [|reflexivity].
    destruct (kde_points ds) as [[|x r]|]; try reflexivity.
    destruct (all_equal (x :: r)); reflexivity.
Qed.

Theorem C19_bridge2_hook_extract_constant : forall O w, gen_hook__extract_constant O w = model__extract_constant w.
Proof.
  intros O [s src]. unfold gen_hook__extract_constant, model__extract_constant, py_dispatch, extract_constant. cbn [fst snd].
  destruct (s_fam s); cbn [fam_name lookup String.eqb Ascii.eqb Bool.eqb];
    unfold gen_GaussianUnivariate__extract_constant, gen_UniformUnivariate__extract_constant, gen_BetaUnivariate__extract_constant,
      gen_GammaUnivariate__extract_constant, gen_StudentTUnivariate__extract_constant, gen_LogLaplace__extract_constant,
      gen_TruncatedGaussian__extract_constant, gen_GaussianKDE__extract_constant; h_unfold; cbn [fst snd];
    destruct (s_params s) as [p|]; try reflexivity.
  destruct (lookup "dataset" p) as [ds|]; [|reflexivity].
  destruct ds as [| | | |[|x r]| | | |]; reflexivity.
Qed.

(* ---- _fit_constant: on constant data (the only data ScipyModel.fit hands it) ---- *)
Theorem C19_bridge2_hook_fit_constant : forall O X c w, d_const X = Some c ->
  gen_hook__fit_constant O X w = model_fit_constant_O O X w.
Proof.
  intros O X c [s src] EC. unfold gen_hook__fit_constant, model__fit_constant, py_dispatch, constant_params. rewrite EC. cbn [fst snd].
  destruct (s_fam s); cbn [fam_name lookup String.eqb Ascii.eqb Bool.eqb];
    unfold gen_GaussianUnivariate__fit_constant, gen_UniformUnivariate__fit_constant, gen_BetaUnivariate__fit_constant,
      gen_GammaUnivariate__fit_constant, gen_StudentTUnivariate__fit_constant, gen_LogLaplace__fit_constant,
      gen_TruncatedGaussian__fit_constant, gen_GaussianKDE__fit_constant, gen_StudentTUnivariate__fit, py_unique;
    rewrite ?EC; h_unfold; cbn [fst snd]; try reflexivity.
  (* GaussianKDE: [constant] * (self._sample_size or len(X)) *)
  destruct (truthy (s_ss s)).
  - destruct (jv_nat (s_ss s)); reflexivity.
  - unfold py_len_data. rewrite jv_nat_natj. reflexivity.
Qed.

(* ---- GaussianKDE._get_model ---- *)
Theorem C19_bridge2_kde_get_model : forall O s src,
  gen_GaussianKDE__get_model O (s, src) = let '(s', r) := kde_get_model s in ((s', src), r).
Proof.
  intros O s src. unfold gen_GaussianKDE__get_model, kde_get_model. h_unfold. cbn [fst snd].
  destruct (s_params s) as [p|]; [|reflexivity]. destruct (lookup "dataset" p) as [ds|]; reflexivity.
Qed.

(* ---- _fit: on non-constant data, on the global generator (fit is not under @random_state) ---- *)
Theorem C19_bridge2_hook_fit : forall O X s g, d_const X = None ->
  gen_hook__fit O X (s, RsGlobal g) = model_fit_O O X (s, RsGlobal g).
Proof.
  intros O X s g EC. unfold gen_hook__fit, model__fit, py_dispatch, plain_params. cbn [fst snd].
  destruct (s_fam s); cbn [fam_name lookup String.eqb Ascii.eqb Bool.eqb];
    unfold gen_GaussianUnivariate__fit, gen_UniformUnivariate__fit, gen_BetaUnivariate__fit, gen_GammaUnivariate__fit,
      gen_StudentTUnivariate__fit, gen_LogLaplace__fit; try (h_unfold; cbn [fst snd]; reflexivity).
  - (* TruncatedGaussian *)
    unfold gen_TruncatedGaussian__fit. h_unfold. unfold py_num, py_np_min, py_np_max, py_EPSILON, py_div, Qminus.
    cbv beta iota delta [fst snd].
    destruct (is_none (s_min s)); destruct (is_none (s_max s)); cbv beta iota delta [fst snd];
      match goal with |- context [match jv_q ?a with _ => _ end] => destruct (jv_q a) as [lo|] eqn:ELO end; cbn [fst snd]; try reflexivity;
      match goal with |- context [match jv_q ?a with _ => _ end] => destruct (jv_q a) as [hi|] eqn:EHI end; cbn [fst snd]; try reflexivity;
      destruct (or_tg_opt O X lo hi) as [loc scale]; cbn [fst snd]; reflexivity.
  - (* GaussianKDE *)
    unfold gen_GaussianKDE__fit. h_unfold. cbv beta iota delta [fst snd]. rewrite EC.
    destruct (truthy (s_ss s)); cbv beta iota.
    + destruct (kde_check (d_n X) false (s_bw s) (s_w s)); [reflexivity|]. cbv beta iota.
      destruct (jv_nat (s_ss s)) as [n|]; [|reflexivity]. cbv beta iota delta [fst snd py_tolist].
      rewrite C19_bridge2_kde_get_model. cbv beta iota delta [fst snd params].
      match goal with |- context [kde_get_model ?a] => destruct (kde_get_model a) as [s2 [km|e]] end; reflexivity.
    + cbv beta iota delta [fst snd py_tolist].
      rewrite C19_bridge2_kde_get_model. cbv beta iota delta [fst snd params].
      match goal with |- context [kde_get_model ?a] => destruct (kde_get_model a) as [s2 [km|e]] end; reflexivity.
Qed.

(* ===================================================================================================== *)
(* 2. The skeleton of Gen_unictl around the GENERATED hooks (C19_bridge_scipy_fit / _set_params restated)   *)
(* ===================================================================================================== *)
Theorem C19_bridge2_scipy_fit : forall O s X g,
  run_fit (gen_ScipyModel_fit (gen_hook__fit_constant O) (gen_hook__fit O) X) s g = fit_scipy_O O s X g.
Proof.
  intros O s X g. rewrite <- C19_bridge_scipy_fit. unfold run_fit. f_equal.
  unfold gen_ScipyModel_fit, m_seq, m_bind. rewrite C19_bridge_check_constant_value.
  destruct (d_const X) as [c|] eqn:EC.
  - rewrite (C19_bridge2_hook_fit_constant O X c) by exact EC. reflexivity.
  - rewrite C19_bridge2_hook_fit by exact EC. reflexivity.
Qed.

(* the fit-purity theorems, transferred to the fit made of generated parts only *)
Definition gen2_fit (O : oracles) (s : sinst) (X : data) (g : grng) : sinst * grng * option err :=
  run_fit (gen_ScipyModel_fit (gen_hook__fit_constant O) (gen_hook__fit O) X) s g.
Fixpoint gen2_run_fits (O : oracles) (s : sinst) (hs : list data) (g : grng) : sinst * grng :=
  match hs with
  | [] => (s, g)
  | X :: r => let '(s', g', _) := gen2_fit O s X g in gen2_run_fits O s' r g'
  end.
Lemma gen2_run_fits_bridge : forall O hs s g,
  gen2_run_fits O s hs g = run_fits_s (or_sfit O) (or_tg_opt O) (or_tolist O) (or_resample O) s hs g.
Proof.
  intros O. induction hs as [|X r IH]; intros s g; [reflexivity|].
  cbn [gen2_run_fits run_fits_s]. unfold gen2_fit. rewrite C19_bridge2_scipy_fit.
  destruct (fit_scipy_O O s X g) as [[s' g'] e]. apply IH.
Qed.
Theorem C19_gen2_fit_pure_scipy_full : forall O s0 hs X g0 g,
    s_fam s0 <> FKDE ->
    er (gen2_fit O (fst (gen2_run_fits O s0 hs g0)) X g) = None ->
    observe_s (st (gen2_fit O (fst (gen2_run_fits O s0 hs g0)) X g)) = observe_s (st (gen2_fit O s0 X g)).
Proof.
  intros O s0 hs X g0 g. rewrite gen2_run_fits_bridge. unfold gen2_fit. rewrite !C19_bridge2_scipy_fit.
  apply fit_pure_scipy_full.
Qed.
Theorem C19_gen2_fit_pure_plain : forall O s0 hs X g0 g,
    plain (s_fam s0) ->
    observe_s (st (gen2_fit O (fst (gen2_run_fits O s0 hs g0)) X g)) = observe_s (st (gen2_fit O s0 X g)).
Proof.
  intros O s0 hs X g0 g. rewrite gen2_run_fits_bridge. unfold gen2_fit. rewrite !C19_bridge2_scipy_fit.
  apply fit_pure_plain.
Qed.

(* _set_params of EVERY family (GaussianKDE's own one included): result, state on success, generator untouched *)
Lemma set_params_ext : forall O p w,
  gen_ScipyModel__set_params (gen_hook__is_constant O) (gen_hook__extract_constant O) p w
  = gen_ScipyModel__set_params model__is_constant model__extract_constant p w.
Proof.
  intros O p w. unfold gen_ScipyModel__set_params, m_seq, m_bind.
  destruct (py_set__params (py_dict_copy p) w) as [w1 [u|e]]; [|reflexivity].
  rewrite C19_bridge2_hook_is_constant. destruct (model__is_constant w1) as [w2 [[|]|e]]; try reflexivity.
  rewrite C19_bridge2_hook_extract_constant. reflexivity.
Qed.

Theorem C19_bridge2_set_params : forall O s src p,
  match set_params_scipy s p with
  | Ok s' => gen_hook__set_params O p (s, src) = ((s', src), Ok tt)
  | Err e => exists s1, gen_hook__set_params O p (s, src) = ((s1, src), Err e)
  end.
Proof.
  intros O s src p. unfold gen_hook__set_params, py_dispatch_default. cbn [fst].
  destruct (s_fam s) eqn:EF; cbn [fam_name lookup String.eqb Ascii.eqb Bool.eqb];
    try (rewrite set_params_ext, C19_bridge_set_params by (rewrite EF; discriminate);
         destruct (set_params_scipy s p); [reflexivity|eexists; reflexivity]).
  (* GaussianKDE._set_params *)
  unfold gen_GaussianKDE__set_params, set_params_scipy, bind. rewrite EF.
  rewrite m_seq_eq. change (py_set__params (py_dict_copy p) (s, src)) with ((set_params (Some p) s, src), Ok tt). cbv beta iota.
  rewrite m_seq_eq, m_bind_eq.
  pose proof (C19_bridge2_hook_is_constant O (set_params (Some p) s, src)) as HI.
  unfold gen_hook__is_constant, py_dispatch, model__is_constant in HI. cbn [fst snd] in HI.
  change (s_fam (set_params (Some p) s)) with (s_fam s) in HI. rewrite EF in HI.
  cbn [fam_name lookup String.eqb Ascii.eqb Bool.eqb] in HI. rewrite HI. clear HI.
  change (s_params (set_params (Some p) s)) with (Some p). cbv beta iota.
  destruct (is_constant FKDE p) as [[|]|e]; cbv beta iota; [| |eexists; reflexivity].
  - rewrite m_bind_eq.
    pose proof (C19_bridge2_hook_extract_constant O (set_params (Some p) s, src)) as HE.
    unfold gen_hook__extract_constant, py_dispatch, model__extract_constant in HE. cbn [fst snd] in HE.
    change (s_fam (set_params (Some p) s)) with (s_fam s) in HE. rewrite EF in HE.
    cbn [fam_name lookup String.eqb Ascii.eqb Bool.eqb] in HE. rewrite HE. clear HE.
    change (s_params (set_params (Some p) s)) with (Some p). cbv beta iota.
    destruct (extract_constant FKDE p) as [k|e]; cbv beta iota; [|eexists; reflexivity].
    unfold m_seq, m_bind. rewrite C19_bridge_set_constant_value. reflexivity.
  - unfold m_seq, m_bind. rewrite C19_bridge2_kde_get_model.
    destruct (kde_get_model (set_params (Some p) s)) as [s2 [km|e]]; [reflexivity|eexists; reflexivity].
Qed.

(* Univariate.from_dict over generated parts only (GaussianKDE._set_params included) *)
Theorem C19_bridge2_from_dict : forall O j,
  as_scipy (gen2_Univariate_from_dict (gen_hook__set_params O) j) = from_dict_scipy j.
Proof.
  intros O j. unfold gen2_Univariate_from_dict, from_dict_scipy.
  destruct j; try reflexivity. unfold r_bind, py_jv_copy, py_dict_pop. cbn [bind].
  destruct (dict_pop "type" d) as [[v rest]|]; [|reflexivity]. cbn [bind fst snd].
  destruct v; try reflexivity.
  unfold py_get_instance. destruct (resolve_name s) as [c|e]; [|reflexivity]. cbn [bind].
  destruct c as [f| | | |t]; try reflexivity.
  rewrite new_scipy_default. cbn [bind]. unfold py_obj__set_params, py_run_on.
  pose proof (C19_bridge2_set_params O (fresh f) (RsGlobal []) rest) as H.
  destruct (set_params_scipy (fresh f) rest) as [s'|e].
  - rewrite H. reflexivity.
  - destruct H as [s1 H]. rewrite H. reflexivity.
Qed.

(* ===================================================================================================== *)
(* 3. The queries of every family: probability_density / log_probability_density / sample                *)
(*    (GaussianKDE's own definitions generated; the hypothesis s_fam s <> FKDE of C19_bridge_query_* gone)  *)
(* ===================================================================================================== *)
Lemma dispatch_default_plain : forall A (c d : M A) w, s_fam (fst w) <> FKDE ->
  py_dispatch_default [("GaussianKDE", c)] d w = d w.
Proof.
  intros A c d [s src] H. unfold py_dispatch_default. cbn [fst] in *.
  destruct (s_fam s); try reflexivity. congruence.
Qed.
Lemma dispatch_default_kde : forall A (c d : M A) w, s_fam (fst w) = FKDE ->
  py_dispatch_default [("GaussianKDE", c)] d w = c w.
Proof. intros A c d [s src] H. unfold py_dispatch_default. cbn [fst] in *. rewrite H. reflexivity. Qed.
Lemma call_query_ext : forall name (c d : M obs) w, c w = d w -> py_call_query name c w = py_call_query name d w.
Proof. intros name c d w H. unfold py_call_query. destruct (ov_slot name) as [k|]; [destruct (overridden (fst w) k)|]; auto. Qed.

Theorem C19_bridge2_query_pdf : forall O s n g,
  run_q (py_call_query "probability_density" (gen_query_probability_density O)) s g = query_scipy s QPdf n g.
Proof.
  intros O s n g. destruct (family_eq_dec (s_fam s) FKDE) as [EF|NF].
  - unfold run_q. rewrite (call_query_ext _ _ (gen_GaussianKDE_probability_density O))
      by (apply dispatch_default_kde; exact EF).
    unfold py_call_query, query_scipy. cbn [fst snd ov_slot String.eqb Ascii.eqb Bool.eqb overridden].
    destruct (ov_pdf (s_ov s)); [reflexivity|].
    unfold gen_GaussianKDE_probability_density, class_query. rewrite m_seq_eq, C19_bridge_check_fit, EF.
    destruct (s_fitted s); [|reflexivity]. unfold py_kde_model_call. cbn [String.eqb Ascii.eqb Bool.eqb fst negb].
    destruct (s_model s); reflexivity.
  - rewrite <- (C19_bridge_query_pdf s n g NF). unfold run_q.
    rewrite (call_query_ext _ _ gen_ScipyModel_probability_density) by (apply dispatch_default_plain; exact NF). reflexivity.
Qed.

Theorem C19_bridge2_query_logpdf : forall O s n g,
  run_q (py_call_query "log_probability_density" (gen_query_log_probability_density O)) s g = query_scipy s QLogPdf n g.
Proof.
  intros O s n g. destruct (family_eq_dec (s_fam s) FKDE) as [EF|NF].
  - unfold run_q. rewrite (call_query_ext _ _ (gen_GaussianKDE_log_probability_density O))
      by (apply dispatch_default_kde; exact EF).
    unfold py_call_query at 1. unfold query_scipy. cbn [fst snd ov_slot String.eqb Ascii.eqb Bool.eqb overridden].
    unfold gen_GaussianKDE_log_probability_density, class_query. rewrite m_seq_eq, C19_bridge_check_fit, EF.
    destruct (s_fitted s) eqn:FIT; [|reflexivity]. cbn [negb]. rewrite m_bind_eq.
    unfold py_call_query. cbn [fst snd ov_slot String.eqb Ascii.eqb Bool.eqb overridden].
    destruct (ov_pdf (s_ov s)); [reflexivity|].
    unfold gen_GaussianKDE_probability_density. rewrite m_seq_eq, C19_bridge_check_fit, FIT.
    unfold py_kde_model_call. cbn [String.eqb Ascii.eqb Bool.eqb fst].
    destruct (s_model s); reflexivity.
  - rewrite <- (C19_bridge_query_logpdf s n g NF). unfold run_q.
    rewrite (call_query_ext _ _ gen_ScipyModel_log_probability_density) by (apply dispatch_default_plain; exact NF). reflexivity.
Qed.

Theorem C19_bridge2_query_sample : forall O s n g,
  run_q (py_call_query "sample" (gen_query_sample O n)) s g = query_scipy s QSample n g.
Proof.
  intros O s n g. destruct (family_eq_dec (s_fam s) FKDE) as [EF|NF].
  - unfold run_q. rewrite (call_query_ext _ _ (gen_GaussianKDE_sample O n)) by (apply dispatch_default_kde; exact EF).
    unfold py_call_query, query_scipy. cbn [fst snd ov_slot String.eqb Ascii.eqb Bool.eqb overridden].
    destruct (ov_sample (s_ov s)); [reflexivity|].
    unfold gen_GaussianKDE_sample, py_random_state, class_query. cbn [fst snd]. rewrite EF.
    destruct (s_rs s) as [[seed ds]|] eqn:ER.
    + rewrite m_seq_eq, C19_bridge_check_fit.
      destruct (s_fitted s); cbn [negb fst snd]; [|rewrite <- ER, set_rs_same; reflexivity].
      unfold py_kde_model_resample. cbn [fst snd].
      destruct (s_model s); cbn [fst snd push_draw]; [reflexivity|rewrite <- ER, set_rs_same; reflexivity].
    + rewrite m_seq_eq, C19_bridge_check_fit.
      destruct (s_fitted s); cbn [negb fst snd]; [|reflexivity].
      unfold py_kde_model_resample. cbn [fst snd].
      destruct (s_model s); reflexivity.
  - rewrite <- (C19_bridge_query_sample s n g NF). unfold run_q.
    rewrite (call_query_ext _ _ (gen_ScipyModel_sample n)) by (apply dispatch_default_plain; exact NF). reflexivity.
Qed.

(* ===================================================================================================== *)
(* 4. The selecting wrapper Univariate (Module Wr of Gen_uniwrap: the same translator, self a wrapper)      *)
(* ===================================================================================================== *)
(* the class-level methods of the selected instance: generated ones only.  [qi]: its four delegating queries by name *)
Definition gen_inst (O : oracles) (qi : string -> M obs) : inst_impl :=
  mkI qi (gen_query_sample O) (gen_ScipyModel_fit (gen_hook__fit_constant O) (gen_hook__fit O)) gen_ScipyModel__get_params.

Definition wrun_fit (c : Wr.M unit) (u : uinst) (g : grng) : uinst * grng * option err :=
  let '((u', src'), r) := c (u, RsGlobal g) in
  (u', match src' with RsGlobal g' => g' | RsOwn _ => g end, match r with Ok _ => None | Err e => Some e end).
Definition wrun_q (c : Wr.M obs) (u : uinst) (g : grng) : uinst * grng * obs :=
  let '((u', src'), r) := c (u, RsGlobal g) in
  (u', match src' with RsGlobal g' => g' | RsOwn _ => g end, match r with Ok o => o | Err e => ObsErr e end).
Notation fit_wrapper_O O := (fit_wrapper (or_sfit O) (or_tg_opt O) (or_tolist O) (or_resample O) (or_select O) (or_choice O)).

Lemma w_seq_eq : forall A (c : Wr.M unit) (k : Wr.M A) w,
  Wr.m_seq c k w = let (w1, r) := c w in match r with Ok _ => k w1 | Err e => (w1, Err e) end.
Proof. reflexivity. Qed.
Lemma w_bind_eq : forall A B (c : Wr.M A) (k : A -> Wr.M B) w,
  Wr.m_bind c k w = let (w1, r) := c w in match r with Ok a => k a w1 | Err e => (w1, Err e) end.
Proof. reflexivity. Qed.

Theorem C19_bridge2_wrapper_check_fit : forall u src,
  Wr.gen_Univariate_check_fit (u, src) = ((u, src), if u_fitted u then Ok tt else Err NotFitted).
Proof. intros. unfold Wr.gen_Univariate_check_fit, Wr.m_bind, Wr.m_ret, Wr.m_raise, Wr.py_get_fitted. cbn [fst snd]. destruct (u_fitted u); reflexivity. Qed.

(* ScipyModel.fit around the generated hooks once more, with the generator it leaves installed (the global one) *)
Theorem C19_bridge2_scipy_fit_full : forall O s X g,
  gen_ScipyModel_fit (gen_hook__fit_constant O) (gen_hook__fit O) X (s, RsGlobal g)
  = let '(s', g', e) := fit_scipy_O O s X g in ((s', RsGlobal g'), match e with None => Ok tt | Some e' => Err e' end).
Proof.
  intros O s X g. unfold gen_ScipyModel_fit, fit_scipy.
  rewrite m_seq_eq, m_bind_eq, C19_bridge_check_constant_value.
  destruct (d_const X) as [c|] eqn:EC; cbv beta iota.
  - rewrite m_seq_eq, (C19_bridge2_hook_fit_constant O X c) by exact EC.
    unfold model__fit_constant. rewrite EC. cbn [fst snd].
    destruct (constant_params (or_sfit O) (set_constant (qj c) s) X c); reflexivity.
  - rewrite m_seq_eq, C19_bridge2_hook_fit by exact EC. unfold model__fit. cbn [fst snd].
    set (s0 := set_ov no_ov (set_const None s)).
    destruct (s_fam s0) eqn:EF; try reflexivity.
    + destruct (jv_q (if is_none (s_min s0) then qj (d_min X - EPS) else s_min s0)); [|reflexivity].
      destruct (jv_q (if is_none (s_max s0) then qj (d_max X + EPS) else s_max s0)); [|reflexivity].
      destruct (or_tg_opt O X q q0). reflexivity.
    + match goal with |- context [if truthy ?a then ?b else ?c] => destruct (if truthy a then b else c) as [[ds g1]|e] end; [|reflexivity].
      destruct (kde_get_model (set_params (Some [("dataset", ds)]) s0)) as [s2 [km|e]]; reflexivity.
Qed.

(* the subsample the selection runs on *)
Lemma lt_raises_jlt : forall j n, lt_raises j = true -> jlt_nat j n = false.
Proof. intros j n H. destruct j; try discriminate; reflexivity. Qed.

(* self._instance = select_univariate(sample, self.candidates); self._instance.fit(X); self.fitted = True *)
Ltac wrapper_fit_tail :=
  rewrite w_seq_eq, w_bind_eq; unfold Wr.py_get_candidates at 1; cbv beta iota delta [fst snd];
  rewrite w_bind_eq; cbv beta iota delta [fst snd];
  match goal with |- context [match or_select ?o ?S ?C with _ => _ end] =>
    destruct (match or_select o S C with Some i => nth_error C i | None => None end) as [c|] end;
  [ match goal with |- context [get_instance_cand ?cc] => destruct (get_instance_cand cc) as [s0|e] end; cbn [bind]; [|reflexivity];
    unfold Wr.py_set__instance at 1; cbv beta iota delta [fst snd];
    rewrite w_seq_eq; unfold Wr.py_instance_fit, Wr.on_instance; cbn [fst snd u_instance setu_instance gen_inst i_fit];
    rewrite C19_bridge2_scipy_fit_full;
    match goal with |- context [fit_scipy_O ?o ?s ?x ?gg] => destruct (fit_scipy_O o s x gg) as [[s1 g2] [e'|]] end; reflexivity
  | reflexivity ].

Theorem C19_bridge2_wrapper_fit : forall O qi u X g,
  wrun_fit (Wr.gen_Univariate_fit O (gen_inst O qi) X) u g = fit_wrapper_O O u X g.
Proof.
  intros O qi u X g. unfold wrun_fit, Wr.gen_Univariate_fit, fit_wrapper.
  unfold gen_select_univariate, py_best_candidate, py_get_instance_opt, Wr.py_jv_lt_len, Wr.m_lift.
  rewrite w_bind_eq. rewrite w_bind_eq. rewrite w_bind_eq.
  unfold Wr.py_get_selection_sample_size at 1. cbv beta iota delta [fst snd].
  destruct (truthy (u_sel_ss u)) eqn:ET; cbv beta iota; cbn [andb].
  - rewrite w_bind_eq. unfold Wr.py_get_selection_sample_size at 1. cbv beta iota delta [fst snd].
    destruct (lt_raises (u_sel_ss u)) eqn:EL.
    + rewrite (lt_raises_jlt _ (d_n X) EL). reflexivity.
    + cbv beta iota. destruct (jlt_nat (u_sel_ss u) (d_n X)); cbv beta iota.
      * rewrite w_bind_eq. unfold Wr.py_get_selection_sample_size at 1, Wr.py_np_random_choice. cbv beta iota delta [fst snd].
        destruct (choice_size (u_sel_ss u)) as [k|e]; [|reflexivity]. cbv beta iota.
        wrapper_fit_tail.
      * unfold Wr.m_ret at 1. cbv beta iota. wrapper_fit_tail.
  - unfold Wr.m_ret at 1. cbv beta iota. unfold Wr.m_ret at 1. cbv beta iota. wrapper_fit_tail.
Qed.

(* ---- the delegating queries: check_fit first, then self._instance.<name> ---- *)
Lemma setu_instance_same : forall u s, u_instance u = Some s -> setu_instance (Some s) u = u.
Proof. intros [c r ss f i st0] s H. cbn in H. subst i. reflexivity. Qed.

(* [ok_on u I name k]: on the instance the wrapper holds, the class-level method i_query I name is the model's query k *)
Definition ok_on (u : uinst) (I : inst_impl) (name : string) (k : qkind) : Prop :=
  forall s n g, u_instance u = Some s -> run_q (py_call_query name (i_query I name)) s g = query_scipy s k n g.

Lemma wrapper_delegate : forall I name k u n g, ok_on u I name k ->
  wrun_q (Wr.m_seq Wr.gen_Univariate_check_fit (Wr.py_instance_query I name)) u g = query_wrapper u k n g.
Proof.
  intros I name k u n g H. unfold wrun_q, query_wrapper. rewrite w_seq_eq, C19_bridge2_wrapper_check_fit.
  destruct (u_fitted u); [|reflexivity]. cbn [negb]. unfold Wr.py_instance_query, Wr.on_instance. cbn [fst snd].
  destruct (u_instance u) as [s|] eqn:EI; [|reflexivity].
  specialize (H s n g EI). unfold run_q in H. revert H.
  destruct (py_call_query name (i_query I name) (s, RsGlobal g)) as [[s' src'] r]. intro H. rewrite <- H. reflexivity.
Qed.

Theorem C19_bridge2_wrapper_query_pdf : forall O I u n g, ok_on u I "probability_density" QPdf ->
  wrun_q (Wr.gen_Univariate_probability_density O I) u g = query_wrapper u QPdf n g.
Proof. intros. apply wrapper_delegate. assumption. Qed.
Theorem C19_bridge2_wrapper_query_cdf : forall O I u n g, ok_on u I "cumulative_distribution" QCdf ->
  wrun_q (Wr.gen_Univariate_cumulative_distribution O I) u g = query_wrapper u QCdf n g.
Proof. intros. apply wrapper_delegate. assumption. Qed.
Theorem C19_bridge2_wrapper_query_ppf : forall O I u n g, ok_on u I "percent_point" QPpf ->
  wrun_q (Wr.gen_Univariate_percent_point O I) u g = query_wrapper u QPpf n g.
Proof. intros. apply wrapper_delegate. assumption. Qed.
(* `if self._instance:` -- with _instance None the fallback np.log(self.probability_density(X)) raises the same AttributeError *)
Theorem C19_bridge2_wrapper_query_logpdf : forall O I u n g, ok_on u I "log_probability_density" QLogPdf ->
  wrun_q (Wr.gen_Univariate_log_probability_density O I) u g = query_wrapper u QLogPdf n g.
Proof.
  intros O I u n g H. destruct (u_instance u) as [s|] eqn:EI.
  - rewrite <- (wrapper_delegate I "log_probability_density" QLogPdf u n g H).
    unfold wrun_q, Wr.gen_Univariate_log_probability_density. rewrite !w_seq_eq, C19_bridge2_wrapper_check_fit.
    destruct (u_fitted u); [|reflexivity]. rewrite w_bind_eq. unfold Wr.py_instance_truthy. cbn [fst snd]. rewrite EI. reflexivity.
  - unfold wrun_q, query_wrapper, Wr.gen_Univariate_log_probability_density. rewrite w_seq_eq, C19_bridge2_wrapper_check_fit.
    destruct (u_fitted u) eqn:EF; [|reflexivity]. rewrite w_bind_eq. unfold Wr.py_instance_truthy. cbn [fst snd negb]. rewrite EI.
    cbv beta iota. rewrite w_bind_eq. unfold Wr.py_call_query, Wr.gen_Univariate_probability_density.
    rewrite w_seq_eq, C19_bridge2_wrapper_check_fit, EF. unfold Wr.py_instance_query, Wr.on_instance. cbn [fst snd]. rewrite EI. reflexivity.
Qed.

(* the generated class-level queries of the instance: probability_density / log_probability_density for every family,
   cumulative_distribution / percent_point as inherited from ScipyModel (GaussianKDE's own two are not generated) *)
Definition gen_qi (O : oracles) (name : string) : M obs :=
  if String.eqb name "probability_density" then gen_query_probability_density O
  else if String.eqb name "log_probability_density" then gen_query_log_probability_density O
  else if String.eqb name "cumulative_distribution" then gen_ScipyModel_cumulative_distribution
  else gen_ScipyModel_percent_point.
Theorem C19_bridge2_gen_qi_pdf : forall O u, ok_on u (gen_inst O (gen_qi O)) "probability_density" QPdf.
Proof. intros O u s n g _. apply C19_bridge2_query_pdf. Qed.
Theorem C19_bridge2_gen_qi_logpdf : forall O u, ok_on u (gen_inst O (gen_qi O)) "log_probability_density" QLogPdf.
Proof. intros O u s n g _. apply C19_bridge2_query_logpdf. Qed.
Theorem C19_bridge2_gen_qi_cdf : forall O u, (forall s, u_instance u = Some s -> s_fam s <> FKDE) ->
  ok_on u (gen_inst O (gen_qi O)) "cumulative_distribution" QCdf.
Proof. intros O u H s n g E. apply C19_bridge_query_cdf. exact (H s E). Qed.
Theorem C19_bridge2_gen_qi_ppf : forall O u, (forall s, u_instance u = Some s -> s_fam s <> FKDE) ->
  ok_on u (gen_inst O (gen_qi O)) "percent_point" QPpf.
Proof. intros O u H s n g E. apply C19_bridge_query_ppf. exact (H s E). Qed.

(* ---- to_dict of a wrapper: Univariate.to_dict around the wrapper's _get_params ---- *)
Theorem C19_bridge2_wrapper_to_dict : forall O qi u src, exists r,
  Wr.gen_Univariate_to_dict (Wr.gen_Univariate__get_params O (gen_inst O qi)) (u, src) = ((u, src), r)
  /\ dict_result r = to_dict_wrapper u.
Proof.
  intros O qi u src. unfold Wr.gen_Univariate_to_dict, to_dict_wrapper.
  rewrite w_seq_eq, C19_bridge2_wrapper_check_fit.
  destruct (u_fitted u); [|eexists; split; reflexivity]. cbn [negb]. rewrite w_bind_eq.
  unfold Wr.gen_Univariate__get_params, Wr.py_instance__get_params, Wr.on_instance. cbn [fst snd gen_inst i_get_params].
  destruct (u_instance u) as [s|] eqn:EI; [|eexists; split; reflexivity].
  rewrite C19_bridge_get_params. rewrite (setu_instance_same u s EI).
  destruct (s_params s) as [p|]; [|eexists; split; reflexivity].
  rewrite w_bind_eq, w_bind_eq. unfold Wr.py_self_class_is, Wr.py_qualified_name__instance, Wr.m_ret, py_setitem.
  cbn [fst snd String.eqb Ascii.eqb Bool.eqb]. rewrite EI. eexists; split; reflexivity.
Qed.

(* ---- sample under @random_state: a seeded wrapper installs its own stream; the instance's sample (itself under
        @random_state) draws from whatever is installed unless the instance has a stream of its own ---- *)
Definition own_view (seed : Z) (o : obs) : result obs :=
  match o with
  | ObsErr e => Err e
  | ObsDraw what m (RsGlobal d) => Ok (ObsDraw what m (RsOwn (seed, d)))
  | o' => Ok o'
  end.
Lemma query_sample_own : forall O s n seed ds,
  py_call_query "sample" (gen_query_sample O n) (s, RsOwn (seed, ds))
  = let '(s', ds', o) := query_scipy s QSample n ds in ((s', RsOwn (seed, ds')), own_view seed o).
Proof.
  intros O s n seed ds. unfold py_call_query, query_scipy. cbn [fst snd ov_slot String.eqb Ascii.eqb Bool.eqb overridden].
  destruct (ov_sample (s_ov s)); [reflexivity|].
  assert (HC : class_query s QSample =
               if negb (s_fitted s) then ObsErr NotFitted
               else match s_fam s with
                    | FKDE => match s_model s with Some m => ObsKde QSample m None | None => ObsErr AttributeErr end
                    | f => match s_params s with Some p => ObsScipy QSample f p | None => ObsErr TypeErr end
                    end)
    by (unfold class_query; destruct (s_fitted s); [|reflexivity]; destruct (s_fam s); reflexivity).
  rewrite HC. clear HC.
  destruct (family_eq_dec (s_fam s) FKDE) as [EF|NF].
  - unfold gen_query_sample. rewrite dispatch_default_kde by exact EF. rewrite EF.
    unfold gen_GaussianKDE_sample, py_random_state. cbn [fst snd].
    destruct (s_rs s) as [[seed2 ds2]|] eqn:ER; rewrite m_seq_eq, C19_bridge_check_fit;
      (destruct (s_fitted s); cbn [negb fst snd]; [|try (rewrite <- ER, set_rs_same); reflexivity]);
      unfold py_kde_model_resample; cbn [fst snd];
      (destruct (s_model s); cbn [fst snd push_draw]; [reflexivity|try (rewrite <- ER, set_rs_same); reflexivity]).
  - unfold gen_query_sample. rewrite dispatch_default_plain by exact NF.
    unfold gen_ScipyModel_sample, py_random_state. cbn [fst snd].
    destruct (s_rs s) as [[seed2 ds2]|] eqn:ER; rewrite m_seq_eq, C19_bridge_check_fit;
      (destruct (s_fitted s); cbn [negb fst snd]; [|try (rewrite <- ER, set_rs_same); reflexivity]);
      unfold py_model_rvs; cbn [fst snd];
      (destruct (s_params s); cbn [fst snd push_draw];
       [destruct (s_fam s); try reflexivity; congruence
       |try (rewrite <- ER, set_rs_same); destruct (s_fam s); try reflexivity; congruence]).
Qed.

Theorem C19_bridge2_wrapper_sample : forall O qi u n g,
  wrun_q (Wr.gen_Univariate_sample O (gen_inst O qi) n) u g = query_wrapper_rs u QSample n g.
Proof.
  intros O qi u n g. unfold wrun_q, Wr.gen_Univariate_sample, Wr.py_random_state, query_wrapper_rs, query_wrapper. cbn [fst snd].
  destruct (u_rs u) as [[seed ds]|] eqn:ER.
  - rewrite w_seq_eq, C19_bridge2_wrapper_check_fit.
    destruct (u_fitted u); cbn [negb fst snd]; [|destruct u; cbn in ER; subst; reflexivity].
    unfold Wr.py_instance_sample, Wr.on_instance. cbn [fst snd gen_inst i_sample].
    destruct (u_instance u) as [s|] eqn:EI; [|destruct u; cbn in ER; subst; reflexivity].
    rewrite query_sample_own. destruct (query_scipy s QSample n ds) as [[s' ds'] o]. cbn [fst snd].
    destruct o as [| | |what m [r|d]| | | | | | |]; reflexivity.
  - rewrite w_seq_eq, C19_bridge2_wrapper_check_fit.
    destruct (u_fitted u); cbn [negb fst snd]; [|reflexivity].
    unfold Wr.py_instance_sample, Wr.on_instance. cbn [fst snd gen_inst i_sample].
    destruct (u_instance u) as [s|] eqn:EI; [|reflexivity].
    pose proof (C19_bridge2_query_sample O s n g) as H. unfold run_q in H. revert H.
    destruct (py_call_query "sample" (gen_query_sample O n) (s, RsGlobal g)) as [[s' src'] r]. intro H. rewrite <- H. reflexivity.
Qed.

(* ---- the class tree and _select_candidates ---- *)
Theorem C19_bridge2_subclasses : py_as_cands (gen_subclasses PyScipyModel) = map CClass all_families.
Proof. reflexivity. Qed.
Theorem C19_bridge2_class_attrs : forall f,
  gen_PARAMETRIC (PyFam f) = fam_parametric f /\ gen_BOUNDED (PyFam f) = fam_bounded f.
Proof. destruct f; split; reflexivity. Qed.
Theorem C19_bridge2_select_candidates : forall par bnd,
  gen_Univariate__select_candidates par bnd = select_candidates par bnd.
Proof. intros [[|]|] [[| |]|]; vm_compute; reflexivity. Qed.

(* ---- Univariate.__init__ (under @store_args) ---- *)
Theorem C19_bridge2_wrapper_init : forall args kw, gen_Univariate___init__ args kw = new_wrapper args kw.
Proof.
  intros args kw. unfold gen_Univariate___init__, new_wrapper, r_bind, py_bind_args.
  destruct (bind_args ["candidates"; "parametric"; "bounded"; "random_state"; "selection_sample_size"] args kw) as [b|e]; [|reflexivity].
  cbn [bind]. unfold py_arg, py_None.
  destruct (getd "parametric" b (UJ JNone)) as [[]| | |] eqn:EP;
  destruct (getd "bounded" b (UJ JNone)) as [[]| | |] eqn:EB;
  destruct (getd "candidates" b (UJ JNone)) as [[]|[|? ?]| |] eqn:EC; cbn [bind py_arg_cands py_arg_ptype py_arg_btype]; try reflexivity;
  rewrite ?C19_bridge2_select_candidates;
  (destruct (getd "random_state" b (UJ JNone)) as [?j| | |]; cbn [bind py_validate_random_state]; try reflexivity;
   destruct (validate_rs j) as [rs|e]; cbn [bind]; try reflexivity;
   destruct (getd "selection_sample_size" b (UJ JNone)); reflexivity).
Qed.

(* ===================================================================================================== *)
Print Assumptions C19_bridge2_hook_is_constant.
Print Assumptions C19_bridge2_hook_extract_constant.
Print Assumptions C19_bridge2_hook_fit_constant.
Print Assumptions C19_bridge2_kde_get_model.
Print Assumptions C19_bridge2_hook_fit.
Print Assumptions C19_bridge2_scipy_fit.
Print Assumptions C19_gen2_fit_pure_scipy_full.
Print Assumptions C19_gen2_fit_pure_plain.
Print Assumptions C19_bridge2_set_params.
Print Assumptions C19_bridge2_from_dict.
Print Assumptions C19_bridge2_query_pdf.
Print Assumptions C19_bridge2_query_logpdf.
Print Assumptions C19_bridge2_query_sample.
Print Assumptions C19_bridge2_wrapper_check_fit.
Print Assumptions C19_bridge2_scipy_fit_full.
Print Assumptions C19_bridge2_wrapper_fit.
Print Assumptions C19_bridge2_wrapper_query_pdf.
Print Assumptions C19_bridge2_wrapper_query_cdf.
Print Assumptions C19_bridge2_wrapper_query_ppf.
Print Assumptions C19_bridge2_wrapper_query_logpdf.
Print Assumptions C19_bridge2_gen_qi_pdf.
Print Assumptions C19_bridge2_gen_qi_logpdf.
Print Assumptions C19_bridge2_gen_qi_cdf.
Print Assumptions C19_bridge2_gen_qi_ppf.
Print Assumptions C19_bridge2_wrapper_to_dict.
Print Assumptions C19_bridge2_wrapper_sample.
Print Assumptions C19_bridge2_subclasses.
Print Assumptions C19_bridge2_class_attrs.
Print Assumptions C19_bridge2_select_candidates.
Print Assumptions C19_bridge2_wrapper_init.
