(* C13 — Gaussian-copula density / CDF equal the normal-score MVN, in any representation.

   Object of the theorems: the definitions GENERATED on every run from the current source of
   copulas/multivariate/gaussian.py (_transform_to_normal, probability_density,
   cumulative_distribution) and copulas/multivariate/base.py (log_probability_density) by the
   shape-checking translator tools/vf/gmscores.py  ->  CopRun.Gen_gm_scores.
   The bridge lemmas below identify them with the hand-written model Cop.Model.Scores, whose
   theorems (Cop.Spec.ScoresProofs) are then restated for the generated definitions.

   Oracles (section variables, never axioms):
     scipy_mvn fn scores cov allow_singular   = scipy.stats.multivariate_normal.<fn>(scores, cov=cov, allow_singular=...)
     np_unary "log"                           = np.log
     norm_ppf, cdf_j                          = scipy.stats.norm.ppf, the fitted marginal CDFs
   What is NOT proved here: that scipy's multivariate_normal.pdf/cdf are the MVN density / CDF
   (trusted; the witness search compares with an independent evaluation), IEEE rounding. *)
From Coq Require Import String.
From Coq Require Import Reals List Bool Arith ZArith Lia Permutation Lra.
From Cop Require Import Lib.NumpyR Model.Scores Spec.ScoresProofs.
From CopRun Require Import Gen_gm_scores.
Import ListNotations.

(* ====================================================================== *)
(** * Bridge: generated definitions = Model.Scores *)
Section Bridge.
  Variables label V S : Type.
  Variable label_eqb : label -> label -> bool.

  Lemma C13_bridge_to_frame : forall columns X,
      gm_to_frame label V columns X = to_frame label V columns X.
  Proof.
    intros columns [f|rws|items|xs]; simpl; auto.
    unfold pd_DataFrame_rows. simpl. rewrite andb_true_r. reflexivity.
  Qed.

  Lemma C13_bridge_score_row : forall cu hdr r,
      gm_score_row label V S label_eqb cu hdr r = score_row label V S label_eqb cu hdr r.
  Proof. reflexivity. Qed.

  Lemma C13_bridge_transform_frame : forall cu f,
      gm_transform_frame label V S label_eqb cu f = transform_frame label V S label_eqb cu f.
  Proof. reflexivity. Qed.

  Lemma C13_bridge_transform : forall columns univariates X,
      gm_transform_to_normal label V S label_eqb columns univariates X =
      transform_to_normal label V S label_eqb columns univariates X.
  Proof.
    intros. unfold gm_transform_to_normal, transform_to_normal.
    rewrite C13_bridge_to_frame. reflexivity.
  Qed.

  Variables corr P : Type.
  Variable scipy_mvn : string -> list (list S) -> corr -> bool -> result (list P).
  Variable np_unary : string -> P -> P.

  (* the generated density calls scipy_mvn "pdf" ... allow_singular=True *)
  Lemma C13_bridge_pdf : forall m X,
      gm_probability_density label V S label_eqb corr P scipy_mvn m X =
      probability_density label V S label_eqb corr P (scipy_mvn "pdf"%string) m X.
  Proof.
    intros. unfold gm_probability_density, probability_density.
    rewrite C13_bridge_transform. reflexivity.
  Qed.

  (* the generated CDF calls scipy_mvn "cdf" ... without allow_singular *)
  Lemma C13_bridge_cdf : forall m X,
      gm_cumulative_distribution label V S label_eqb corr P scipy_mvn m X =
      cumulative_distribution label V S label_eqb corr P
        (fun s c => scipy_mvn "cdf"%string s c false) m X.
  Proof.
    intros. unfold gm_cumulative_distribution, cumulative_distribution.
    rewrite C13_bridge_transform. reflexivity.
  Qed.

  Lemma C13_bridge_logpdf : forall m X,
      gm_log_probability_density label V S label_eqb corr P scipy_mvn np_unary m X =
      log_probability_density label V S label_eqb corr P (scipy_mvn "pdf"%string)
                              (np_unary "log"%string) m X.
  Proof.
    intros. unfold gm_log_probability_density, log_probability_density.
    rewrite C13_bridge_pdf. reflexivity.
  Qed.
End Bridge.

Open Scope R_scope.
Lemma EPSILON_half : EPSILON <= 1 - EPSILON.
Proof. unfold EPSILON. lra. Qed.

(* the generated per-entry score is  norm.ppf(clip(cdf x, EPSILON, 1 - EPSILON)) *)
Lemma C13_bridge_score : forall norm_ppf cdf x,
    gm_score norm_ppf cdf x = score_of EPSILON norm_ppf cdf x.
Proof.
  intros. unfold gm_score, score_of, clip, np_clip, gm_clip_lo, gm_clip_hi. f_equal.
  pose proof EPSILON_half as H. set (c := cdf x).
  destruct (Rle_dec c EPSILON) as [H1|H1]; [|destruct (Rle_dec c (1 - EPSILON)) as [H2|H2]].
  - rewrite (Rmax_right c EPSILON), (Rmin_left EPSILON), (Rmin_right (1 - EPSILON) c), (Rmax_left EPSILON c); lra.
  - rewrite (Rmax_left c EPSILON), (Rmin_left c), (Rmin_right (1 - EPSILON) c), (Rmax_right EPSILON c); lra.
  - rewrite (Rmax_left c EPSILON), (Rmin_right c), (Rmin_left (1 - EPSILON) c), (Rmax_right EPSILON (1 - EPSILON)); lra.
Qed.
Close Scope R_scope.

(* ====================================================================== *)
(** * The property, for the generated definitions *)
Section C13.
  Variables label V S : Type.
  Variable label_eqb : label -> label -> bool.
  Hypothesis label_eqb_spec : forall a b, label_eqb a b = true <-> a = b.
  Variables corr P : Type.
  Variable scipy_mvn : string -> list (list S) -> corr -> bool -> result (list P).
  Variable np_unary : string -> P -> P.

  Notation T := (gm_transform_to_normal label V S label_eqb).
  Notation TF := (gm_transform_frame label V S label_eqb).
  Notation pdf := (gm_probability_density label V S label_eqb corr P scipy_mvn).
  Notation cdf := (gm_cumulative_distribution label V S label_eqb corr P scipy_mvn).
  Notation logpdf := (gm_log_probability_density label V S label_eqb corr P scipy_mvn np_unary).
  Notation reindex := (reindex label V label_eqb).
  Notation reindex_row := (reindex_row label V label_eqb).
  Notation score_row := (gm_score_row label V S label_eqb).

  (** ** delegation: pdf / cdf are scipy's MVN pdf / cdf applied to the score matrix of X
         with cov = the fitted correlation (allow_singular only for the density);
         log_probability_density is np.log of the density *)
  Theorem C13_delegation_pdf : forall (m : model label V S corr) X ps,
      pdf m X = Ok ps ->
      fitted _ _ _ _ m = true /\
      exists scores, T (columns _ _ _ _ m) (univariates _ _ _ _ m) X = Ok scores /\
                     scipy_mvn "pdf"%string scores (correlation _ _ _ _ m) true = Ok ps.
  Proof.
    intros m X ps H. rewrite C13_bridge_pdf in H.
    destruct (pdf_delegation _ _ _ label_eqb _ _ _ m X ps H) as [Hf [sc [H1 H2]]].
    split; auto. exists sc. rewrite C13_bridge_transform. auto.
  Qed.

  Theorem C13_delegation_cdf : forall (m : model label V S corr) X ps,
      cdf m X = Ok ps ->
      fitted _ _ _ _ m = true /\
      exists scores, T (columns _ _ _ _ m) (univariates _ _ _ _ m) X = Ok scores /\
                     scipy_mvn "cdf"%string scores (correlation _ _ _ _ m) false = Ok ps.
  Proof.
    intros m X ps H. rewrite C13_bridge_cdf in H.
    destruct (cdf_delegation _ _ _ label_eqb _ _ _ m X ps H) as [Hf [sc [H1 H2]]].
    split; auto. exists sc. rewrite C13_bridge_transform. auto.
  Qed.

  Theorem C13_logpdf_is_log_of_pdf : forall (m : model label V S corr) X,
      logpdf m X = match pdf m X with
                   | Ok ps => Ok (map (np_unary "log"%string) ps)
                   | Err e => Err e
                   end.
  Proof. reflexivity. Qed.

  Theorem C13_not_fitted : forall (m : model label V S corr) X,
      fitted _ _ _ _ m = false ->
      pdf m X = Err NotFittedError /\ cdf m X = Err NotFittedError /\ logpdf m X = Err NotFittedError.
  Proof.
    intros m X H. rewrite C13_bridge_logpdf, C13_bridge_pdf, C13_bridge_cdf.
    apply not_fitted. exact H.
  Qed.

  (** ** container invariance of the score matrix *)
  (* a DataFrame holding the training columns in ANY order = the 2-d array in training order *)
  Theorem C13_frame_any_column_order : forall columns univariates rws hdr',
      NoDup columns -> Permutation columns hdr' ->
      forallb (fun r => length r =? length columns) rws = true ->
      T columns univariates (CFrame (reindex (Build_frame columns rws) hdr')) =
      T columns univariates (CArray2 rws).
  Proof.
    intros columns univariates rws hdr' Hnd Hp Hw. rewrite !C13_bridge_transform.
    symmetry. apply scores_array_equals_permuted_frame; auto.
  Qed.

  (* two DataFrames that differ only in the order of their (distinct) columns *)
  Theorem C13_frame_permutation : forall columns univariates (f : frame label V) hdr',
      wf_frame label V f = true -> NoDup (header f) -> Permutation (header f) hdr' ->
      T columns univariates (CFrame (reindex f hdr')) = T columns univariates (CFrame f).
  Proof.
    intros. rewrite !C13_bridge_transform. apply scores_permutation_invariant; auto.
  Qed.

  (* one point: 1-d array = one-row 2-d array = Series with the index in any order *)
  Theorem C13_series_and_1d_array : forall columns univariates xs hdr',
      NoDup columns -> Permutation columns hdr' -> length xs = length columns ->
      T columns univariates (CArray1 xs) = T columns univariates (CArray2 [xs]) /\
      T columns univariates (CSeries (combine hdr' (reindex_row columns xs hdr'))) =
      T columns univariates (CArray2 [xs]).
  Proof.
    intros columns univariates xs hdr' Hnd Hp Hl. rewrite !C13_bridge_transform. split.
    - apply (scores_array1 label V S label_eqb columns univariates xs Hl).
    - rewrite scores_series_is_one_row_frame.
      assert (Hlab : forall x, In x columns <-> In x hdr').
      { intros x; split; intros H.
        - eapply Permutation_in; eauto.
        - eapply Permutation_in; [apply Permutation_sym|]; eauto. }
      assert (Hlen : length (reindex_row columns xs hdr') = length hdr').
      { apply reindex_row_length. intros c Hc Hn.
        apply (cell_None_iff label V label_eqb label_eqb_spec columns xs c Hl) in Hn.
        apply Hn. apply Hlab. exact Hc. }
      rewrite map_fst_combine, map_snd_combine by (symmetry; exact Hlen).
      assert (Hw : forallb (fun r => length r =? length columns) [xs] = true).
      { simpl. rewrite (proj2 (Nat.eqb_eq _ _) Hl). reflexivity. }
      rewrite (scores_array_equals_permuted_frame label V S label_eqb label_eqb_spec
                 columns univariates [xs] hdr' Hw Hnd Hp).
      reflexivity.
  Qed.

  (* equal score matrices give equal density, CDF and log-density *)
  Theorem C13_results_container_invariant : forall (m : model label V S corr) X X',
      T (columns _ _ _ _ m) (univariates _ _ _ _ m) X =
      T (columns _ _ _ _ m) (univariates _ _ _ _ m) X' ->
      pdf m X = pdf m X' /\ cdf m X = cdf m X' /\ logpdf m X = logpdf m X'.
  Proof.
    intros m X X' H. rewrite !C13_bridge_transform in H.
    rewrite !C13_bridge_logpdf, !C13_bridge_pdf, !C13_bridge_cdf.
    apply pdf_container_invariant. exact H.
  Qed.

  (** the RESULTS (density, CDF, log-density) are the same for a DataFrame in any column order and
      the 2-d array in training order; for one point also for a Series (index in any order) and a
      1-d array *)
  Corollary C13_result_any_representation : forall (m : model label V S corr) rws hdr',
      NoDup (columns _ _ _ _ m) -> Permutation (columns _ _ _ _ m) hdr' ->
      forallb (fun r => length r =? length (columns _ _ _ _ m)) rws = true ->
      let Xf := CFrame (reindex (Build_frame (columns _ _ _ _ m) rws) hdr') in
      pdf m Xf = pdf m (CArray2 rws) /\ cdf m Xf = cdf m (CArray2 rws) /\ logpdf m Xf = logpdf m (CArray2 rws).
  Proof.
    intros m rws hdr' Hnd Hp Hw Xf. apply C13_results_container_invariant.
    apply C13_frame_any_column_order; auto.
  Qed.

  Corollary C13_result_one_point_any_representation : forall (m : model label V S corr) xs hdr',
      NoDup (columns _ _ _ _ m) -> Permutation (columns _ _ _ _ m) hdr' ->
      length xs = length (columns _ _ _ _ m) ->
      let Xs := CSeries (combine hdr' (reindex_row (columns _ _ _ _ m) xs hdr')) in
      (pdf m Xs = pdf m (CArray2 [xs]) /\ cdf m Xs = cdf m (CArray2 [xs]) /\ logpdf m Xs = logpdf m (CArray2 [xs])) /\
      (pdf m (CArray1 xs) = pdf m (CArray2 [xs]) /\ cdf m (CArray1 xs) = cdf m (CArray2 [xs]) /\
       logpdf m (CArray1 xs) = logpdf m (CArray2 [xs])).
  Proof.
    intros m xs hdr' Hnd Hp Hl Xs.
    destruct (C13_series_and_1d_array (columns _ _ _ _ m) (univariates _ _ _ _ m) xs hdr' Hnd Hp Hl) as [H1 H2].
    split; apply C13_results_container_invariant; assumption.
  Qed.

  (* a 2-d / 1-d array of the wrong width raises (pd.DataFrame(X, columns=self.columns)) *)
  Theorem C13_wrong_width_raises : forall columns univariates rws xs,
      (forallb (fun r => length r =? length columns) rws = false ->
       T columns univariates (CArray2 rws) = Err ValueError_shape) /\
      (length xs <> length columns -> T columns univariates (CArray1 xs) = Err ValueError_shape).
  Proof.
    intros. rewrite !C13_bridge_transform. split.
    - apply scores_array_wrong_width.
    - apply scores_array1_wrong_width.
  Qed.

  (** ** row-wise: row i of the score matrix is a function of row i of X only *)
  Theorem C13_rowwise : forall cu (f : frame label V) M i r,
      TF cu f = Ok M -> nth_error (rows f) i = Some r ->
      nth_error M i = Some (score_row cu (header f) r) /\
      TF cu (Build_frame (header f) [r]) = Ok [score_row cu (header f) r] /\
      length M = length (rows f).
  Proof.
    intros cu f M i r H Hn. rewrite C13_bridge_transform_frame in *.
    destruct (scores_rowwise label V S label_eqb cu f M i r H Hn) as [H1 H2].
    repeat split; auto. eapply scores_row_count; eauto.
  Qed.

  (* with scipy's MVN functions acting row by row (oracle hypothesis), so do pdf / cdf *)
  Variable mvn_row : string -> corr -> bool -> list S -> P.
  Hypothesis scipy_mvn_rowwise : forall fn scores c a,
      scipy_mvn fn scores c a = Ok (map (mvn_row fn c a) scores).

  Theorem C13_result_rowwise : forall (m : model label V S corr) (f : frame label V) ps qs i r,
      pdf m (CFrame f) = Ok ps -> cdf m (CFrame f) = Ok qs -> nth_error (rows f) i = Some r ->
      let cu := combine (columns _ _ _ _ m) (univariates _ _ _ _ m) in
      nth_error ps i = Some (mvn_row "pdf"%string (correlation _ _ _ _ m) true (score_row cu (header f) r)) /\
      nth_error qs i = Some (mvn_row "cdf"%string (correlation _ _ _ _ m) false (score_row cu (header f) r)).
  Proof.
    intros m f ps qs i r Hp Hq Hn cu.
    destruct (C13_delegation_pdf m _ _ Hp) as [_ [sc [H1 H2]]].
    destruct (C13_delegation_cdf m _ _ Hq) as [_ [sc' [H1' H2']]].
    rewrite H1 in H1'. inversion H1'; subst sc'. clear H1'.
    unfold gm_transform_to_normal in H1. simpl in H1. fold cu in H1.
    destruct (C13_rowwise cu f sc i r H1 Hn) as [Hrow _].
    rewrite scipy_mvn_rowwise in H2, H2'. inversion H2; inversion H2'; subst.
    rewrite !nth_error_map, Hrow. simpl. auto.
  Qed.

  (** ** what the code does with MISSING / extra columns (stated because it is what it does:
         a missing training column is silently skipped, so scipy receives a narrower matrix) *)
  Theorem C13_missing_column_silently_skipped : forall cu (f : frame label V),
      wf_frame label V f = true -> present label V S label_eqb cu (header f) <> [] ->
      exists M, TF cu f = Ok M /\
                TF (present label V S label_eqb cu (header f)) f = Ok M /\
                Forall (fun row => length row = length (present label V S label_eqb cu (header f))) M.
  Proof. intros. rewrite !C13_bridge_transform_frame. apply scores_missing_column; auto. Qed.

  Theorem C13_no_training_column_raises : forall cu (f : frame label V),
      wf_frame label V f = true -> (forall c, In c (map fst cu) -> ~ In c (header f)) ->
      TF cu f = Err ValueError_no_arrays.
  Proof. intros. rewrite C13_bridge_transform_frame. apply scores_no_training_column; auto. Qed.

  Theorem C13_all_columns_present_full_width : forall cu (f : frame label V) M,
      TF cu f = Ok M -> (forall c, In c (map fst cu) -> In c (header f)) ->
      Forall (fun row => length row = length cu) M.
  Proof. intros cu f M H. rewrite C13_bridge_transform_frame in H. eapply scores_all_present_width; eauto. Qed.
End C13.

(* ====================================================================== *)
(** * monotonicity and range of the CDF (over R) *)
Open Scope R_scope.
Section C13_monotone.
  Variable label : Type.
  Variable label_eqb : label -> label -> bool.
  Variable norm_ppf : R -> R.
  Hypothesis norm_ppf_mono : forall p q, EPSILON <= p -> p <= q -> q <= 1 - EPSILON -> norm_ppf p <= norm_ppf q.

  (* each generated score is non-decreasing in its coordinate when the marginal CDF is (C03) *)
  Theorem C13_score_nondecreasing : forall cdf, nondecreasing cdf -> nondecreasing (gm_score norm_ppf cdf).
  Proof.
    intros cdf Hc x y Hxy. rewrite !C13_bridge_score.
    apply (score_of_nondecreasing EPSILON norm_ppf EPSILON_half norm_ppf_mono cdf Hc x y Hxy).
  Qed.

  Theorem C13_scores_monotone : forall (cols : list label) (cdfs : list (R -> R)) hdr r r',
      Forall nondecreasing cdfs -> Forall2 Rle r r' ->
      Forall2 Rle (gm_score_row label R R label_eqb (combine cols (map (gm_score norm_ppf) cdfs)) hdr r)
                  (gm_score_row label R R label_eqb (combine cols (map (gm_score norm_ppf) cdfs)) hdr r').
  Proof.
    intros cols cdfs hdr r r' Hc Hle. rewrite !C13_bridge_score_row.
    apply scores_monotone; auto.
    revert cols. induction Hc as [|cdf tl Hcdf Htl IH]; intros cols.
    - destruct cols; constructor.
    - destruct cols as [|c cols]; simpl; constructor; auto.
      simpl. apply C13_score_nondecreasing; auto.
  Qed.

  (* the row-level MVN CDF with the fitted correlation: oracle with its two textbook properties *)
  Variable mvn_cdf_row : list R -> R.
  Hypothesis mvn_cdf_range : forall s, 0 <= mvn_cdf_row s <= 1.
  Hypothesis mvn_cdf_mono : forall s s', Forall2 Rle s s' -> mvn_cdf_row s <= mvn_cdf_row s'.

  (** the copula CDF of a row lies in [0,1] and is non-decreasing in every coordinate *)
  Theorem C13_cdf_range_and_monotone : forall (cols : list label) (cdfs : list (R -> R)) hdr r r',
      Forall nondecreasing cdfs -> Forall2 Rle r r' ->
      let cu := combine cols (map (gm_score norm_ppf) cdfs) in
      0 <= mvn_cdf_row (gm_score_row label R R label_eqb cu hdr r) <= 1 /\
      mvn_cdf_row (gm_score_row label R R label_eqb cu hdr r) <=
      mvn_cdf_row (gm_score_row label R R label_eqb cu hdr r').
  Proof.
    intros cols cdfs hdr r r' Hc Hle cu. split.
    - apply mvn_cdf_range.
    - apply mvn_cdf_mono. apply C13_scores_monotone; auto.
  Qed.

  (* increasing ONE coordinate *)
  Corollary C13_cdf_monotone_coordinate : forall (cols : list label) (cdfs : list (R -> R)) hdr pre x y post,
      Forall nondecreasing cdfs -> x <= y ->
      let cu := combine cols (map (gm_score norm_ppf) cdfs) in
      mvn_cdf_row (gm_score_row label R R label_eqb cu hdr (pre ++ x :: post)) <=
      mvn_cdf_row (gm_score_row label R R label_eqb cu hdr (pre ++ y :: post)).
  Proof.
    intros cols cdfs hdr pre x y post Hc Hxy cu.
    apply (C13_cdf_range_and_monotone cols cdfs hdr); auto.
    induction pre; simpl; constructor; auto; try apply Rle_refl.
    induction post; constructor; auto. apply Rle_refl.
  Qed.
End C13_monotone.
Close Scope R_scope.

Print Assumptions C13_delegation_pdf.
Print Assumptions C13_frame_any_column_order.
Print Assumptions C13_series_and_1d_array.
Print Assumptions C13_result_any_representation.
Print Assumptions C13_result_one_point_any_representation.
Print Assumptions C13_result_rowwise.
Print Assumptions C13_missing_column_silently_skipped.
Print Assumptions C13_cdf_range_and_monotone.

(* ====================================================================== *)
(** * evaluation instance used by the correspondence check (labels, cells = Z tokens;
      the score of univariate j on cell v is the opaque token (j, v); the MVN oracle returns,
      per row, the record of its own call) *)
Inductive ptok :=
| Pv (fn : string) (allow_singular : bool) (cov : nat) (row : list (nat * Z))
| Pun (f : string) (p : ptok).

Definition tok_mvn (fn : string) (scores : list (list (nat * Z))) (c : nat) (allow : bool)
  : result (list ptok) := Ok (map (Pv fn allow c) scores).

Definition tok_model (is_fitted : bool) (cols : list Z) : model Z Z (nat * Z) nat :=
  {| fitted := is_fitted; columns := cols;
     univariates := map (fun j v => (j, v)) (seq 0 (length cols)); correlation := 7 |}.

Definition c13_scores (cols : list Z) (X : container Z Z) :=
  gm_transform_to_normal Z Z (nat * Z) Z.eqb cols (univariates _ _ _ _ (tok_model true cols)) X.
Definition c13_pdf (b : bool) (cols : list Z) (X : container Z Z) :=
  gm_probability_density Z Z (nat * Z) Z.eqb nat ptok tok_mvn (tok_model b cols) X.
Definition c13_cdf (b : bool) (cols : list Z) (X : container Z Z) :=
  gm_cumulative_distribution Z Z (nat * Z) Z.eqb nat ptok tok_mvn (tok_model b cols) X.
Definition c13_logpdf (b : bool) (cols : list Z) (X : container Z Z) :=
  gm_log_probability_density Z Z (nat * Z) Z.eqb nat ptok tok_mvn Pun (tok_model b cols) X.

(* non-vacuity: the hypotheses of the theorems are satisfiable and the statements have content *)
Lemma nat_eqb_spec' : forall a b, Nat.eqb a b = true <-> a = b.
Proof. intros. apply Nat.eqb_eq. Qed.

Example C13_demo_permutation :
  c13_pdf true [10; 20; 30]%Z (CFrame (Build_frame [30; 10; 20]%Z [[3; 1; 2]; [6; 4; 5]]%Z)) =
  c13_pdf true [10; 20; 30]%Z (CArray2 [[1; 2; 3]; [4; 5; 6]]%Z) /\
  c13_pdf true [10; 20; 30]%Z (CArray2 [[1; 2; 3]; [4; 5; 6]]%Z) =
  Ok [Pv "pdf" true 7 [(0, 1%Z); (1, 2%Z); (2, 3%Z)]; Pv "pdf" true 7 [(0, 4%Z); (1, 5%Z); (2, 6%Z)]].
Proof. split; reflexivity. Qed.

Example C13_demo_theorem_applies :
  gm_transform_to_normal nat nat nat Nat.eqb demo_cols demo_univs
     (CFrame (reindex nat nat Nat.eqb (Build_frame demo_cols [[1; 2; 3]; [4; 5; 6]]) [30; 10; 20])) =
  gm_transform_to_normal nat nat nat Nat.eqb demo_cols demo_univs (CArray2 [[1; 2; 3]; [4; 5; 6]]).
Proof.
  apply (C13_frame_any_column_order nat nat nat Nat.eqb nat_eqb_spec').
  - repeat constructor; simpl; intuition discriminate.
  - change [30; 10; 20] with ([30] ++ [10; 20]).
    change demo_cols with ([10; 20] ++ [30]). apply Permutation_app_comm.
  - reflexivity.
Qed.

Example C13_demo_missing_column :
  c13_cdf true [10; 20; 30]%Z (CFrame (Build_frame [30; 10]%Z [[3; 1]]%Z)) = Ok [Pv "cdf" false 7 [(0, 1%Z); (2, 3%Z)]] /\
  c13_logpdf true [10; 20; 30]%Z (CArray1 [1; 2]%Z) = Err ValueError_shape /\
  c13_logpdf false [10; 20; 30]%Z (CArray1 [1; 2; 3]%Z) = Err NotFittedError /\
  c13_logpdf true [10; 20]%Z (CSeries [(20, 5); (10, 4)]%Z) = Ok [Pun "log" (Pv "pdf" true 7 [(0, 4%Z); (1, 5%Z)])].
Proof. repeat split; reflexivity. Qed.

Open Scope R_scope.
Example C13_monotone_hypotheses_inhabited :
  exists ppf cdfrow, (forall p q, EPSILON <= p -> p <= q -> q <= 1 - EPSILON -> ppf p <= ppf q) /\
                     (forall s : list R, 0 <= cdfrow s <= 1) /\
                     (forall s s', Forall2 Rle s s' -> cdfrow s <= cdfrow s').
Proof.
  exists (fun x => x), (fun _ => 1/2). repeat split; intros; lra.
Qed.
