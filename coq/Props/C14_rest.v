(* C14, the REST of the serialisation code GENERATED from the AST: bridge theorems and the round trips on the generated pairs.

   Gen_serialrest.v (tools/vf/serialrestgen.py, regenerated on every run from copulas/multivariate/tree.py, vine.py, base.py and
   copulas/univariate/base.py; the Python operations are denoted by coq/Lib/PySerialRest.v and coq/Lib/PyVineSerial.v) holds one
   Gallina definition per function:

     Edge.__init__                 -> gen_Edge___init__
     Edge.from_dict                -> gen_Edge_from_dict_fuel / gen_Edge_from_dict
     VineCopula.to_dict            -> gen_VineCopula_to_dict          (hook: <univariate>.to_dict)
     VineCopula.from_dict          -> gen_VineCopula_from_dict        (hook: Univariate.from_dict; uses gen_VineCopula__deserialize_trees)
     Univariate.save / load        -> gen_Univariate_save / gen_Univariate_load
     Multivariate.save / load      -> gen_Multivariate_save / gen_Multivariate_load

   Each is proved EQUAL, for all inputs, to the hand-written definition of Spec/VineSerial.v (edge_from_dict / edge_of_dict,
   vine_to_dict, vine_of_dict) resp. Spec/PickleFiles.v (save_model, load_model) the C14 theorems are about; the round trips are then
   stated on the GENERATED pairs.  This file is copied into the build directory and compiled on every run against the freshly
   generated files (after C14_vine.v, whose bridge theorems it uses). *)
From Coq Require Import ZArith QArith List String Bool Lia PeanoNat.
From Cop Require Import Model.Lifecycle Spec.LifecycleProofs Spec.VineSerial Spec.PickleFiles Lib.PyVineSerial Lib.PySerialRest.
From CopRun Require Import Gen_vineserial C14_vine Gen_serialrest.
Import ListNotations.
Open Scope string_scope.
Open Scope list_scope.
Open Scope nat_scope.

Ltac key_step := cbn [py_e_setattr String.eqb Ascii.eqb Bool.eqb bind nats_of].

(* ------------------------------------------------------------------ *)
(** * Edge.__init__: which parameter goes to which attribute, the defaults of the other six *)
Definition name_of (x : pv) : result string :=
  match x with PEnum _ n => Ok n | PJ (JStr n) => Ok n | _ => Err Unmodelled end.

Theorem C14_bridge_Edge_init : forall xi xl xr xn xt : pv,
  gen_Edge___init__ xi xl xr xn xt
  = bind (as_nat xi) (fun i => bind (as_nat xl) (fun l => bind (as_nat xr) (fun r =>
    bind (name_of xn) (fun nm => bind (as_jv xt) (fun th => Ok (mkE i l r [] None [] nm th JNone JNone JNone)))))).
Proof.
  intros xi xl xr xn xt. unfold gen_Edge___init__, py_e_blank, py_empty_set, py_empty_list, py_None. cbv zeta. key_step.
  destruct (as_nat xi) as [i|e]; [|reflexivity]. key_step.
  destruct (as_nat xl) as [l|e]; [|reflexivity]. key_step.
  destruct (as_nat xr) as [r|e]; [|reflexivity]. key_step.
  assert (Hn : forall (T : Type) (k : string -> result T),
             match xn with PEnum _ n => k n | PJ (JStr n) => k n | _ => Err Unmodelled end = bind (name_of xn) k).
  { intros T k. destruct xn as [j|c n|q|dd]; try reflexivity. destruct j; reflexivity. }
  rewrite (Hn _ (fun n => Ok (mkE i l r [] None [] n JNone JNone JNone JNone))).
  destruct (name_of xn) as [nm|e]; [|reflexivity]. key_step.
  destruct (as_jv xt) as [th|e]; [|reflexivity]. key_step. cbn [as_jv bind]. reflexivity.
Qed.
Print Assumptions C14_bridge_Edge_init.

(* ------------------------------------------------------------------ *)
(** * Edge.from_dict: the keys read and their order, the recursive rebuild of `parents`, which attribute each key goes to *)
Lemma setattr_U i l r d ps nb nm th ta u lk a :
  py_e_setattr (mkE i l r d ps nb nm th ta u lk) "U" (py_array_value a) = Ok (mkE i l r d ps nb nm th ta a lk).
Proof. reflexivity. Qed.
Lemma setattr_D i l r d ps nb nm th ta u lk x :
  py_e_setattr (mkE i l r d ps nb nm th ta u lk) "D" x
  = bind (match x with PJ (JSet s) => Ok s | _ => Err Unmodelled end) (fun s => Ok (mkE i l r s ps nb nm th ta u lk)).
Proof. key_step. destruct x as [j|c n|q|dd]; try reflexivity. destruct j; reflexivity. Qed.
Lemma setattr_tau i l r d ps nb nm th ta u lk x :
  py_e_setattr (mkE i l r d ps nb nm th ta u lk) "tau" x = bind (as_jv x) (fun y => Ok (mkE i l r d ps nb nm th y u lk)).
Proof. reflexivity. Qed.
Lemma setattr_likelihood i l r d ps nb nm th ta u lk x :
  py_e_setattr (mkE i l r d ps nb nm th ta u lk) "likelihood" x = bind (as_jv x) (fun y => Ok (mkE i l r d ps nb nm th ta u y)).
Proof. reflexivity. Qed.
Lemma setattr_neighbors i l r d ps nb nm th ta u lk x :
  py_e_setattr (mkE i l r d ps nb nm th ta u lk) "neighbors" x
  = bind (match x with
          | PJ (JList q) => match nats_of q with Some q' => Ok q' | None => Err Unmodelled end
          | _ => Err Unmodelled
          end) (fun q' => Ok (mkE i l r d ps q' nm th ta u lk)).
Proof.
  key_step. destruct x as [j|c n|q|dd]; try reflexivity. destruct j as [q0|b| |s|q| | |s|b]; try reflexivity.
  destruct (nats_of q); reflexivity.
Qed.

(* the loop `for parent in parents: edge = Edge.from_dict(parent); instance.parents.append(edge)` *)
Lemma parents_loop (f : pv -> result edge) : forall (q : list pv) i l r d ps0 nb nm th ta u lk,
  py_for_result (fun p inst => bind (f p) (fun e => bind (py_e_parents_append inst e) (fun inst' => Ok inst')))
                q (mkE i l r d (Some ps0) nb nm th ta u lk)
  = bind (all_ok (map f q)) (fun q' => Ok (mkE i l r d (Some (ps0 ++ q')) nb nm th ta u lk)).
Proof.
  induction q as [|p q IH]; intros i l r d ps0 nb nm th ta u lk.
  - cbn [py_for_result map all_ok bind]. rewrite app_nil_r. reflexivity.
  - cbn [py_for_result map all_ok]. destruct (f p) as [e|er]; [|reflexivity]. cbn [bind py_e_parents_append].
    rewrite IH. destruct (all_ok (map f q)) as [q'|er]; [|reflexivity]. cbn [bind]. rewrite <- app_assoc. reflexivity.
Qed.

Theorem C14_bridge_Edge_from_dict_fuel : forall (fuel : nat) (p : pv), gen_Edge_from_dict_fuel fuel p = edge_from_dict fuel p.
Proof.
  induction fuel as [|fuel IH]; intros p; [reflexivity|].
  destruct p as [j|c n|q|d]; try reflexivity.
  cbn [gen_Edge_from_dict_fuel edge_from_dict]. unfold py_getitem, py_truthy, py_np_array. cbv zeta.
  destruct (pget "index" d) as [xi|e]; [|reflexivity]. cbn [bind].
  destruct (pget "L" d) as [xl|e]; [|reflexivity]. cbn [bind].
  destruct (pget "R" d) as [xr|e]; [|reflexivity]. cbn [bind].
  destruct (pget "name" d) as [xn|e]; [|reflexivity]. cbn [bind].
  destruct (pget "theta" d) as [xt|e]; [|reflexivity]. cbn [bind].
  rewrite C14_bridge_Edge_init.
  destruct (as_nat xi) as [i|e]; [|reflexivity]. cbn [bind].
  destruct (as_nat xl) as [l|e]; [|reflexivity]. cbn [bind].
  destruct (as_nat xr) as [r|e]; [|reflexivity]. cbn [bind].
  change (match xn with PEnum _ n0 => Ok n0 | PJ (JStr n0) => Ok n0 | _ => Err Unmodelled end) with (name_of xn).
  destruct (name_of xn) as [nm|e]; [|reflexivity]. cbn [bind].
  destruct (as_jv xt) as [th|e]; [|reflexivity]. cbn [bind].
  destruct (pget "U" d) as [xu|e]; [|reflexivity]. cbn [bind].
  destruct (as_jv xu) as [u|e]; [|reflexivity]. cbn [bind]. rewrite setattr_U. cbn [bind].
  destruct (pget "parents" d) as [xp|e]; [|reflexivity]. cbn [bind].
  (* the rest of the body, after `parents` is settled, as a function of the instance *)
  assert (Hrest : forall ps : option (list edge),
    bind (py_for_result (fun (v_key : string) (v_instance : edge) =>
            bind (pget v_key d) (fun x => bind (py_e_setattr v_instance v_key x) (fun v_instance0 => Ok v_instance0)))
            ["D"; "tau"; "likelihood"; "neighbors"] (mkE i l r [] ps [] nm th JNone u JNone)) (fun v_instance => Ok v_instance)
    = bind (bind (pget "D" d) (fun x => match x with PJ (JSet s) => Ok s | _ => Err Unmodelled end)) (fun dd =>
      bind (bind (pget "tau" d) as_jv) (fun ta => bind (bind (pget "likelihood" d) as_jv) (fun lk =>
      bind (bind (pget "neighbors" d) (fun x => match x with
                                                 | PJ (JList q) => match nats_of q with Some q' => Ok q' | None => Err Unmodelled end
                                                 | _ => Err Unmodelled
                                                 end)) (fun nb => Ok (mkE i l r dd ps nb nm th ta u lk)))))).
  { intros ps. cbn [py_for_result].
    destruct (pget "D" d) as [xd|e]; [|reflexivity]. cbn [bind]. rewrite setattr_D.
    destruct (match xd with PJ (JSet s) => Ok s | _ => Err Unmodelled end) as [dd|e]; [|reflexivity]. cbn [bind].
    destruct (pget "tau" d) as [xta|e]; [|reflexivity]. cbn [bind]. rewrite setattr_tau.
    destruct (as_jv xta) as [ta|e]; [|reflexivity]. cbn [bind].
    destruct (pget "likelihood" d) as [xlk|e]; [|reflexivity]. cbn [bind]. rewrite setattr_likelihood.
    destruct (as_jv xlk) as [lk|e]; [|reflexivity]. cbn [bind].
    destruct (pget "neighbors" d) as [xnb|e]; [|reflexivity]. cbn [bind]. rewrite setattr_neighbors.
    destruct (match xnb with
              | PJ (JList q) => match nats_of q with Some q' => Ok q' | None => Err Unmodelled end
              | _ => Err Unmodelled
              end) as [nb|e]; reflexivity. }
  destruct (pv_truthy xp) eqn:T.
  - cbn [py_e_parents_new]. unfold py_iter. destruct xp as [j|c n|q|dd]; try reflexivity.
    cbn [bind]. rewrite (parents_loop (gen_Edge_from_dict_fuel fuel)). rewrite (map_ext _ _ IH).
    destruct (all_ok (map (edge_from_dict fuel) q)) as [q'|e]; [|reflexivity]. cbn [bind app].
    rewrite (Hrest (Some q')). reflexivity.
  - cbn [bind]. rewrite (Hrest None). reflexivity.
Qed.

Theorem C14_bridge_Edge_from_dict : forall p : pv, gen_Edge_from_dict p = edge_of_dict p.
Proof. intros p. apply C14_bridge_Edge_from_dict_fuel. Qed.
Print Assumptions C14_bridge_Edge_from_dict.

(* the round trip on the GENERATED pair: every field, parents recursively (wf_edge: an edge never holds an empty parents list -
   Edge.to_dict writes None for it) *)
Theorem C14_gen_edge_roundtrip : forall e : edge, wf_edge e = true -> gen_Edge_from_dict (gen_Edge_to_dict e) = Ok e.
Proof. intros e H. rewrite C14_bridge_Edge_from_dict, C14_bridge_Edge_to_dict. apply edge_roundtrip. exact H. Qed.
Print Assumptions C14_gen_edge_roundtrip.

(* the edges of Tree.from_dict are rebuilt by the generated Edge.from_dict, in the order of the list *)
Corollary C14_gen_tree_edges_from_dicts : forall x : pv,
  py_edges_from_dicts x = match x with PList q => all_ok (map gen_Edge_from_dict q) | _ => Err Unmodelled end.
Proof. intros x. destruct x as [j|c n|q|d]; try reflexivity. unfold py_edges_from_dicts. rewrite (map_ext _ _ C14_bridge_Edge_from_dict). reflexivity. Qed.

(* ------------------------------------------------------------------ *)
(** * VineCopula.to_dict: the three header keys, the early return of an unfitted vine, the nine body keys in order, the trees
      through the generated Tree.to_dict, the univariates through <univariate>.to_dict in column order *)
Theorem C14_bridge_VineCopula_to_dict : forall v : vine, gen_VineCopula_to_dict to_dict_scipy v = vine_to_dict v.
Proof.
  intros [vt rs [b|]]; [|reflexivity].
  unfold gen_VineCopula_to_dict, vine_to_dict, py_v_fitted, py_v_n_sample, py_v_n_var, py_v_depth, py_v_truncated, py_v_trees, py_v_unis,
    py_v_columns, py_v_tau_mat_tolist, py_v_u_matrix_tolist, py_v_attr, py_comp. cbv zeta. cbn [v_body negb bind].
  rewrite (map_ext _ _ C14_bridge_Tree_to_dict).
  destruct (all_ok (map tree_to_dict (vb_trees b))) as [ts|e]; [|reflexivity]. cbn [bind].
  destruct (all_ok (map to_dict_scipy (vb_unis b))) as [us|e]; reflexivity.
Qed.
Print Assumptions C14_bridge_VineCopula_to_dict.

(* ------------------------------------------------------------------ *)
(** * VineCopula.from_dict: cls(vine_dict['vine_type']), the unfitted return, which key goes into which attribute (in the order of
      the source), the trees through the generated _deserialize_trees, the univariates through Univariate.from_dict in list order,
      ppfs = the percent_point methods of exactly these univariates *)
Definition ppfs_of (v : vine) : option (list sinst) := match v_body v with Some b => Some (vb_unis b) | None => None end.

Lemma new_vine_1 : forall vt : jv, new_vine [vt] [] = Ok (mkVine vt None None).
Proof. intros vt. reflexivity. Qed.

Theorem C14_bridge_VineCopula_from_dict : forall p : pv,
  gen_VineCopula_from_dict from_dict_scipy p = bind (vine_of_dict p) (fun v => Ok (v, ppfs_of v)).
Proof.
  intros p. destruct p as [j|c n|q|d]; try reflexivity.
  unfold gen_VineCopula_from_dict, vine_of_dict, py_getitem, py_vine_cls_call, py_truthy, py_int_attr, py_np_array, py_as_value, py_as_list,
    py_iter_jv, py_comp, py_vine_fitted, py_vine_unfitted, py_percent_points.
  destruct (pget "vine_type" d) as [x|e]; [|reflexivity]. cbn [bind map all_ok].
  destruct (as_jv x) as [vt|e]; [|reflexivity]. cbn [bind]. rewrite new_vine_1. cbn [bind].
  destruct (pget "fitted" d) as [f|e]; [|reflexivity]. cbn [bind].
  destruct (pv_truthy f); [|reflexivity].
  destruct (pget "n_sample" d) as [x1|e]; [|reflexivity]. cbn [bind].
  destruct (as_nat x1) as [ns|e]; [|reflexivity]. cbn [bind].
  destruct (pget "n_var" d) as [x2|e]; [|reflexivity]. cbn [bind].
  destruct (as_nat x2) as [nv|e]; [|reflexivity]. cbn [bind].
  destruct (pget "truncated" d) as [x3|e]; [|reflexivity]. cbn [bind].
  destruct (as_nat x3) as [tr|e]; [|reflexivity]. cbn [bind].
  destruct (pget "depth" d) as [x4|e]; [|reflexivity]. cbn [bind].
  destruct (as_nat x4) as [dp|e]; [|reflexivity]. cbn [bind].
  destruct (pget "trees" d) as [x5|e]; [|reflexivity]. cbn [bind].
  destruct x5 as [j5|c5 n5|l|d5]; try reflexivity. cbn [bind].
  rewrite C14_bridge_deserialize_trees.
  destruct (deserialize_trees l) as [ts|e]; [|reflexivity]. cbn [bind].
  unfold py_tree_objects. rewrite (proj1 (combine_seq_facts ts 0)).
  destruct (pget "unis" d) as [x6|e]; [|reflexivity]. cbn [bind].
  destruct x6 as [j6|c6 n6|l6|d6]; try reflexivity. destruct j6 as [q6|b6| |s6|us| | |s6|b6]; try reflexivity. cbn [bind].
  destruct (all_ok (map from_dict_scipy us)) as [us'|e]; [|reflexivity]. cbn [bind].
  destruct (pget "columns" d) as [x7|e]; [|reflexivity]. cbn [bind].
  destruct (as_jv x7) as [cols|e]; [|reflexivity]. cbn [bind].
  destruct (pget "tau_mat" d) as [x8|e]; [|reflexivity]. cbn [bind].
  destruct (as_jv x8) as [tau|e]; [|reflexivity]. cbn [bind].
  destruct (pget "u_matrix" d) as [x9|e]; [|reflexivity]. cbn [bind].
  destruct (as_jv x9) as [u|e]; reflexivity.
Qed.
Print Assumptions C14_bridge_VineCopula_from_dict.

(* the round trip on the GENERATED pair: the same dict again, the same trees (edges with parents, re-linked previous_tree), the same
   vine type; ppfs holds the percent_point methods of the rebuilt univariates, in their order *)
Theorem C14_gen_vine_roundtrip : forall (v : vine) (d : pv) (v' : vine) (ppfs : option (list sinst)),
  wf_vine v = true ->
  (forall b, v_body v = Some b -> Forall good_s (vb_unis b)) ->
  gen_VineCopula_to_dict to_dict_scipy v = Ok d ->
  gen_VineCopula_from_dict from_dict_scipy d = Ok (v', ppfs) ->
  gen_VineCopula_to_dict to_dict_scipy v' = Ok d /\ v_trees v' = v_trees v /\ v_type v' = v_type v /\ ppfs = ppfs_of v'.
Proof.
  intros v d v' ppfs Hw Hg Hd Hr. rewrite C14_bridge_VineCopula_to_dict in Hd. rewrite C14_bridge_VineCopula_from_dict in Hr.
  destruct (vine_of_dict d) as [v2|e] eqn:E; [|discriminate]. cbn [bind] in Hr. injection Hr as <- <-.
  rewrite C14_bridge_VineCopula_to_dict.
  destruct (vine_to_dict_roundtrip v d v2 Hw Hg Hd E) as (H1 & H2 & H3). repeat split; assumption.
Qed.
Print Assumptions C14_gen_vine_roundtrip.

(* an unfitted vine: three keys, rebuilt unfitted (fitted stays False, no attribute of a fitted vine - and no ppfs - is set) *)
Theorem C14_gen_unfitted_vine : forall vt rs,
  gen_VineCopula_to_dict to_dict_scipy (mkVine vt rs None) = Ok (vine_header vt false) /\
  gen_VineCopula_from_dict from_dict_scipy (vine_header vt false) = Ok (mkVine vt None None, None).
Proof. intros vt rs. split; reflexivity. Qed.

(* ------------------------------------------------------------------ *)
(** * Univariate.save / load, Multivariate.save / load: the pickle file *)
Lemma save_term_is_model : forall (A : Type) (path : string) (w : pworld A),
  py_with_open path "wb" (fun f => p_bind py_self (fun o => p_seq (py_pickle_dump o f) (p_ret tt))) w = save_model path w.
Proof.
  intros A path [i a f d pk].
  unfold py_with_open, save_model. cbn [mode_writes String.eqb Ascii.eqb Bool.eqb orb pw_denied pw_inst pw_files pw_picklable].
  destruct (mem_str path d); [reflexivity|].
  cbv [p_bind p_seq py_self py_pickle_dump p_ret set_files mode_writes mode_binary String.eqb Ascii.eqb Bool.eqb orb negb
       pw_denied pw_inst pw_files pw_picklable pw_assigned].
  destruct (pk i); rewrite dict_set_twice; reflexivity.
Qed.
Lemma load_term_is_model : forall (A : Type) (path : string) (w : pworld A),
  py_with_open path "rb" (fun f => py_pickle_load f) w = load_model path w.
Proof.
  intros A path w. unfold py_with_open, load_model, py_pickle_load.
  cbn [mode_writes mode_reads mode_binary String.eqb Ascii.eqb Bool.eqb orb negb].
  destruct (lookup path (pw_files w)) as [[a| |]|]; reflexivity.
Qed.

Theorem C14_bridge_Univariate_save : forall (A : Type) (path : string) (w : pworld A), gen_Univariate_save path w = save_model path w.
Proof. intros A path w. apply save_term_is_model. Qed.
Theorem C14_bridge_Univariate_load : forall (A : Type) (path : string) (w : pworld A), gen_Univariate_load path w = load_model path w.
Proof. intros A path w. apply load_term_is_model. Qed.
Theorem C14_bridge_Multivariate_save : forall (A : Type) (path : string) (w : pworld A), gen_Multivariate_save path w = save_model path w.
Proof. intros A path w. apply save_term_is_model. Qed.
Theorem C14_bridge_Multivariate_load : forall (A : Type) (path : string) (w : pworld A), gen_Multivariate_load path w = load_model path w.
Proof. intros A path w. apply load_term_is_model. Qed.
Print Assumptions C14_bridge_Univariate_save.
Print Assumptions C14_bridge_Univariate_load.
Print Assumptions C14_bridge_Multivariate_save.
Print Assumptions C14_bridge_Multivariate_load.

(* load (save m) = m on the GENERATED pairs: the whole instance state comes back (class, parameters, fitted flag, random state,
   the instance-level method overrides, the cached KDE object: whatever the state type A holds) *)
Theorem C14_gen_univariate_save_load : forall (A : Type) (w : pworld A) (path : string),
  mem_str path (pw_denied w) = false -> pw_picklable w (pw_inst w) = true ->
  exists w', gen_Univariate_save path w = (w', POk tt) /\ gen_Univariate_load path w' = (w', POk (pw_inst w)).
Proof.
  intros A w path Hd Hp. destruct (save_load_model A w path Hd Hp) as (w' & H1 & H2). exists w'.
  rewrite C14_bridge_Univariate_save, C14_bridge_Univariate_load. auto.
Qed.
Theorem C14_gen_multivariate_save_load : forall (A : Type) (w : pworld A) (path : string),
  mem_str path (pw_denied w) = false -> pw_picklable w (pw_inst w) = true ->
  exists w', gen_Multivariate_save path w = (w', POk tt) /\ gen_Multivariate_load path w' = (w', POk (pw_inst w)).
Proof.
  intros A w path Hd Hp. destruct (save_load_model A w path Hd Hp) as (w' & H1 & H2). exists w'.
  rewrite C14_bridge_Multivariate_save, C14_bridge_Multivariate_load. auto.
Qed.

(* save leaves the instance unchanged (no attribute of self is assigned, the state is the same, every other file is untouched) -
   whether it returns or raises *)
Theorem C14_gen_univariate_save_frame : forall (A : Type) (w : pworld A) (path : string),
  let w' := fst (gen_Univariate_save path w) in
  pw_inst w' = pw_inst w /\ pw_assigned w' = pw_assigned w /\
  (forall p, String.eqb p path = false -> lookup p (pw_files w') = lookup p (pw_files w)).
Proof. intros A w path. rewrite C14_bridge_Univariate_save. apply save_model_frame. Qed.
Theorem C14_gen_multivariate_save_frame : forall (A : Type) (w : pworld A) (path : string),
  let w' := fst (gen_Multivariate_save path w) in
  pw_inst w' = pw_inst w /\ pw_assigned w' = pw_assigned w /\
  (forall p, String.eqb p path = false -> lookup p (pw_files w') = lookup p (pw_files w)).
Proof. intros A w path. rewrite C14_bridge_Multivariate_save. apply save_model_frame. Qed.

(* a save that raises: open raised and NOTHING changed, or dump raised and the file is incomplete (a later load raises) *)
Theorem C14_gen_univariate_save_raises : forall (A : Type) (w : pworld A) (path : string) (e : perr),
  snd (gen_Univariate_save path w) = PErr e ->
  (e = POSError /\ fst (gen_Univariate_save path w) = w) \/
  (e = PPicklingError /\
   gen_Univariate_load path (fst (gen_Univariate_save path w)) = (fst (gen_Univariate_save path w), PErr PUnpicklingError)).
Proof. intros A w path e. rewrite C14_bridge_Univariate_save, C14_bridge_Univariate_load. apply save_model_raises. Qed.
Theorem C14_gen_multivariate_save_raises : forall (A : Type) (w : pworld A) (path : string) (e : perr),
  snd (gen_Multivariate_save path w) = PErr e ->
  (e = POSError /\ fst (gen_Multivariate_save path w) = w) \/
  (e = PPicklingError /\
   gen_Multivariate_load path (fst (gen_Multivariate_save path w)) = (fst (gen_Multivariate_save path w), PErr PUnpicklingError)).
Proof. intros A w path e. rewrite C14_bridge_Multivariate_save, C14_bridge_Multivariate_load. apply save_model_raises. Qed.

(* load writes nothing and touches nothing *)
Theorem C14_gen_load_pure : forall (A : Type) (w : pworld A) (path : string),
  fst (gen_Univariate_load path w) = w /\ fst (gen_Multivariate_load path w) = w.
Proof. intros A w path. rewrite C14_bridge_Univariate_load, C14_bridge_Multivariate_load. split; apply load_model_pure. Qed.

(* instances: a univariate (incl. the four instance-level method overrides of a constant fit) and the two multivariate models *)
Inductive mobj := MG (x : ginst) | MV (v : vine).
Corollary C14_gen_save_load_scipy : forall (s : sinst) (files : list (string * fcontent uobj)) (path : string),
  let w := mkPW (OS s) [] files [] (fun _ => true) in
  exists w', gen_Univariate_save path w = (w', POk tt) /\ gen_Univariate_load path w' = (w', POk (OS s)) /\
             pw_inst w' = OS s /\ pw_assigned w' = [].
Proof.
  intros s files path w. destruct (C14_gen_univariate_save_load uobj w path eq_refl eq_refl) as (w' & H1 & H2).
  exists w'. split; [exact H1|]. split; [exact H2|].
  pose proof (C14_gen_univariate_save_frame uobj w path) as F. cbv zeta in F. rewrite H1 in F. cbn [fst] in F.
  destruct F as (F1 & F2 & _). split; [exact F1|exact F2].
Qed.
Corollary C14_gen_save_load_overrides : forall (s : sinst) (files : list (string * fcontent uobj)) (path : string) (o : uobj),
  let w := mkPW (OS s) [] files [] (fun _ => true) in
  snd (gen_Univariate_load path (fst (gen_Univariate_save path w))) = POk o ->
  exists s', o = OS s' /\ s_ov s' = s_ov s /\ s_const s' = s_const s /\ s_params s' = s_params s /\ s_rs s' = s_rs s /\ s_model s' = s_model s.
Proof.
  intros s files path o w H. destruct (C14_gen_univariate_save_load uobj w path eq_refl eq_refl) as (w' & H1 & H2).
  rewrite H1 in H. cbn [fst] in H. rewrite H2 in H. cbn [snd] in H. injection H as <-. exists s. repeat split; reflexivity.
Qed.
Corollary C14_gen_save_load_multivariate : forall (m : mobj) (files : list (string * fcontent mobj)) (path : string),
  let w := mkPW m [] files [] (fun _ => true) in
  exists w', gen_Multivariate_save path w = (w', POk tt) /\ gen_Multivariate_load path w' = (w', POk m).
Proof. intros m files path w. exact (C14_gen_multivariate_save_load mobj w path eq_refl eq_refl). Qed.
Print Assumptions C14_gen_univariate_save_load.
Print Assumptions C14_gen_multivariate_save_load.
Print Assumptions C14_gen_univariate_save_frame.
Print Assumptions C14_gen_univariate_save_raises.

(* ------------------------------------------------------------------ *)
(** * Tree: the round trip on the generated pair keeps the edges in `self.edges` order *)
Theorem C14_gen_tree_roundtrip : forall (t : tree) (previous : prevt) (d : pv),
  wf_tree t = true -> linked previous t = true -> gen_Tree_to_dict t = Ok d -> gen_Tree_from_dict d previous = Ok t.
Proof.
  intros t previous d Hw Hl Hd. rewrite C14_bridge_Tree_to_dict in Hd. rewrite C14_bridge_Tree_from_dict.
  exact (tree_roundtrip t previous d Hw Hl Hd).
Qed.
(* the serialised list holds the dicts of the edges in `self.edges` order (no sorting), under the key "edges" ... *)
Theorem C14_gen_tree_edges_order : forall (ty : ttype) (b : tbody) (d : pv),
  gen_Tree_to_dict (mkTree ty (Some b)) = Ok d ->
  py_getitem d "edges" = Ok (PList (map gen_Edge_to_dict (tb_edges b))).
Proof.
  intros ty b d Hd. rewrite C14_bridge_Tree_to_dict in Hd. unfold tree_to_dict in Hd.
  rewrite (map_ext _ _ C14_bridge_Edge_to_dict).
  destruct (if tb_level b =? 1 then match tb_prev b with PrevArr a => Ok (PJ a) | _ => Err AttributeErr end else Ok (PJ JNone)) as [pr|e];
    [|discriminate]. cbn [bind] in Hd. injection Hd as <-. reflexivity.
Qed.
(* ... and the rebuilt tree has the same edges at the same positions *)
Corollary C14_gen_tree_roundtrip_edge_order : forall (t : tree) (previous : prevt) (d : pv) (t' : tree),
  wf_tree t = true -> linked previous t = true -> gen_Tree_to_dict t = Ok d -> gen_Tree_from_dict d previous = Ok t' ->
  forall b, tree_body t = Some b -> exists b', tree_body t' = Some b' /\ tb_edges b' = tb_edges b /\
                                               map ea_index (tb_edges b') = map ea_index (tb_edges b).
Proof.
  intros t previous d t' Hw Hl Hd Hr b Hb. rewrite (C14_gen_tree_roundtrip t previous d Hw Hl Hd) in Hr. injection Hr as <-.
  exists b. auto.
Qed.
Print Assumptions C14_gen_tree_roundtrip.
Print Assumptions C14_gen_tree_edges_order.

(* ------------------------------------------------------------------ *)
(** * Multivariate.from_dict on a vine dict (the F38 fix): the class named by params['type'] is looked up, NOT instantiated, and its
      from_dict classmethod gets the whole dict *)
Theorem C14_gen_dispatch_multivariate_vine : forall (R : Type) (h : pv -> result R) (d : list (string * pv)),
  pget "type" d = Ok (PJ (JStr vine_fqn)) -> gen_Multivariate_from_dict h (PDict d) = h (PDict d).
Proof. intros R h d H. unfold gen_Multivariate_from_dict, py_getitem. rewrite H. reflexivity. Qed.

(* equal to the model wherever the model speaks (the model knows one multivariate class with Python-valued dicts: VineCopula) *)
Theorem C14_bridge_Multivariate_from_dict_vine : forall p : pv,
  (forall s, py_getitem p "type" = Ok (PJ (JStr s)) -> s = vine_fqn) ->
  gen_Multivariate_from_dict vine_of_dict p = multivariate_from_dict_vine p.
Proof.
  intros p H. destruct p as [j|c n|q|d]; try reflexivity.
  unfold gen_Multivariate_from_dict, multivariate_from_dict_vine, py_getitem in *.
  destruct (pget "type" d) as [t|e]; [|reflexivity]. cbn [bind].
  destruct t as [j|c n|q|dd]; try reflexivity. destruct j as [q0|b| |s|q| | |s|b]; try reflexivity.
  rewrite (H s eq_refl). reflexivity.
Qed.

(* every dict written by the generated VineCopula.to_dict is dispatched to the generated VineCopula.from_dict ... *)
Theorem C14_gen_dispatch_written_vine : forall (v : vine) (d : pv),
  gen_VineCopula_to_dict to_dict_scipy v = Ok d ->
  gen_Multivariate_from_dict (gen_VineCopula_from_dict from_dict_scipy) d = gen_VineCopula_from_dict from_dict_scipy d.
Proof.
  intros v d Hd. rewrite C14_bridge_VineCopula_to_dict in Hd. unfold vine_to_dict in Hd. destruct (v_body v) as [b|].
  - unfold bind in Hd. destruct (all_ok (map tree_to_dict (vb_trees b))); [|discriminate].
    destruct (all_ok (map to_dict_scipy (vb_unis b))); [|discriminate]. injection Hd as <-.
    apply C14_gen_dispatch_multivariate_vine. reflexivity.
  - injection Hd as <-. apply C14_gen_dispatch_multivariate_vine. reflexivity.
Qed.
(* ... hence the generic entry point round-trips every well-formed vine *)
Theorem C14_gen_generic_vine_roundtrip : forall (v : vine) (d : pv) (v' : vine) (ppfs : option (list sinst)),
  wf_vine v = true ->
  (forall b, v_body v = Some b -> Forall good_s (vb_unis b)) ->
  gen_VineCopula_to_dict to_dict_scipy v = Ok d ->
  gen_Multivariate_from_dict (gen_VineCopula_from_dict from_dict_scipy) d = Ok (v', ppfs) ->
  gen_VineCopula_to_dict to_dict_scipy v' = Ok d /\ v_trees v' = v_trees v /\ v_type v' = v_type v /\ ppfs = ppfs_of v'.
Proof.
  intros v d v' ppfs Hw Hg Hd Hr. rewrite (C14_gen_dispatch_written_vine v d Hd) in Hr.
  exact (C14_gen_vine_roundtrip v d v' ppfs Hw Hg Hd Hr).
Qed.
Print Assumptions C14_gen_dispatch_multivariate_vine.
Print Assumptions C14_bridge_Multivariate_from_dict_vine.
Print Assumptions C14_gen_generic_vine_roundtrip.
