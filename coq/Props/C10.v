(* C10 — bivariate fit calibrates theta to the data's Kendall tau or refuses.
   Numeric pieces (compute_theta, theta domains, Frank's Debye residual) are generated from the
   source (R version in Gen_biv, executable Q version in Gen_bivq); the control skeleton of fit is
   the hand-written Model.BivCtl, tied to the implementation by the correspondence check AND by the
   statement-by-statement translation of check_theta / check_fit / check_marginal / _compute_theta / fit
   from the current source (CopRun.Gen_bivctl, tools/vf/bivctlgen.py), proved equal to Model.BivCtl
   below (the C10_bridge theorems). *)
From Coq Require Import Reals QArith Qreals List Bool Lra Lia.
From Coquelicot Require Import Coquelicot.
From Cop Require Import Lib.NumpyR Spec.ArchDefs Model.BivCtl.
From CopRun Require Import Gen_biv Gen_bivq Gen_bivctl.
Import ListNotations.
Open Scope R_scope.

(* ================= Clayton ================= *)
Theorem C10_clayton_calibration tau : tau <> 1 ->
  clayton_compute_theta tau = ThetaVal (clayton_theta_of_tau tau) /\
  clayton_tau_of_theta (clayton_theta_of_tau tau) = tau /\
  (0 <= clayton_theta_of_tau tau <-> 0 <= tau < 1 \/ (1 < tau /\ False) \/ (tau < 1 /\ 0 <= tau)).
Proof.
  intros H. split; [|split].
  - unfold clayton_compute_theta. rewrite (proj2 (Reqb_false tau 1)) by assumption.
    unfold clayton_theta_of_tau. reflexivity.
  - unfold clayton_tau_of_theta, clayton_theta_of_tau. field. split; lra.
  - unfold clayton_theta_of_tau. split.
    + intros Hge. destruct (Rlt_dec tau 1) as [L|L].
      * left. split; [|assumption].
        assert (0 < / (1 - tau)) by (apply Rinv_0_lt_compat; lra).
        unfold Rdiv in Hge. nra.
      * exfalso. assert (1 < tau) by lra.
        assert (/ (1 - tau) < 0) by (apply Rinv_lt_0_compat; lra).
        unfold Rdiv in Hge. nra.
    + intros [[H0 H1]|[[_ []]|[H1 H0]]];
        (assert (0 < / (1 - tau)) by (apply Rinv_0_lt_compat; lra); unfold Rdiv; nra).
Qed.
Theorem C10_clayton_negative_tau_refused tau : -1 <= tau < 0 -> clayton_theta_of_tau tau < 0.
Proof.
  intros [H1 H0]. unfold clayton_theta_of_tau.
  assert (0 < / (1 - tau)) by (apply Rinv_0_lt_compat; lra). unfold Rdiv. nra.
Qed.

(* ================= Gumbel ================= *)
Theorem C10_gumbel_calibration tau : tau <> 1 ->
  gumbel_compute_theta tau = ThetaVal (gumbel_theta_of_tau tau) /\
  gumbel_tau_of_theta (gumbel_theta_of_tau tau) = tau /\
  (0 <= tau < 1 -> 1 <= gumbel_theta_of_tau tau) /\
  (tau < 0 -> gumbel_theta_of_tau tau < 1).
Proof.
  intros H. repeat split.
  - unfold gumbel_compute_theta. rewrite (proj2 (Reqb_false tau 1)) by assumption. reflexivity.
  - unfold gumbel_tau_of_theta, gumbel_theta_of_tau. field. lra.
  - intros [H0 H1]. unfold gumbel_theta_of_tau.
    assert (0 < 1 - tau <= 1) by lra.
    unfold Rdiv. rewrite Rmult_1_l. rewrite <- Rinv_1 at 1. apply Rinv_le_contravar; lra.
  - intros H0. unfold gumbel_theta_of_tau. unfold Rdiv. rewrite Rmult_1_l.
    rewrite <- Rinv_1 at 2. apply Rinv_lt_contravar; lra.
Qed.
Theorem C10_gumbel_tau_one_refused : gumbel_compute_theta 1 = ThetaErr.
Proof. unfold gumbel_compute_theta. rewrite (proj2 (Reqb_true 1 1)) by reflexivity. reflexivity. Qed.

(* ================= Frank: the residual handed to least_squares is Frank's tau equation ================= *)
Definition debye1 (alpha : R) : R := RInt (fun t => t / (exp t - 1)) EPSILON alpha / alpha.
Definition frank_tau_equation (tau alpha : R) : R := 4 * (debye1 alpha - 1) / alpha + 1 - tau.

Theorem C10_frank_residual tau alpha :
  frank__tau_to_theta (fun f a b => RInt f a b) tau alpha = frank_tau_equation tau alpha.
Proof. reflexivity. Qed.

Section FrankSolver.
Variable least_squares : (R -> R) -> R -> R.
Hypothesis ls_root : forall f x0, f (least_squares f x0) = 0.   (* oracle: returns a zero of the residual *)
Theorem C10_frank_calibration tau :
  exists th, frank_compute_theta least_squares (fun f a b => RInt f a b) tau = ThetaVal th /\
             frank_tau_equation tau th = 0.
Proof.
  eexists. split; [reflexivity|]. rewrite <- C10_frank_residual. apply ls_root.
Qed.
End FrankSolver.

(* ================= executable Q versions agree with the R versions ================= *)
Lemma Q2R_1 : Q2R 1 = 1. Proof. unfold Q2R. simpl. field. Qed.
Lemma Q2R_2 : Q2R (2 # 1) = 2. Proof. unfold Q2R. simpl. field. Qed.
Lemma Qeq_bool_Q2R (a b : Q) : Qeq_bool a b = Reqb (Q2R a) (Q2R b).
Proof.
  destruct (Qeq_bool a b) eqn:E.
  - apply Qeq_bool_iff in E. symmetry. apply Reqb_true. apply Qeq_eqR. exact E.
  - symmetry. apply Reqb_false. intros H. apply eqR_Qeq in H. apply Qeq_bool_iff in H. congruence.
Qed.

Theorem C10_clayton_q_correct (tau : Q) :
  match clayton_compute_theta_q tau with
  | TVal q => clayton_compute_theta (Q2R tau) = ThetaVal (Q2R q)
  | TInf => clayton_compute_theta (Q2R tau) = ThetaInf
  | TErr => clayton_compute_theta (Q2R tau) = ThetaErr
  end.
Proof.
  unfold clayton_compute_theta_q, clayton_compute_theta.
  rewrite Qeq_bool_Q2R, Q2R_1.
  destruct (Reqb (Q2R tau) 1) eqn:E; [reflexivity|].
  apply Reqb_false in E. f_equal.
  rewrite Q2R_div, Q2R_mult, Q2R_minus, Q2R_2, Q2R_1; [reflexivity|].
  intros H. apply E. apply Qeq_eqR in H. rewrite Q2R_minus, Q2R_1 in H. unfold Q2R in H at 2. simpl in H. lra.
Qed.
Theorem C10_gumbel_q_correct (tau : Q) :
  match gumbel_compute_theta_q tau with
  | TVal q => gumbel_compute_theta (Q2R tau) = ThetaVal (Q2R q)
  | TInf => gumbel_compute_theta (Q2R tau) = ThetaInf
  | TErr => gumbel_compute_theta (Q2R tau) = ThetaErr
  end.
Proof.
  unfold gumbel_compute_theta_q, gumbel_compute_theta.
  rewrite Qeq_bool_Q2R, Q2R_1.
  destruct (Reqb (Q2R tau) 1) eqn:E; [reflexivity|].
  apply Reqb_false in E. f_equal.
  rewrite Q2R_div, Q2R_minus, Q2R_1; [reflexivity|].
  intros H. apply E. apply Qeq_eqR in H. rewrite Q2R_minus, Q2R_1 in H. unfold Q2R in H at 2. simpl in H. lra.
Qed.

(* ================= refusals and what "Ok" guarantees (control skeleton) ================= *)
Theorem C10_out_of_range_refused d compute U V tau :
  check_marginal U = false \/ check_marginal V = false ->
  fit_ctl d compute U V tau = FitErr ValueError false None.
Proof.
  intros [H|H]; unfold fit_ctl; rewrite H; simpl; [reflexivity|].
  destruct (check_marginal U); reflexivity.
Qed.
Theorem C10_nan_tau_refused d compute U V :
  check_marginal U = true -> check_marginal V = true ->
  fit_ctl d compute U V None = FitErr ValueError true None.
Proof. intros HU HV. unfold fit_ctl. rewrite HU, HV. reflexivity. Qed.
Theorem C10_ok_implies_admissible d compute U V tau t th :
  fit_ctl d compute U V tau = FitOk t th ->
  tau = Some t /\ check_theta d th = true /\
  (th = PInf /\ compute t = TInf \/ exists q, th = Fin q /\ compute t = TVal q).
Proof.
  unfold fit_ctl. destruct (check_marginal U); simpl; [|discriminate].
  destruct (check_marginal V); simpl; [|discriminate].
  destruct tau as [t'|]; [|discriminate].
  destruct (compute t') eqn:E; try discriminate.
  - destruct (check_theta d (Fin q)) eqn:C; [|discriminate]. intros H. inversion H; subst.
    split; [reflexivity|]. split; [assumption|]. right. exists q. split; [reflexivity|assumption].
  - destruct (check_theta d PInf) eqn:C; [|discriminate]. intros H. inversion H; subst.
    split; [reflexivity|]. split; [assumption|]. left. split; [reflexivity|assumption].
Qed.

(* ================= bridges: generated control skeleton (Gen_bivctl.v) = Model.BivCtl ================= *)
(* outcome of a checking method whose model is a boolean "passes" *)
Definition raised (ok : bool) (e : err) : option err := if ok then None else Some e.

(* case analysis on every atomic test occurring in the goal *)
Ltac ctl_atoms :=
  repeat match goal with
         | |- context [Qle_bool ?a ?b] => destruct (Qle_bool a b)
         | |- context [ext_le ?a ?b] => destruct (ext_le a b)
         | |- context [ext_eqb ?a ?b] => destruct (ext_eqb a b)
         | |- context [existsb ?f ?l] => destruct (existsb f l)
         | |- context [check_theta ?d ?x] => destruct (check_theta d x)
         | |- context [check_marginal ?l] => destruct (check_marginal l)
         | |- context [py_is_constant ?l] => destruct (py_is_constant l)
         end.
Ltac ctl_unfold :=
  unfold raised, py_raise_if, py_seq, py_in_q, py_with_theta, py_truthy, py_is_none, ext_lt, q_lt, q_gt, q_le, q_ge.

Theorem C10_bridge_check_theta d th :
  gen_check_theta d th = raised (check_theta d th) ValueError.
Proof. unfold gen_check_theta, check_theta. ctl_unfold. ctl_atoms; reflexivity. Qed.

Theorem C10_bridge_check_fit d th : gen_check_fit d th = check_fit d th.
Proof.
  unfold gen_check_fit, check_fit. ctl_unfold. destruct th as [t|]; [|reflexivity].
  rewrite ?C10_bridge_check_theta. ctl_unfold. ctl_atoms; reflexivity.
Qed.

(* min(u) / max(u) of an EMPTY sequence raise ValueError in the implementation, whereas Model.BivCtl.check_marginal []
   = true (fit still refuses such data: the Kendall tau of empty columns is NaN); the bridge is about non-empty columns *)
Theorem C10_bridge_check_marginal x r :
  gen_check_marginal (x :: r) = raised (check_marginal (x :: r)) ValueError.
Proof. unfold gen_check_marginal, check_marginal. ctl_unfold. ctl_atoms; reflexivity. Qed.
Theorem C10_bridge_check_marginal_empty : gen_check_marginal [] = Some ValueError /\ check_marginal [] = true.
Proof. split; reflexivity. Qed.

Theorem C10_bridge_fit d compute kendalltau u U v V :
  gen_fit d compute kendalltau (u :: U, v :: V) =
  fit_ctl d compute (u :: U) (v :: V) (kendalltau (u :: U) (v :: V)).
Proof.
  unfold gen_fit, fit_ctl, gen__compute_theta, f_run, f_seq, f_call, f_if, f_raise, f_skip, f_assign_tau, f_tau_isnan,
    f_assign_theta, f_check_theta, f_tau_assigned.
  rewrite !C10_bridge_check_marginal. unfold raised.
  destruct (check_marginal (u :: U)); [|reflexivity].
  destruct (check_marginal (v :: V)); [|reflexivity].
  cbn [negb s_tau s_theta].
  destruct (kendalltau (u :: U) (v :: V)) as [t|]; cbn [s_tau s_theta].
  - destruct (compute t) as [q| |]; cbn [s_tau s_theta]; try reflexivity;
      rewrite ?C10_bridge_check_theta; unfold raised; ctl_atoms; reflexivity.
  - ctl_atoms; reflexivity.
Qed.

(* the theorems about the control skeleton, transferred to the generated fit *)
Theorem C10_gen_fit_out_of_range_refused d compute kt u U v V :
  check_marginal (u :: U) = false \/ check_marginal (v :: V) = false ->
  gen_fit d compute kt (u :: U, v :: V) = FitErr ValueError false None.
Proof. intros H. rewrite C10_bridge_fit. now apply C10_out_of_range_refused. Qed.
Theorem C10_gen_fit_ok_implies_admissible d compute kt u U v V t th :
  gen_fit d compute kt (u :: U, v :: V) = FitOk t th ->
  kt (u :: U) (v :: V) = Some t /\ gen_check_theta d th = None /\
  (th = PInf /\ compute t = TInf \/ exists q, th = Fin q /\ compute t = TVal q).
Proof.
  rewrite C10_bridge_fit. intros H. apply C10_ok_implies_admissible in H. destruct H as [H1 [H2 H3]].
  split; [exact H1|]. split; [|exact H3]. rewrite C10_bridge_check_theta, H2. reflexivity.
Qed.

(* The statement at full strength: a fit that returns normally leaves a USABLE model.  It is false of
   the faithful model (and of the code): Clayton accepts tau = 0 (theta = 0, every query then raises
   NotFittedError) and tau = 1 (theta = inf). *)
Definition U4 : list Q := [1#10; 2#10; 3#10; 4#10].
Theorem C10_admissible_refuted_clayton_tau0 :
  exists U V, usable clayton_dom (fit_ctl clayton_dom clayton_compute_theta_q U V (Some 0%Q)) = false.
Proof. exists U4, U4. vm_compute. reflexivity. Qed.
Theorem C10_clayton_tau1_accepts_infinite_theta :
  fit_ctl clayton_dom clayton_compute_theta_q U4 U4 (Some 1%Q) = FitOk 1%Q PInf.
Proof. vm_compute. reflexivity. Qed.
(* partial: for 0 < tau < 1 the fitted Clayton model is usable; for Gumbel for 0 <= tau < 1 *)
Theorem C10_admissible_partial_clayton U V (tau : Q) :
  check_marginal U = true -> check_marginal V = true -> (0 < tau)%Q -> (tau < 1)%Q ->
  exists q, fit_ctl clayton_dom clayton_compute_theta_q U V (Some tau) = FitOk tau (Fin q) /\ (0 < q)%Q /\
            usable clayton_dom (FitOk tau (Fin q)) = true.
Proof.
  intros HU HV H0 H1.
  assert (E : Qeq_bool tau (1 # 1) = false).
  { destruct (Qeq_bool tau (1 # 1)) eqn:E; [|reflexivity]. apply Qeq_bool_iff in E. rewrite E in H1. discriminate. }
  set (q := ((2 # 1) * tau / ((1 # 1) - tau))%Q).
  assert (Hq : (0 < q)%Q).
  { unfold q. apply Qlt_shift_div_l.
    - unfold Qminus. rewrite <- (Qplus_opp_r tau). apply Qplus_lt_l. exact H1.
    - rewrite Qmult_0_l. apply Qmult_lt_0_compat; [reflexivity|assumption]. }
  assert (C : check_theta clayton_dom (Fin q) = true).
  { unfold check_theta, clayton_dom. cbn [d_lo d_hi d_invalid ext_le existsb negb]. rewrite !andb_true_r.
    apply Qle_bool_iff. apply Qlt_le_weak. exact Hq. }
  assert (Z : ext_eqb (Fin q) (Fin 0) = false).
  { cbn [ext_eqb]. destruct (Qeq_bool q 0) eqn:Z; [|reflexivity]. apply Qeq_bool_iff in Z. rewrite Z in Hq. discriminate. }
  exists q. split; [|split; [exact Hq|]].
  - unfold fit_ctl. rewrite HU, HV. cbn [negb]. unfold clayton_compute_theta_q. rewrite E. fold q. rewrite C. reflexivity.
  - unfold usable, check_fit. rewrite Z, C. reflexivity.
Qed.

Example C10_nonvacuous : check_marginal U4 = true /\ (0 < 1#2)%Q /\ ((1#2) < 1)%Q.
Proof. repeat split. Qed.

Print Assumptions C10_clayton_calibration.
Print Assumptions C10_gumbel_calibration.
Print Assumptions C10_frank_calibration.
Print Assumptions C10_clayton_q_correct.
Print Assumptions C10_ok_implies_admissible.
Print Assumptions C10_admissible_partial_clayton.
Print Assumptions C10_admissible_refuted_clayton_tau0.
Print Assumptions C10_bridge_check_theta.
Print Assumptions C10_bridge_check_fit.
Print Assumptions C10_bridge_check_marginal.
Print Assumptions C10_bridge_fit.
