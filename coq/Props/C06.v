(* C06 — Clayton, Frank and Gumbel CDFs are genuine Archimedean copulas.
   Every theorem is about the model GENERATED from /repo's current source (CopRun.Gen_biv),
   obtained from the bridge (Gen = Spec on the domain) and the Spec theorems. *)
From Coq Require Import Reals List Bool Lra Psatz.
From Coquelicot Require Import Coquelicot.
From Cop Require Import Lib.NumpyR Lib.RealLemmas Spec.ArchDefs.
From Cop Require Spec.Clayton Spec.Frank Spec.Gumbel Spec.ArchExtras.
From CopRun Require Import Gen_biv Bridge_biv.
Import ListNotations.
Open Scope R_scope.

Notation CC := clayton_cumulative_distribution.
Notation FC := frank_cumulative_distribution.
Notation GC := gumbel_cumulative_distribution.

(* ---------- helper: rewrite Gen to Spec inside (0,1]^2 ---------- *)
Lemma CC_spec th u v : 0 < th -> 0 < u <= 1 -> 0 < v <= 1 -> CC th u v = clayton_C th u v.
Proof. intros; apply bridge_clayton_cdf; assumption. Qed.
Lemma CC_zero_l th v : CC th 0 v = 0.
Proof. apply bridge_clayton_cdf_zero; left; lra. Qed.
Lemma CC_zero_r th u : CC th u 0 = 0.
Proof. apply bridge_clayton_cdf_zero; right; lra. Qed.

(* ================= boundary conditions ================= *)
Theorem C06_clayton_boundary th u : 0 < th -> 0 <= u <= 1 ->
  CC th u 0 = 0 /\ CC th 0 u = 0 /\ CC th u 1 = u /\ CC th 1 u = u.
Proof.
  intros Hth Hu. split; [apply CC_zero_r|]. split; [apply CC_zero_l|].
  destruct (Req_dec u 0) as [->|Hne].
  - split; [apply CC_zero_l | apply CC_zero_r].
  - split.
    + rewrite CC_spec by lra. apply Clayton.clayton_C_one_r; lra.
    + rewrite CC_spec by lra. apply Clayton.clayton_C_one_l; lra.
Qed.

Theorem C06_frank_boundary th u : th <> 0 -> 0 <= u <= 1 ->
  FC th u 0 = 0 /\ FC th 0 u = 0 /\ FC th u 1 = u /\ FC th 1 u = u.
Proof.
  intros Hth Hu. rewrite !bridge_frank_cdf by assumption.
  repeat split.
  - apply Frank.frank_C_zero_r; assumption.
  - apply Frank.frank_C_zero_l; assumption.
  - apply Frank.frank_C_one_r; assumption.
  - apply Frank.frank_C_one_l; assumption.
Qed.

(* Gumbel: the value at an exact 0 goes through log 0 = -inf in IEEE arithmetic, which R cannot
   express; the 0-edge is the one-sided limit (C06_gumbel_zero_edge_limit), the 1-edge is exact. *)
Theorem C06_gumbel_boundary_one th u : 1 < th -> 0 < u <= 1 -> GC th u 1 = u /\ GC th 1 u = u.
Proof.
  intros Hth Hu. destruct (Req_dec u 1) as [->|Hne].
  - split; apply bridge_gumbel_cdf_one_one; assumption.
  - split; [apply bridge_gumbel_cdf_one_r | apply bridge_gumbel_cdf_one_l]; lra.
Qed.
Theorem C06_gumbel_zero_edge_limit th v : 1 < th -> 0 < v < 1 ->
  filterlim (fun u => gumbel_C th u v) (at_right 0) (locally 0).
Proof. exact (Gumbel.gumbel_C_lim0 th v). Qed.
Theorem C06_gumbel_theta1_is_independence u v : GC 1 u v = u * v.
Proof. exact (bridge_gumbel_indep u v). Qed.

(* ================= symmetry ================= *)
Theorem C06_clayton_symmetric th u v : 0 < th -> 0 <= u <= 1 -> 0 <= v <= 1 -> CC th u v = CC th v u.
Proof.
  intros Hth Hu Hv.
  destruct (Req_dec u 0) as [->|Hu0]; [rewrite CC_zero_l, CC_zero_r; reflexivity|].
  destruct (Req_dec v 0) as [->|Hv0]; [rewrite CC_zero_l, CC_zero_r; reflexivity|].
  rewrite !CC_spec by lra. apply Clayton.clayton_C_sym.
Qed.
Theorem C06_frank_symmetric th u v : th <> 0 -> FC th u v = FC th v u.
Proof. intros Hth. rewrite !bridge_frank_cdf by assumption. apply Frank.frank_C_sym. Qed.
Theorem C06_gumbel_symmetric th u v : 1 < th -> 0 < u < 1 -> 0 < v < 1 -> GC th u v = GC th v u.
Proof. intros. rewrite !bridge_gumbel_cdf by assumption. apply Gumbel.gumbel_C_sym. Qed.

(* ================= 2-increasing (non-negative C-volume of every rectangle) ================= *)
Lemma CC_mono_v th u v1 v2 : 0 < th -> 0 < u <= 1 -> 0 < v1 -> v1 <= v2 -> v2 <= 1 -> CC th u v1 <= CC th u v2.
Proof.
  intros Hth Hu H1 H12 H2. rewrite !CC_spec by lra.
  apply (nondecr_of_derive (fun t => clayton_C th u t) (fun t => clayton_h th u t) v1 v2); try lra.
  - intros x Hx. apply Clayton.clayton_h_is_derive; lra.
  - intros x Hx. apply Clayton.clayton_h_range; lra.
Qed.
Lemma CC_nonneg th u v : 0 < th -> 0 <= u <= 1 -> 0 <= v <= 1 -> 0 <= CC th u v.
Proof.
  intros Hth Hu Hv.
  destruct (Req_dec u 0) as [->|Hu0]; [rewrite CC_zero_l; lra|].
  destruct (Req_dec v 0) as [->|Hv0]; [rewrite CC_zero_r; lra|].
  rewrite CC_spec by lra. left. apply Clayton.clayton_C_range; lra.
Qed.

Theorem C06_clayton_two_increasing th u1 u2 v1 v2 :
  0 < th -> 0 <= u1 -> u1 <= u2 -> u2 <= 1 -> 0 <= v1 -> v1 <= v2 -> v2 <= 1 ->
  0 <= Cvol (CC th) u1 u2 v1 v2.
Proof.
  intros Hth Hu1 Hu12 Hu2 Hv1 Hv12 Hv2. unfold Cvol.
  destruct (Req_dec u1 0) as [->|Hu0].
  - rewrite !CC_zero_l.
    destruct (Req_dec u2 0) as [->|Hu20]; [rewrite !CC_zero_l; lra|].
    destruct (Req_dec v1 0) as [->|Hv0].
    + rewrite CC_zero_r. pose proof (CC_nonneg th u2 v2 Hth). lra.
    + pose proof (CC_mono_v th u2 v1 v2 Hth). lra.
  - destruct (Req_dec v1 0) as [->|Hv0].
    + rewrite !CC_zero_r.
      destruct (Req_dec v2 0) as [->|Hv20]; [rewrite !CC_zero_r; lra|].
      rewrite (C06_clayton_symmetric th u2 v2), (C06_clayton_symmetric th u1 v2) by lra.
      pose proof (CC_mono_v th v2 u1 u2 Hth). lra.
    + rewrite !CC_spec by lra.
      pose proof (Clayton.clayton_two_increasing th u1 u2 v1 v2 Hth) as H. unfold Cvol in H. lra.
Qed.

Theorem C06_frank_two_increasing th u1 u2 v1 v2 :
  th <> 0 -> 0 <= u1 -> u1 <= u2 -> u2 <= 1 -> 0 <= v1 -> v1 <= v2 -> v2 <= 1 ->
  0 <= Cvol (FC th) u1 u2 v1 v2.
Proof.
  intros Hth **. unfold Cvol. rewrite !bridge_frank_cdf by assumption.
  pose proof (Frank.frank_two_increasing th u1 u2 v1 v2 Hth) as HH. unfold Cvol in HH. lra.
Qed.

Theorem C06_gumbel_two_increasing th u1 u2 v1 v2 :
  1 < th -> 0 < u1 -> u1 <= u2 -> u2 < 1 -> 0 < v1 -> v1 <= v2 -> v2 < 1 ->
  0 <= Cvol (GC th) u1 u2 v1 v2.
Proof.
  intros Hth **. unfold Cvol. rewrite !bridge_gumbel_cdf by lra.
  pose proof (Gumbel.gumbel_two_increasing th u1 u2 v1 v2 Hth) as HH. unfold Cvol in HH. lra.
Qed.

(* Gumbel on the whole half-open square (0,1]^2: the generated model equals the continuous extension
   gumbel_Cb (numpy's 0 ** theta = 0 on the edges u = 1 / v = 1), which is 2-increasing and within the
   Frechet bounds *)
Lemma GC_is_Cb th u v : 1 < th -> 0 < u <= 1 -> 0 < v <= 1 -> GC th u v = ArchExtras.gumbel_Cb th u v.
Proof.
  intros Hth Hu Hv. unfold ArchExtras.gumbel_Cb.
  destruct (Req_EM_T u 1) as [->|Nu].
  - destruct (Req_dec v 1) as [->|Nv]; [apply bridge_gumbel_cdf_one_one; assumption|].
    apply bridge_gumbel_cdf_one_l; lra.
  - destruct (Req_EM_T v 1) as [->|Nv]; [apply bridge_gumbel_cdf_one_r; lra|].
    apply bridge_gumbel_cdf; lra.
Qed.
Theorem C06_gumbel_two_increasing_closed th u1 u2 v1 v2 :
  1 < th -> 0 < u1 -> u1 <= u2 -> u2 <= 1 -> 0 < v1 -> v1 <= v2 -> v2 <= 1 ->
  0 <= Cvol (GC th) u1 u2 v1 v2.
Proof.
  intros Hth Hu1 Hu12 Hu2 Hv1 Hv12 Hv2. unfold Cvol. rewrite !GC_is_Cb by lra.
  pose proof (ArchExtras.gumbel_Cb_two_increasing th u1 u2 v1 v2 Hth Hu1 Hu12 Hu2 Hv1 Hv12 Hv2) as HH.
  unfold Cvol in HH. exact HH.
Qed.
Theorem C06_gumbel_frechet_closed th u v : 1 < th -> 0 < u <= 1 -> 0 < v <= 1 ->
  Rmax (u + v - 1) 0 <= GC th u v <= Rmin u v.
Proof. intros Hth Hu Hv. rewrite GC_is_Cb by assumption. apply ArchExtras.gumbel_Cb_frechet; assumption. Qed.

(* ================= Frechet-Hoeffding bounds ================= *)
Theorem C06_clayton_frechet th u v : 0 < th -> 0 <= u <= 1 -> 0 <= v <= 1 ->
  Rmax (u + v - 1) 0 <= CC th u v <= Rmin u v.
Proof.
  intros Hth Hu Hv.
  destruct (Req_dec u 0) as [->|Hu0].
  { rewrite CC_zero_l. unfold Rmax, Rmin. destruct (Rle_dec (0 + v - 1) 0), (Rle_dec 0 v); lra. }
  destruct (Req_dec v 0) as [->|Hv0].
  { rewrite CC_zero_r. unfold Rmax, Rmin. destruct (Rle_dec (u + 0 - 1) 0), (Rle_dec u 0); lra. }
  rewrite CC_spec by lra. split.
  - apply Clayton.clayton_frechet_lower; lra.
  - apply Clayton.clayton_frechet_upper; lra.
Qed.
Theorem C06_frank_frechet th u v : th <> 0 -> 0 <= u <= 1 -> 0 <= v <= 1 ->
  Rmax (u + v - 1) 0 <= FC th u v <= Rmin u v.
Proof.
  intros Hth Hu Hv. rewrite bridge_frank_cdf by assumption. split.
  - apply Frank.frank_frechet_lower; assumption.
  - apply Frank.frank_frechet_upper; assumption.
Qed.
Theorem C06_gumbel_frechet th u v : 1 < th -> 0 < u < 1 -> 0 < v < 1 ->
  Rmax (u + v - 1) 0 <= GC th u v <= Rmin u v.
Proof.
  intros Hth Hu Hv. rewrite bridge_gumbel_cdf by assumption. split.
  - apply Gumbel.gumbel_frechet_lower; assumption.
  - apply Gumbel.gumbel_frechet_upper; assumption.
Qed.

(* ================= Archimedean generator ================= *)
Theorem C06_clayton_generator th : 0 < th ->
  clayton_generator th 1 = 0 /\
  (forall t1 t2, 0 < t1 -> t1 < t2 -> t2 <= 1 -> clayton_generator th t2 < clayton_generator th t1) /\
  (forall u v, 0 < u <= 1 -> 0 < v <= 1 ->
     clayton_generator th (CC th u v) = clayton_generator th u + clayton_generator th v).
Proof.
  intros Hth. split; [|split].
  - rewrite bridge_clayton_generator by lra. apply Clayton.clayton_phi_one.
  - intros t1 t2 H1 H12 H2. rewrite !bridge_clayton_generator by lra. apply Clayton.clayton_phi_decr; lra.
  - intros u v Hu Hv. rewrite CC_spec by lra.
    pose proof (Clayton.clayton_C_range th u v Hth Hu Hv).
    rewrite !bridge_clayton_generator by lra. apply Clayton.clayton_phi_C; lra.
Qed.
Theorem C06_frank_generator th : th <> 0 ->
  frank_generator th 1 = 0 /\
  (forall t1 t2, 0 < t1 -> t1 < t2 -> t2 <= 1 -> frank_generator th t2 < frank_generator th t1) /\
  (forall u v, 0 < u <= 1 -> 0 < v <= 1 ->
     frank_generator th (FC th u v) = frank_generator th u + frank_generator th v).
Proof.
  intros Hth. split; [|split].
  - rewrite bridge_frank_generator. apply Frank.frank_phi_one; assumption.
  - intros t1 t2 H1 H12 H2. rewrite !bridge_frank_generator. apply Frank.frank_phi_decr; lra.
  - intros u v Hu Hv. rewrite bridge_frank_cdf by assumption. rewrite !bridge_frank_generator.
    apply Frank.frank_phi_C; assumption.
Qed.
Theorem C06_gumbel_generator th : 1 < th ->
  gumbel_generator th 1 = 0 /\
  (forall t1 t2, 0 < t1 -> t1 < t2 -> t2 < 1 -> gumbel_generator th t2 < gumbel_generator th t1) /\
  (forall u v, 0 < u < 1 -> 0 < v < 1 ->
     gumbel_generator th (GC th u v) = gumbel_generator th u + gumbel_generator th v).
Proof.
  intros Hth. split; [|split].
  - apply bridge_gumbel_generator_one; lra.
  - intros t1 t2 H1 H12 H2. rewrite !bridge_gumbel_generator by lra. apply Gumbel.gumbel_phi_decr; lra.
  - intros u v Hu Hv. rewrite bridge_gumbel_cdf by assumption.
    pose proof (Gumbel.gumbel_C_range th u v Hth Hu Hv).
    rewrite !bridge_gumbel_generator by lra. apply Gumbel.gumbel_phi_C; assumption.
Qed.

(* ================= ordering in theta ================= *)
Theorem C06_clayton_theta_order th1 th2 u v : 0 < th1 -> th1 <= th2 -> 0 <= u <= 1 -> 0 <= v <= 1 ->
  CC th1 u v <= CC th2 u v.
Proof.
  intros H1 H12 Hu Hv.
  destruct (Req_dec u 0) as [->|Hu0]; [rewrite !CC_zero_l; lra|].
  destruct (Req_dec v 0) as [->|Hv0]; [rewrite !CC_zero_r; lra|].
  rewrite !CC_spec by lra. apply Clayton.clayton_theta_order; lra.
Qed.
Theorem C06_frank_theta_order th1 th2 u v : th1 <> 0 -> th2 <> 0 -> th1 <= th2 -> 0 <= u <= 1 -> 0 <= v <= 1 ->
  FC th1 u v <= FC th2 u v.
Proof. intros. rewrite !bridge_frank_cdf by assumption. apply Frank.frank_theta_order; assumption. Qed.
Theorem C06_gumbel_theta_order th1 th2 u v : 1 < th1 -> th1 <= th2 -> 0 < u < 1 -> 0 < v < 1 ->
  GC th1 u v <= GC th2 u v.
Proof. intros. rewrite !bridge_gumbel_cdf by lra. apply Gumbel.gumbel_theta_order; assumption. Qed.

(* ================= each row of a batch is evaluated independently ================= *)
Theorem C06_rowwise th X :
  clayton_cumulative_distribution_batch th X = map (fun p => CC th (fst p) (snd p)) X /\
  frank_cumulative_distribution_batch th X = map (fun p => FC th (fst p) (snd p)) X /\
  gumbel_cumulative_distribution_batch th X = map (fun p => GC th (fst p) (snd p)) X.
Proof. split; [apply clayton_cdf_rowwise | split; [apply frank_cdf_rowwise | apply gumbel_cdf_rowwise]]. Qed.

(* ================= theta domains extracted from the class attributes ================= *)
Theorem C06_theta_domains :
  clayton_theta_interval = (Finite 0, p_infty) /\ clayton_invalid_thetas = [] /\
  frank_theta_interval = (m_infty, p_infty) /\ frank_invalid_thetas = [0] /\
  gumbel_theta_interval = (Finite 1, p_infty) /\ gumbel_invalid_thetas = [].
Proof. repeat split. Qed.

(* ================= non-vacuity ================= *)
Example C06_nonvacuous : 0 < 2 /\ 0 <= 3/10 <= 1 /\ 0 <= 7/10 <= 1 /\ (2:R) <> 0 /\ 1 < 2 /\ 0 < 3/10 < 1.
Proof. lra. Qed.

Print Assumptions C06_clayton_two_increasing.
Print Assumptions C06_frank_two_increasing.
Print Assumptions C06_gumbel_two_increasing.
Print Assumptions C06_clayton_theta_order.
Print Assumptions C06_frank_theta_order.
Print Assumptions C06_gumbel_theta_order.
Print Assumptions C06_clayton_generator.
Print Assumptions C06_frank_generator.
Print Assumptions C06_gumbel_generator.
Print Assumptions C06_rowwise.
Print Assumptions C06_gumbel_two_increasing_closed.
Print Assumptions C06_gumbel_frechet_closed.
