(* C17, data plane GENERATED from the AST: bridge theorems.

   Gen_vinedata.v (tools/vf/vinedatagen.py, regenerated on every run from copulas/multivariate/tree.py and vine.py; the
   Python / numpy operations are denoted by coq/Lib/PyCols.v) holds one Gallina definition per function:

     Tree.prepare_next_tree     -> gen_Tree_prepare_next_tree
     Edge.get_likelihood        -> gen_Edge_get_likelihood
     Tree.get_likelihood        -> gen_Tree_get_likelihood
     VineCopula.get_likelihood  -> gen_VineCopula_get_likelihood

   Each is proved EQUAL, for all inputs, to the hand-written definition of Model/VineData.v the C17 theorems are about
   ([mkU] / [child_data] / [data_rest] / [vine_data_of] and [clip_h]; [edge_lik]; [tree_lik]; [vine_lik]).  This file is
   copied into the build directory and compiled on every run against the freshly generated file. *)
From Coq Require Import List Arith ZArith QArith Lia Bool Reals.
From Cop Require Import Lib.FinGraph Model.Vine Model.VineData Spec.VineDefs Spec.VineSets Spec.VineClip Spec.VineLikProofs
     Lib.PySet Lib.PyCols.
From CopRun Require Import Gen_vinekernel Gen_vinedata.
Import ListNotations.
Open Scope nat_scope.

(* ------------------------------------------------------------------ *)
(** * get_conditional_uni (local copy of the bridge of Props/C17.v: the build of this file does not depend on C17.v) *)
Lemma C17d_bridge_identify_eds_ing :
  forall a b : edge, gen_identify_eds_ing a b = identify_eds_ing a b.
Proof.
  intros a b. unfold gen_identify_eds_ing, identify_eds_ing. cbv zeta.
  match goal with
  | |- match pyset_sorted ?s with _ => _ end = _ =>
      replace (pyset_sorted s) with (set_symdiff (U a) (U b))
  end.
  2:{ symmetry. apply pyset_sorted_eq; [apply incr_set_symdiff|].
      intros v. unfold U. autorewrite with pyset. simpl. tauto. }
  match goal with
  | |- context [pyset_and ?x ?y] =>
      replace (pyset_and x y) with (set_inter (U a) (U b))
  end.
  2:{ symmetry. apply pyset_eq; [apply incr_pyset_and | apply incr_set_inter |].
      intros v. unfold U. autorewrite with pyset. simpl. tauto. }
  destruct (set_symdiff (U a) (U b)) as [|l [|r [|x t]]]; reflexivity.
Qed.

Lemma C17d_bridge_get_conditional_uni :
  forall lp rp : edge_data, gen_get_conditional_uni lp rp = get_conditional_uni lp rp.
Proof.
  intros lp rp. unfold gen_get_conditional_uni, get_conditional_uni.
  rewrite C17d_bridge_identify_eds_ing.
  destruct (identify_eds_ing (ed_edge lp) (ed_edge rp)) as [[[l r] d]|]; reflexivity.
Qed.

(* ------------------------------------------------------------------ *)
(** * generic facts about map_opt                                      *)
Lemma map_opt_ext {A B} (f g : A -> option B) l :
  (forall x, f x = g x) -> map_opt f l = map_opt g l.
Proof.
  intros H. induction l as [|x l IH]; simpl; auto. rewrite H, IH. reflexivity.
Qed.

Lemma map_opt_option_map {A B C} (f : A -> option B) (g : B -> C) l :
  map_opt (fun x => option_map g (f x)) l = option_map (map g) (map_opt f l).
Proof.
  induction l as [|x l IH]; simpl; auto.
  destruct (f x) as [y|]; simpl; auto. rewrite IH.
  destruct (map_opt f l); reflexivity.
Qed.

(* ================================================================== *)
(** * 1. Tree.prepare_next_tree                                        *)
(* the model: the two symbolic rows of edge.U for the edge c of tree t (0-based) whose parents live in [prev]
   (level 1: Model.VineData.mk_first; level > 1: Model.VineData.child_data) *)
Definition model_U (t : nat) (prev : list edge_data) (c : edge) : option (col * col) :=
  if t =? 0 then Some (mkU 0 (e_idx c) (CMarg (e_L c)) (CMarg (e_R c)))
  else option_map ed_U (child_data t prev c).

(* ... each row corrected entrywise by the model's clip, in the model's order *)
Definition stored (U : col * col) : harr * harr :=
  ((fst U, clip_ops EPSILON_Q), (snd U, clip_ops EPSILON_Q)).

Theorem C17_bridge_prepare_next_tree :
  forall (t : nat) (prev : list edge_data) (T : list edge),
  gen_Tree_prepare_next_tree t CMarg prev T = map_opt (fun c => option_map stored (model_U t prev c)) T.
Proof.
  intros t prev T. unfold gen_Tree_prepare_next_tree, py_for_each.
  apply map_opt_ext. intros c. unfold model_U.
  destruct t as [|t]; [reflexivity|].
  change (py_tree_level (S t) =? 1) with false. change (S t =? 0) with false. cbv iota.
  unfold py_parents2, py_parent, child_data.
  destruct (e_par c) as [[i j]|]; [|reflexivity].
  destruct (nth_error prev i) as [lp|]; [|reflexivity].
  destruct (nth_error prev j) as [rp|]; [|reflexivity].
  rewrite C17d_bridge_get_conditional_uni.
  destruct (get_conditional_uni lp rp) as [[lu ru]|]; reflexivity.
Qed.
Print Assumptions C17_bridge_prepare_next_tree.

(* what [stored] means: the columns are the model's, every entry of both rows goes through Model.VineData.clip_h at the
   library's EPSILON *)
Theorem C17_stored_meaning :
  forall U : col * col, U_cols (stored U) = U /\ U_corrected_by (clip_h EPSILON_Q) (stored U).
Proof.
  intros [a b]. split; [reflexivity|]. intros x. split; reflexivity.
Qed.

(* level 1: the U of Model.VineData.mk_first, whatever pair was handed to select_copula *)
Corollary C17_gen_prepare_first :
  forall (prev : list edge_data) (T : list edge) (io : edge -> nat * nat),
  gen_Tree_prepare_next_tree 0 CMarg prev T = Some (map (fun e => stored (ed_U (mk_first e (io e)))) T).
Proof.
  intros prev T io. rewrite C17_bridge_prepare_next_tree. unfold model_U. simpl.
  induction T as [|e T IH]; simpl; auto. rewrite IH. reflexivity.
Qed.

(* levels >= 2: the U of every tree built by Model.VineData.data_rest (hence of vine_data_of / vine_data_gen_opt) is what
   the generated prepare_next_tree computes from the data of the tree below *)
Corollary C17_gen_prepare_rest :
  forall (ts : list (list edge)) (t : nat) (Dprev : list edge_data) (ds : list (list edge_data)),
  t >= 1 ->
  data_rest t Dprev ts = Some ds ->
  forall (k : nat) (T : list edge) (DT Dp : list edge_data),
  nth_error ts k = Some T ->
  nth_error ds k = Some DT ->
  nth_error (Dprev :: ds) k = Some Dp ->
  gen_Tree_prepare_next_tree (t + k) CMarg Dp T = Some (map (fun x => stored (ed_U x)) DT).
Proof.
  induction ts as [|T0 r IH]; intros t Dprev ds Ht H k T DT Dp Hk Hd Hp; simpl in H.
  - destruct k; discriminate.
  - destruct (map_opt (child_data t Dprev) T0) as [DT0|] eqn:Em; [|discriminate].
    destruct (data_rest (S t) DT0 r) as [ds'|] eqn:Er; [|discriminate].
    injection H as <-. destruct k as [|k]; simpl in Hk, Hd, Hp.
    + injection Hk as <-. injection Hd as <-. injection Hp as <-.
      rewrite Nat.add_0_r, C17_bridge_prepare_next_tree. unfold model_U.
      destruct t as [|t]; [lia|]. change (S t =? 0) with false. cbv iota.
      rewrite (map_opt_ext _ (fun c => option_map (fun x => stored (ed_U x)) (child_data (S t) Dprev c))).
      2:{ intros c. destruct (child_data (S t) Dprev c); reflexivity. }
      rewrite map_opt_option_map, Em. reflexivity.
    + replace (t + S k) with (S t + k) by lia.
      apply (IH (S t) DT0 ds'); auto.
Qed.
Print Assumptions C17_gen_prepare_rest.

(* ================================================================== *)
(** * 2. Edge.get_likelihood                                           *)
(* the uni_matrix tree t reads: the caller's 1 x d row for tree 0, the d x d np.empty of the tree below otherwise *)
Definition lik_mat (t d : nat) (m : umat) : pymat := mkMat t (if t =? 0 then 1 else d) d m.

(* the contexts in which the model and the source agree (outside them the model deliberately says [None] = "not
   modelled": a tree 0 whose edges have parents; d = 1, where the square matrix has one row as well) *)
Definition lik_ctx_ok (t d : nat) (prev : list edge) : Prop :=
  (t = 0 -> prev = []) /\ (t <> 0 -> d <> 1).

(* what Edge.get_likelihood returns, in terms of the model's record *)
Definition edge_out (le : lik_edge) : lval * col * col :=
  (LDens (le_tree le, le_idx le) (le_readL le, fst (le_args le)) (le_readR le, snd (le_args le)),
   CH (le_tree le) (le_idx le) (fst (le_args le)) (snd (le_args le)),
   CH (le_tree le) (le_idx le) (snd (le_args le)) (fst (le_args le))).

Theorem C17_bridge_Edge_get_likelihood :
  forall (t d : nat) (prev T : list edge) (m : umat) (e : edge),
  lik_ctx_ok t d prev ->
  gen_Edge_get_likelihood (mkTree t prev T) e (lik_mat t d m) = option_map edge_out (edge_lik t d prev m e).
Proof.
  intros t d prev T m e [H0 H1].
  unfold gen_Edge_get_likelihood, edge_lik, edge_reads, py_parents_is_none, py_parent, py_mat_col1, py_mat_get,
    py_index, py_list, lik_mat. cbn [to_prev to_idx pm_rows pm_cols pm_cells pm_tag].
  change pyset_diff with set_diff.
  destruct (e_par e) as [[i j]|].
  - (* parents *)
    destruct t as [|t].
    { rewrite (H0 eq_refl). destruct i; destruct j; reflexivity. }
    change (S t =? 0) with false. cbv iota.
    destruct (nth_error prev i) as [p0|]; [|reflexivity].
    destruct (set_diff (e_D e) (e_D p0)) as [|li l0]; [destruct (nth_error prev j); reflexivity|].
    cbn [nth_error].
    destruct (nth_error prev j) as [p1|]; [|reflexivity].
    destruct (set_diff (e_D e) (e_D p1)) as [|ri l1]; [reflexivity|].
    cbn [nth_error].
    destruct (e_L e <? d); destruct (li <? d); destruct (e_R e <? d); destruct (ri <? d); reflexivity.
  - (* no parents *)
    destruct t as [|t].
    + change (0 =? 0) with true. change (1 =? 1) with true. change (0 <? 1) with true. cbn [andb]. cbv iota.
      destruct (e_L e <? d); destruct (e_R e <? d); reflexivity.
    + change (S t =? 0) with false. cbv iota.
      destruct (d =? 1) eqn:Ed; [apply Nat.eqb_eq in Ed; exfalso; apply (H1 (Nat.neq_succ_0 t) Ed)|].
      reflexivity.
Qed.
Print Assumptions C17_bridge_Edge_get_likelihood.

(* ================================================================== *)
(** * 3. Tree.get_likelihood                                           *)
Lemma py_fold_opt_ext {S A} (f g : A -> S -> option S) l :
  (forall x st, f x st = g x st) -> forall st, py_fold_opt f l st = py_fold_opt g l st.
Proof.
  intros H. induction l as [|x l IH]; intros st; simpl; auto. rewrite H.
  destruct (g x st); auto.
Qed.

Lemma set_nth_app_len {A} (done rest : list A) (x v : A) (k : nat) :
  length done = k -> set_nth (done ++ x :: rest) k v = Some (done ++ v :: rest).
Proof. intros <-. apply set_nth_app. Qed.

Lemma edge_lik_facts t d prev m e le :
  edge_lik t d prev m e = Some le ->
  (e_L e <? d) = true /\ (e_R e <? d) = true /\ le_tree le = t /\ le_idx le = e_idx e.
Proof.
  unfold edge_lik, edge_reads. intros H.
  destruct (e_par e) as [[i j]|].
  - destruct (nth_error prev i) as [p0|]; [|discriminate].
    destruct (nth_error prev j) as [p1|]; [|discriminate].
    destruct (set_diff (e_D e) (e_D p0)) as [|li l0]; [discriminate|].
    destruct (set_diff (e_D e) (e_D p1)) as [|ri l1]; [discriminate|].
    destruct (e_L e <? d); destruct (e_R e <? d); simpl in H; try discriminate.
    destruct ((li <? d) && (ri <? d)); [|discriminate]. injection H as <-. auto.
  - destruct (t =? 0); simpl in H; [|discriminate].
    destruct (e_L e <? d); destruct (e_R e <? d); simpl in H; try discriminate.
    injection H as <-. auto.
Qed.

(* one iteration of the loop of Tree.get_likelihood, with the generated Edge.get_likelihood replaced by the model's *)
Definition tree_step (t d : nat) (prev : list edge) (m : umat) (Tall : list edge) (i : nat) (st : pymat * list lval)
  : option (pymat * list lval) :=
  match nth_error Tall i with
  | None => None
  | Some e =>
      match edge_lik t d prev m e with
      | None => None
      | Some le =>
          match py_mat_set (fst st) (e_L e) (e_R e)
                           (CH (le_tree le) (le_idx le) (fst (le_args le)) (snd (le_args le))) with
          | None => None
          | Some m1 =>
              match py_mat_set m1 (e_R e) (e_L e)
                               (CH (le_tree le) (le_idx le) (snd (le_args le)) (fst (le_args le))) with
              | None => None
              | Some m2 =>
                  match py_row_set (snd st) i (lval_of_le le) with
                  | None => None
                  | Some vals => Some (m2, vals)
                  end
              end
          end
      end
  end.

Lemma tree_loop t d prev m : forall (suf pre : list edge) (newm : umat) (done : list lval),
  length done = length pre ->
  py_fold_opt (tree_step t d prev m (pre ++ suf)) (seq (length pre) (length suf))
              (mkMat (S t) d d newm, done ++ repeat LZero (length suf))
  = match tree_lik t d prev m suf newm with
    | Some (les, mm) => Some (mkMat (S t) d d mm, done ++ map lval_of_le les)
    | None => None
    end.
Proof.
  induction suf as [|e suf IH]; intros pre newm done Hlen.
  - reflexivity.
  - cbn [length seq py_fold_opt tree_lik repeat]. unfold tree_step at 1.
    rewrite nth_error_app2 by lia. rewrite Nat.sub_diag. cbn [nth_error].
    destruct (edge_lik t d prev m e) as [le|] eqn:El; [|reflexivity].
    destruct (edge_lik_facts _ _ _ _ _ _ El) as (HL & HR & Ht & Hi).
    unfold py_mat_set. cbn [fst snd pm_rows pm_cols pm_tag pm_cells]. rewrite HL, HR. cbn [andb].
    cbn [pm_rows pm_cols pm_tag pm_cells]. rewrite HL, HR. cbn [andb].
    unfold py_row_set. rewrite (set_nth_app_len _ _ _ _ _ Hlen).
    destruct (le_args le) as [lu ru] eqn:Ea. cbn [fst snd].
    rewrite Ht, Hi.
    replace (done ++ lval_of_le le :: repeat LZero (length suf))
      with ((done ++ [lval_of_le le]) ++ repeat LZero (length suf)) by (rewrite <- app_assoc; reflexivity).
    replace (pre ++ e :: suf) with ((pre ++ [e]) ++ suf) by (rewrite <- app_assoc; reflexivity).
    replace (S (length pre)) with (length (pre ++ [e])) by (rewrite app_length; simpl; lia).
    rewrite IH by (rewrite !app_length; simpl; lia).
    destruct (tree_lik t d prev m suf _) as [[les mm]|]; [|reflexivity].
    cbn [map]. rewrite <- app_assoc. reflexivity.
Qed.

Theorem C17_bridge_Tree_get_likelihood :
  forall (t d : nat) (prev T : list edge) (m : umat),
  lik_ctx_ok t d prev ->
  gen_Tree_get_likelihood (mkTree t prev T) (lik_mat t d m)
  = option_map (fun r => (LSum (map lval_of_le (fst r)), lik_mat (S t) d (snd r))) (tree_lik t d prev m T []).
Proof.
  intros t d prev T m Hctx. unfold gen_Tree_get_likelihood, py_for_range. cbn [to_edges to_idx].
  erewrite py_fold_opt_ext with (g := tree_step t d prev m T).
  2:{ intros i [mat vals]. unfold tree_step. cbn [fst snd].
      destruct (nth_error T i) as [e|]; [|reflexivity].
      rewrite C17_bridge_Edge_get_likelihood by exact Hctx.
      destruct (edge_lik t d prev m e) as [le|]; reflexivity. }
  change (py_shape1 (lik_mat t d m)) with d.
  pose proof (tree_loop t d prev m T [] [] [] eq_refl) as H. cbn [app length] in H.
  unfold py_np_empty, py_np_zeros_row. rewrite H.
  destruct (tree_lik t d prev m T []) as [[les mm]|]; reflexivity.
Qed.
Print Assumptions C17_bridge_Tree_get_likelihood.

(* ================================================================== *)
(** * 4. VineCopula.get_likelihood                                     *)
Definition tree_val (les : list lik_edge) : lval := LSum (map lval_of_le les).
Definition vine_val (res : list (list lik_edge)) : lval := LSum (map tree_val res).

Definition prev_of (trees : list (list edge)) (i : nat) : list edge :=
  match i with 0 => [] | S j => nth j trees [] end.

(* one iteration of the loop of VineCopula.get_likelihood *)
Definition vine_step (trees : list (list edge)) (i : nat) (st : pymat * list lval) : option (pymat * list lval) :=
  match py_trees_get trees i with
  | None => None
  | Some tr =>
      match gen_Tree_get_likelihood tr (fst st) with
      | None => None
      | Some (v, newm) =>
          match py_row_set (snd st) i v with
          | None => None
          | Some vals => Some (newm, vals)
          end
      end
  end.

Lemma vine_loop d : d <> 1 ->
  forall (suf pre : list (list edge)) (m : umat) (done : list lval) (prev : list edge),
  length done = length pre ->
  prev = prev_of (pre ++ suf) (length pre) ->
  option_map snd (py_fold_opt (vine_step (pre ++ suf)) (seq (length pre) (length suf))
                              (lik_mat (length pre) d m, done ++ repeat LEmpty (length suf)))
  = option_map (fun res => done ++ map tree_val res) (vine_lik_from (length pre) d prev m suf).
Proof.
  intros Hd. induction suf as [|T suf IH]; intros pre m done prev Hlen Hprev.
  - reflexivity.
  - cbn [length seq py_fold_opt vine_lik_from repeat]. unfold vine_step at 1. unfold py_trees_get.
    rewrite nth_error_app2 by lia. rewrite Nat.sub_diag. cbn [nth_error fst snd].
    fold (prev_of (pre ++ T :: suf) (length pre)). rewrite <- Hprev.
    rewrite C17_bridge_Tree_get_likelihood.
    2:{ split; [|intros _; exact Hd]. intros H0. rewrite Hprev, H0. reflexivity. }
    destruct (tree_lik (length pre) d prev m T []) as [[les mm]|]; [|reflexivity].
    cbn [option_map fst snd]. unfold py_row_set. rewrite (set_nth_app_len _ _ _ _ _ Hlen).
    replace (done ++ LSum (map lval_of_le les) :: repeat LEmpty (length suf))
      with ((done ++ [tree_val les]) ++ repeat LEmpty (length suf)) by (rewrite <- app_assoc; reflexivity).
    replace (pre ++ T :: suf) with ((pre ++ [T]) ++ suf) by (rewrite <- app_assoc; reflexivity).
    replace (S (length pre)) with (length (pre ++ [T])) by (rewrite app_length; simpl; lia).
    rewrite (IH (pre ++ [T]) mm (done ++ [tree_val les]) T).
    + destruct (vine_lik_from (length (pre ++ [T])) d T mm suf) as [res|]; [|reflexivity].
      cbn [option_map map]. rewrite <- app_assoc. reflexivity.
    + rewrite !app_length; simpl; lia.
    + rewrite app_length. cbn [length]. rewrite Nat.add_1_r. cbn [prev_of].
      rewrite <- app_assoc. cbn [app]. rewrite app_nth2 by lia. rewrite Nat.sub_diag. reflexivity.
Qed.

Theorem C17_bridge_VineCopula_get_likelihood :
  forall (d : nat) (v : list (list edge)),
  d <> 1 ->
  gen_VineCopula_get_likelihood true v (lik_mat 0 d (umat0 d)) = option_map vine_val (vine_lik d v).
Proof.
  intros d v Hd. unfold gen_VineCopula_get_likelihood, py_for_range, vine_lik. cbn [negb].
  erewrite py_fold_opt_ext with (g := vine_step v).
  2:{ intros i [mat vals]. unfold vine_step. cbn [fst snd].
      destruct (py_trees_get v i) as [tr|]; [|reflexivity].
      destruct (gen_Tree_get_likelihood tr mat) as [[val newm]|]; reflexivity. }
  pose proof (vine_loop d Hd v [] (umat0 d) [] [] eq_refl eq_refl) as H. cbn [app length] in H.
  unfold py_np_empty_row.
  destruct (py_fold_opt (vine_step v) (seq 0 (length v)) (lik_mat 0 d (umat0 d), repeat LEmpty (length v)))
    as [[mat vals]|]; destruct (vine_lik_from 0 d [] (umat0 d) v) as [res|]; cbn [option_map snd app] in H;
    try discriminate; [|reflexivity].
  injection H as ->. reflexivity.
Qed.
Print Assumptions C17_bridge_VineCopula_get_likelihood.

(* check_fit *)
Theorem C17_bridge_VineCopula_get_likelihood_unfitted :
  forall (v : list (list edge)) (M : pymat), gen_VineCopula_get_likelihood false v M = None.
Proof. reflexivity. Qed.

(* ================================================================== *)
(** * 5. VineCopula._sample_row: the edge search and one level of the chain of inverse h-functions *)
(* `condition.issubset(visit_set)` with condition = set(edge.D) + L + R and visit_set = set(visited) + current *)
Lemma issubset_U (e : edge) (current : nat) (visited : list nat) :
  py_issubset (py_set_add (py_set_add (py_set_of (e_D e)) (e_L e)) (e_R e)) (py_set_add (py_set_of visited) current)
  = forallb (fun x => memb x (current :: visited)) (U e).
Proof.
  unfold py_issubset, py_set_add, py_set_of, U.
  assert (Hm : forall x, memb x (visited ++ [current]) = memb x (current :: visited)).
  { intros x. apply eq_true_iff_eq. rewrite !memb_In, in_app_iff. simpl. tauto. }
  apply eq_true_iff_eq. rewrite !forallb_forall. split; intros H x Hx.
  - rewrite <- Hm. apply H. rewrite !in_app_iff. simpl in *. tauto.
  - rewrite Hm. apply H. rewrite !in_app_iff in Hx. simpl in *. tauto.
Qed.

(* the search `for edge in current_tree:` started with current_ind = -1 IS the model's find_edge0 / find_edgek
   (None = the -1 left in current_ind) *)
Theorem C17_bridge_sample_find_edge :
  forall (i current : nat) (visited : list nat) (T : list edge),
  gen_sample_find_edge i current visited T py_minus_one
  = (if i =? 0 then find_edge0 T current (hd 0 visited) else find_edgek T current visited).
Proof.
  intros i current visited T. unfold gen_sample_find_edge, py_minus_one, py_int, py_head0.
  destruct (i =? 0).
  - unfold find_edge0. induction T as [|e T IH]; [reflexivity|]. cbn [py_for_break find].
    destruct (((e_L e =? current) && (e_R e =? hd 0 visited)) || ((e_R e =? current) && (e_L e =? hd 0 visited)));
      [reflexivity | exact IH].
  - unfold find_edgek. induction T as [|e T IH]; [reflexivity|]. cbn [py_for_break find].
    destruct ((e_L e =? current) || (e_R e =? current)); [|exact IH].
    rewrite issubset_U. destruct (forallb (fun x => memb x (current :: visited)) (U e)); reflexivity.
Qed.
Print Assumptions C17_bridge_sample_find_edge.

(* one iteration of `for i in range(itr - 1, -1, -1):` IS one unfolding of the model's level_loop.  Hypothesis: in the
   tree looked at, Edge.index = position in the edge list (Spec.VineDefs.idx_ok, proved for every tree train_vine builds):
   the source looks the copula up by POSITION `current_tree[current_ind]`, the model names it by the index found *)
Theorem C17_bridge_sample_level_step :
  forall (trees : list (list edge)) (trunc itr current : nat) (visited : list nat) (i : nat) (rest : list nat)
         (tmp : option sterm),
  (forall T, nth_error trees i = Some T -> Spec.VineDefs.idx_ok T) ->
  level_loop trees trunc itr current visited (i :: rest) tmp
  = match gen_sample_level_step trees trunc itr current visited i tmp with
    | None => None
    | Some tmp' => level_loop trees trunc itr current visited rest tmp'
    end.
Proof.
  intros trees trunc itr current visited i rest tmp Hidx.
  cbn [level_loop]. unfold gen_sample_level_step.
  destruct (trunc <=? i); [reflexivity|].
  unfold py_trees_get. destruct (nth_error trees i) as [T|] eqn:ET; [|reflexivity].
  cbn [to_edges]. rewrite C17_bridge_sample_find_edge. unfold pyint.
  destruct (if i =? 0 then find_edge0 T current (hd 0 visited) else find_edgek T current visited) as [ci|];
    cbn [py_int_ne_minus_one py_index_int]; [|reflexivity].
  destruct (nth_error T ci) as [e|] eqn:Ee; [|reflexivity].
  unfold py_edge_copula, py_percent_point, py_sample_clip, py_unis, py_head0. cbn [fst snd].
  rewrite (Hidx T eq_refl ci e Ee).
  destruct (i =? itr - 1); [reflexivity|]. destruct tmp; reflexivity.
Qed.
Print Assumptions C17_bridge_sample_level_step.

(* hence the whole inner loop of the model is the fold of the generated iteration over range(itr - 1, -1, -1) *)
Corollary C17_gen_level_loop :
  forall (trees : list (list edge)) (trunc itr current : nat) (visited : list nat) (levels : list nat) (tmp : option sterm),
  (forall i T, In i levels -> nth_error trees i = Some T -> Spec.VineDefs.idx_ok T) ->
  level_loop trees trunc itr current visited levels tmp
  = py_fold_opt (gen_sample_level_step trees trunc itr current visited) levels tmp.
Proof.
  intros trees trunc itr current visited levels. induction levels as [|i rest IH]; intros tmp H; [reflexivity|].
  rewrite C17_bridge_sample_level_step by (intros T; apply H; left; reflexivity).
  cbn [py_fold_opt]. destruct (gen_sample_level_step trees trunc itr current visited i tmp) as [tmp'|]; [|reflexivity].
  apply IH. intros j T Hj. apply H. right. exact Hj.
Qed.

Corollary C17_gen_level_loop_range :
  forall (trees : list (list edge)) (trunc itr current : nat) (visited : list nat) (tmp : option sterm),
  (forall i T, i < itr -> nth_error trees i = Some T -> Spec.VineDefs.idx_ok T) ->
  level_loop trees trunc itr current visited (rev (seq 0 itr)) tmp
  = py_fold_opt (gen_sample_level_step trees trunc itr current visited) (py_range_down itr) tmp.
Proof.
  intros trees trunc itr current visited tmp H. apply C17_gen_level_loop.
  intros i T Hi. apply H. apply in_rev in Hi. apply in_seq in Hi. lia.
Qed.
Print Assumptions C17_gen_level_loop_range.

(* ================================================================== *)
(** * 6. Consequences for the model-level theorems                     *)
(* the U of every tree of level >= 2 of Model.VineData.vine_data_of (the function the replay correspondence evaluates) *)
Corollary C17_gen_prepare_vine_data_of :
  forall (v : list (list edge)) (inputs1 : list (nat * nat)) (Dv : list (list edge_data)),
  vine_data_of v inputs1 = Some Dv ->
  forall (t : nat) (T : list edge) (DT : list edge_data),
  t >= 1 ->
  nth_error v t = Some T ->
  nth_error Dv t = Some DT ->
  exists Dp : list edge_data,
    nth_error Dv (t - 1) = Some Dp /\
    gen_Tree_prepare_next_tree t CMarg Dp T = Some (map (fun x => stored (ed_U x)) DT).
Proof.
  intros v inputs1 Dv H t T DT Ht HT HD. unfold vine_data_of in H.
  destruct v as [|T1 ts]; [discriminate|].
  destruct (data_rest 1 _ ts) as [ds|] eqn:Er; [|discriminate]. injection H as <-.
  destruct t as [|k]; [lia|]. cbn [nth_error] in HT, HD. replace (S k - 1) with k by lia.
  set (D1 := map (fun p => mk_first (fst p) (snd p)) (combine T1 inputs1)) in *.
  assert (Hk : k < length (D1 :: ds)).
  { cbn [length]. apply Nat.lt_lt_succ_r. apply nth_error_Some. rewrite HD. discriminate. }
  destruct (nth_error (D1 :: ds) k) as [Dp|] eqn:Ep; [|apply nth_error_None in Ep; lia].
  exists Dp. split; [reflexivity|].
  apply (C17_gen_prepare_rest ts 1 D1 ds (le_n 1) Er k T DT Dp HT HD Ep).
Qed.
Print Assumptions C17_gen_prepare_vine_data_of.

(* the number the generated likelihood denotes, given the oracles of Spec.VineLikProofs (density, h-function, the
   caller's row, the contents of unwritten np.empty cells of the uni matrices; [ecell] = an unwritten cell of a `values` array) *)
Section LikValueR.
  Variables dens hfun : nat -> nat -> R -> R -> R.
  Variable u : nat -> R.
  Variable garb : nat -> nat -> nat -> R.
  Variable ecell : R.

  Fixpoint lval_R (v : lval) : R :=
    match v with
    | LZero => 0%R
    | LEmpty => ecell
    | LDens c x y => dens (fst c) (snd c) (evalc hfun u garb (snd x)) (evalc hfun u garb (snd y))
    | LLog w => ln (lval_R w)
    | LSum l => fold_left Rplus (map lval_R l) 0%R
    end.

  Lemma lval_R_vine_val (res : list (list lik_edge)) :
    lval_R (vine_val res) = lik_value dens hfun u garb res.
  Proof.
    unfold vine_val, lik_value. cbn [lval_R]. rewrite map_map. f_equal. apply map_ext. intros les.
    unfold tree_val, tree_value. cbn [lval_R]. rewrite map_map. f_equal.
  Qed.
End LikValueR.

(* the generated VineCopula.get_likelihood denotes Spec.VineLikProofs.lik_value of the model's trace: the C17 likelihood
   theorems (C17_likelihood_sum, _args_ok, _depends_only_on_model_u, ...) are statements about the generated code *)
Theorem C17_gen_likelihood_value :
  forall (dens hfun : nat -> nat -> R -> R -> R) (u : nat -> R) (garb : nat -> nat -> nat -> R) (ecell : R)
         (d : nat) (v : list (list edge)) (res : list (list lik_edge)),
  d <> 1 ->
  vine_lik d v = Some res ->
  exists val : lval,
    gen_VineCopula_get_likelihood true v (lik_mat 0 d (umat0 d)) = Some val /\
    lval_R dens hfun u garb ecell val = lik_value dens hfun u garb res.
Proof.
  intros dens hfun u garb ecell d v res Hd H. exists (vine_val res). split.
  - rewrite C17_bridge_VineCopula_get_likelihood by exact Hd. rewrite H. reflexivity.
  - apply lval_R_vine_val.
Qed.
Print Assumptions C17_gen_likelihood_value.

(* F10b stays true of the GENERATED code: on the witness (D-vine on tauA) the value the generated get_likelihood denotes is,
   for suitable oracles, exactly the content of the never-written cell [1, 0] of the matrix tree 3 reads *)
Theorem C17_gen_likelihood_depends_on_garbage :
  exists (v : list (list edge)) (val : lval),
    train_vine_opt Direct 4 3 (fun _ : nat => tauA) id_order = Some v /\
    gen_VineCopula_get_likelihood true v (lik_mat 0 4 (umat0 4)) = Some val /\
    exists (dens hfun : nat -> nat -> R -> R -> R) (u : nat -> R),
      forall (garb : nat -> nat -> nat -> R) (ecell : R), lval_R dens hfun u garb ecell val = garb 2 1 0.
Proof.
  destruct likelihood_depends_on_garbage as (res & H & dens & hfun & u & Hg).
  destruct (train_vine_opt Direct 4 3 (fun _ : nat => tauA) id_order) as [v|]; [|discriminate].
  cbn [option_map] in H. injection H as H.
  exists v, (vine_val res). split; [reflexivity|]. split.
  - rewrite C17_bridge_VineCopula_get_likelihood by discriminate. rewrite H. reflexivity.
  - exists dens, hfun, u. intros garb ecell. rewrite lval_R_vine_val. apply Hg.
Qed.
Print Assumptions C17_gen_likelihood_depends_on_garbage.

(* ... and the unwritten cells show up in the generated term itself: the reads (tree, row, column) of never-written cells
   in the value computed by the generated get_likelihood on the witness are those of C17_likelihood_def_before_use_refuted *)
Fixpoint lval_unwritten (v : lval) : list (nat * nat * nat) :=
  match v with
  | LDens c x y =>
      (match snd (fst x) with None => [(fst c, fst (fst (fst x)), snd (fst (fst x)))] | Some _ => [] end) ++
      (match snd (fst y) with None => [(fst c, fst (fst (fst y)), snd (fst (fst y)))] | Some _ => [] end)
  | LLog w => lval_unwritten w
  | LSum l => flat_map lval_unwritten l
  | _ => []
  end.

Example C17_gen_likelihood_reads_unwritten :
  option_map (fun v => option_map lval_unwritten (gen_VineCopula_get_likelihood true v (lik_mat 0 4 (umat0 4))))
             (train_vine_opt Direct 4 3 (fun _ : nat => tauA) id_order)
  = Some (Some [(2, 1, 0); (2, 3, 2)]).
Proof. vm_compute. reflexivity. Qed.
