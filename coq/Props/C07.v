(* C07 — copula density and conditional CDF are the derivatives of the CDF.
   All statements are about the model generated from /repo's current source. *)
From Coq Require Import Reals List Bool Lra Psatz.
From Coquelicot Require Import Coquelicot.
From Cop Require Import Lib.NumpyR Lib.RealLemmas Spec.ArchDefs.
From Cop Require Spec.Clayton Spec.Frank Spec.Gumbel.
From CopRun Require Import Gen_biv Bridge_biv.
Import ListNotations.
Open Scope R_scope.

Notation CC := clayton_cumulative_distribution.
Notation CH := clayton_partial_derivative.
Notation CD := clayton_probability_density.
Notation FC := frank_cumulative_distribution.
Notation FH := frank_partial_derivative.
Notation FD := frank_probability_density.
Notation GC := gumbel_cumulative_distribution.
Notation GH := gumbel_partial_derivative.
Notation GD := gumbel_probability_density.

Lemma locally_open (P : R -> Prop) x a b : a < x < b -> (forall t, a < t < b -> P t) -> locally x P.
Proof.
  intros Hx HP. apply (locally_interval P x (Finite a) (Finite b)); simpl; try lra.
  intros y Hy1 Hy2. apply HP. simpl in *. lra.
Qed.

(* ================= h = dC/dv ================= *)
Theorem C07_clayton_h_is_dCdv th u v : 0 < th -> 0 < u <= 1 -> 0 < v < 1 ->
  is_derive (fun t => CC th u t) v (CH th u v).
Proof.
  intros Hth Hu Hv. rewrite bridge_clayton_h by lra.
  apply (is_derive_ext_loc (fun t => clayton_C th u t)).
  - apply (locally_open _ v 0 1); [lra|]. intros t Ht. symmetry. apply bridge_clayton_cdf; lra.
  - apply Clayton.clayton_h_is_derive; lra.
Qed.
Theorem C07_frank_h_is_dCdv th u v : th <> 0 -> 0 <= u <= 1 -> 0 <= v <= 1 ->
  is_derive (fun t => FC th u t) v (FH th u v).
Proof.
  intros Hth Hu Hv. rewrite bridge_frank_h by assumption.
  apply (is_derive_ext (fun t => frank_C th u t)).
  - intros t. symmetry. apply bridge_frank_cdf; assumption.
  - apply Frank.frank_h_is_derive; assumption.
Qed.
Theorem C07_gumbel_h_is_dCdv th u v : 1 < th -> 0 < u < 1 -> 0 < v < 1 ->
  is_derive (fun t => GC th u t) v (GH th u v).
Proof.
  intros Hth Hu Hv. rewrite bridge_gumbel_h by assumption.
  apply (is_derive_ext_loc (fun t => gumbel_C th u t)).
  - apply (locally_open _ v 0 1); [lra|]. intros t Ht. symmetry. apply bridge_gumbel_cdf; lra.
  - apply Gumbel.gumbel_h_is_derive; assumption.
Qed.

(* ================= range and monotonicity of h, end values ================= *)
Theorem C07_clayton_h_range_mono th : 0 < th ->
  (forall u v, 0 < u <= 1 -> 0 < v <= 1 -> 0 <= CH th u v <= 1) /\
  (forall u1 u2 v, 0 < u1 -> u1 <= u2 -> u2 <= 1 -> 0 < v <= 1 -> CH th u1 v <= CH th u2 v) /\
  (forall v, 0 < v <= 1 -> CH th 1 v = 1) /\
  (forall v, 0 < v <= 1 -> filterlim (fun u => clayton_h th u v) (at_right 0) (locally 0)).
Proof.
  intros Hth. repeat split.
  - rewrite bridge_clayton_h by lra. apply Clayton.clayton_h_range; lra.
  - rewrite bridge_clayton_h by lra. apply Clayton.clayton_h_range; lra.
  - intros u1 u2 v H1 H12 H2 Hv. rewrite !bridge_clayton_h by lra. apply Clayton.clayton_h_mono; lra.
  - intros v Hv. rewrite bridge_clayton_h by lra. apply Clayton.clayton_h_one; lra.
  - intros v Hv. apply Clayton.clayton_h_lim0; lra.
Qed.
Theorem C07_frank_h_range_mono th : th <> 0 ->
  (forall u v, 0 <= u <= 1 -> 0 <= v <= 1 -> 0 <= FH th u v <= 1) /\
  (forall u1 u2 v, 0 <= u1 -> u1 <= u2 -> u2 <= 1 -> 0 <= v <= 1 -> FH th u1 v <= FH th u2 v) /\
  (forall v, 0 <= v <= 1 -> FH th 0 v = 0 /\ FH th 1 v = 1).
Proof.
  intros Hth. repeat split.
  - rewrite bridge_frank_h by assumption. apply Frank.frank_h_range; assumption.
  - rewrite bridge_frank_h by assumption. apply Frank.frank_h_range; assumption.
  - intros u1 u2 v H1 H12 H2 Hv. rewrite !bridge_frank_h by assumption. apply Frank.frank_h_mono; assumption.
  - rewrite bridge_frank_h by assumption. apply Frank.frank_h_zero; assumption.
  - rewrite bridge_frank_h by assumption. apply Frank.frank_h_one; assumption.
Qed.
Theorem C07_gumbel_h_range_mono th : 1 < th ->
  (forall u v, 0 < u < 1 -> 0 < v < 1 -> 0 < GH th u v < 1) /\
  (forall u1 u2 v, 0 < u1 -> u1 <= u2 -> u2 < 1 -> 0 < v < 1 -> GH th u1 v <= GH th u2 v) /\
  (forall v, 0 < v < 1 -> filterlim (fun u => gumbel_h th u v) (at_right 0) (locally 0)) /\
  (forall v, 0 < v < 1 -> filterlim (fun u => gumbel_h th u v) (at_left 1) (locally 1)).
Proof.
  intros Hth. repeat split.
  - rewrite bridge_gumbel_h by assumption. apply Gumbel.gumbel_h_range; assumption.
  - rewrite bridge_gumbel_h by assumption. apply Gumbel.gumbel_h_range; assumption.
  - intros u1 u2 v H1 H12 H2 Hv. rewrite !bridge_gumbel_h by lra. apply Gumbel.gumbel_h_mono; lra.
  - intros v Hv. apply Gumbel.gumbel_h_lim0; assumption.
  - intros v Hv. apply Gumbel.gumbel_h_lim1; assumption.
Qed.

(* ================= the density is the mixed derivative ================= *)
Theorem C07_clayton_c_is_dhdu th u v : 0 < th -> 0 < u < 1 -> 0 < v <= 1 ->
  is_derive (fun s => CH th s v) u (CD th u v).
Proof.
  intros Hth Hu Hv. rewrite bridge_clayton_pdf by lra.
  apply (is_derive_ext_loc (fun s => clayton_h th s v)).
  - apply (locally_open _ u 0 1); [lra|]. intros t Ht. symmetry. apply bridge_clayton_h; lra.
  - apply Clayton.clayton_c_is_derive; lra.
Qed.
Theorem C07_frank_c_is_dhdu th u v : th <> 0 -> 0 <= u <= 1 -> 0 <= v <= 1 ->
  is_derive (fun s => FH th s v) u (FD th u v).
Proof.
  intros Hth Hu Hv. rewrite bridge_frank_pdf by assumption.
  apply (is_derive_ext (fun s => frank_h th s v)).
  - intros t. symmetry. apply bridge_frank_h; assumption.
  - apply Frank.frank_c_is_derive; assumption.
Qed.
Theorem C07_gumbel_c_is_dhdu th u v : 1 < th -> 0 < u < 1 -> 0 < v < 1 ->
  is_derive (fun s => GH th s v) u (GD th u v).
Proof.
  intros Hth Hu Hv. rewrite bridge_gumbel_pdf by assumption.
  apply (is_derive_ext_loc (fun s => gumbel_h th s v)).
  - apply (locally_open _ u 0 1); [lra|]. intros t Ht. symmetry. apply bridge_gumbel_h; lra.
  - apply Gumbel.gumbel_c_is_derive; assumption.
Qed.

(* ================= density non-negative and symmetric ================= *)
Theorem C07_density_nonneg_sym :
  (forall th u v, 0 < th -> 0 < u <= 1 -> 0 < v <= 1 -> 0 < CD th u v /\ CD th u v = CD th v u) /\
  (forall th u v, th <> 0 -> 0 <= u <= 1 -> 0 <= v <= 1 -> 0 < FD th u v /\ FD th u v = FD th v u) /\
  (forall th u v, 1 < th -> 0 < u < 1 -> 0 < v < 1 -> 0 < GD th u v /\ GD th u v = GD th v u).
Proof.
  repeat split.
  - rewrite bridge_clayton_pdf by lra. apply Clayton.clayton_c_pos; lra.
  - rewrite !bridge_clayton_pdf by lra. apply Clayton.clayton_c_sym.
  - rewrite bridge_frank_pdf by assumption. apply Frank.frank_c_pos; assumption.
  - rewrite !bridge_frank_pdf by assumption. apply Frank.frank_c_sym.
  - rewrite bridge_gumbel_pdf by assumption. apply Gumbel.gumbel_c_pos; assumption.
  - rewrite !bridge_gumbel_pdf by assumption. apply Gumbel.gumbel_c_sym; assumption.
Qed.

(* ================= the density integrates to the C-volume over every rectangle ================= *)
Lemma minmax_le a b x : a <= b -> Rmin a b < x < Rmax a b -> a < x < b.
Proof. intros H. unfold Rmin, Rmax. destruct (Rle_dec a b); lra. Qed.

Theorem C07_clayton_rect_integral th u1 u2 v1 v2 :
  0 < th -> 0 < u1 -> u1 <= u2 -> u2 <= 1 -> 0 < v1 -> v1 <= v2 -> v2 <= 1 ->
  RInt (fun v => RInt (fun u => CD th u v) u1 u2) v1 v2 = Cvol (CC th) u1 u2 v1 v2.
Proof.
  intros Hth Hu1 Hu12 Hu2 Hv1 Hv12 Hv2.
  unfold Cvol. rewrite !bridge_clayton_cdf by lra.
  pose proof (Clayton.clayton_rect_integral th u1 u2 v1 v2 Hth Hu1 Hu12 Hu2 Hv1 Hv12 Hv2) as HR.
  unfold Cvol in HR. rewrite <- HR.
  apply RInt_ext. intros v Hv. apply minmax_le in Hv; [|assumption].
  apply RInt_ext. intros u Hu. apply minmax_le in Hu; [|assumption].
  apply bridge_clayton_pdf; lra.
Qed.
Theorem C07_frank_rect_integral th u1 u2 v1 v2 :
  th <> 0 -> 0 <= u1 -> u1 <= u2 -> u2 <= 1 -> 0 <= v1 -> v1 <= v2 -> v2 <= 1 ->
  RInt (fun v => RInt (fun u => FD th u v) u1 u2) v1 v2 = Cvol (FC th) u1 u2 v1 v2.
Proof.
  intros Hth Hu1 Hu12 Hu2 Hv1 Hv12 Hv2.
  unfold Cvol. rewrite !bridge_frank_cdf by assumption.
  pose proof (Frank.frank_rect_integral th u1 u2 v1 v2 Hth Hu1 Hu12 Hu2 Hv1 Hv12 Hv2) as HR.
  unfold Cvol in HR. rewrite <- HR.
  apply RInt_ext. intros v Hv. apply minmax_le in Hv; [|assumption].
  apply RInt_ext. intros u Hu. apply minmax_le in Hu; [|assumption]. apply bridge_frank_pdf; try assumption; lra.
Qed.
Theorem C07_gumbel_rect_integral th u1 u2 v1 v2 :
  1 < th -> 0 < u1 -> u1 <= u2 -> u2 < 1 -> 0 < v1 -> v1 <= v2 -> v2 < 1 ->
  RInt (fun v => RInt (fun u => GD th u v) u1 u2) v1 v2 = Cvol (GC th) u1 u2 v1 v2.
Proof.
  intros Hth Hu1 Hu12 Hu2 Hv1 Hv12 Hv2.
  unfold Cvol. rewrite !bridge_gumbel_cdf by lra.
  pose proof (Gumbel.gumbel_rect_integral th u1 u2 v1 v2 Hth Hu1 Hu12 Hu2 Hv1 Hv12 Hv2) as HR.
  unfold Cvol in HR. rewrite <- HR.
  apply RInt_ext. intros v Hv. apply minmax_le in Hv; [|assumption].
  apply RInt_ext. intros u Hu. apply minmax_le in Hu; [|assumption].
  apply bridge_gumbel_pdf; lra.
Qed.

(* ================= theta = 1: the independence member of the Gumbel family ================= *)
(* (before the repair recorded as F28 the code returned V for the conditional CDF and U*V for the
   density at theta = 1; the generated model then made this theorem unprovable) *)
Theorem C07_gumbel_independence_member u v :
  GH 1 u v = u /\ GD 1 u v = 1 /\
  is_derive (fun t => GC 1 u t) v (GH 1 u v) /\ is_derive (fun s => GH 1 s v) u (GD 1 u v).
Proof.
  assert (EH : forall a b, GH 1 a b = a).
  { intros a b. unfold gumbel_partial_derivative. rewrite (proj2 (Reqb_true 1 1)) by reflexivity. reflexivity. }
  assert (ED : forall a b, GD 1 a b = 1).
  { intros a b. unfold gumbel_probability_density. rewrite (proj2 (Reqb_true 1 1)) by reflexivity. reflexivity. }
  split; [apply EH|]. split; [apply ED|]. split.
  - rewrite EH. apply (is_derive_ext (fun t => u * t)).
    + intros t. symmetry. apply bridge_gumbel_indep.
    + auto_derive; [exact I | ring].
  - rewrite ED. apply (is_derive_ext (fun s => s)).
    + intros t. symmetry. apply EH.
    + auto_derive; [exact I | ring].
Qed.

(* ================= log density, row-wise evaluation ================= *)
Theorem C07_log_density (pdf : R -> R -> R) u v :
  bivariate_log_probability_density pdf u v = ln (pdf u v).
Proof. reflexivity. Qed.

Theorem C07_rowwise th X :
  clayton_partial_derivative_batch th X = map (fun p => CH th (fst p) (snd p)) X /\
  clayton_probability_density_batch th X = map (fun p => CD th (fst p) (snd p)) X /\
  frank_partial_derivative_batch th X = map (fun p => FH th (fst p) (snd p)) X /\
  frank_probability_density_batch th X = map (fun p => FD th (fst p) (snd p)) X /\
  gumbel_partial_derivative_batch th X = map (fun p => GH th (fst p) (snd p)) X /\
  gumbel_probability_density_batch th X = map (fun p => GD th (fst p) (snd p)) X.
Proof.
  split; [apply clayton_h_rowwise|]. split; [apply clayton_pdf_rowwise|]. split; [apply frank_h_rowwise|].
  split; [apply frank_pdf_rowwise|]. split; [apply gumbel_h_rowwise | apply gumbel_pdf_rowwise].
Qed.

Example C07_nonvacuous : 0 < 2 /\ 0 < 3/10 < 1 /\ 0 < 7/10 < 1 /\ (2:R) <> 0 /\ 1 < 2.
Proof. lra. Qed.

Print Assumptions C07_clayton_h_is_dCdv.
Print Assumptions C07_frank_h_is_dCdv.
Print Assumptions C07_gumbel_h_is_dCdv.
Print Assumptions C07_clayton_c_is_dhdu.
Print Assumptions C07_frank_c_is_dhdu.
Print Assumptions C07_gumbel_c_is_dhdu.
Print Assumptions C07_clayton_rect_integral.
Print Assumptions C07_frank_rect_integral.
Print Assumptions C07_gumbel_rect_integral.
Print Assumptions C07_density_nonneg_sym.
Print Assumptions C07_rowwise.
Print Assumptions C07_gumbel_independence_member.
