(* C20 -- library calls never modify caller-owned inputs; plots show exactly the data.

   Effect model: Cop.Model.Alias (effect language, executable semantics, may-alias write analysis), soundness and
   completeness theorems in Cop.Spec.AliasProofs / Cop.Spec.AliasEntry.  The effect PROGRAMS of the entry points are
   GENERATED from the Python AST of the tree under test on every run (CopRun.Gen_effects, tools/vf/effects.py, fail-closed);
   the verdicts below are recomputed by vm_compute on those programs, so removing a defensive copy or re-introducing an
   in-place edit on a parameter flips a verdict and breaks the corresponding theorem.
   Plot model: Cop.Model.Plot (hand-written transcription of copulas/visualization.py and of px.scatter's grouping),
   theorems in Cop.Spec.PlotProofs, tied to the implementation by the differential correspondence of the check AND, for the
   data pipeline of scatter_2d/3d, compare_2d/3d and _generate_scatter_2d/3d_plot, by proof: the pipeline is GENERATED from the
   Python AST on every run (CopRun.Gen_plot, tools/vf/plotgen.py, fail-closed; denotations of the pandas / plotly operations in
   Cop.Lib.PyFrame) and PROVED equal to the hand-written functions for all inputs ([C20_bridge_*], section 6). *)
From Coq Require Import ZArith List Bool Arith Lia Permutation.
From Cop Require Import Model.Alias Spec.AliasProofs Spec.AliasEntry Model.Plot Spec.PlotProofs Lib.PyFrame.
From CopRun Require Import Gen_effects.
From CopRun Require Import Gen_plot.
Import ListNotations.

(* analysis fuel = call depth bound; the check verifies that the generated call graph is acyclic and shallower *)
Definition FUEL : nat := 24.
Definition all_view : oracle := repeat true 4096.     (* every IMayView answers "view" *)

(* ================================================================================================ *)
(* 1. The analysis is sound (every program, every oracle, every call depth)                          *)
(* ================================================================================================ *)
Theorem C20_analysis_sound :
  forall ft fa fe n p (o : oracle) (e : env) (s : store) k l,
    k < n -> eget e k = Some l -> l < length s ->
    (forall x, eget e x = Some l -> x = k) ->
    nth k (writes_params ft fa n p) true = false ->
    content (snd (exec o ft fe e s p)) l = content s l.
Proof. exact analysis_sound. Qed.

Theorem C20_analysis_sound_aliased :
  forall ft fa fe n p (o : oracle) (e : env) (s : store) l,
    l < length s ->
    (forall x, eget e x = Some l -> x < n) ->
    (forall k, k < n -> eget e k = Some l -> nth k (writes_params ft fa n p) true = false) ->
    content (snd (exec o ft fe e s p)) l = content s l.
Proof. exact analysis_sound_aliased. Qed.

(* all explicit arguments reported "not written" => the argument tuple is unchanged, hence a second identical
   call starts from identical inputs *)
Theorem C20_args_unchanged :
  forall ft fa fe f (o : oracle) (actuals : store) m,
    m <= fst f -> m <= length actuals ->
    explicit_verdict ft fa f m = repeat false m ->
    firstn m (snd (exec_fun o ft fe f actuals)) = firstn m actuals.
Proof. exact exec_fun_pure_prefix. Qed.

Theorem C20_arg_unchanged :
  forall ft fa fe f (o : oracle) (actuals : store) m k,
    k < m -> m <= fst f -> m <= length actuals ->
    nth k (explicit_verdict ft fa f m) true = false ->
    content (snd (exec_fun o ft fe f actuals)) k = content actuals k.
Proof. exact exec_fun_arg_unchanged. Qed.

(* without IMayView (transitively) the verdict DECIDES whether the argument is modified *)
Theorem C20_analysis_exact :
  forall ft d fa fe f (o : oracle) (actuals : store) k,
    exact_ok ft d (snd f) = true -> d <= fe -> d <= fa ->
    k < fst f -> k < length actuals ->
    (nth k (writes_fun ft fa f) false = true <->
     content (snd (exec_fun o ft fe f actuals)) k <> content actuals k).
Proof. exact analysis_exact. Qed.

(* ================================================================================================ *)
(* 2. Entry points of the CURRENT source that leave every explicit argument untouched               *)
(* ================================================================================================ *)
Definition bools_eqb (a b : list bool) : bool :=
  Nat.eqb (length a) (length b) && forallb (fun p => Bool.eqb (fst p) (snd p)) (combine a b).

Lemma bools_eqb_eq : forall a b, bools_eqb a b = true -> a = b.
Proof.
  unfold bools_eqb. induction a as [|x a IH]; destruct b as [|y b]; simpl; intros H; try reflexivity; try discriminate.
  apply andb_true_iff in H. destruct H as [H1 H2]. apply andb_true_iff in H2. destruct H2 as [H2 H3].
  apply eqb_prop in H2. subst. f_equal. apply IH. apply andb_true_iff. split; assumption.
Qed.

Definition pure_ok (e : func * nat) : bool :=
  (snd e <=? fst (fst e)) && bools_eqb (explicit_verdict gen_table FUEL (fst e) (snd e)) (repeat false (snd e)).

Definition pure_entries : list (func * nat) := [
  (eff_optimize_bisect, arity_optimize_bisect);
  (eff_visualization__generate_scatter_2d_plot, arity_visualization__generate_scatter_2d_plot);
  (eff_visualization_scatter_2d, arity_visualization_scatter_2d);
  (eff_visualization_compare_2d, arity_visualization_compare_2d);
  (eff_visualization__generate_scatter_3d_plot, arity_visualization__generate_scatter_3d_plot);
  (eff_visualization_scatter_3d, arity_visualization_scatter_3d);
  (eff_visualization_compare_3d, arity_visualization_compare_3d);
  (eff_optimize_chandrupatla, arity_optimize_chandrupatla);
  (eff_visualization__generate_1d_plot, arity_visualization__generate_1d_plot);
  (eff_visualization_dist_1d, arity_visualization_dist_1d);
  (eff_visualization_compare_1d, arity_visualization_compare_1d);
  (eff_multivariate_tree_Tree__sort_tau_by_y, arity_multivariate_tree_Tree__sort_tau_by_y);
  (eff_multivariate_tree_DirectTree__build_first_tree, arity_multivariate_tree_DirectTree__build_first_tree);
  (eff_multivariate_tree_CenterTree__build_first_tree, arity_multivariate_tree_CenterTree__build_first_tree);
  (eff_multivariate_tree_RegularTree__build_first_tree, arity_multivariate_tree_RegularTree__build_first_tree);
  (eff_multivariate_tree_Tree_get_likelihood, arity_multivariate_tree_Tree_get_likelihood);
  (eff_multivariate_vine_VineCopula_fit, arity_multivariate_vine_VineCopula_fit);
  (eff_multivariate_vine_VineCopula_train_vine, arity_multivariate_vine_VineCopula_train_vine);
  (eff_multivariate_vine_VineCopula_sample, arity_multivariate_vine_VineCopula_sample);
  (eff_multivariate_vine_VineCopula_get_likelihood, arity_multivariate_vine_VineCopula_get_likelihood);
  (eff_multivariate_gaussian_GaussianMultivariate_fit, arity_multivariate_gaussian_GaussianMultivariate_fit);
  (eff_multivariate_gaussian_GaussianMultivariate__transform_to_normal, arity_multivariate_gaussian_GaussianMultivariate__transform_to_normal);
  (eff_multivariate_gaussian_GaussianMultivariate_probability_density, arity_multivariate_gaussian_GaussianMultivariate_probability_density);
  (eff_multivariate_gaussian_GaussianMultivariate_cumulative_distribution, arity_multivariate_gaussian_GaussianMultivariate_cumulative_distribution);
  (eff_multivariate_gaussian_GaussianMultivariate_sample, arity_multivariate_gaussian_GaussianMultivariate_sample);
  (eff_multivariate_gaussian_GaussianMultivariate_from_dict, arity_multivariate_gaussian_GaussianMultivariate_from_dict);
  (eff_bivariate_select_copula, arity_bivariate_select_copula);
  (eff_bivariate_base_Bivariate_select_copula, arity_bivariate_base_Bivariate_select_copula);
  (eff_bivariate_base_Bivariate_fit, arity_bivariate_base_Bivariate_fit);
  (eff_bivariate_base_Bivariate_sample, arity_bivariate_base_Bivariate_sample);
  (eff_bivariate_base_Bivariate_from_dict, arity_bivariate_base_Bivariate_from_dict);
  (eff_bivariate_base_Bivariate_log_probability_density, arity_bivariate_base_Bivariate_log_probability_density);
  (eff_bivariate_base_Bivariate_partial_derivative_scalar, arity_bivariate_base_Bivariate_partial_derivative_scalar);
  (eff_bivariate_base_Bivariate_partial_derivative, arity_bivariate_base_Bivariate_partial_derivative);
  (eff_bivariate_base_Bivariate_percent_point, arity_bivariate_base_Bivariate_percent_point);
  (eff_bivariate_clayton_Clayton_probability_density, arity_bivariate_clayton_Clayton_probability_density);
  (eff_bivariate_clayton_Clayton_cumulative_distribution, arity_bivariate_clayton_Clayton_cumulative_distribution);
  (eff_bivariate_clayton_Clayton_partial_derivative, arity_bivariate_clayton_Clayton_partial_derivative);
  (eff_bivariate_clayton_Clayton_percent_point, arity_bivariate_clayton_Clayton_percent_point);
  (eff_bivariate_frank_Frank_probability_density, arity_bivariate_frank_Frank_probability_density);
  (eff_bivariate_frank_Frank_cumulative_distribution, arity_bivariate_frank_Frank_cumulative_distribution);
  (eff_bivariate_frank_Frank_partial_derivative, arity_bivariate_frank_Frank_partial_derivative);
  (eff_bivariate_frank_Frank_percent_point, arity_bivariate_frank_Frank_percent_point);
  (eff_bivariate_gumbel_Gumbel_probability_density, arity_bivariate_gumbel_Gumbel_probability_density);
  (eff_bivariate_gumbel_Gumbel_cumulative_distribution, arity_bivariate_gumbel_Gumbel_cumulative_distribution);
  (eff_bivariate_gumbel_Gumbel_partial_derivative, arity_bivariate_gumbel_Gumbel_partial_derivative);
  (eff_bivariate_gumbel_Gumbel_percent_point, arity_bivariate_gumbel_Gumbel_percent_point);
  (eff_bivariate_independence_Independence_probability_density, arity_bivariate_independence_Independence_probability_density);
  (eff_bivariate_independence_Independence_cumulative_distribution, arity_bivariate_independence_Independence_cumulative_distribution);
  (eff_bivariate_independence_Independence_partial_derivative, arity_bivariate_independence_Independence_partial_derivative);
  (eff_bivariate_independence_Independence_percent_point, arity_bivariate_independence_Independence_percent_point);
  (eff_univariate_base_Univariate_fit, arity_univariate_base_Univariate_fit);
  (eff_univariate_base_Univariate_probability_density, arity_univariate_base_Univariate_probability_density);
  (eff_univariate_base_Univariate_cumulative_distribution, arity_univariate_base_Univariate_cumulative_distribution);
  (eff_univariate_base_Univariate_percent_point, arity_univariate_base_Univariate_percent_point);
  (eff_univariate_base_Univariate_log_probability_density, arity_univariate_base_Univariate_log_probability_density);
  (eff_univariate_base_Univariate_sample, arity_univariate_base_Univariate_sample);
  (eff_univariate_base_Univariate_from_dict, arity_univariate_base_Univariate_from_dict);
  (eff_univariate_base_ScipyModel_fit, arity_univariate_base_ScipyModel_fit);
  (eff_univariate_base_ScipyModel_probability_density, arity_univariate_base_ScipyModel_probability_density);
  (eff_univariate_base_ScipyModel_cumulative_distribution, arity_univariate_base_ScipyModel_cumulative_distribution);
  (eff_univariate_base_ScipyModel_percent_point, arity_univariate_base_ScipyModel_percent_point);
  (eff_univariate_base_ScipyModel_log_probability_density, arity_univariate_base_ScipyModel_log_probability_density);
  (eff_univariate_base_ScipyModel__set_params, arity_univariate_base_ScipyModel__set_params);
  (eff_univariate_gaussian_kde_GaussianKDE_percent_point, arity_univariate_gaussian_kde_GaussianKDE_percent_point);
  (eff_univariate_gaussian_kde_GaussianKDE_cumulative_distribution, arity_univariate_gaussian_kde_GaussianKDE_cumulative_distribution);
  (eff_univariate_gaussian_kde_GaussianKDE_probability_density, arity_univariate_gaussian_kde_GaussianKDE_probability_density);
  (eff_univariate_gaussian_kde_GaussianKDE__fit, arity_univariate_gaussian_kde_GaussianKDE__fit);
  (eff_univariate_gaussian_kde_GaussianKDE__set_params, arity_univariate_gaussian_kde_GaussianKDE__set_params);
  (eff_univariate_gaussian_GaussianUnivariate__fit, arity_univariate_gaussian_GaussianUnivariate__fit);
  (eff_univariate_beta_BetaUnivariate__fit, arity_univariate_beta_BetaUnivariate__fit);
  (eff_univariate_gamma_GammaUnivariate__fit, arity_univariate_gamma_GammaUnivariate__fit);
  (eff_univariate_log_laplace_LogLaplace__fit, arity_univariate_log_laplace_LogLaplace__fit);
  (eff_univariate_student_t_StudentTUnivariate__fit, arity_univariate_student_t_StudentTUnivariate__fit);
  (eff_univariate_truncated_gaussian_TruncatedGaussian__fit, arity_univariate_truncated_gaussian_TruncatedGaussian__fit);
  (eff_univariate_uniform_UniformUnivariate__fit, arity_univariate_uniform_UniformUnivariate__fit);
  (eff_univariate_selection_select_univariate, arity_univariate_selection_select_univariate);
  (eff_utils_check_valid_values, arity_utils_check_valid_values);
  (eff_utils_get_instance, arity_utils_get_instance);
  (eff_datasets_sample_bivariate_age_income, arity_datasets_sample_bivariate_age_income);
  (eff_datasets_sample_trivariate_xyz, arity_datasets_sample_trivariate_xyz);
  (eff_datasets_sample_univariate_bernoulli, arity_datasets_sample_univariate_bernoulli);
  (eff_datasets_sample_univariate_bimodal, arity_datasets_sample_univariate_bimodal);
  (eff_datasets_sample_univariate_uniform, arity_datasets_sample_univariate_uniform);
  (eff_datasets_sample_univariate_normal, arity_datasets_sample_univariate_normal);
  (eff_datasets_sample_univariate_degenerate, arity_datasets_sample_univariate_degenerate);
  (eff_datasets_sample_univariate_exponential, arity_datasets_sample_univariate_exponential);
  (eff_datasets_sample_univariate_beta, arity_datasets_sample_univariate_beta);
  (eff_datasets_sample_univariates, arity_datasets_sample_univariates)
].

Theorem C20_entrypoints_verdicts : forallb pure_ok pure_entries = true.
Proof. vm_compute. reflexivity. Qed.

Theorem C20_entrypoints :
  forall f m, In (f, m) pure_entries ->
  forall (o : oracle) fe (actuals : store), m <= length actuals ->
    firstn m (snd (exec_fun o gen_table fe f actuals)) = firstn m actuals.
Proof.
  intros f m Hin o fe actuals Hl.
  pose proof (proj1 (forallb_forall pure_ok pure_entries) C20_entrypoints_verdicts (f, m) Hin) as H.
  unfold pure_ok in H. simpl in H. apply andb_true_iff in H. destruct H as [H1 H2].
  apply Nat.leb_le in H1. apply bools_eqb_eq in H2.
  apply (exec_fun_pure_prefix gen_table FUEL fe f o actuals m H1 Hl H2).
Qed.

(* one named statement per entry point (each is an obligation of the evidence) *)
Ltac ep := vm_compute; reflexivity.
Ltac side := first [lia | (vm_compute; lia) | (vm_compute; reflexivity)].
Theorem C20_ep_optimize_bisect : explicit_verdict gen_table FUEL eff_optimize_bisect arity_optimize_bisect = [false; false; false; false; false].
Proof. ep. Qed.
Theorem C20_ep_visualization__generate_scatter_2d_plot : explicit_verdict gen_table FUEL eff_visualization__generate_scatter_2d_plot arity_visualization__generate_scatter_2d_plot = [false; false; false; false].
Proof. ep. Qed.
Theorem C20_ep_visualization_scatter_2d : explicit_verdict gen_table FUEL eff_visualization_scatter_2d arity_visualization_scatter_2d = [false; false; false].
Proof. ep. Qed.
Theorem C20_ep_visualization_compare_2d : explicit_verdict gen_table FUEL eff_visualization_compare_2d arity_visualization_compare_2d = [false; false; false; false].
Proof. ep. Qed.
Theorem C20_ep_visualization__generate_scatter_3d_plot : explicit_verdict gen_table FUEL eff_visualization__generate_scatter_3d_plot arity_visualization__generate_scatter_3d_plot = [false; false; false; false].
Proof. ep. Qed.
Theorem C20_ep_visualization_scatter_3d : explicit_verdict gen_table FUEL eff_visualization_scatter_3d arity_visualization_scatter_3d = [false; false; false].
Proof. ep. Qed.
Theorem C20_ep_visualization_compare_3d : explicit_verdict gen_table FUEL eff_visualization_compare_3d arity_visualization_compare_3d = [false; false; false; false].
Proof. ep. Qed.
Theorem C20_ep_optimize_chandrupatla : explicit_verdict gen_table FUEL eff_optimize_chandrupatla arity_optimize_chandrupatla = [false; false; false; false; false; false].
Proof. ep. Qed.
Theorem C20_ep_visualization__generate_1d_plot : explicit_verdict gen_table FUEL eff_visualization__generate_1d_plot arity_visualization__generate_1d_plot = [false; false; false; false].
Proof. ep. Qed.
Theorem C20_ep_visualization_dist_1d : explicit_verdict gen_table FUEL eff_visualization_dist_1d arity_visualization_dist_1d = [false; false; false].
Proof. ep. Qed.
Theorem C20_ep_visualization_compare_1d : explicit_verdict gen_table FUEL eff_visualization_compare_1d arity_visualization_compare_1d = [false; false; false].
Proof. ep. Qed.
Theorem C20_ep_multivariate_tree_Tree__sort_tau_by_y : explicit_verdict gen_table FUEL eff_multivariate_tree_Tree__sort_tau_by_y arity_multivariate_tree_Tree__sort_tau_by_y = [false].
Proof. ep. Qed.
Theorem C20_ep_multivariate_tree_DirectTree__build_first_tree : explicit_verdict gen_table FUEL eff_multivariate_tree_DirectTree__build_first_tree arity_multivariate_tree_DirectTree__build_first_tree = [].
Proof. ep. Qed.
Theorem C20_ep_multivariate_tree_CenterTree__build_first_tree : explicit_verdict gen_table FUEL eff_multivariate_tree_CenterTree__build_first_tree arity_multivariate_tree_CenterTree__build_first_tree = [].
Proof. ep. Qed.
Theorem C20_ep_multivariate_tree_RegularTree__build_first_tree : explicit_verdict gen_table FUEL eff_multivariate_tree_RegularTree__build_first_tree arity_multivariate_tree_RegularTree__build_first_tree = [].
Proof. ep. Qed.
Theorem C20_ep_multivariate_tree_Tree_get_likelihood : explicit_verdict gen_table FUEL eff_multivariate_tree_Tree_get_likelihood arity_multivariate_tree_Tree_get_likelihood = [false].
Proof. ep. Qed.
Theorem C20_ep_multivariate_vine_VineCopula_fit : explicit_verdict gen_table FUEL eff_multivariate_vine_VineCopula_fit arity_multivariate_vine_VineCopula_fit = [false; false].
Proof. ep. Qed.
Theorem C20_ep_multivariate_vine_VineCopula_train_vine : explicit_verdict gen_table FUEL eff_multivariate_vine_VineCopula_train_vine arity_multivariate_vine_VineCopula_train_vine = [false].
Proof. ep. Qed.
Theorem C20_ep_multivariate_vine_VineCopula_sample : explicit_verdict gen_table FUEL eff_multivariate_vine_VineCopula_sample arity_multivariate_vine_VineCopula_sample = [false].
Proof. ep. Qed.
Theorem C20_ep_multivariate_vine_VineCopula_get_likelihood : explicit_verdict gen_table FUEL eff_multivariate_vine_VineCopula_get_likelihood arity_multivariate_vine_VineCopula_get_likelihood = [false].
Proof. ep. Qed.
Theorem C20_ep_multivariate_gaussian_GaussianMultivariate_fit : explicit_verdict gen_table FUEL eff_multivariate_gaussian_GaussianMultivariate_fit arity_multivariate_gaussian_GaussianMultivariate_fit = [false].
Proof. ep. Qed.
Theorem C20_ep_multivariate_gaussian_GaussianMultivariate__transform_to_normal : explicit_verdict gen_table FUEL eff_multivariate_gaussian_GaussianMultivariate__transform_to_normal arity_multivariate_gaussian_GaussianMultivariate__transform_to_normal = [false].
Proof. ep. Qed.
Theorem C20_ep_multivariate_gaussian_GaussianMultivariate_probability_density : explicit_verdict gen_table FUEL eff_multivariate_gaussian_GaussianMultivariate_probability_density arity_multivariate_gaussian_GaussianMultivariate_probability_density = [false].
Proof. ep. Qed.
Theorem C20_ep_multivariate_gaussian_GaussianMultivariate_cumulative_distribution : explicit_verdict gen_table FUEL eff_multivariate_gaussian_GaussianMultivariate_cumulative_distribution arity_multivariate_gaussian_GaussianMultivariate_cumulative_distribution = [false].
Proof. ep. Qed.
Theorem C20_ep_multivariate_gaussian_GaussianMultivariate_sample : explicit_verdict gen_table FUEL eff_multivariate_gaussian_GaussianMultivariate_sample arity_multivariate_gaussian_GaussianMultivariate_sample = [false; false].
Proof. ep. Qed.
Theorem C20_ep_multivariate_gaussian_GaussianMultivariate_from_dict : explicit_verdict gen_table FUEL eff_multivariate_gaussian_GaussianMultivariate_from_dict arity_multivariate_gaussian_GaussianMultivariate_from_dict = [false].
Proof. ep. Qed.
Theorem C20_ep_bivariate_select_copula : explicit_verdict gen_table FUEL eff_bivariate_select_copula arity_bivariate_select_copula = [false].
Proof. ep. Qed.
Theorem C20_ep_bivariate_base_Bivariate_select_copula : explicit_verdict gen_table FUEL eff_bivariate_base_Bivariate_select_copula arity_bivariate_base_Bivariate_select_copula = [false].
Proof. ep. Qed.
Theorem C20_ep_bivariate_base_Bivariate_fit : explicit_verdict gen_table FUEL eff_bivariate_base_Bivariate_fit arity_bivariate_base_Bivariate_fit = [false].
Proof. ep. Qed.
Theorem C20_ep_bivariate_base_Bivariate_sample : explicit_verdict gen_table FUEL eff_bivariate_base_Bivariate_sample arity_bivariate_base_Bivariate_sample = [false].
Proof. ep. Qed.
Theorem C20_ep_bivariate_base_Bivariate_from_dict : explicit_verdict gen_table FUEL eff_bivariate_base_Bivariate_from_dict arity_bivariate_base_Bivariate_from_dict = [false].
Proof. ep. Qed.
Theorem C20_ep_bivariate_base_Bivariate_log_probability_density : explicit_verdict gen_table FUEL eff_bivariate_base_Bivariate_log_probability_density arity_bivariate_base_Bivariate_log_probability_density = [false].
Proof. ep. Qed.
Theorem C20_ep_bivariate_base_Bivariate_partial_derivative_scalar : explicit_verdict gen_table FUEL eff_bivariate_base_Bivariate_partial_derivative_scalar arity_bivariate_base_Bivariate_partial_derivative_scalar = [false; false].
Proof. ep. Qed.
Theorem C20_ep_bivariate_base_Bivariate_partial_derivative : explicit_verdict gen_table FUEL eff_bivariate_base_Bivariate_partial_derivative arity_bivariate_base_Bivariate_partial_derivative = [false].
Proof. ep. Qed.
Theorem C20_ep_bivariate_base_Bivariate_percent_point : explicit_verdict gen_table FUEL eff_bivariate_base_Bivariate_percent_point arity_bivariate_base_Bivariate_percent_point = [false; false].
Proof. ep. Qed.
Theorem C20_ep_bivariate_clayton_Clayton_probability_density : explicit_verdict gen_table FUEL eff_bivariate_clayton_Clayton_probability_density arity_bivariate_clayton_Clayton_probability_density = [false].
Proof. ep. Qed.
Theorem C20_ep_bivariate_clayton_Clayton_cumulative_distribution : explicit_verdict gen_table FUEL eff_bivariate_clayton_Clayton_cumulative_distribution arity_bivariate_clayton_Clayton_cumulative_distribution = [false].
Proof. ep. Qed.
Theorem C20_ep_bivariate_clayton_Clayton_partial_derivative : explicit_verdict gen_table FUEL eff_bivariate_clayton_Clayton_partial_derivative arity_bivariate_clayton_Clayton_partial_derivative = [false].
Proof. ep. Qed.
Theorem C20_ep_bivariate_clayton_Clayton_percent_point : explicit_verdict gen_table FUEL eff_bivariate_clayton_Clayton_percent_point arity_bivariate_clayton_Clayton_percent_point = [false; false].
Proof. ep. Qed.
Theorem C20_ep_bivariate_frank_Frank_probability_density : explicit_verdict gen_table FUEL eff_bivariate_frank_Frank_probability_density arity_bivariate_frank_Frank_probability_density = [false].
Proof. ep. Qed.
Theorem C20_ep_bivariate_frank_Frank_cumulative_distribution : explicit_verdict gen_table FUEL eff_bivariate_frank_Frank_cumulative_distribution arity_bivariate_frank_Frank_cumulative_distribution = [false].
Proof. ep. Qed.
Theorem C20_ep_bivariate_frank_Frank_partial_derivative : explicit_verdict gen_table FUEL eff_bivariate_frank_Frank_partial_derivative arity_bivariate_frank_Frank_partial_derivative = [false].
Proof. ep. Qed.
Theorem C20_ep_bivariate_frank_Frank_percent_point : explicit_verdict gen_table FUEL eff_bivariate_frank_Frank_percent_point arity_bivariate_frank_Frank_percent_point = [false; false].
Proof. ep. Qed.
Theorem C20_ep_bivariate_gumbel_Gumbel_probability_density : explicit_verdict gen_table FUEL eff_bivariate_gumbel_Gumbel_probability_density arity_bivariate_gumbel_Gumbel_probability_density = [false].
Proof. ep. Qed.
Theorem C20_ep_bivariate_gumbel_Gumbel_cumulative_distribution : explicit_verdict gen_table FUEL eff_bivariate_gumbel_Gumbel_cumulative_distribution arity_bivariate_gumbel_Gumbel_cumulative_distribution = [false].
Proof. ep. Qed.
Theorem C20_ep_bivariate_gumbel_Gumbel_partial_derivative : explicit_verdict gen_table FUEL eff_bivariate_gumbel_Gumbel_partial_derivative arity_bivariate_gumbel_Gumbel_partial_derivative = [false].
Proof. ep. Qed.
Theorem C20_ep_bivariate_gumbel_Gumbel_percent_point : explicit_verdict gen_table FUEL eff_bivariate_gumbel_Gumbel_percent_point arity_bivariate_gumbel_Gumbel_percent_point = [false; false].
Proof. ep. Qed.
Theorem C20_ep_bivariate_independence_Independence_probability_density : explicit_verdict gen_table FUEL eff_bivariate_independence_Independence_probability_density arity_bivariate_independence_Independence_probability_density = [false].
Proof. ep. Qed.
Theorem C20_ep_bivariate_independence_Independence_cumulative_distribution : explicit_verdict gen_table FUEL eff_bivariate_independence_Independence_cumulative_distribution arity_bivariate_independence_Independence_cumulative_distribution = [false].
Proof. ep. Qed.
Theorem C20_ep_bivariate_independence_Independence_partial_derivative : explicit_verdict gen_table FUEL eff_bivariate_independence_Independence_partial_derivative arity_bivariate_independence_Independence_partial_derivative = [false].
Proof. ep. Qed.
Theorem C20_ep_bivariate_independence_Independence_percent_point : explicit_verdict gen_table FUEL eff_bivariate_independence_Independence_percent_point arity_bivariate_independence_Independence_percent_point = [false; false].
Proof. ep. Qed.
Theorem C20_ep_univariate_base_Univariate_fit : explicit_verdict gen_table FUEL eff_univariate_base_Univariate_fit arity_univariate_base_Univariate_fit = [false].
Proof. ep. Qed.
Theorem C20_ep_univariate_base_Univariate_probability_density : explicit_verdict gen_table FUEL eff_univariate_base_Univariate_probability_density arity_univariate_base_Univariate_probability_density = [false].
Proof. ep. Qed.
Theorem C20_ep_univariate_base_Univariate_cumulative_distribution : explicit_verdict gen_table FUEL eff_univariate_base_Univariate_cumulative_distribution arity_univariate_base_Univariate_cumulative_distribution = [false].
Proof. ep. Qed.
Theorem C20_ep_univariate_base_Univariate_percent_point : explicit_verdict gen_table FUEL eff_univariate_base_Univariate_percent_point arity_univariate_base_Univariate_percent_point = [false].
Proof. ep. Qed.
Theorem C20_ep_univariate_base_Univariate_log_probability_density : explicit_verdict gen_table FUEL eff_univariate_base_Univariate_log_probability_density arity_univariate_base_Univariate_log_probability_density = [false].
Proof. ep. Qed.
Theorem C20_ep_univariate_base_Univariate_sample : explicit_verdict gen_table FUEL eff_univariate_base_Univariate_sample arity_univariate_base_Univariate_sample = [false].
Proof. ep. Qed.
Theorem C20_ep_univariate_base_Univariate_from_dict : explicit_verdict gen_table FUEL eff_univariate_base_Univariate_from_dict arity_univariate_base_Univariate_from_dict = [false].
Proof. ep. Qed.
Theorem C20_ep_univariate_base_ScipyModel_fit : explicit_verdict gen_table FUEL eff_univariate_base_ScipyModel_fit arity_univariate_base_ScipyModel_fit = [false].
Proof. ep. Qed.
Theorem C20_ep_univariate_base_ScipyModel_probability_density : explicit_verdict gen_table FUEL eff_univariate_base_ScipyModel_probability_density arity_univariate_base_ScipyModel_probability_density = [false].
Proof. ep. Qed.
Theorem C20_ep_univariate_base_ScipyModel_cumulative_distribution : explicit_verdict gen_table FUEL eff_univariate_base_ScipyModel_cumulative_distribution arity_univariate_base_ScipyModel_cumulative_distribution = [false].
Proof. ep. Qed.
Theorem C20_ep_univariate_base_ScipyModel_percent_point : explicit_verdict gen_table FUEL eff_univariate_base_ScipyModel_percent_point arity_univariate_base_ScipyModel_percent_point = [false].
Proof. ep. Qed.
Theorem C20_ep_univariate_base_ScipyModel_log_probability_density : explicit_verdict gen_table FUEL eff_univariate_base_ScipyModel_log_probability_density arity_univariate_base_ScipyModel_log_probability_density = [false].
Proof. ep. Qed.
Theorem C20_ep_univariate_base_ScipyModel__set_params : explicit_verdict gen_table FUEL eff_univariate_base_ScipyModel__set_params arity_univariate_base_ScipyModel__set_params = [false].
Proof. ep. Qed.
Theorem C20_ep_univariate_gaussian_kde_GaussianKDE_percent_point : explicit_verdict gen_table FUEL eff_univariate_gaussian_kde_GaussianKDE_percent_point arity_univariate_gaussian_kde_GaussianKDE_percent_point = [false; false].
Proof. ep. Qed.
Theorem C20_ep_univariate_gaussian_kde_GaussianKDE_cumulative_distribution : explicit_verdict gen_table FUEL eff_univariate_gaussian_kde_GaussianKDE_cumulative_distribution arity_univariate_gaussian_kde_GaussianKDE_cumulative_distribution = [false].
Proof. ep. Qed.
Theorem C20_ep_univariate_gaussian_kde_GaussianKDE_probability_density : explicit_verdict gen_table FUEL eff_univariate_gaussian_kde_GaussianKDE_probability_density arity_univariate_gaussian_kde_GaussianKDE_probability_density = [false].
Proof. ep. Qed.
Theorem C20_ep_univariate_gaussian_kde_GaussianKDE__fit : explicit_verdict gen_table FUEL eff_univariate_gaussian_kde_GaussianKDE__fit arity_univariate_gaussian_kde_GaussianKDE__fit = [false].
Proof. ep. Qed.
Theorem C20_ep_univariate_gaussian_kde_GaussianKDE__set_params : explicit_verdict gen_table FUEL eff_univariate_gaussian_kde_GaussianKDE__set_params arity_univariate_gaussian_kde_GaussianKDE__set_params = [false].
Proof. ep. Qed.
Theorem C20_ep_univariate_gaussian_GaussianUnivariate__fit : explicit_verdict gen_table FUEL eff_univariate_gaussian_GaussianUnivariate__fit arity_univariate_gaussian_GaussianUnivariate__fit = [false].
Proof. ep. Qed.
Theorem C20_ep_univariate_beta_BetaUnivariate__fit : explicit_verdict gen_table FUEL eff_univariate_beta_BetaUnivariate__fit arity_univariate_beta_BetaUnivariate__fit = [false].
Proof. ep. Qed.
Theorem C20_ep_univariate_gamma_GammaUnivariate__fit : explicit_verdict gen_table FUEL eff_univariate_gamma_GammaUnivariate__fit arity_univariate_gamma_GammaUnivariate__fit = [false].
Proof. ep. Qed.
Theorem C20_ep_univariate_log_laplace_LogLaplace__fit : explicit_verdict gen_table FUEL eff_univariate_log_laplace_LogLaplace__fit arity_univariate_log_laplace_LogLaplace__fit = [false].
Proof. ep. Qed.
Theorem C20_ep_univariate_student_t_StudentTUnivariate__fit : explicit_verdict gen_table FUEL eff_univariate_student_t_StudentTUnivariate__fit arity_univariate_student_t_StudentTUnivariate__fit = [false].
Proof. ep. Qed.
Theorem C20_ep_univariate_truncated_gaussian_TruncatedGaussian__fit : explicit_verdict gen_table FUEL eff_univariate_truncated_gaussian_TruncatedGaussian__fit arity_univariate_truncated_gaussian_TruncatedGaussian__fit = [false].
Proof. ep. Qed.
Theorem C20_ep_univariate_uniform_UniformUnivariate__fit : explicit_verdict gen_table FUEL eff_univariate_uniform_UniformUnivariate__fit arity_univariate_uniform_UniformUnivariate__fit = [false].
Proof. ep. Qed.
Theorem C20_ep_univariate_selection_select_univariate : explicit_verdict gen_table FUEL eff_univariate_selection_select_univariate arity_univariate_selection_select_univariate = [false; false].
Proof. ep. Qed.
Theorem C20_ep_utils_check_valid_values : explicit_verdict gen_table FUEL eff_utils_check_valid_values arity_utils_check_valid_values = [false].
Proof. ep. Qed.
Theorem C20_ep_utils_get_instance : explicit_verdict gen_table FUEL eff_utils_get_instance arity_utils_get_instance = [false].
Proof. ep. Qed.
Theorem C20_ep_datasets_sample_bivariate_age_income : explicit_verdict gen_table FUEL eff_datasets_sample_bivariate_age_income arity_datasets_sample_bivariate_age_income = [false; false].
Proof. ep. Qed.
Theorem C20_ep_datasets_sample_trivariate_xyz : explicit_verdict gen_table FUEL eff_datasets_sample_trivariate_xyz arity_datasets_sample_trivariate_xyz = [false; false].
Proof. ep. Qed.
Theorem C20_ep_datasets_sample_univariate_bernoulli : explicit_verdict gen_table FUEL eff_datasets_sample_univariate_bernoulli arity_datasets_sample_univariate_bernoulli = [false; false].
Proof. ep. Qed.
Theorem C20_ep_datasets_sample_univariate_bimodal : explicit_verdict gen_table FUEL eff_datasets_sample_univariate_bimodal arity_datasets_sample_univariate_bimodal = [false; false].
Proof. ep. Qed.
Theorem C20_ep_datasets_sample_univariate_uniform : explicit_verdict gen_table FUEL eff_datasets_sample_univariate_uniform arity_datasets_sample_univariate_uniform = [false; false].
Proof. ep. Qed.
Theorem C20_ep_datasets_sample_univariate_normal : explicit_verdict gen_table FUEL eff_datasets_sample_univariate_normal arity_datasets_sample_univariate_normal = [false; false].
Proof. ep. Qed.
Theorem C20_ep_datasets_sample_univariate_degenerate : explicit_verdict gen_table FUEL eff_datasets_sample_univariate_degenerate arity_datasets_sample_univariate_degenerate = [false; false].
Proof. ep. Qed.
Theorem C20_ep_datasets_sample_univariate_exponential : explicit_verdict gen_table FUEL eff_datasets_sample_univariate_exponential arity_datasets_sample_univariate_exponential = [false; false].
Proof. ep. Qed.
Theorem C20_ep_datasets_sample_univariate_beta : explicit_verdict gen_table FUEL eff_datasets_sample_univariate_beta arity_datasets_sample_univariate_beta = [false; false].
Proof. ep. Qed.
Theorem C20_ep_datasets_sample_univariates : explicit_verdict gen_table FUEL eff_datasets_sample_univariates arity_datasets_sample_univariates = [false; false].
Proof. ep. Qed.

(* ================================================================================================ *)
(* 3. History: defects found by this check and repaired in the source                                *)
(* ================================================================================================ *)
(* F16a (repaired: `xmin = np.array(xmin); xmax = np.array(xmax)`): bisect(f, xmin, xmax, tol, maxiter) used to overwrite
   both bracket arrays of its caller (verdict [false; true; true; false; false], theorem C20_bisect_refuted).
   F16b (repaired: `columns = list(columns) + ['Data']`): _generate_scatter_2d/3d_plot, scatter_2d/3d, compare_2d/3d used
   to append 'Data' to the caller's `columns` list (verdicts [false; true; ..], theorems C20_*_refuted); a second identical
   call then raised ValueError.  All seven are now in [pure_entries]; re-introducing `columns.append` on the parameter or
   dropping a copy flips a verdict and breaks C20_entrypoints_verdicts / the C20_ep_ statement of that function, and the
   dynamic check reports the regression under the same keys F16a:/F16b:. *)
(* the repaired functions still WORK on a list / on arrays -- on their own copies: the generated programs contain the
   copy followed by the writes *)
Theorem C20_bisect_writes_only_its_copies :
  existsb (fun i => match i with IWrite _ => true | _ => false end) (snd eff_optimize_bisect) = true /\
  existsb (fun i => match i with ICopy _ 1 => true | _ => false end) (snd eff_optimize_bisect) = true /\
  existsb (fun i => match i with ICopy _ 2 => true | _ => false end) (snd eff_optimize_bisect) = true.
Proof. repeat split; ep. Qed.

(* F3 (repaired in the source by `self.tau_matrix = np.array(tau_matrix)`): Tree.fit(index, n_nodes, tau_matrix,
   previous_tree, edges) used to write into the tau matrix it is handed (_sort_tau_by_y: tau_y = self.tau_matrix[:, y];
   tau_y[y] = nan   and   DirectTree: tau_matrix[:, [T1]] = -10).  With the defensive copy the matrix is untouched.
   The flag on `edges` is an over-approximation of the path-insensitive analysis (`self.edges = edges or []` followed by
   appends that only run when that list is empty, i.e. when it is the fresh []); the dynamic check observes no write. *)
Theorem C20_tree_fit :
  explicit_verdict gen_table FUEL eff_multivariate_tree_Tree_fit arity_multivariate_tree_Tree_fit = [false; false; false; false; true].
Proof. ep. Qed.
Theorem C20_tree_fit_args_unchanged :
  forall (o : oracle) fe (actuals : store), 5 <= length actuals ->
    firstn 4 (snd (exec_fun o gen_table fe eff_multivariate_tree_Tree_fit actuals)) = firstn 4 actuals.
Proof. intros o fe actuals H. apply (exec_fun_pure_prefix gen_table FUEL fe _ o actuals 4); side. Qed.
(* the helpers still write through self.tau_matrix (first implicit parameter of each) -- which is now Tree.fit's own copy;
   removing the copy in Tree.fit re-connects these writes to the caller's matrix and breaks C20_tree_fit *)
Theorem C20_sort_tau_by_y_writes_tau_matrix :
  writes_fun gen_table FUEL eff_multivariate_tree_Tree__sort_tau_by_y = [false; true].
Proof. ep. Qed.
Theorem C20_direct_first_tree_writes_tau_matrix :
  nth 0 (writes_fun gen_table FUEL eff_multivariate_tree_DirectTree__build_first_tree) false = true.
Proof. ep. Qed.
Theorem C20_center_first_tree_writes_tau_matrix :
  nth 0 (writes_fun gen_table FUEL eff_multivariate_tree_CenterTree__build_first_tree) false = true.
Proof. ep. Qed.
Theorem C20_regular_first_tree_keeps_tau_matrix :
  nth 0 (writes_fun gen_table FUEL eff_multivariate_tree_RegularTree__build_first_tree) true = false.
Proof. ep. Qed.
(* the writes of the helpers are real in the model: running _sort_tau_by_y changes the matrix self.tau_matrix points to *)
Theorem C20_sort_tau_by_y_runs :
  content (snd (exec_fun all_view gen_table FUEL eff_multivariate_tree_Tree__sort_tau_by_y (unit_store 2))) 1 <> content (unit_store 2) 1.
Proof. apply mutated_true; ep. Qed.
(* VineCopula.fit(X) never writes X, and train_vine no longer writes the model's own tau matrix (parameter 1 = self.tau_mat,
   which is X.corr().to_numpy(): read-only under pandas 3, so the write used to raise for centre and direct vines) *)
Theorem C20_train_vine_keeps_tau_mat :
  firstn 2 (writes_fun gen_table FUEL eff_multivariate_vine_VineCopula_train_vine) = [false; false].
Proof. ep. Qed.

(* the call graph of the generated table is within the analysis fuel: with less fuel nothing changes *)
Theorem C20_fuel_sufficient :
  map (fun e => callsum gen_table FUEL (snd (fst e))) gen_entries = map (fun e => callsum gen_table 12 (snd (fst e))) gen_entries.
Proof. vm_compute. reflexivity. Qed.

(* ================================================================================================ *)
(* 4. Plots show exactly the data                                                                    *)
(* ================================================================================================ *)
Theorem C20_plot_rows :
  forall k t real synth columns cols' fig,
    compare_nd k t real synth columns = (cols', inr fig) ->
    let axes := requested_axes k (compare_data real synth) columns in
    length axes = k /\
    (columns <> [] -> axes = columns) /\
    Permutation (fig_points fig)
                (tagged_points axes Real real ++ tagged_points axes Synthetic synth).
Proof. exact plot_rows_multiset_nd. Qed.

Theorem C20_plot_rows_count :
  forall k t real synth columns cols' fig,
    compare_nd k t real synth columns = (cols', inr fig) ->
    let axes := requested_axes k (compare_data real synth) columns in
    forall pt, count_occ tp_eq_dec (fig_points fig) pt =
               count_occ tp_eq_dec (tagged_points axes Real real) pt +
               count_occ tp_eq_dec (tagged_points axes Synthetic synth) pt.
Proof. exact plot_rows_count_occ. Qed.

Theorem C20_scatter_rows :
  forall k t data columns cols' fig,
    scatter_nd k t data columns = (cols', inr fig) ->
    let axes := requested_axes k (set_label Real data) columns in
    length axes = k /\
    (columns <> [] -> axes = columns) /\
    Permutation (fig_points fig) (tagged_points axes Real data) /\
    fig = match frows data with
          | [] => []
          | _ => [(Real, map fst (tagged_points axes Real data))]
          end.
Proof. exact scatter_rows_multiset_nd. Qed.

(* F16b repaired, in the plot model: the caller's `columns` list always comes back as given (figure or error), and a
   second identical call with the same list object gives the same figure *)
Theorem C20_columns_untouched :
  forall k t data columns, fst (plot_nd k t data columns) = columns.
Proof. exact columns_untouched. Qed.
Theorem C20_second_call_same :
  forall k t data columns cols' fig,
    plot_nd k t data columns = (cols', inr fig) ->
    cols' = columns /\ plot_nd k t data cols' = (cols', inr fig).
Proof. exact second_call_same_figure. Qed.
Theorem C20_columns_none_untouched :
  forall k t data, fst (plot_nd k t data []) = [].
Proof. exact columns_none_untouched. Qed.

(* ================================================================================================ *)
(* 5. Non-vacuity                                                                                    *)
(* ================================================================================================ *)
(* the all-clear theorem applies to a real entry point and says something about a concrete run *)
Example C20_nonvacuous_vine_fit :
  firstn 2 (snd (exec_fun all_view gen_table FUEL eff_multivariate_vine_VineCopula_fit (unit_store 2))) = unit_store 2.
Proof.
  apply (C20_entrypoints eff_multivariate_vine_VineCopula_fit 2); [|rewrite unit_store_length; lia].
  unfold pure_entries. repeat (try (left; reflexivity); right).
Qed.
(* ... while the generated programs are not trivial: see the refutations of section 3, which RUN them *)
(* effect model and plot model agree on the mutated list *)
Example C20_models_agree_on_columns :
  nth 1 (explicit_verdict gen_table FUEL eff_visualization_scatter_2d 3) true = false /\
  fst (scatter_2d false fr_real [1; 2]) = [1; 2].
Proof. split; vm_compute; reflexivity. Qed.
Example C20_plot_nonvacuous :
  exists cols' fig, compare_2d false fr_real fr_synth [1; 2] = (cols', inr fig) /\
    Permutation (fig_points fig) (tagged_points [1; 2] Real fr_real ++ tagged_points [1; 2] Synthetic fr_synth).
Proof. exact plot_rows_multiset_nonvacuous. Qed.

Print Assumptions C20_analysis_sound.
Print Assumptions C20_args_unchanged.
Print Assumptions C20_entrypoints.
Print Assumptions C20_tree_fit_args_unchanged.
Print Assumptions C20_plot_rows.
Print Assumptions C20_second_call_same.

(* BEGIN-BRIDGE  (this section is self-contained: when an earlier statement of this file fails, props/C20.py re-checks it on its own) *)
(* ================================================================================================ *)
(* 6. The plot model IS the source: generated pipeline = Model.Plot, for all inputs                  *)
(* ================================================================================================ *)
(* CopRun.Gen_plot holds one Gallina definition per function of copulas/visualization.py's scatter pipeline, built from the
   Python AST by tools/vf/plotgen.py on every run.  A generated function takes the caller's objects (frames: [DF f] = as given,
   [LDF t] = labelled; `columns`: None or a list; title: None or a string) and returns
       (the caller's frame(s) AFTER the call, the caller's `columns` AFTER the call, inl exception | inr figure).
   Each theorem: for ALL frames, column lists (None, [], any list) and titles (None, '', any string) the generated function
   returns the caller's objects UNCHANGED and the outcome of the hand-written model ([lift_outcome]: ErrIndex = the builtin
   IndexError, ErrColumnCount = the ValueError of the `raise` statement, ErrNoSuchColumn = the ValueError of plotly; or the
   list of traces), and the model's own account of the caller's list ([fst]) is that list.
   A source change that alters the pipeline (label, column name, concat order, a dropped copy, an in-place append, the length
   constant, the axes) changes the generated term and the theorem no longer holds; a shape outside the fragment fails the
   translation. *)
Ltac px_cases :=
  unfold px_scatter_2d, px_scatter_3d; cbn [firstn];
  match goal with |- context [px_scatter_df ?d ?a ?c] => destruct (px_scatter_df d a c) end; reflexivity.

(* the body of a generator after the `if columns:` statement, on the list [cols] it indexes *)
Ltac generator_tail k cols :=
  cbv zeta; unfold py_len;
  destruct (Nat.eqb (length cols) (S k)) eqn:E; cbn [negb];
  [ apply Nat.eqb_eq in E | reflexivity ].

Theorem C20_bridge_generate_scatter_2d :
  forall (data : tframe) (columns : pycols) (cdm : pyopaque) (title : pytitle),
    gen__generate_scatter_2d_plot (LDF data) columns cdm title =
      (LDF data, columns, lift_outcome (snd (generate_scatter 2 data (cols_arg columns)))) /\
    fst (generate_scatter 2 data (cols_arg columns)) = cols_arg columns.
Proof.
  intros data columns cdm title. split; [|apply generate_scatter_fst].
  rewrite generate_scatter_px. unfold gen__generate_scatter_2d_plot.
  rewrite py_truthy_cols_arg. unfold py_list_add, py_list_new.
  destruct columns as [[|c0 cs]|]; cbn [cols_arg py_truthy_list py_as_list scatter_cols df_columns py_list_add py_list_new].
  - generator_tail 2 (tcols data). apply list_len3 in E. destruct E as (x & y & z & ->). cbn. px_cases.
  - generator_tail 2 ((c0 :: cs) ++ [data_col]). apply list_len3 in E. destruct E as (x & y & z & ->). cbn. px_cases.
  - generator_tail 2 (tcols data). apply list_len3 in E. destruct E as (x & y & z & ->). cbn. px_cases.
Qed.
Print Assumptions C20_bridge_generate_scatter_2d.

Theorem C20_bridge_generate_scatter_3d :
  forall (data : tframe) (columns : pycols) (cdm : pyopaque) (title : pytitle),
    gen__generate_scatter_3d_plot (LDF data) columns cdm title =
      (LDF data, columns, lift_outcome (snd (generate_scatter 3 data (cols_arg columns)))) /\
    fst (generate_scatter 3 data (cols_arg columns)) = cols_arg columns.
Proof.
  intros data columns cdm title. split; [|apply generate_scatter_fst].
  rewrite generate_scatter_px. unfold gen__generate_scatter_3d_plot.
  rewrite py_truthy_cols_arg. unfold py_list_add, py_list_new.
  destruct columns as [[|c0 cs]|]; cbn [cols_arg py_truthy_list py_as_list scatter_cols df_columns].
  - generator_tail 3 (tcols data). apply list_len4 in E. destruct E as (x & y & z & w & ->). cbn. px_cases.
  - generator_tail 3 ((c0 :: cs) ++ [data_col]). apply list_len4 in E. destruct E as (x & y & z & w & ->). cbn. px_cases.
  - generator_tail 3 (tcols data). apply list_len4 in E. destruct E as (x & y & z & w & ->). cbn. px_cases.
Qed.
Print Assumptions C20_bridge_generate_scatter_3d.

(* the callers: copy + label (+ concat), the default-title code, the call of the generator *)
Arguments gen__generate_scatter_2d_plot : simpl never.
Arguments gen__generate_scatter_3d_plot : simpl never.

(* after the case analysis the subscripts have been evaluated: the call of the generator is rewritten with its bridge theorem, the
   outcome is passed through unchanged *)
Ltac through_generator gen_bridge :=
  cbn; rewrite ?(fun d cc oo tt0 => proj1 (gen_bridge d cc oo tt0)); cbv beta iota; cbn [cols_arg];
  try match goal with |- context [lift_outcome ?r] => destruct (lift_outcome r) end; reflexivity.

Ltac caller_head :=
  rewrite plot_nd_outcome; cbv beta iota;
  match goal with |- context [generate_scatter _ ?d0 _] => let d' := fresh "d" in generalize d0; intros d' end;
  unfold py_isinstance_DataFrame, df_columns;
  match goal with |- context [py_truthy_title ?t] => destruct (py_truthy_title t) end; cbn [negb orb].

Ltac case_cols2 := match goal with |- context [tcols ?d] => destruct (tcols d) as [|?x [|?y ?l]] end.
Ltac case_cols3 := match goal with |- context [tcols ?d] => destruct (tcols d) as [|?x [|?y [|?z ?l]]] end.

Theorem C20_bridge_scatter_2d :
  forall (data : frame) (columns : pycols) (title : pytitle),
    gen_scatter_2d (DF data) columns title =
      (DF data, columns, lift_outcome (snd (scatter_2d (py_truthy_title title) data (cols_arg columns)))) /\
    fst (scatter_2d (py_truthy_title title) data (cols_arg columns)) = cols_arg columns.
Proof.
  intros data columns title. split; [|apply plot_nd_fst].
  unfold scatter_2d, scatter_nd, gen_scatter_2d. cbv zeta. rewrite df_setitem_copy_frame.
  caller_head; [through_generator C20_bridge_generate_scatter_2d|].
  destruct columns as [[|a [|b l]]|]; cbn; try case_cols2; through_generator C20_bridge_generate_scatter_2d.
Qed.
Print Assumptions C20_bridge_scatter_2d.

Theorem C20_bridge_scatter_3d :
  forall (data : frame) (columns : pycols) (title : pytitle),
    gen_scatter_3d (DF data) columns title =
      (DF data, columns, lift_outcome (snd (scatter_3d (py_truthy_title title) data (cols_arg columns)))) /\
    fst (scatter_3d (py_truthy_title title) data (cols_arg columns)) = cols_arg columns.
Proof.
  intros data columns title. split; [|apply plot_nd_fst].
  unfold scatter_3d, scatter_nd, gen_scatter_3d. cbv zeta. rewrite df_setitem_copy_frame.
  caller_head; [through_generator C20_bridge_generate_scatter_3d|].
  destruct columns as [[|a [|b [|c l]]]|]; cbn; try case_cols3; through_generator C20_bridge_generate_scatter_3d.
Qed.
Print Assumptions C20_bridge_scatter_3d.

Theorem C20_bridge_compare_2d :
  forall (real synth : frame) (columns : pycols) (title : pytitle),
    gen_compare_2d (DF real) (DF synth) columns title =
      (DF real, DF synth, columns, lift_outcome (snd (compare_2d (py_truthy_title title) real synth (cols_arg columns)))) /\
    fst (compare_2d (py_truthy_title title) real synth (cols_arg columns)) = cols_arg columns.
Proof.
  intros real synth columns title. split; [|apply plot_nd_fst].
  unfold compare_2d, compare_nd, gen_compare_2d. cbv zeta. rewrite !df_setitem_copy_frame. cbv beta iota.
  rewrite pd_concat_two.
  caller_head; [through_generator C20_bridge_generate_scatter_2d|].
  destruct columns as [[|a [|b l]]|]; cbn; try case_cols2; through_generator C20_bridge_generate_scatter_2d.
Qed.
Print Assumptions C20_bridge_compare_2d.

Theorem C20_bridge_compare_3d :
  forall (real synth : frame) (columns : pycols) (title : pytitle),
    gen_compare_3d (DF real) (DF synth) columns title =
      (DF real, DF synth, columns, lift_outcome (snd (compare_3d (py_truthy_title title) real synth (cols_arg columns)))) /\
    fst (compare_3d (py_truthy_title title) real synth (cols_arg columns)) = cols_arg columns.
Proof.
  intros real synth columns title. split; [|apply plot_nd_fst].
  unfold compare_3d, compare_nd, gen_compare_3d. cbv zeta. rewrite !df_setitem_copy_frame. cbv beta iota.
  rewrite pd_concat_two.
  caller_head; [through_generator C20_bridge_generate_scatter_3d|].
  destruct columns as [[|a [|b [|c l]]]|]; cbn; try case_cols3; through_generator C20_bridge_generate_scatter_3d.
Qed.
Print Assumptions C20_bridge_compare_3d.

(* the generated functions compute (a run of the real library gives the same traces / exception classes) *)
Example C20_bridge_nonvacuous :
  gen_compare_2d (DF fr_real) (DF fr_synth) (Some [1; 2]) None =
    (DF fr_real, DF fr_synth, Some [1; 2],
     inr [(Real, [[VNum 1; VNum 5]; [VNum 2; VNum 6]]); (Synthetic, [[VNaN; VNum 1]; [VNaN; VNum 2]])]) /\
  snd (gen_scatter_2d (DF fr_real) (Some [1]) None) = inl (PyBuiltin IndexError) /\
  snd (gen_scatter_2d (DF fr_real) (Some [1]) (Some [84])) = inl (PyRaise ValueError) /\
  snd (gen_compare_2d (DF fr_real) (DF fr_synth) (Some [1; 9]) None) = inl (PxError ValueError) /\
  snd (gen_scatter_3d (DF fr_real) (Some [1; 2; 1]) None) = inr [(Real, [[VNum 1; VNum 5; VNum 1]; [VNum 2; VNum 6; VNum 2]])].
Proof. vm_compute. repeat split; reflexivity. Qed.
