(* C08 — percent_point inverts the conditional CDF of every bivariate copula.
   Statements are about the model generated from /repo's current source.  The Brent solver is
   scipy's: it is a Section variable with an explicit hypothesis (idealised: it returns an exact
   root inside a valid bracket); that hypothesis is part of the trusted base. *)
From Coq Require Import Reals List Bool Lra Psatz.
From Coquelicot Require Import Coquelicot.
From Cop Require Import Lib.NumpyR Lib.RealLemmas Spec.ArchDefs.
From Cop Require Spec.Clayton Spec.Frank Spec.Gumbel Spec.ArchExtras.
From CopRun Require Import Gen_biv Bridge_biv.
Import ListNotations.
Open Scope R_scope.

Notation CH := clayton_partial_derivative.
Notation FH := frank_partial_derivative.
Notation GH := gumbel_partial_derivative.

(* ================= Clayton: closed-form inverse ================= *)
Theorem C08_clayton_inverse th y v : 0 < th -> 0 < y < 1 -> 0 < v < 1 ->
  let u := clayton_percent_point th y v in 0 < u < 1 /\ CH th u v = y.
Proof.
  intros Hth Hy Hv. cbv zeta. rewrite bridge_clayton_ppf by assumption.
  pose proof (Clayton.clayton_ppf_range th y v Hth Hy Hv) as Hr. split; [exact Hr|].
  rewrite bridge_clayton_h by lra. apply Clayton.clayton_ppf_inverse; assumption.
Qed.
Theorem C08_clayton_monotone_in_y th y1 y2 v : 0 < th -> 0 < y1 -> y1 <= y2 -> y2 < 1 -> 0 < v < 1 ->
  clayton_percent_point th y1 v <= clayton_percent_point th y2 v.
Proof.
  intros. rewrite !bridge_clayton_ppf by lra. apply Clayton.clayton_ppf_mono; assumption.
Qed.
Theorem C08_clayton_rowwise th X : 0 < th ->
  (forall p, In p X -> 0 < snd p) ->
  clayton_percent_point_batch th X = map (fun p => clayton_percent_point th (fst p) (snd p)) X.
Proof.
  intros Hth Hpos. unfold clayton_percent_point_batch, clayton_percent_point. cbv zeta.
  rewrite (proj2 (Rltb_false th 0)) by lra.
  match goal with |- (if ?c then _ else _) = _ => destruct c eqn:E end; [|reflexivity].
  (* the (b == 0).all() shortcut cannot fire: v ** theta > 0 for v > 0 *)
  destruct X as [|p X']; [reflexivity|]. exfalso.
  simpl in E. apply andb_true_iff in E. destruct E as [E _].
  apply Reqb_true in E. rewrite np_power_pos in E by (apply Hpos; left; reflexivity).
  pose proof (exp_pos (th * ln (snd p))). unfold Rpower in E. lra.
Qed.

(* ================= uniqueness of the root (all families) ================= *)
Theorem C08_root_unique :
  (forall th x1 x2 v, 0 < th -> 0 < x1 <= 1 -> 0 < x2 <= 1 -> 0 < v <= 1 -> CH th x1 v = CH th x2 v -> x1 = x2) /\
  (forall th x1 x2 v, th <> 0 -> 0 <= x1 <= 1 -> 0 <= x2 <= 1 -> 0 <= v <= 1 -> FH th x1 v = FH th x2 v -> x1 = x2) /\
  (forall th x1 x2 v, 1 < th -> 0 < x1 < 1 -> 0 < x2 < 1 -> 0 < v < 1 -> GH th x1 v = GH th x2 v -> x1 = x2).
Proof.
  split; [|split].
  - intros th x1 x2 v Hth H1 H2 Hv E. rewrite !bridge_clayton_h in E by lra.
    destruct (Rtotal_order x1 x2) as [L|[L|L]]; [|exact L|].
    + pose proof (Clayton.clayton_h_strict th x1 x2 v Hth ltac:(lra) L ltac:(lra) Hv). lra.
    + pose proof (Clayton.clayton_h_strict th x2 x1 v Hth ltac:(lra) L ltac:(lra) Hv). lra.
  - intros th x1 x2 v Hth H1 H2 Hv E. rewrite !bridge_frank_h in E by assumption.
    destruct (Rtotal_order x1 x2) as [L|[L|L]]; [|exact L|].
    + pose proof (Frank.frank_h_strict th x1 x2 v Hth ltac:(lra) L ltac:(lra) Hv). lra.
    + pose proof (Frank.frank_h_strict th x2 x1 v Hth ltac:(lra) L ltac:(lra) Hv). lra.
  - intros th x1 x2 v Hth H1 H2 Hv E. rewrite !bridge_gumbel_h in E by assumption.
    destruct (Rtotal_order x1 x2) as [L|[L|L]]; [|exact L|].
    + pose proof (Gumbel.gumbel_h_strict th x1 x2 v Hth ltac:(lra) L ltac:(lra) Hv). lra.
    + pose proof (Gumbel.gumbel_h_strict th x2 x1 v Hth ltac:(lra) L ltac:(lra) Hv). lra.
Qed.

(* ================= the generated Brent loop ================= *)
Theorem C08_bracket_is_eps_one : bivariate_ppf_lo = EPSILON /\ bivariate_ppf_hi = 1.
Proof. split; reflexivity. Qed.
Theorem C08_objective (h : R -> R -> R) y v x : bivariate_ppf_objective h y v x = h x v - y.
Proof. reflexivity. Qed.

Section Solver.
Variable brentq : (R -> R) -> R -> R -> R.
(* idealised contract of a bracketing solver: inside a bracket with a sign change it returns an
   exact zero inside the bracket (scipy: within xtol = 2e-12; the gap is in the trusted base) *)
Hypothesis brentq_root : forall f lo hi, lo <= hi -> f lo <= 0 -> 0 <= f hi ->
  lo <= brentq f lo hi <= hi /\ f (brentq f lo hi) = 0.

Lemma EPS_pos : 0 < EPSILON < 1.
Proof. unfold EPSILON. assert (0 < / 8388608) by (apply Rinv_0_lt_compat; lra). split; [assumption|]. assert (/ 8388608 * 8388608 = 1) by (field). nra. Qed.

(* upper end of the bracket is always valid: h(1,v) = 1 >= y *)
Theorem C08_frank_upper_bracket th y v : th <> 0 -> 0 <= v <= 1 -> y <= 1 ->
  0 <= bivariate_ppf_objective (FH th) y v bivariate_ppf_hi.
Proof.
  intros Hth Hv Hy. unfold bivariate_ppf_objective, bivariate_ppf_hi.
  rewrite bridge_frank_h by assumption. rewrite Frank.frank_h_one by assumption. lra.
Qed.

Theorem C08_frank_inverse th y v : th <> 0 -> 0 <= v <= 1 -> FH th EPSILON v <= y -> y <= 1 ->
  let u := frank_percent_point th brentq y v in EPSILON <= u <= 1 /\ FH th u v = y.
Proof.
  intros Hth Hv Hlo Hy. cbv zeta. unfold frank_percent_point.
  rewrite (proj2 (Reqb_false th 0)) by assumption.
  unfold bivariate_percent_point.
  destruct (brentq_root (bivariate_ppf_objective (FH th) y v) bivariate_ppf_lo bivariate_ppf_hi) as [Hin Hz].
  - unfold bivariate_ppf_lo, bivariate_ppf_hi. pose proof EPS_pos. lra.
  - unfold bivariate_ppf_objective, bivariate_ppf_lo. lra.
  - apply C08_frank_upper_bracket; assumption.
  - split; [exact Hin|]. unfold bivariate_ppf_objective in *. lra.
Qed.

Theorem C08_gumbel_inverse th y v : 1 < th -> 0 < v < 1 -> GH th EPSILON v <= y -> y <= GH th 1 v ->
  let u := gumbel_percent_point th brentq y v in EPSILON <= u <= 1 /\ GH th u v = y.
Proof.
  intros Hth Hv Hlo Hhi. cbv zeta. unfold gumbel_percent_point.
  rewrite (proj2 (Reqb_false th 1)) by lra.
  unfold bivariate_percent_point.
  destruct (brentq_root (bivariate_ppf_objective (GH th) y v) bivariate_ppf_lo bivariate_ppf_hi) as [Hin Hz].
  - unfold bivariate_ppf_lo, bivariate_ppf_hi. pose proof EPS_pos. lra.
  - unfold bivariate_ppf_objective, bivariate_ppf_lo. lra.
  - unfold bivariate_ppf_objective, bivariate_ppf_hi. lra.
  - split; [exact Hin|]. unfold bivariate_ppf_objective in *. lra.
Qed.

(* Frank: on the whole stated box (|theta| <= 18.2, v in [0,1], y in [1e-4, 1]) the bracket is valid,
   so the inverse theorem holds without the side condition *)
Theorem C08_frank_inverse_on_box th y v : th <> 0 -> -182/10 <= th <= 182/10 -> 0 <= v <= 1 -> 1/10000 <= y <= 1 ->
  let u := frank_percent_point th brentq y v in EPSILON <= u <= 1 /\ FH th u v = y.
Proof.
  intros Hth Hb Hv Hy. apply C08_frank_inverse; try assumption; try lra.
  rewrite bridge_frank_h by assumption.
  pose proof (ArchExtras.frank_h_eps_small th v Hth Hb Hv). lra.
Qed.

(* monotone in y: two exact roots of a strictly increasing h are ordered like their targets *)
Theorem C08_frank_monotone_in_y th y1 y2 v : th <> 0 -> 0 <= v <= 1 ->
  FH th EPSILON v <= y1 -> y1 <= y2 -> y2 <= 1 ->
  frank_percent_point th brentq y1 v <= frank_percent_point th brentq y2 v.
Proof.
  intros Hth Hv H1 H12 H2.
  destruct (C08_frank_inverse th y1 v Hth Hv H1 ltac:(lra)) as [I1 E1].
  destruct (C08_frank_inverse th y2 v Hth Hv ltac:(lra) H2) as [I2 E2].
  set (u1 := frank_percent_point th brentq y1 v) in *. set (u2 := frank_percent_point th brentq y2 v) in *.
  destruct (Rle_dec u1 u2) as [L|L]; [exact L|]. exfalso.
  pose proof EPS_pos.
  assert (FH th u2 v < FH th u1 v).
  { rewrite !bridge_frank_h by assumption. apply Frank.frank_h_strict; try assumption; lra. }
  lra.
Qed.

(* element-wise: output i depends only on (y[i], V[i]); one output per zipped pair *)
Theorem C08_elementwise (h : R -> R -> R) X :
  bivariate_percent_point_batch h brentq X = map (fun p => bivariate_percent_point h brentq (fst p) (snd p)) X /\
  length (bivariate_percent_point_batch h brentq X) = length X.
Proof. split; [reflexivity|]. unfold bivariate_percent_point_batch. apply map_length. Qed.

Theorem C08_shortcuts y v : gumbel_percent_point 1 brentq y v = y /\ frank_percent_point 0 brentq y v = v.
Proof.
  split.
  - unfold gumbel_percent_point. rewrite (proj2 (Reqb_true 1 1)) by reflexivity. reflexivity.
  - unfold frank_percent_point. rewrite (proj2 (Reqb_true 0 0)) by reflexivity. reflexivity.
Qed.
End Solver.

(* Gumbel: the same bracket claim is FALSE in a corner of the stated box (known finding F17) *)
Theorem C08_gumbel_bracket_refuted :
  exists th v y, 1 < th <= 5 /\ 1/10000 <= v <= 1 - 1/10000 /\ 1/10000 <= y <= 1 - 1/10000 /\ y < GH th EPSILON v.
Proof.
  destruct ArchExtras.gumbel_bracket_refuted as (th & v & y & Hth & Hv & Hy & H).
  exists th, v, y. repeat split; try lra.
  rewrite bridge_gumbel_h; [exact H | lra | | lra].
  unfold EPSILON. split; [apply Rinv_0_lt_compat; lra|].
  assert (/ 8388608 * 8388608 = 1) by field. assert (0 < / 8388608) by (apply Rinv_0_lt_compat; lra). nra.
Qed.
(* ... and it is valid whenever y >= EPSILON / v *)
Theorem C08_gumbel_bracket_partial th v y : 1 < th -> 0 < v < 1 -> EPSILON / v <= y -> GH th EPSILON v <= y.
Proof.
  intros Hth Hv Hy.
  assert (HE : 0 < EPSILON < 1).
  { unfold EPSILON. split; [apply Rinv_0_lt_compat; lra|].
    assert (/ 8388608 * 8388608 = 1) by field. assert (0 < / 8388608) by (apply Rinv_0_lt_compat; lra). nra. }
  rewrite bridge_gumbel_h by assumption.
  pose proof (ArchExtras.gumbel_bracket_partial th v Hth Hv). lra.
Qed.

Example C08_nonvacuous : 0 < 2 /\ 0 < 3/10 < 1 /\ 0 < 1/2 < 1.
Proof. lra. Qed.

Print Assumptions C08_clayton_inverse.
Print Assumptions C08_clayton_monotone_in_y.
Print Assumptions C08_root_unique.
Print Assumptions C08_frank_inverse.
Print Assumptions C08_gumbel_inverse.
Print Assumptions C08_frank_monotone_in_y.
Print Assumptions C08_elementwise.
Print Assumptions C08_frank_inverse_on_box.
Print Assumptions C08_gumbel_bracket_refuted.
