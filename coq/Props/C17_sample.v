(* C17, the OUTER part of the row sampler GENERATED from the AST: bridge theorems.

   Gen_vinesample.v (tools/vf/vinesamplegen.py, regenerated on every run from copulas/multivariate/vine.py and tree.py; the
   Python / numpy / pandas operations are denoted by coq/Lib/PyVineSample.v and Lib/PyCols.v) holds

     Tree.get_adjacent_matrix   -> gen_Tree_get_adjacent_matrix
     VineCopula._sample_row     -> gen_sample_row_step (one iteration of `while explore:`), gen_VineCopula__sample_row
                                   (the level loop inside is the fold of gen_sample_level_step of Gen_vinedata.v, which calls
                                    gen_sample_find_edge: with C17_data.v the WHOLE of _sample_row is generated)
     VineCopula.sample          -> gen_VineCopula_sample

   Each is proved EQUAL, for all inputs that satisfy the side conditions written in the statements, to the hand-written
   definitions of Model/VineData.v the sampler theorems (Spec.VineSampleProofs, Spec.VineSampleR) are about: [nbrs1],
   [sample_loop] / [sample_trace] / [sample_row], [sample_rows].  This file is copied into the build directory and compiled on
   every run against the freshly generated files, after C17_data.v. *)
From Coq Require Import List Arith Bool Lia.
From Cop Require Import Lib.FinGraph Model.Vine Model.VineData Spec.VineDefs Spec.VineSampleProofs
     Lib.PySet Lib.PyCols Lib.PyVineSample.
From CopRun Require Import Gen_vinekernel Gen_vinedata C17_data Gen_vinesample.
Import ListNotations.
Open Scope nat_scope.

(* ================================================================== *)
(** * 1. Tree.get_adjacent_matrix                                      *)
(* every edge of the tree joins two of the len(edges) + 1 nodes (otherwise the assignment `adj[L, R] = 1` is an IndexError) *)
Definition adj_ok (T : list edge) : Prop :=
  forall e, In e T -> e_L e < S (length T) /\ e_R e < S (length T).

(* the cells written, most recent first: for every edge in order, [L, R] then [R, L] *)
Definition adj_step (cells : list (nat * nat * nat)) (e : edge) : list (nat * nat * nat) :=
  (e_R e, e_L e, 1) :: (e_L e, e_R e, 1) :: cells.
Definition adj_cells_of (T : list edge) : list (nat * nat * nat) := fold_left adj_step T [].
Definition adj_of (T : list edge) : pyadj := mkAdj (S (length T)) (S (length T)) (adj_cells_of T).

Definition edge_joins (r c : nat) (e : edge) : bool :=
  ((e_L e =? r) && (e_R e =? c)) || ((e_R e =? r) && (e_L e =? c)).

Lemma adj_loop (n : nat) (rest done : list edge) (cells : list (nat * nat * nat)) (body : nat -> pyadj -> option pyadj) :
  (forall e, In e rest -> e_L e < n /\ e_R e < n) ->
  (forall k a e, nth_error (done ++ rest) k = Some e ->
     body k a = match py_adj_set a (e_L e) (e_R e) 1 with
                | Some a1 => py_adj_set a1 (e_R e) (e_L e) 1
                | None => None
                end) ->
  py_fold_opt body (seq (length done) (length rest)) (mkAdj n n cells)
  = Some (mkAdj n n (fold_left adj_step rest cells)).
Proof.
  revert done cells. induction rest as [|e rest IH]; intros done cells Hr Hb; [reflexivity|].
  cbn [length seq py_fold_opt fold_left].
  assert (He : nth_error (done ++ e :: rest) (length done) = Some e).
  { rewrite nth_error_app2 by lia. rewrite Nat.sub_diag. reflexivity. }
  rewrite (Hb _ _ _ He).
  destruct (Hr e (or_introl eq_refl)) as [HL HR].
  unfold py_adj_set. cbn [adj_rows adj_cols adj_cells].
  rewrite (proj2 (Nat.ltb_lt _ _) HL), (proj2 (Nat.ltb_lt _ _) HR). cbn [andb adj_rows adj_cols adj_cells].
  rewrite (proj2 (Nat.ltb_lt _ _) HL), (proj2 (Nat.ltb_lt _ _) HR). cbn [andb].
  specialize (IH (done ++ [e]) (adj_step cells e)).
  rewrite app_length in IH. cbn [length] in IH. rewrite Nat.add_1_r in IH.
  apply IH.
  - intros x Hx. apply Hr. right. exact Hx.
  - intros k a x Hk. apply Hb. rewrite <- app_assoc in Hk. exact Hk.
Qed.

(* the generated function: len(edges) + 1 rows and columns, the cells written are those of the edges, in order *)
Theorem C17_bridge_get_adjacent_matrix :
  forall T : list edge, adj_ok T -> gen_Tree_get_adjacent_matrix T = Some (adj_of T).
Proof.
  intros T Hok. unfold gen_Tree_get_adjacent_matrix, py_for_range, py_np_zeros2. cbv zeta.
  replace (length T + 1 - 1) with (length T) by lia. rewrite Nat.add_1_r.
  rewrite (adj_loop (S (length T)) T [] []); [reflexivity | exact Hok |].
  intros k a e Hk. cbn [app] in Hk. rewrite Hk.
  destruct (py_adj_set a (e_L e) (e_R e) 1) as [a1|]; [|reflexivity].
  destruct (py_adj_set a1 (e_R e) (e_L e) 1); reflexivity.
Qed.
Print Assumptions C17_bridge_get_adjacent_matrix.

(* an edge outside the matrix is an IndexError *)
Theorem C17_gen_get_adjacent_matrix_index_error :
  gen_Tree_get_adjacent_matrix [mkEdge 0 0 2 [] None] = None.
Proof. reflexivity. Qed.

(* which cells are 1: exactly [L, R] and [R, L] of the edges; every other cell is 0 *)
Lemma adj_lookup_cells (T : list edge) (cells : list (nat * nat * nat)) (r c : nat) :
  adj_lookup (fold_left adj_step T cells) r c
  = if existsb (edge_joins r c) T then 1 else adj_lookup cells r c.
Proof.
  revert cells. induction T as [|e T IH]; intros cells; [reflexivity|].
  cbn [fold_left existsb]. rewrite IH. unfold adj_step, edge_joins at 2. cbn [adj_lookup].
  destruct (existsb (edge_joins r c) T); [rewrite orb_true_r; reflexivity|]. rewrite orb_false_r.
  destruct ((e_R e =? r) && (e_L e =? c)); [rewrite orb_true_r; reflexivity|]. rewrite orb_false_r.
  destruct ((e_L e =? r) && (e_R e =? c)); reflexivity.
Qed.

Theorem C17_gen_adjacent_matrix_cells :
  forall (T : list edge) (r c : nat),
  adj_lookup (adj_cells (adj_of T)) r c = if existsb (edge_joins r c) T then 1 else 0.
Proof. intros T r c. unfold adj_of, adj_cells_of. cbn [adj_cells]. apply adj_lookup_cells. Qed.

(* `np.where(adj[current, :] == 1)[0].tolist()` on it IS the model's nbrs1 *)
Theorem C17_gen_adjacent_row_nbrs1 :
  forall (T : list edge) (current : nat),
  current < S (length T) ->
  option_map (fun row => py_where0_tolist (py_vec_eq row 1)) (py_adj_row (adj_of T) current)
  = Some (nbrs1 (S (length T)) T current).
Proof.
  intros T current Hc. unfold py_adj_row. cbn [adj_of adj_rows adj_cols].
  rewrite (proj2 (Nat.ltb_lt _ _) Hc). cbn [option_map]. f_equal.
  unfold py_vec_eq. rewrite map_map, py_where0_tolist_map. unfold nbrs1.
  apply filter_ext. intros j. rewrite C17_gen_adjacent_matrix_cells. fold (edge_joins current j).
  destruct (existsb (edge_joins current j) T); reflexivity.
Qed.
Print Assumptions C17_gen_adjacent_row_nbrs1.

(* ================================================================== *)
(** * 2. VineCopula._sample_row                                        *)
(* the row object: cell v holds ppfs[v](arg) for the model's `Some arg`, None = the 0.0 of np.zeros *)
Definition cell_obj (v : nat) (o : option sterm) : option pcell := option_map (pair v) o.
Definition row_obj (row : list (option sterm)) : list (option pcell) :=
  map (fun p => cell_obj (fst p) (snd p)) (combine (seq 0 (length row)) row).

(* `sampled` after the assignments [out] (most recent first) *)
Definition vec_of (n : nat) (out : list (nat * sterm)) : list (option pcell) :=
  map (fun v => cell_obj v (option_map snd (find (fun p => fst p =? v) out))) (seq 0 n).

Lemma vec_of_nil n : py_np_zeros1 n = vec_of n [].
Proof.
  unfold py_np_zeros1, vec_of. cbn [find option_map cell_obj].
  generalize 0. induction n as [|n IH]; intros s; [reflexivity|]. cbn [repeat seq map]. f_equal. apply IH.
Qed.

Lemma vec_of_set n out c y :
  c < n -> py_vec_set (vec_of n out) c (c, y) = Some (vec_of n ((c, y) :: out)).
Proof.
  intros Hc. unfold py_vec_set, vec_of. rewrite set_nth_map_seq by exact Hc. f_equal.
  apply map_ext. intros v. cbn [find fst Nat.add]. rewrite (Nat.eqb_sym c v).
  destruct (v =? c) eqn:E; [|reflexivity]. apply Nat.eqb_eq in E. subst v. reflexivity.
Qed.

Lemma map_combine_map {A B C} (h : A * B -> C) (g : A -> B) (l : list A) :
  map h (combine l (map g l)) = map (fun v => h (v, g v)) l.
Proof. induction l as [|x l IH]; [reflexivity|]. cbn [map combine]. f_equal. exact IH. Qed.

Lemma row_obj_row_cell n assign :
  row_obj (map (row_cell assign) (seq 0 n)) = vec_of n (rev assign).
Proof.
  unfold row_obj, vec_of. rewrite map_length, seq_length, map_combine_map. reflexivity.
Qed.

(* the bookkeeping `for s in neighbors: if s not in visited: explore.insert(0, s)` *)
Lemma push_eq (visited nbrs rest : list nat) :
  py_for_fold (fun (s : nat) (ex : list nat) => if negb (py_in s visited) then py_list_insert ex 0 s else ex) nbrs rest
  = rev (filter (fun s => negb (memb s visited)) nbrs) ++ rest.
Proof.
  unfold py_for_fold, py_in. revert rest. induction nbrs as [|s nbrs IH]; intros rest; [reflexivity|].
  cbn [fold_left filter]. rewrite IH. destruct (negb (memb s visited)); [|reflexivity].
  cbn [rev]. rewrite <- app_assoc. reflexivity.
Qed.

Section Loop.
  Variables (T0 : list edge) (ts : list (list edge)) (trunc : nat).
  Let trees := T0 :: ts.
  Let n := S (length T0).
  Hypothesis Hidx : forall i T, nth_error trees i = Some T -> idx_ok T.

  (* one iteration of `while explore:` = one unfolding of the model's sample_loop (itr = len(visited)) *)
  Lemma C17_bridge_sample_row_step (c : nat) (rest V : list nat) (tmp : option sterm) (out : list (nat * sterm)) :
    c < n ->
    gen_sample_row_step trees trunc n (adj_of T0) (c :: rest, length V, vec_of n out, tmp, V)
    = let push := rev (filter (fun s => negb (memb s V)) (nbrs1 n T0 c)) in
      if length V =? 0
      then Some (push ++ rest, S (length V), vec_of n ((c, SUni c) :: out), tmp, c :: V)
      else match level_loop trees trunc (length V) c V (rev (seq 0 (length V))) tmp with
           | Some (Some y) => Some (push ++ rest, S (length V), vec_of n ((c, y) :: out), Some y, c :: V)
           | _ => None
           end.
  Proof.
    intros Hc. unfold gen_sample_row_step, py_list_pop. cbn [nth_error firstn skipn app].
    pose proof (C17_gen_adjacent_row_nbrs1 T0 c Hc) as Hnb. fold n in Hnb.
    destruct (py_adj_row (adj_of T0) c) as [row|]; [|discriminate]. cbn [option_map] in Hnb. injection Hnb as Hnb.
    cbv zeta. rewrite Hnb.
    unfold py_ppfs_get. rewrite (proj2 (Nat.ltb_lt _ _) Hc).
    unfold py_ravel0_cell, py_ppf_call, py_unis, py_list_insert. cbn [firstn skipn app].
    destruct (length V =? 0).
    - rewrite vec_of_set by exact Hc.
      pose proof (push_eq V (nbrs1 n T0 c) rest) as Hp. unfold py_list_insert in Hp. cbn [firstn skipn app] in Hp.
      rewrite Hp, Nat.add_1_r. reflexivity.
    - rewrite <- C17_gen_level_loop_range by (intros i T _ HT; exact (Hidx i T HT)).
      destruct (level_loop trees trunc (length V) c V (rev (seq 0 (length V))) tmp) as [[y|]|]; try reflexivity.
      rewrite vec_of_set by exact Hc.
      pose proof (push_eq V (nbrs1 n T0 c) rest) as Hp. unfold py_list_insert in Hp. cbn [firstn skipn app] in Hp.
      rewrite Hp, Nat.add_1_r. reflexivity.
  Qed.

  Definition st_ty : Type := (list nat * nat * list (option pcell) * option sterm * list nat)%type.
  Definition st_cond (st : st_ty) : bool := let '(ex, _, _, _, _) := st in py_list_truthy ex.
  Definition st_out (st : st_ty) : list (option pcell) * list nat := let '(_, _, sampled, _, visited) := st in (sampled, visited).

  (* the while loop = the model's sample_loop: the row and the order of the visits *)
  Lemma C17_bridge_sample_row_loop (fuel : nat) :
    forall (X V : list nat) (tmp : option sterm) (out : list (nat * sterm)),
    (forall x, In x X -> x < n) ->
    option_map st_out (py_while fuel st_cond (gen_sample_row_step trees trunc n (adj_of T0)) (X, length V, vec_of n out, tmp, V))
    = option_map (fun p => (vec_of n (rev (fst p)), snd p)) (sample_loop fuel trees trunc n X V tmp out).
  Proof.
    induction fuel as [|f IH]; intros X V tmp out HX.
    - destruct X as [|c rest]; cbn [py_while st_cond py_list_truthy sample_loop option_map st_out fst snd];
        [rewrite rev_involutive|]; reflexivity.
    - destruct X as [|c rest].
      + cbn [py_while st_cond py_list_truthy sample_loop option_map st_out fst snd]. rewrite rev_involutive. reflexivity.
      + assert (Hc : c < n) by (apply HX; left; reflexivity).
        assert (Hpush : forall x, In x (rev (filter (fun s => negb (memb s V)) (nbrs1 n T0 c)) ++ rest) -> x < n).
        { intros x Hx. apply in_app_or in Hx. destruct Hx as [Hx|Hx]; [|apply HX; right; exact Hx].
          apply in_rev in Hx. apply filter_In in Hx. destruct Hx as [Hx _]. apply In_nbrs1 in Hx. tauto. }
        cbn [py_while st_cond py_list_truthy]. rewrite C17_bridge_sample_row_step by exact Hc. cbv zeta.
        cbn [sample_loop]. change (nth 0 trees []) with T0.
        destruct (length V =? 0).
        * change (S (length V)) with (length (c :: V)). apply IH. exact Hpush.
        * destruct (level_loop trees trunc (length V) c V (rev (seq 0 (length V))) tmp) as [[y|]|]; try reflexivity.
          change (S (length V)) with (length (c :: V)). apply IH. exact Hpush.
  Qed.
End Loop.

(* VineCopula._sample_row, the whole function: the generated code returns the model's row.
   Side conditions: the vine has a first tree whose edges join nodes < n = len(edges) + 1 (otherwise get_adjacent_matrix
   raises IndexError, the model does not), first_ind < n, n_var = n, Edge.index = position (the side condition of the level
   step); the fuel is the model's. *)
Theorem C17_bridge_sample_row :
  forall (T0 : list edge) (ts : list (list edge)) (trunc first_ind : nat),
  let trees := T0 :: ts in
  let n := S (length T0) in
  adj_ok T0 -> first_ind < n ->
  (forall i T, nth_error trees i = Some T -> idx_ok T) ->
  gen_VineCopula__sample_row (S (n * n)) trees trunc n first_ind = option_map row_obj (sample_row trees trunc first_ind).
Proof.
  intros T0 ts trunc first_ind trees n Hok Hf Hidx.
  unfold gen_VineCopula__sample_row, sample_row, sample_trace. cbv zeta.
  change (nth 0 trees []) with T0. fold n.
  cbn [py_trees_get trees nth_error to_edges]. rewrite C17_bridge_get_adjacent_matrix by exact Hok.
  rewrite vec_of_nil.
  pose proof (C17_bridge_sample_row_loop T0 ts trunc Hidx (S (n * n)) [first_ind] [] None []) as H. cbn [length] in H.
  fold trees n in H.
  assert (HX : forall x, In x [first_ind] -> x < n) by (intros x [<-|[]]; exact Hf).
  specialize (H HX).
  set (w := py_while _ _ _ _) in H.
  match goal with |- match ?w' with _ => _ end = _ => change w' with w end.
  destruct w as [[[[[ex it] sa] tm] vi]|];
    destruct (sample_loop (S (n * n)) trees trunc n [first_ind] [] None []) as [[assign vis]|];
    cbn [option_map st_out fst snd] in H; try discriminate; [|reflexivity].
  injection H as -> _. cbn [option_map]. rewrite row_obj_row_cell. reflexivity.
Qed.
Print Assumptions C17_bridge_sample_row.

(* ... and the order of the visits is the model's trace *)
Theorem C17_bridge_sample_row_trace :
  forall (T0 : list edge) (ts : list (list edge)) (trunc first_ind : nat),
  let trees := T0 :: ts in
  let n := S (length T0) in
  first_ind < n ->
  (forall i T, nth_error trees i = Some T -> idx_ok T) ->
  option_map (fun st : st_ty => let '(_, _, sampled, _, visited) := st in (sampled, visited))
    (py_while (S (n * n)) (fun st : st_ty => let '(ex, _, _, _, _) := st in py_list_truthy ex)
       (gen_sample_row_step trees trunc n (adj_of T0)) ([first_ind], 0, py_np_zeros1 n, None, []))
  = option_map (fun p => (vec_of n (rev (fst p)), snd p)) (sample_trace trees trunc first_ind).
Proof.
  intros T0 ts trunc first_ind trees n Hf Hidx. rewrite vec_of_nil. unfold sample_trace. cbv zeta.
  change (nth 0 trees []) with T0. fold n.
  apply (C17_bridge_sample_row_loop T0 ts trunc Hidx (S (n * n)) [first_ind] [] None []).
  intros x [<-|[]]; exact Hf.
Qed.
Print Assumptions C17_bridge_sample_row_trace.

(* ================================================================== *)
(** * 3. VineCopula.sample                                             *)
Definition frame_obj {A} (p : list A * list (list (option sterm))) : list A * list (list (option pcell)) :=
  (fst p, map row_obj (snd p)).

Lemma sample_rows_loop (T0 : list edge) (ts : list (list edge)) (trunc : nat) (firsts : nat -> nat) :
  let trees := T0 :: ts in
  let n := S (length T0) in
  adj_ok T0 -> (forall r, firsts r < n) ->
  (forall i T, nth_error trees i = Some T -> idx_ok T) ->
  forall (l : list nat) (acc : list (list (option pcell))),
  py_fold_opt (fun (i : nat) (rows : list (list (option pcell))) =>
                 match gen_VineCopula__sample_row (S (n * n)) trees trunc n (firsts i) with
                 | Some row => Some (py_list_append rows row)
                 | None => None
                 end) l acc
  = option_map (fun rows => acc ++ map row_obj rows) (map_opt (fun r => sample_row trees trunc (firsts r)) l).
Proof.
  intros trees n Hok Hf Hidx l. subst trees n. induction l as [|r l IH]; intros acc.
  - cbn [py_fold_opt map_opt option_map map]. rewrite app_nil_r. reflexivity.
  - cbn [py_fold_opt map_opt]. rewrite (C17_bridge_sample_row T0 ts trunc (firsts r) Hok (Hf r) Hidx).
    destruct (sample_row (T0 :: ts) trunc (firsts r)) as [row|]; cbn [option_map]; [|reflexivity].
    rewrite IH. unfold py_list_append.
    destruct (map_opt (fun r0 => sample_row (T0 :: ts) trunc (firsts r0)) l) as [rows|]; cbn [option_map map]; [|reflexivity].
    rewrite <- app_assoc. reflexivity.
Qed.

(* VineCopula.sample on a fitted vine: the rows of the model in order under the training columns, the draws coming from the
   model's own stream iff it has one (@random_state) *)
Theorem C17_bridge_sample :
  forall (A : Type) (has_rs : bool) (columns : list A) (T0 : list edge) (ts : list (list edge)) (trunc num_rows : nat)
         (firsts : rsrc -> nat -> nat),
  let trees := T0 :: ts in
  let n := S (length T0) in
  adj_ok T0 -> (forall s r, firsts s r < n) ->
  (forall i T, nth_error trees i = Some T -> idx_ok T) ->
  gen_VineCopula_sample (S (n * n)) has_rs true columns trees trunc n num_rows firsts
  = option_map frame_obj (sample_rows columns trees trunc num_rows (firsts (if has_rs then RsOwn else RsGlobal))).
Proof.
  intros A has_rs columns T0 ts trunc num_rows firsts trees n Hok Hf Hidx. subst trees n.
  unfold gen_VineCopula_sample, py_random_state, py_for_range, sample_rows, py_pd_DataFrame. cbn [negb]. cbv zeta.
  set (src := if has_rs then RsOwn else RsGlobal).
  rewrite (sample_rows_loop T0 ts trunc (firsts src) Hok (Hf src) Hidx).
  destruct (map_opt (fun r => sample_row (T0 :: ts) trunc (firsts src r)) (seq 0 num_rows)) as [rows|]; reflexivity.
Qed.
Print Assumptions C17_bridge_sample.

(* check_fit comes first: an unfitted vine raises before anything is drawn *)
Theorem C17_bridge_sample_unfitted :
  forall (A : Type) (fuel : nat) (has_rs : bool) (columns : list A) (trees : list (list edge)) (trunc n_var num_rows : nat)
         (firsts : rsrc -> nat -> nat),
  gen_VineCopula_sample fuel has_rs false columns trees trunc n_var num_rows firsts = None.
Proof. intros. unfold gen_VineCopula_sample, py_random_state. destruct has_rs; reflexivity. Qed.

Lemma nth_error_combine_seq {B} (l : list B) (k v : nat) (x : B) :
  nth_error l v = Some x -> nth_error (combine (seq k (length l)) l) v = Some (k + v, x).
Proof.
  revert k v. induction l as [|y l IH]; intros k v H; [destruct v; discriminate|].
  destruct v as [|v]; cbn [length seq combine nth_error] in *.
  - injection H as ->. rewrite Nat.add_0_r. reflexivity.
  - rewrite (IH (S k) v H). f_equal. f_equal. lia.
Qed.

(* "n rows, the training columns in order", about the generated function (Spec.VineSampleProofs.sample_shape transported):
   on a vine whose first tree is a spanning tree, truncated >= 1, the result is a frame with the training columns as header,
   num_rows rows of n cells, every cell v assigned ppfs[v] of some argument *)
Theorem C17_gen_sample_shape :
  forall (A : Type) (has_rs : bool) (columns : list A) (T0 : list edge) (ts : list (list edge)) (trunc num_rows : nat)
         (firsts : rsrc -> nat -> nat),
  let trees := T0 :: ts in
  let n := S (length T0) in
  is_tree n (graph1 T0) -> (forall e, In e T0 -> e_L e < e_R e) -> trunc >= 1 ->
  (forall i, i < n - 1 -> i < trunc -> exists Ti, nth_error trees i = Some Ti) ->
  (forall i T, nth_error trees i = Some T -> idx_ok T) ->
  (forall s r, firsts s r < n) ->
  exists rows,
    gen_VineCopula_sample (S (n * n)) has_rs true columns trees trunc n num_rows firsts = Some (columns, rows) /\
    length rows = num_rows /\
    forall r row, nth_error rows r = Some row ->
      length row = n /\ forall v, v < n -> exists s, nth_error row v = Some (Some (v, s)).
Proof.
  intros A has_rs columns T0 ts trunc num_rows firsts trees n Htree HLR Ht Hlev Hidx Hf.
  assert (Hok : adj_ok T0).
  { intros e He. destruct Htree as (Hn & _). apply (Hn (e_L e) (e_R e)). unfold graph1.
    apply in_map_iff. exists e. split; [reflexivity|exact He]. }
  pose proof (C17_bridge_sample A has_rs columns T0 ts trunc num_rows firsts Hok Hf Hidx) as Hb.
  cbv zeta in Hb. fold trees n in Hb. rewrite Hb. clear Hb.
  set (fs := firsts (if has_rs then RsOwn else RsGlobal)).
  destruct (sample_shape columns trees trunc num_rows fs) as (rows & Hs & Hl & Hr); auto.
  { intros i Hi Hit. destruct (Hlev i Hi Hit) as [Ti HTi]. exists Ti. split; [exact HTi|]. exact (Hidx i Ti HTi). }
  { intros r. apply Hf. }
  exists (map row_obj rows). rewrite Hs. split; [reflexivity|]. split; [rewrite map_length; exact Hl|].
  intros r row Hrow. rewrite nth_error_map in Hrow.
  destruct (nth_error rows r) as [row0|] eqn:E; [|discriminate]. injection Hrow as <-.
  destruct (Hr r row0 E) as [Hlen Hcells]. fold n in Hlen, Hcells.
  unfold row_obj. split; [rewrite map_length, combine_length, seq_length, Hlen; apply Nat.min_id|].
  intros v Hv. destruct (Hcells v Hv) as [s Hs']. exists s.
  rewrite nth_error_map.
  rewrite (nth_error_combine_seq row0 0 v (Some s) Hs'). reflexivity.
Qed.
Print Assumptions C17_gen_sample_shape.
