(* C09 — bivariate copula samples have uniform margins and the model's dependence.
   Deterministic core: the generated sampler is the conditional-inverse (Rosenblatt) construction:
   v = first uniform draw, c = second, u = percent_point(c, v); the event {u <= a} is {c <= h(a,v)}
   and the v-integral of h(a, .) is the copula, so that IF the two draws are independent U(0,1) the
   joint law of (u,v) is C.  "area = probability", the quality of numpy's generator and every
   finite-sample band are NOT theorems (statistical residue). *)
From Coq Require Import Reals List Bool Lra Psatz.
From Coquelicot Require Import Coquelicot.
From Cop Require Import Lib.NumpyR Lib.RealLemmas Spec.ArchDefs.
From Cop Require Spec.Clayton Spec.Frank Spec.Gumbel.
From CopRun Require Import Gen_biv Bridge_biv C08.
Import ListNotations.
Open Scope R_scope.

Notation CC := clayton_cumulative_distribution.
Notation CH := clayton_partial_derivative.
Notation FC := frank_cumulative_distribution.
Notation FH := frank_partial_derivative.
Notation GC := gumbel_cumulative_distribution.
Notation GH := gumbel_partial_derivative.

Lemma minmax_le' a b x : a <= b -> Rmin a b < x < Rmax a b -> a < x < b.
Proof. intros H. unfold Rmin, Rmax. destruct (Rle_dec a b); lra. Qed.
Lemma minmax_le'' a b x : a <= b -> Rmin a b <= x <= Rmax a b -> a <= x <= b.
Proof. intros H. unfold Rmin, Rmax. destruct (Rle_dec a b); lra. Qed.

(* ================= shape of the sampler ================= *)
(* the first statement of sample is self.check_fit() (F23 fix): an unfitted copula raises NotFittedError before the tau
   guard and before any draw (the state machine side is C19_unfitted_biv_sample) *)
Theorem C09_sample_checks_fit_first : bivariate_sample_check_fit_first = true.
Proof. reflexivity. Qed.
Theorem C09_tau_guard ppf tau d1 d2 : 1 < tau \/ tau < -1 -> bivariate_sample ppf tau d1 d2 = None.
Proof.
  intros H. unfold bivariate_sample, bivariate_sample_guard.
  destruct H as [H|H].
  - rewrite (proj2 (Rltb_true 1 tau)) by assumption. reflexivity.
  - rewrite (proj2 (Rltb_true tau (-1))) by lra. rewrite orb_true_r. reflexivity.
Qed.

Theorem C09_shape ppf tau d1 d2 : -1 <= tau <= 1 ->
  exists rows, bivariate_sample ppf tau d1 d2 = Some rows /\
    length rows = Nat.min (length d1) (length d2) /\
    (forall i v c, nth_error d1 i = Some v -> nth_error d2 i = Some c ->
       nth_error rows i = Some (ppf c v, v)).
Proof.
  intros Ht. unfold bivariate_sample, bivariate_sample_guard.
  rewrite (proj2 (Rltb_false 1 tau)) by lra. rewrite (proj2 (Rltb_false tau (-1))) by lra. simpl.
  eexists. split; [reflexivity|]. split.
  - rewrite map_length, combine_length. reflexivity.
  - intros i v c Hv Hc. rewrite nth_error_map.
    assert (E : nth_error (combine d1 d2) i = Some (v, c)).
    { revert i d2 Hv Hc. induction d1 as [|x d1 IH]; intros [|i] [|y d2] Hv Hc; simpl in *; try discriminate.
      - inversion Hv; inversion Hc; reflexivity.
      - apply IH; assumption. }
    rewrite E. reflexivity.
Qed.

(* ================= Rosenblatt event: { ppf(c,v) <= a }  =  { c <= h(a,v) } ================= *)
Theorem C09_rosenblatt_clayton th a c v : 0 < th -> 0 < a < 1 -> 0 < c < 1 -> 0 < v < 1 ->
  clayton_percent_point th c v <= a <-> c <= CH th a v.
Proof.
  intros Hth Ha Hc Hv.
  destruct (C08_clayton_inverse th c v Hth Hc Hv) as [Hr He]. cbv zeta in Hr, He.
  set (u := clayton_percent_point th c v) in *.
  rewrite !bridge_clayton_h in * by lra.
  split; intros H.
  - rewrite <- He. apply Clayton.clayton_h_mono; lra.
  - destruct (Rle_dec u a) as [L|L]; [exact L|]. exfalso.
    pose proof (Clayton.clayton_h_strict th a u v Hth ltac:(lra) ltac:(lra) ltac:(lra) ltac:(lra)). lra.
Qed.

Section Solver.
Variable brentq : (R -> R) -> R -> R -> R.
Hypothesis brentq_root : forall f lo hi, lo <= hi -> f lo <= 0 -> 0 <= f hi ->
  lo <= brentq f lo hi <= hi /\ f (brentq f lo hi) = 0.

Theorem C09_rosenblatt_frank th a c v : th <> 0 -> EPSILON <= a <= 1 -> 0 <= v <= 1 ->
  FH th EPSILON v <= c -> c <= 1 ->
  frank_percent_point th brentq c v <= a <-> c <= FH th a v.
Proof.
  intros Hth Ha Hv Hlo Hc1.
  destruct (C08_frank_inverse brentq brentq_root th c v Hth Hv Hlo Hc1) as [Hr He]. cbv zeta in Hr, He.
  set (u := frank_percent_point th brentq c v) in *.
  pose proof (EPS_pos) as HE.
  rewrite !bridge_frank_h in * by assumption.
  split; intros H.
  - rewrite <- He. apply Frank.frank_h_mono; try assumption; lra.
  - destruct (Rle_dec u a) as [L|L]; [exact L|]. exfalso.
    pose proof (Frank.frank_h_strict th a u v Hth ltac:(lra) ltac:(lra) ltac:(lra) Hv). lra.
Qed.
End Solver.

(* ================= the v-integral of the conditional CDF is the copula ================= *)
Theorem C09_area_clayton th a v1 v2 : 0 < th -> 0 < a <= 1 -> 0 < v1 -> v1 <= v2 -> v2 < 1 ->
  RInt (fun v => CH th a v) v1 v2 = CC th a v2 - CC th a v1.
Proof.
  intros Hth Ha H1 H12 H2.
  rewrite !bridge_clayton_cdf by lra.
  rewrite (RInt_ext _ (fun v => clayton_h th a v)).
  2:{ intros x Hx. apply minmax_le' in Hx; [|assumption]. apply bridge_clayton_h; lra. }
  apply is_RInt_unique.
  apply (is_RInt_derive (fun t => clayton_C th a t) (fun t => clayton_h th a t)).
  - intros x Hx. apply minmax_le'' in Hx; [|assumption]. apply Clayton.clayton_h_is_derive; lra.
  - intros x Hx. apply minmax_le'' in Hx; [|assumption]. apply Clayton.clayton_h_continuous_v; lra.
Qed.
Theorem C09_area_frank th a v1 v2 : th <> 0 -> 0 <= a <= 1 -> 0 <= v1 -> v1 <= v2 -> v2 <= 1 ->
  RInt (fun v => FH th a v) v1 v2 = FC th a v2 - FC th a v1.
Proof.
  intros Hth Ha H1 H12 H2.
  rewrite !bridge_frank_cdf by assumption.
  rewrite (RInt_ext _ (fun v => frank_h th a v)).
  2:{ intros x Hx. apply bridge_frank_h; assumption. }
  apply is_RInt_unique.
  apply (is_RInt_derive (fun t => frank_C th a t) (fun t => frank_h th a t)).
  - intros x Hx. apply minmax_le'' in Hx; [|assumption]. apply Frank.frank_h_is_derive; try assumption; lra.
  - intros x Hx. apply minmax_le'' in Hx; [|assumption]. apply Frank.frank_h_continuous_v; try assumption; lra.
Qed.
Theorem C09_area_gumbel th a v1 v2 : 1 < th -> 0 < a < 1 -> 0 < v1 -> v1 <= v2 -> v2 < 1 ->
  RInt (fun v => GH th a v) v1 v2 = GC th a v2 - GC th a v1.
Proof.
  intros Hth Ha H1 H12 H2.
  rewrite !bridge_gumbel_cdf by lra.
  rewrite (RInt_ext _ (fun v => gumbel_h th a v)).
  2:{ intros x Hx. apply minmax_le' in Hx; [|assumption]. apply bridge_gumbel_h; lra. }
  apply is_RInt_unique.
  apply (is_RInt_derive (fun t => gumbel_C th a t) (fun t => gumbel_h th a t)).
  - intros x Hx. apply minmax_le'' in Hx; [|assumption]. apply Gumbel.gumbel_h_is_derive; lra.
  - intros x Hx. apply minmax_le'' in Hx; [|assumption]. apply Gumbel.gumbel_h_continuous_v; lra.
Qed.

(* uniform margins of the limit law: C(a,1) = a and C(1,b) = b are C06's boundary theorems;
   here: the conditional CDF at u = 1 is 1, i.e. the first coordinate is always <= 1 *)
Theorem C09_h_at_one th v : (0 < th -> 0 < v <= 1 -> CH th 1 v = 1) /\ (th <> 0 -> 0 <= v <= 1 -> FH th 1 v = 1).
Proof.
  split; intros.
  - rewrite bridge_clayton_h by lra. apply Clayton.clayton_h_one; assumption.
  - rewrite bridge_frank_h by assumption. apply Frank.frank_h_one; assumption.
Qed.

Print Assumptions C09_shape.
Print Assumptions C09_rosenblatt_clayton.
Print Assumptions C09_rosenblatt_frank.
Print Assumptions C09_area_clayton.
Print Assumptions C09_area_frank.
Print Assumptions C09_area_gumbel.
