(* C02 — the correlation matrix learned by GaussianMultivariate.fit is a valid, correctly computed matrix.
   Gen_gmcorr (GENERATED from copulas/multivariate/gaussian.py on every run) holds _get_correlation
   statement by statement and the per-entry expression of _transform_to_normal; this file bridges
   them to the canonical definitions (Spec/PearsonDefs, Spec/GaussMVDefs) and restates the theorems
   of Spec/Pearson.v for the generated function.  Oracles: stats.norm.ppf, the fitted marginal CDFs,
   np.linalg.cond (value in Rbar).  *)
From Coq Require Import Reals QArith Qreals List Bool Arith Lra Lia.
From Coquelicot Require Import Rbar.
From Cop Require Import Lib.NumpyR Spec.PearsonDefs Spec.Pearson Spec.GaussMVDefs Model.PearsonQ Spec.PearsonQProofs.
From CopRun Require Import Gen_gmcorr.
Import ListNotations.
Open Scope R_scope.

(* ================= bridges: generated text = canonical definitions ================= *)
Lemma C02_bridge_EPSILON : gm_EPSILON = EPSILON.
Proof. unfold gm_EPSILON, EPSILON. lra. Qed.

Lemma C02_bridge_EPSILON_q : Q2R gm_EPSILON_q = EPSILON.
Proof. unfold gm_EPSILON_q, EPSILON, Q2R. simpl. lra. Qed.

Lemma C02_bridge_score norm_ppf cdf x :
  gm_score norm_ppf cdf x = normal_score norm_ppf cdf EPSILON x.
Proof. unfold gm_score, gm_clip_lo, gm_clip_hi, normal_score. now rewrite C02_bridge_EPSILON. Qed.

Lemma C02_bridge_transform norm_ppf cdfs X :
  gm_transform_to_normal norm_ppf cdfs X = normal_scores norm_ppf EPSILON cdfs X.
Proof.
  unfold gm_transform_to_normal, normal_scores. apply map2_ext. intros cdf col.
  apply map_ext. intros x. apply C02_bridge_score.
Qed.

(* the singularity oracle of Spec/PearsonDefs.get_correlation, made explicit:
   np.linalg.cond(correlation) > 1.0 / sys.float_info.epsilon *)
Definition ill_of (np_linalg_cond : list (list R) -> Rbar) (c : list (list R)) : bool :=
  rbar_gtb (np_linalg_cond c) (1 / DBL_EPSILON).

Theorem C02_bridge_get_correlation (L : Type) cond (columns : list L) result :
  gm_get_correlation cond columns result =
  mkLFrame columns columns (get_correlation (ill_of cond) EPSILON result).
Proof.
  unfold gm_get_correlation, get_correlation, ill_of, ridge.
  rewrite nan_to_num_corr, C02_bridge_EPSILON. reflexivity.
Qed.

Lemma C02_bridge_clip_q u : Q2R (gm_clip_q u) = np_clip (Q2R u) EPSILON (1 - EPSILON).
Proof.
  unfold gm_clip_q. rewrite Q2R_clipq, Q2R_minus, C02_bridge_EPSILON_q.
  replace (Q2R (1 # 1)) with 1 by (unfold Q2R; simpl; lra). reflexivity.
Qed.

(* the executable ridge decision agrees with the real-number comparison *)
Definition rbar_of (c : option Q) : Rbar := match c with None => p_infty | Some q => Finite (Q2R q) end.
Lemma C02_bridge_ill_q c : gm_ill_q c = rbar_gtb (rbar_of c) (1 / DBL_EPSILON).
Proof.
  assert (T : Q2R gm_cond_threshold_q = 1 / DBL_EPSILON).
  { unfold gm_cond_threshold_q. rewrite Q2R_div_total. unfold DBL_EPSILON, Q2R. simpl. field. }
  unfold gm_ill_q, rbar_gtb. destruct c as [q|]; simpl.
  - destruct (Rbar_lt_dec _ _) as [H|H]; simpl in H.
    + destruct (Qle_bool q gm_cond_threshold_q) eqn:E; [|reflexivity].
      apply Qle_bool_Rle in E. lra.
    + destruct (Qle_bool q gm_cond_threshold_q) eqn:E; [reflexivity|].
      apply Qle_bool_Rlt in E. lra.
  - destruct (Rbar_lt_dec _ _) as [H|H]; [reflexivity|]. exfalso. apply H. exact I.
Qed.

(* ================= the statement, clause by clause, for the generated function ================= *)
Section Fit.
Variable L : Type.
Variable np_linalg_cond : list (list R) -> Rbar.
Variable columns : list L.
Variable scores : list (list R).            (* normal-score columns *)
Notation M := (lf_data (gm_get_correlation np_linalg_cond columns scores)).
Notation ridged := (ill_of np_linalg_cond (corr_matrix scores)).

Lemma EPS_pos : 0 < EPSILON. Proof. unfold EPSILON. lra. Qed.

(* each entry is the Pearson correlation of the two score columns (0 when one is constant),
   plus EPSILON on the diagonal when the ridge branch is taken *)
Theorem C02_entry_definition i j :
  (i < length scores)%nat -> (j < length scores)%nat ->
  entry M i j = corr_entry (nth i scores []) (nth j scores [])
                + (if ridged then (if Nat.eqb i j then EPSILON else 0) else 0).
Proof. intros. rewrite C02_bridge_get_correlation. now apply get_correlation_entries. Qed.

Theorem C02_symmetric i j :
  (i < length scores)%nat -> (j < length scores)%nat -> entry M i j = entry M j i.
Proof. intros. rewrite C02_bridge_get_correlation. now apply get_correlation_sym. Qed.

(* entries in [-1, 1] up to the ridge (finite: a real number in a bounded interval) *)
Theorem C02_range i j :
  (i < length scores)%nat -> (j < length scores)%nat -> -1 <= entry M i j <= 1 + EPSILON.
Proof. intros. rewrite C02_bridge_get_correlation. apply get_correlation_range; auto. apply EPS_pos. Qed.

Theorem C02_unit_diagonal i :
  (i < length scores)%nat -> var (nth i scores []) <> 0 ->
  entry M i i = 1 + (if ridged then EPSILON else 0).
Proof.
  intros Hi Hv. rewrite C02_entry_definition, pearson_self, Nat.eqb_refl by assumption. reflexivity.
Qed.

(* a constant score column: zero correlation with everything, row and column, diagonal included
   (EPSILON on the diagonal after the ridge) *)
Theorem C02_constant_zero i j :
  (i < length scores)%nat -> (j < length scores)%nat -> var (nth i scores []) = 0 ->
  entry M i j = (if ridged then (if Nat.eqb i j then EPSILON else 0) else 0) /\
  entry M j i = (if ridged then (if Nat.eqb j i then EPSILON else 0) else 0).
Proof.
  intros Hi Hj Hv. rewrite !C02_entry_definition by assumption.
  destruct (constant_zero _ (nth j scores []) Hv) as [-> ->]. split; lra.
Qed.

Theorem C02_psd n a :
  length a = length scores -> Forall (fun c => length c = n) scores -> 0 <= quad_form a M.
Proof. intros. rewrite C02_bridge_get_correlation. apply (get_correlation_psd _ _ EPS_pos n); auto. Qed.

(* a numerically singular matrix is regularised: after the ridge the matrix is positive DEFINITE,
   which is what multivariate_normal sampling and the density need *)
Theorem C02_ridge_positive_definite n a :
  ridged = true -> length a = length scores -> Forall (fun c => length c = n) scores ->
  Exists (fun v => v <> 0) a -> 0 < quad_form a M.
Proof. intros. rewrite C02_bridge_get_correlation. apply (get_correlation_pd_when_ridged _ _ EPS_pos n); auto. Qed.

(* labelled by the training columns, in order, on both axes *)
Theorem C02_labels :
  lf_index (gm_get_correlation np_linalg_cond columns scores) = columns /\
  lf_columns (gm_get_correlation np_linalg_cond columns scores) = columns.
Proof. rewrite C02_bridge_get_correlation. split; reflexivity. Qed.
End Fit.

Theorem C02_pearson_sym_range n x y :
  (2 <= n)%nat -> length x = n -> length y = n ->
  corr_entry x y = corr_entry y x /\ -1 <= corr_entry x y <= 1 /\ (var x <> 0 -> corr_entry x x = 1).
Proof. exact (Pearson.C02_pearson_sym_range n x y). Qed.

(* the scores are computed from probabilities clipped into [EPSILON, 1 - EPSILON]: norm_ppf never sees 0 or 1 *)
Theorem C02_scores_clipped norm_ppf cdf x :
  exists p, gm_score norm_ppf cdf x = norm_ppf p /\ EPSILON <= p <= 1 - EPSILON /\ 0 < p < 1.
Proof.
  exists (np_clip (cdf x) EPSILON (1 - EPSILON)). split; [apply C02_bridge_score|].
  assert (H : EPSILON <= 1 - EPSILON) by (unfold EPSILON; lra).
  pose proof (clip_range (cdf x) _ _ H). pose proof EPS_pos. split; [assumption|lra].
Qed.

(* ================= soundness of the per-run certificate (correspondence cases) =================
   When  gm_fit_check U PIN POUT cond M tol  evaluates (vm_compute) to (true, _, [], true, _), the matrix M
   reported by the implementation is, entry by entry, within tol of the GENERATED _get_correlation
   applied to the captured scores POUT, for every condition-number oracle that returns the captured
   value on this matrix. *)
Theorem C02_certificate_sound (L : Type) (np_linalg_cond : list (list R) -> Rbar) (columns : list L)
        (POUT M : list (list Q)) (cond : option Q) (tol : Q) :
  np_linalg_cond (corr_matrix (map (map Q2R) POUT)) = rbar_of cond ->
  bad_entries POUT (gm_ill_q cond) gm_EPSILON_q M tol = [] ->
  forall i j, (i < length POUT)%nat -> (j < length POUT)%nat ->
    Rabs (entry (lf_data (gm_get_correlation np_linalg_cond columns (map (map Q2R) POUT))) i j
          - Q2R (entryq M i j)) <= Q2R tol.
Proof.
  intros Hc Hb i j Hi Hj. rewrite C02_bridge_get_correlation. cbn [lf_data].
  rewrite <- C02_bridge_EPSILON_q.
  apply (bad_entries_sound (ill_of np_linalg_cond) POUT (gm_ill_q cond)); auto.
  unfold ill_of. now rewrite Hc, C02_bridge_ill_q.
Qed.

(* ================= non-vacuity ================= *)
Example C02_nonvacuous_entry :
  corr_entry [1; 2; 3] [3; 2; 1] = -1 /\ corr_entry [5; 5; 5] [1; 2; 3] = 0 /\ var [1; 2; 3] <> 0.
Proof.
  split; [apply pearson_minus_one|]. split.
  - apply (constant_zero [5;5;5] [1;2;3] var_555).
  - rewrite var_123. lra.
Qed.
Example C02_nonvacuous_certificate :
  bad_entries [[1#1; 2#1; 3#1]; [3#1; 2#1; 1#1]; [5#1; 5#1; 5#1]] (gm_ill_q None) gm_EPSILON_q
              [[1 + gm_EPSILON_q; -1#1; 0]; [-1#1; 1 + gm_EPSILON_q; 0]; [0; 0; gm_EPSILON_q]]%Q (1 # 1000000000) = [].
Proof. vm_compute. reflexivity. Qed.
Example C02_nonvacuous_certificate_rejects :
  bad_entries [[1#1; 2#1; 3#1]; [3#1; 2#1; 1#1]] (gm_ill_q (Some (3#1))) gm_EPSILON_q
              [[1 + gm_EPSILON_q; -1#1]; [-1#1; 1]]%Q (1 # 1000000000) = [(0, 0)%nat].
Proof. vm_compute. reflexivity. Qed.

Print Assumptions C02_bridge_get_correlation.
Print Assumptions C02_entry_definition.
Print Assumptions C02_symmetric.
Print Assumptions C02_range.
Print Assumptions C02_constant_zero.
Print Assumptions C02_psd.
Print Assumptions C02_ridge_positive_definite.
Print Assumptions C02_certificate_sound.
