(* C05 — marginal model choice: best-KS candidate, filters, per-column configuration, Gaussian fallback.

   Generated on every run from the AST of /repo (tools/vf/selectfacts.py, shape-checked, fail-closed):
     CopRun.Gen_classtree  : gen_tree, the class tree below Univariate with PARAMETRIC/BOUNDED tags and `ABC in __bases__`
     CopRun.Gen_select     : gen_select_univariate, gen_univariate_fit, gen_select_candidates, gen_init_candidates, gen_get_instance
     CopRun.Gen_gausscols  : gen_get_distribution_for_column, gen_fit_column, gen_fit_with_fallback_distribution, gen_fit_columns
   Hand-written model and deep lemmas: Cop.Model.Select, Cop.Spec.SelectProofs.
   CopRun.C05_eval (fixed text written by tools/vf/props/C05.py): uname_str, map_ctree, ref_tree and the wrappers
   run_select / run_fit / run_candidates / run_walk / run_columns that the correspondence cases evaluate.
   Every theorem below is stated on the GENERATED definitions; the first block proves them equal to the model,
   the last block proves the evaluated wrappers equal to them.
   Oracles: try_fit4 (get_instance + fit + scipy kstest of one candidate), refit, instantiable, fit_dist, import_class. *)
From Coq Require Import List Bool QArith ZArith String Lia Permutation.
From Cop Require Import Model.Select Spec.SelectProofs.
From CopRun Require Import C05_eval Gen_classtree Gen_select Gen_gausscols.
Import ListNotations.

(* ================================================================== *)
(** * 1. The generated definitions are the model *)

Lemma ext_lt_Some : forall ks best, ext_lt (Some ks) best = lt_best ks best.
Proof. intros ks [b|]; reflexivity. Qed.

Lemma gen_sel_step_eq : forall cand (try_fit4 : cand -> outcome) st m,
  gen_sel_step cand try_fit4 st m = sel_step4 cand try_fit4 st m.
Proof.
  intros. unfold gen_sel_step, sel_step4. destruct (try_fit4 m); first [reflexivity | rewrite ext_lt_Some; reflexivity].
Qed.

Theorem C05_gen_select_univariate_is_model : forall cand (try_fit4 : cand -> outcome) cands,
  gen_select_univariate cand try_fit4 cands =
  select_univariate cand (fun m => ks_of (try_fit4 m)) cands.
Proof.
  intros. unfold gen_select_univariate, select_univariate.
  rewrite <- select_best4_collapse. unfold select_best4.
  change (gen_sel_init cand) with (sel_init cand).
  assert (H : forall st, fold_left (gen_sel_step cand try_fit4) cands st =
                         fold_left (sel_step4 cand try_fit4) cands st).
  { induction cands as [|a l IH]; intros st; simpl; [reflexivity|]. rewrite gen_sel_step_eq. apply IH. }
  rewrite H. reflexivity.
Qed.

Theorem C05_gen_univariate_fit_is_model : forall cand (try_fit4 : cand -> outcome) refit cands,
  gen_univariate_fit cand try_fit4 refit cands =
  univariate_fit cand (fun m => ks_of (try_fit4 m)) refit cands.
Proof.
  intros. unfold gen_univariate_fit, univariate_fit.
  rewrite C05_gen_select_univariate_is_model. reflexivity.
Qed.

Lemma gen_skip_accepts : forall p b (c : @class_info string),
  gen_skip p b c = negb (accepts string p b c).
Proof.
  intros p b [n cp cb ca]. unfold gen_skip, accepts, tag_ok. simpl.
  destruct ca; destruct p as [[]|]; destruct b as [[]|]; destruct cp; destruct cb; reflexivity.
Qed.

Theorem C05_gen_select_candidates_is_model : forall p b t,
  gen_select_candidates p b t = select_candidates string p b t.
Proof.
  intros p b. induction t as [i subs IH] using ctree_ind2. simpl.
  induction subs as [|s tl IHl]; simpl; auto.
  inversion IH; subst. rewrite IHl by assumption. f_equal. rewrite H1. f_equal.
  destruct s as [j ss]. rewrite gen_skip_accepts. destruct (accepts string p b j); reflexivity.
Qed.

Theorem C05_gen_init_candidates_is_model : forall e p b t,
  gen_init_candidates e p b t = init_candidates string e p b t.
Proof.
  intros [[|c cs]|] p b t; simpl; auto using C05_gen_select_candidates_is_model.
Qed.

Theorem C05_gen_get_instance_is_model : forall qualname cls args (imp : qualname -> option cls) obj,
  gen_get_instance qualname cls args imp obj = get_instance qualname cls args imp obj.
Proof. intros. destruct obj; reflexivity. Qed.

Section ColumnsEq.
  Variables label dist fitted col : Type.
  Variable label_eqb : label -> label -> bool.
  Variable class_of_name : string -> dist.
  Variable instantiable : dist -> bool.
  Variable fit_dist : dist -> col -> option fitted.

  Theorem C05_gen_get_distribution_is_model : forall cfg c,
    gen_get_distribution_for_column label dist label_eqb class_of_name cfg c =
    get_distribution_for_column label dist label_eqb (class_of_name "Univariate"%string) cfg c.
  Proof. intros [d|entries] c; reflexivity. Qed.

  Theorem C05_gen_fit_column_is_model : forall column d,
    gen_fit_column dist fitted col class_of_name instantiable fit_dist column d =
    fit_column dist fitted col (class_of_name "GaussianUnivariate"%string) instantiable fit_dist column d.
  Proof. reflexivity. Qed.

  Theorem C05_gen_fit_columns_is_model : forall cfg items,
    gen_fit_columns label dist fitted col label_eqb class_of_name instantiable fit_dist cfg items =
    fit_columns label dist fitted col label_eqb (class_of_name "Univariate"%string)
                (class_of_name "GaussianUnivariate"%string) instantiable fit_dist cfg items.
  Proof.
    intros cfg items. unfold gen_fit_columns, fit_columns.
    generalize (@nil label) (@nil fitted).
    induction items as [|[c column] tl IH]; intros cs us; simpl; [reflexivity|].
    rewrite C05_gen_get_distribution_is_model, C05_gen_fit_column_is_model.
    destruct (fit_column dist fitted col (class_of_name "GaussianUnivariate"%string) instantiable fit_dist column
                (get_distribution_for_column label dist label_eqb (class_of_name "Univariate"%string) cfg c)); auto.
  Qed.
End ColumnsEq.

(* the classes the current source names as constructor default, dict default and fallback *)
Theorem C05_default_and_fallback_classes :
  gen_default_distribution_class = "Univariate"%string /\
  gen_dict_default_class = gen_default_distribution_class /\
  gen_fallback_class = "GaussianUnivariate"%string.
Proof. repeat split. Qed.

(* ================================================================== *)
(** * 2. select_univariate / Univariate.fit: first argmin of the KS statistic over the candidates that fitted *)

(* If the result is a (fresh) instance of candidate m, then m sits at some position i of the list, its fit
   and kstest succeeded with a finite statistic k, k <= the statistic of EVERY candidate that fitted, and
   k is STRICTLY smaller than that of every earlier one (ties go to the earliest candidate). *)
Theorem C05_argmin : forall cand (try_fit4 : cand -> outcome) cands m,
  gen_select_univariate cand try_fit4 cands = FreshInstance m ->
  exists i k, nth_error cands i = Some m /\ try_fit4 m = Ks k /\
    forall j m' k', nth_error cands j = Some m' -> try_fit4 m' = Ks k' ->
                    k <= k' /\ ((j < i)%nat -> k < k').
Proof.
  intros cand try_fit4 cands m H. rewrite C05_gen_select_univariate_is_model in H.
  apply select_univariate_argmin in H. destruct H as [i [k [Hn [Hf Hmin]]]].
  exists i, k. split; [exact Hn|]. split.
  - destruct (try_fit4 m); simpl in Hf; try discriminate. inversion Hf; reflexivity.
  - intros j m' k' Hj Hk. apply (Hmin j m' k' Hj). rewrite Hk. reflexivity.
Qed.

(* A candidate that fitted with a finite statistic guarantees that something is selected. *)
Theorem C05_selects_when_possible : forall cand (try_fit4 : cand -> outcome) cands m k,
  In m cands -> try_fit4 m = Ks k ->
  exists m', gen_select_univariate cand try_fit4 cands = FreshInstance m'.
Proof.
  intros cand try_fit4 cands m k Hin Hk. rewrite C05_gen_select_univariate_is_model.
  destruct (select_some cand (fun m => ks_of (try_fit4 m)) cands m k Hin) as [m' Hm'].
  - rewrite Hk. reflexivity.
  - exists m'. unfold select_univariate. rewrite Hm'. reflexivity.
Qed.

(* Candidates whose fit raised (or whose statistic is NaN / inf) have no influence at all. *)
Theorem C05_skips_failures : forall cand (try_fit4 : cand -> outcome) cands,
  gen_select_univariate cand try_fit4 cands =
  gen_select_univariate cand try_fit4
    (filter (fun m => match try_fit4 m with Ks _ => true | _ => false end) cands).
Proof.
  intros. rewrite !C05_gen_select_univariate_is_model. unfold select_univariate.
  rewrite select_skips_failures. f_equal. f_equal. apply filter_ext.
  intros a. unfold usable. destruct (try_fit4 a); reflexivity.
Qed.

(* D1, stated not hidden: when no candidate yields a finite statistic (every fit raised, or the list is
   empty) select_univariate returns None (get_instance(None) is None) and Univariate.fit raises
   AttributeError ('NoneType' object has no attribute 'fit'); fitted stays False. *)
Theorem C05_all_fail : forall cand (try_fit4 : cand -> outcome) cands,
  (forall m, In m cands -> forall k, try_fit4 m <> Ks k) <->
  gen_select_univariate cand try_fit4 cands = PyNone.
Proof.
  intros cand try_fit4 cands. rewrite C05_gen_select_univariate_is_model. split.
  - intros H. apply select_all_fail_returns_None. intros m Hin.
    specialize (H m Hin). destruct (try_fit4 m); try reflexivity. exfalso. apply (H k). reflexivity.
  - intros H m Hin k Hk. unfold select_univariate in H.
    destruct (select_best cand (fun m0 => ks_of (try_fit4 m0)) cands) eqn:E; simpl in H; [discriminate|].
    rewrite select_all_fail in E. specialize (E m Hin). simpl in E. rewrite Hk in E. discriminate.
Qed.

Theorem C05_fit_all_fail : forall cand (try_fit4 : cand -> outcome) refit cands,
  (forall m, In m cands -> forall k, try_fit4 m <> Ks k) ->
  gen_univariate_fit cand try_fit4 refit cands = FitErr AttributeError_NoneType_fit.
Proof.
  intros cand try_fit4 refit cands H. unfold gen_univariate_fit.
  apply (C05_all_fail cand try_fit4 cands) in H. rewrite H. reflexivity.
Qed.

(* Univariate.fit returning normally: the wrapped instance is a first-argmin candidate, re-fitted on X. *)
Theorem C05_fit_ok : forall cand (try_fit4 : cand -> outcome) refit cands m,
  gen_univariate_fit cand try_fit4 refit cands = FitOk m ->
  refit m = true /\
  exists i k, nth_error cands i = Some m /\ try_fit4 m = Ks k /\
    forall j m' k', nth_error cands j = Some m' -> try_fit4 m' = Ks k' ->
                    k <= k' /\ ((j < i)%nat -> k < k').
Proof.
  intros cand try_fit4 refit cands m H. unfold gen_univariate_fit in H.
  destruct (gen_select_univariate cand try_fit4 cands) as [|m0] eqn:E; [discriminate|].
  destruct (refit m0) eqn:Er; inversion H; subst. split; [exact Er|].
  apply C05_argmin. exact E.
Qed.

(* Order independence (added session 5).  The candidate ORDER decides only which of several equally good
   candidates wins: for any two orderings of the same candidates, (a) either both select nothing or both select
   something, and (b) the KS statistics of the two selected candidates are equal - the minimum over the
   candidates that fitted.  So no re-ordering of `candidates` (e.g. of the class tree walk) can make the
   selected model worse. *)
Theorem C05_none_order_independent : forall cand (try_fit4 : cand -> outcome) l1 l2,
  Permutation l1 l2 ->
  (gen_select_univariate cand try_fit4 l1 = PyNone <-> gen_select_univariate cand try_fit4 l2 = PyNone).
Proof.
  intros cand try_fit4 l1 l2 HP. rewrite <- !C05_all_fail. split; intros H m Hin.
  - apply H. apply (Permutation_in m (Permutation_sym HP)). exact Hin.
  - apply H. apply (Permutation_in m HP). exact Hin.
Qed.

Lemma C05_selected_le_all : forall cand (try_fit4 : cand -> outcome) l m k m' k',
  gen_select_univariate cand try_fit4 l = FreshInstance m -> try_fit4 m = Ks k ->
  In m' l -> try_fit4 m' = Ks k' -> k <= k'.
Proof.
  intros cand try_fit4 l m k m' k' Hsel Hk Hin Hk'.
  destruct (C05_argmin cand try_fit4 l m Hsel) as [i [k0 [_ [Hk0 Hmin]]]].
  rewrite Hk in Hk0. inversion Hk0; subst k0.
  destruct (In_nth_error l m' Hin) as [j Hj].
  exact (proj1 (Hmin j m' k' Hj Hk')).
Qed.

Theorem C05_min_ks_order_independent : forall cand (try_fit4 : cand -> outcome) l1 l2 m1 m2 k1 k2,
  Permutation l1 l2 ->
  gen_select_univariate cand try_fit4 l1 = FreshInstance m1 ->
  gen_select_univariate cand try_fit4 l2 = FreshInstance m2 ->
  try_fit4 m1 = Ks k1 -> try_fit4 m2 = Ks k2 -> k1 == k2.
Proof.
  intros cand try_fit4 l1 l2 m1 m2 k1 k2 HP H1 H2 Hk1 Hk2.
  assert (In1 : In m1 l1).
  { destruct (C05_argmin cand try_fit4 l1 m1 H1) as [i [k [Hn _]]]. exact (nth_error_In l1 i Hn). }
  assert (In2 : In m2 l2).
  { destruct (C05_argmin cand try_fit4 l2 m2 H2) as [i [k [Hn _]]]. exact (nth_error_In l2 i Hn). }
  apply Qle_antisym.
  - apply (C05_selected_le_all cand try_fit4 l1 m1 k1 m2 k2 H1 Hk1); [|exact Hk2].
    apply (Permutation_in m2 (Permutation_sym HP)). exact In2.
  - apply (C05_selected_le_all cand try_fit4 l2 m2 k2 m1 k1 H2 Hk2); [|exact Hk1].
    apply (Permutation_in m1 HP). exact In1.
Qed.

(* Monotonicity in the candidate set: enlarging the candidate list (in any order, anywhere in the list) can only
   improve the statistic of the selected candidate, and cannot turn a selection into "nothing selected". *)
Theorem C05_more_candidates_never_worse : forall cand (try_fit4 : cand -> outcome) l1 l2 m1 k1,
  incl l1 l2 ->
  gen_select_univariate cand try_fit4 l1 = FreshInstance m1 -> try_fit4 m1 = Ks k1 ->
  exists m2 k2, gen_select_univariate cand try_fit4 l2 = FreshInstance m2 /\ try_fit4 m2 = Ks k2 /\ k2 <= k1.
Proof.
  intros cand try_fit4 l1 l2 m1 k1 Hincl H1 Hk1.
  assert (In1 : In m1 l1).
  { destruct (C05_argmin cand try_fit4 l1 m1 H1) as [i [k [Hn _]]]. exact (nth_error_In l1 i Hn). }
  destruct (C05_selects_when_possible cand try_fit4 l2 m1 k1 (Hincl m1 In1) Hk1) as [m2 H2].
  destruct (C05_argmin cand try_fit4 l2 m2 H2) as [i [k2 [_ [Hk2 _]]]].
  exists m2, k2. split; [exact H2|]. split; [exact Hk2|].
  exact (C05_selected_le_all cand try_fit4 l2 m2 k2 m1 k1 H2 Hk2 (Hincl m1 In1) Hk1).
Qed.

(* ... and the same for Univariate.fit: whether it raises the AttributeError of "no candidate fitted" does not
   depend on the order of the candidates. *)
Theorem C05_fit_all_fail_order_independent : forall cand (try_fit4 : cand -> outcome) refit l1 l2,
  Permutation l1 l2 ->
  (gen_univariate_fit cand try_fit4 refit l1 = FitErr AttributeError_NoneType_fit <->
   gen_univariate_fit cand try_fit4 refit l2 = FitErr AttributeError_NoneType_fit).
Proof.
  assert (K : forall cand (try_fit4 : cand -> outcome) refit l,
            gen_univariate_fit cand try_fit4 refit l = FitErr AttributeError_NoneType_fit <->
            gen_select_univariate cand try_fit4 l = PyNone).
  { intros cand try_fit4 refit l. unfold gen_univariate_fit.
    destruct (gen_select_univariate cand try_fit4 l) as [|m]; [split; reflexivity|].
    destruct (refit m); split; intros H; discriminate. }
  intros cand try_fit4 refit l1 l2 HP. rewrite !K. apply C05_none_order_independent. exact HP.
Qed.

(* non-vacuity: two orderings of three candidates with a tie select different candidates with equal statistics *)
Example C05_demo_order :
  let f := fun m : nat => match m with 0%nat => Ks (1#2) | 1%nat => Ks (1#4) | 2%nat => Ks (2#8) | _ => Raised end in
  gen_select_univariate nat f [0;1;2]%nat = FreshInstance 1%nat /\
  gen_select_univariate nat f [2;0;1]%nat = FreshInstance 2%nat /\ Permutation [0;1;2]%nat [2;0;1]%nat.
Proof.
  split; [reflexivity|]. split; [reflexivity|].
  apply Permutation_sym. apply (Permutation_cons_app [0;1]%nat [] 2%nat). simpl. apply Permutation_refl.
Qed.

(* ================================================================== *)
(** * 3. candidate enumeration: filters, explicit list *)

(* uname_str, map_ctree and ref_tree := map_ctree uname_str repo_tree come from CopRun.C05_eval (the file the
   correspondence cases evaluate) *)
(* the tree extracted from the CURRENT source is the tree the library was written against: a flipped tag, a
   new / removed / re-ordered class, or a changed abstractness breaks this theorem *)
Theorem C05_tree_is_repo_tree : gen_tree = ref_tree /\ ref_tree = map_ctree uname_str repo_tree.
Proof. split; vm_compute; reflexivity. Qed.

(* soundness and completeness of the (generated) walk for EVERY class tree *)
Theorem C05_filters_sound : forall p b t n,
  In n (gen_select_candidates p b t) ->
  exists c, descendant string t c /\ cname c = n /\ cabc c = false /\
            tag_matches p (cparam c) /\ tag_matches b (cbound c).
Proof. intros p b t n. rewrite C05_gen_select_candidates_is_model. apply select_candidates_sound. Qed.

Theorem C05_filters_complete : forall p b t c,
  descendant string t c -> cabc c = false ->
  tag_matches p (cparam c) -> tag_matches b (cbound c) ->
  In (cname c) (gen_select_candidates p b t).
Proof. intros p b t c. rewrite C05_gen_select_candidates_is_model. apply select_candidates_complete. Qed.

(* same order as a post-order listing of the descendants *)
Theorem C05_filters_order : forall p b t,
  gen_select_candidates p b t = map cname (filter (accepts string p b) (descendants string t)).
Proof. intros. rewrite C05_gen_select_candidates_is_model. apply select_candidates_spec. Qed.

(* the candidate lists of the current source, for every filter combination *)
Definition all_parametric := [None; Some PARAMETRIC; Some NON_PARAMETRIC].
Definition all_bounded := [None; Some UNBOUNDED; Some SEMI_BOUNDED; Some BOUNDED].
Definition candidate_table : list (list (list string)) :=
  map (fun p => map (fun b => gen_select_candidates p b gen_tree) all_bounded) all_parametric.

Open Scope string_scope.
Theorem C05_candidate_lists :
  candidate_table =
  [ (* parametric=None *)
    [ ["BetaUnivariate"; "GammaUnivariate"; "GaussianUnivariate"; "GaussianKDE"; "LogLaplace";
       "StudentTUnivariate"; "TruncatedGaussian"; "UniformUnivariate"];
      ["GaussianUnivariate"; "GaussianKDE"; "StudentTUnivariate"];
      ["GammaUnivariate"; "LogLaplace"];
      ["BetaUnivariate"; "TruncatedGaussian"; "UniformUnivariate"] ];
    (* PARAMETRIC *)
    [ ["BetaUnivariate"; "GammaUnivariate"; "GaussianUnivariate"; "LogLaplace";
       "StudentTUnivariate"; "TruncatedGaussian"; "UniformUnivariate"];
      ["GaussianUnivariate"; "StudentTUnivariate"];
      ["GammaUnivariate"; "LogLaplace"];
      ["BetaUnivariate"; "TruncatedGaussian"; "UniformUnivariate"] ];
    (* NON_PARAMETRIC *)
    [ ["GaussianKDE"]; ["GaussianKDE"]; []; [] ] ].
Proof. vm_compute. reflexivity. Qed.

(* the abstract ScipyModel is never a candidate although its (inherited) tags match *)
Theorem C05_abstract_excluded : forall p b, ~ In "ScipyModel" (gen_select_candidates p b gen_tree).
Proof.
  intros p b H. apply C05_filters_sound in H. destruct H as [c [Hd [Hn [Ha _]]]].
  apply descendants_spec in Hd. vm_compute in Hd.
  repeat (destruct Hd as [<-|Hd]; [try discriminate Hn; try discriminate Ha|]). exact Hd.
Qed.
Close Scope string_scope.

(* a NON-EMPTY explicit candidate list overrides the filters ... *)
Theorem C05_explicit_list_honoured : forall c cs p b t,
  gen_init_candidates (Some (c :: cs)) p b t = c :: cs.
Proof. reflexivity. Qed.
Theorem C05_no_list_uses_filters : forall p b t,
  gen_init_candidates None p b t = gen_select_candidates p b t.
Proof. reflexivity. Qed.
(* ... D2: the EMPTY explicit list does not: `candidates or ...` replaces it by the filtered subclasses *)
Theorem C05_empty_list_honoured_refuted :
  exists p b, gen_init_candidates (Some []) p b gen_tree <> [].
Proof. exists None, None. vm_compute. discriminate. Qed.
Theorem C05_empty_list_behaviour : forall p b t,
  gen_init_candidates (Some []) p b t = gen_select_candidates p b t.
Proof. reflexivity. Qed.

(* ================================================================== *)
(** * 4. per-column configuration, fresh instances, Gaussian fallback *)

Section Columns.
  Variables label dist fitted col : Type.
  Variable label_eqb : label -> label -> bool.
  Hypothesis label_eqb_spec : forall a b, label_eqb a b = true <-> a = b.
  Variable class_of_name : string -> dist.
  Variable instantiable : dist -> bool.
  Variable fit_dist : dist -> col -> option fitted.

  Notation get_dist := (gen_get_distribution_for_column label dist label_eqb class_of_name).
  Notation fit_col := (gen_fit_column dist fitted col class_of_name instantiable fit_dist).
  Notation fit_cols := (gen_fit_columns label dist fitted col label_eqb class_of_name instantiable fit_dist).
  Notation univariate_cls := (class_of_name "Univariate"%string).
  Notation gaussian_cls := (class_of_name "GaussianUnivariate"%string).

  (* a single configured distribution (class, qualified name or instance prototype) is used for every column *)
  Theorem C05_column_config_single : forall d c, get_dist (Single d) c = d.
  Proof. reflexivity. Qed.
  (* dict: a named column gets its entry, an unnamed column the default Univariate *)
  Theorem C05_column_config_dict_present : forall entries c d,
    NoDup (map fst entries) -> In (c, d) entries -> get_dist (PerColumn entries) c = d.
  Proof.
    intros. rewrite C05_gen_get_distribution_is_model.
    eapply column_config_dict_present; eauto.
  Qed.
  Theorem C05_column_config_dict_default : forall entries c,
    ~ In c (map fst entries) -> get_dist (PerColumn entries) c = univariate_cls.
  Proof.
    intros. rewrite C05_gen_get_distribution_is_model.
    eapply column_config_dict_default; eauto.
  Qed.

  (* the configured distribution fits: the column is modelled by it, no fallback *)
  Theorem C05_configured_used : forall column d f,
    instantiable d = true -> fit_dist d column = Some f -> fit_col column d = ColOk f false.
  Proof. intros. rewrite C05_gen_fit_column_is_model. apply fit_column_ok; auto. Qed.
  (* the configured distribution raises during fit: the column is modelled by a fitted GaussianUnivariate *)
  Theorem C05_fallback : forall column d g,
    instantiable d = true -> fit_dist d column = None -> fit_dist gaussian_cls column = Some g ->
    fit_col column d = ColOk g true.
  Proof. intros. rewrite C05_gen_fit_column_is_model. apply fit_with_fallback; auto. Qed.
  (* the only two ways _fit_column raises: get_instance(distribution) raises (outside the try), or the
     Gaussian fallback itself cannot be fitted *)
  Theorem C05_column_errors : forall column d e,
    fit_col column d = ColErr e ->
    (e = GetInstanceRaised /\ instantiable d = false) \/
    (e = FallbackRaised /\ instantiable d = true /\ fit_dist d column = None /\ fit_dist gaussian_cls column = None).
  Proof. intros column d e. rewrite C05_gen_fit_column_is_model. apply fit_column_errors. Qed.

  (* fit succeeds as soon as every configured distribution can be instantiated and the Gaussian can be
     fitted to every column; columns keep the frame order; the j-th univariate belongs to the j-th column *)
  Theorem C05_fit_succeeds : forall cfg items,
    (forall c column, In (c, column) items ->
        instantiable (get_dist cfg c) = true /\ fit_dist gaussian_cls column <> None) ->
    exists columns univariates, fit_cols cfg items = inl (columns, univariates).
  Proof.
    intros cfg items H. rewrite C05_gen_fit_columns_is_model. apply fit_columns_total.
    intros c column Hin. rewrite <- C05_gen_get_distribution_is_model. apply H; auto.
  Qed.
  Theorem C05_pairing : forall cfg items columns univariates,
    fit_cols cfg items = inl (columns, univariates) ->
    columns = map fst items /\ List.length univariates = List.length columns /\
    Forall2 (fun item f => exists fb, fit_col (snd item) (get_dist cfg (fst item)) = ColOk f fb) items univariates.
  Proof.
    intros cfg items columns univariates H. rewrite C05_gen_fit_columns_is_model in H.
    apply fit_columns_pairing in H. destruct H as [Hc [Hl HF]]. split; [exact Hc|]. split; [exact Hl|].
    clear Hc Hl. induction HF as [|item f items' us' Hhd Htl IH]; constructor; [|exact IH].
    destruct Hhd as [fb Hfb]. exists fb.
    rewrite C05_gen_fit_column_is_model, C05_gen_get_distribution_is_model. exact Hfb.
  Qed.
End Columns.

(* get_instance: class / resolvable qualified name / instance prototype give a NEW object of that class
   (the prototype's stored constructor arguments are re-used); None gives None; a bad name raises *)
Theorem C05_fresh_instance : forall qualname cls args (imp : qualname -> option cls) c a q,
  gen_get_instance qualname cls args imp (ArgType _ _ _ c) = Some (Inst _ _ c None) /\
  gen_get_instance qualname cls args imp (ArgInstance _ _ _ c a) = Some (Inst _ _ c (Some a)) /\
  (imp q = Some c -> gen_get_instance qualname cls args imp (ArgStr _ _ _ q) = Some (Inst _ _ c None)) /\
  (imp q = None -> gen_get_instance qualname cls args imp (ArgStr _ _ _ q) = None) /\
  gen_get_instance qualname cls args imp ArgNone = Some InstNone.
Proof.
  intros. rewrite !C05_gen_get_instance_is_model.
  destruct (get_instance_fresh qualname cls args imp c a q) as [H1 [H2 [H3 H4]]].
  repeat split; auto.
Qed.

(* ================================================================== *)
(** * non-vacuity *)
Example C05_demo_select :
  gen_select_univariate nat
    (fun m => match m with
              | 1 => Ks (3#10) | 2 => Ks (2#10) | 3 => KsNaN | 4 => Ks (1#5) | 5 => KsInf
              | _ => Raised end)%nat
    [0;1;2;3;4;5;6]%nat = FreshInstance 2%nat.
Proof. reflexivity. Qed.
Example C05_demo_all_fail :
  gen_univariate_fit nat (fun m => match m with 0%nat => Raised | _ => KsNaN end) (fun _ => true) [0;1;2]%nat
  = FitErr AttributeError_NoneType_fit.
Proof. reflexivity. Qed.
Example C05_demo_columns :
  gen_fit_columns nat nat nat nat Nat.eqb
     (fun s => if String.eqb s "GaussianUnivariate" then 9 else 0)%nat (fun _ => true)
     (fun d c => if Nat.eqb d 7 then None else Some (100 * d + c)%nat)
     (PerColumn [(1, 7)]%nat) [(1, 11); (2, 12)]%nat
  = inl ([1; 2]%nat, [911; 12]%nat).
Proof. reflexivity. Qed.

(* ================================================================== *)
(** * what the correspondence cases evaluate (CopRun.C05_eval, on Model.Select) is the generated code *)
Theorem C05_eval_select : forall l,
  run_select l = gen_select_univariate nat (oc_fun l) (seq 0 (List.length l)).
Proof.
  intros. unfold run_select. rewrite C05_gen_select_univariate_is_model.
  unfold select_univariate. rewrite select_best4_collapse. reflexivity.
Qed.
Theorem C05_eval_fit : forall l refits,
  run_fit l refits = gen_univariate_fit nat (oc_fun l) (fun m => nth m refits false) (seq 0 (List.length l)).
Proof. intros. unfold run_fit. rewrite C05_gen_univariate_fit_is_model. reflexivity. Qed.
Theorem C05_eval_candidates : forall e p b,
  run_candidates e p b = gen_init_candidates e p b gen_tree /\
  (forall t, run_walk p b t = gen_select_candidates p b t).
Proof.
  intros. split.
  - unfold run_candidates. rewrite C05_gen_init_candidates_is_model.
    rewrite (proj1 C05_tree_is_repo_tree). reflexivity.
  - intros t. unfold run_walk. rewrite C05_gen_select_candidates_is_model. reflexivity.
Qed.
Theorem C05_eval_columns : forall inst fits cfg items,
  run_columns inst fits cfg items =
  gen_fit_columns nat nat (nat * nat)%type nat Nat.eqb cls_of (fun d => nth d inst false)
    (fun d c => if nth c (nth d fits []) false then Some (d, c) else None) cfg items.
Proof. intros. unfold run_columns. rewrite C05_gen_fit_columns_is_model. reflexivity. Qed.

Print Assumptions C05_argmin.
Print Assumptions C05_all_fail.
Print Assumptions C05_fit_ok.
Print Assumptions C05_skips_failures.
Print Assumptions C05_none_order_independent.
Print Assumptions C05_min_ks_order_independent.
Print Assumptions C05_more_candidates_never_worse.
Print Assumptions C05_fit_all_fail_order_independent.
Print Assumptions C05_tree_is_repo_tree.
Print Assumptions C05_candidate_lists.
Print Assumptions C05_filters_sound.
Print Assumptions C05_filters_complete.
Print Assumptions C05_fallback.
Print Assumptions C05_fit_succeeds.
Print Assumptions C05_pairing.
Print Assumptions C05_fresh_instance.
Print Assumptions C05_eval_select.
Print Assumptions C05_eval_fit.
Print Assumptions C05_eval_candidates.
Print Assumptions C05_eval_columns.
