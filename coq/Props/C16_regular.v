(* C16 (continued) - the Prim loops of RegularTree generated from the AST equal the hand-written model, and with them the whole
   generated tree construction (get_tree dispatch, Tree.fit, VineCopula.train_vine, VineCopula.fit) for all three vine types.

   Gen_vinebuild.v is produced on every run by tools/vf/vinebuildgen.py + tools/vf/vineregulargen.py from the current source of
   copulas/multivariate/tree.py and vine.py; RegularTree._build_first_tree / ._build_kth_tree are the definitions gen_regular_first* /
   gen_regular_kth* (one per loop body and loop test).  The Python operations are denoted by coq/Lib/PyPrim.v (insertion-ordered sets,
   py_sorted_head, py_while), coq/Lib/PyMat.v, coq/Lib/PySet.v; the edge kernel is Gen_vinekernel.v.  This file imports C16_build.v (the
   bridges for _sort_tau_by_y, CenterTree, DirectTree) and is compiled after it.

   Every theorem is of the form  generated function = Model.Vine function, for ALL inputs (any n, tau matrices with NaN and ties, any
   previous tree, any level, any fuel).  Hypotheses, all stated where they are used:
     [sel_in sel]     what `sorted(adj_set, key=..)[0]` returns is an element of adj_set          (Spec.VineRegular; pick_py_sel_in)
     [sel_some sel]   it returns something when adj_set is not empty (k-th tree: Python tests `len(adj_set) == 0` where the model tests
                      the result of the selection)                                                 (pick_py_sel_some)
     [perm_fun order] the iteration order of adj_set is a permutation of its elements            (Spec.VineDefs)
     [n >= 1]         first tree only: for n_nodes = 0 Python raises IndexError (`sorted(set())[0]`) where the total function
                      Vine.regular_first_gen returns []
     [tie_len tie]    as in C16_build.v (C- and D-vines).
   The hypotheses about sel / order are needed because `X.add(edge[1])` adds to a SET (a no-op when the element is present) where
   Vine.prim_loop appends to a list: the two agree because the selected k is not in X, which is a fact about cands only if the selection
   returns one of the candidates it was given. *)
From Coq Require Import List Arith ZArith QArith Lia Bool Permutation.
From Cop Require Import Lib.FinGraph Model.Vine Spec.VineDefs Spec.VineSets Lib.PySet Lib.PyMat Spec.VineRegular Lib.PyPrim.
From CopRun Require Import Gen_vinekernel Gen_vinebuild C16_build.
Import ListNotations.
Open Scope nat_scope.

(* ================= facts about the generated edge kernel (as in C16.v) ================= *)
Lemma C16_bridge_kernel_check level e1 e2 : gen_check_constraint level e1 e2 = check_constraint level e1 e2.
Proof.
  unfold gen_check_constraint, check_constraint. cbv zeta.
  match goal with
  | |- (pyset_len ?s =? _) = _ => replace (pyset_len s) with (length (set_union (U e1) (U e2)))
  end.
  - reflexivity.
  - symmetry. apply pyset_len_eq; [apply incr_set_union|].
    intros v. unfold U. autorewrite with pyset. simpl. tauto.
Qed.

(* the key of the sort, `neg_tau[e[0]][e[1]]` with `neg_tau = -1.0 * abs(self.tau_matrix)`, IS Vine.neg_tau (by computation) *)
Theorem C16_bridge_regular_key :
  forall tau : tmat, (fun e : nat * nat => mat_neg (mat_abs (np_array tau)) (fst e) (snd e)) = neg_tau tau.
Proof. intros tau. reflexivity. Qed.
Print Assumptions C16_bridge_regular_key.

Lemma option_map_app_nil {A} (x : option (list A)) : option_map (app []) x = x.
Proof. destruct x; reflexivity. Qed.

(* ================= 1. RegularTree._build_first_tree ================= *)
(* `if k not in X and k != x: adj_set.add((x, k))` *)
Theorem C16_bridge_regular_first_adj_step :
  forall (V : list nat) (x : nat) (st : list (nat * nat)) (k : nat),
  gen_regular_first_loop3 V x st k = Some (adj_step V (fun _ _ => true) x st k).
Proof.
  intros V x st k. unfold gen_regular_first_loop3, adj_step. cbv zeta.
  destruct (negb (memb k V)); destruct (negb (k =? x)); reflexivity.
Qed.
Print Assumptions C16_bridge_regular_first_adj_step.

(* `adj_set = set(); for x in X: for k in range(self.n_nodes): ...` builds Vine.cands (x over X in insertion order, k ascending) *)
Theorem C16_bridge_regular_first_adj :
  forall (n : nat) (V : list nat), NoDup V ->
  py_for_opt (pyset_iter V) (gen_regular_first_loop2 n V) [] = Some (cands n (fun _ _ => true) V).
Proof.
  intros n V Hnd. rewrite <- (adj_cands n _ V Hnd). unfold pyset_iter.
  apply py_for_opt_some. intros s x _. unfold gen_regular_first_loop2. cbv zeta.
  rewrite (py_for_opt_some _ (adj_step V (fun _ _ => true) x)).
  - reflexivity.
  - intros s' k _. apply C16_bridge_regular_first_adj_step.
Qed.
Print Assumptions C16_bridge_regular_first_adj.

(* one round of `while len(X) != self.n_nodes`: state (X, self.edges) *)
Theorem C16_bridge_regular_first_step :
  forall (sel : sel_t) (order : order_t) (n : nat) (m : mat) (st : list nat * list edge),
  NoDup (fst st) ->
  gen_regular_first_loop1 sel order n m st = prim_first_step sel order n (fun e => m (fst e) (snd e)) st.
Proof.
  intros sel order n m [V es] Hnd. cbn [fst] in Hnd.
  unfold gen_regular_first_loop1, prim_first_step. cbv beta iota zeta.
  rewrite C16_bridge_regular_first_adj by assumption. unfold py_sorted_head.
  destruct (sel _ (order _)) as [p|]; [|reflexivity].
  rewrite py_sorted2_min_max. reflexivity.
Qed.
Print Assumptions C16_bridge_regular_first_step.

Theorem C16_bridge_regular_first_test :
  forall (n : nat) (st : list nat * list edge), gen_regular_first_loop1_test n st = prim_first_test n st.
Proof. intros n st. reflexivity. Qed.

(* the loop, for every fuel *)
Theorem C16_bridge_regular_first_fuel :
  forall (tie : tie_t) (sel : sel_t) (order : order_t) (fuel level n : nat) (tau : tmat) (prev : list edge),
  sel_in sel -> perm_fun order ->
  gen_regular_first_fuel fuel tie sel order level n (np_array tau) prev []
  = match prim_loop sel fuel n (fun _ _ => true) (neg_tau tau) order false [0] (seq 0 n) with
    | (tr, _, Done) => Some (map first_edge_of tr)
    | _ => None
    end.
Proof.
  intros tie sel order fuel level n tau prev Hin Hord.
  unfold gen_regular_first_fuel. cbv zeta.
  transitivity (option_map snd (py_while fuel (prim_first_test n) (prim_first_step sel order n (neg_tau tau)) ([0], []))).
  - rewrite (py_while_ext_inv (fun st => NoDup (fst st)) _ (prim_first_test n) _ (prim_first_step sel order n (neg_tau tau))).
    + destruct (py_while _ _ _ _) as [[a b]|]; reflexivity.
    + intros s _. apply C16_bridge_regular_first_test.
    + intros s Hs. exact (C16_bridge_regular_first_step sel order n (mat_neg (mat_abs (np_array tau))) s Hs).
    + intros s s' Hs E. eapply prim_first_step_inv; eauto.
    + cbn [fst]. constructor; [intros []|constructor].
  - exact (prim_first_while sel order n (neg_tau tau) Hin Hord fuel [0] (seq 0 n) []).
Qed.
Print Assumptions C16_bridge_regular_first_fuel.

(* RegularTree._build_first_tree = Vine.regular_first_run (the fuel is the right operand of the loop test) *)
Theorem C16_bridge_regular_first :
  forall (tie : tie_t) (sel : sel_t) (order : order_t) (level n : nat) (tau : tmat) (prev : list edge),
  sel_in sel -> perm_fun order ->
  gen_regular_first tie sel order level n (np_array tau) prev []
  = match regular_first_run sel n tau order with
    | (tr, _, Done) => Some (map first_edge_of tr)
    | _ => None
    end.
Proof.
  intros. unfold gen_regular_first, regular_first_run. now apply C16_bridge_regular_first_fuel.
Qed.
Print Assumptions C16_bridge_regular_first.

(* ... and the total function Vine.regular_first_gen wherever the Python loop can finish (Spec.VineRegular.regular_first_run_facts) *)
Theorem C16_bridge_regular_first_total :
  forall (tie : tie_t) (sel : sel_t) (order : order_t) (level n : nat) (tau : tmat) (prev : list edge),
  sel_in sel -> sel_some sel -> perm_fun order -> n >= 1 ->
  gen_regular_first tie sel order level n (np_array tau) prev [] = Some (regular_first_gen sel n tau order).
Proof.
  intros tie sel order level n tau prev Hin Hsome Hord Hn.
  rewrite C16_bridge_regular_first by assumption.
  pose proof (regular_first_run_facts sel n tau order Hin Hsome Hord Hn) as (_ & Hdone & _).
  unfold regular_first_gen. destruct (regular_first_run sel n tau order) as [[tr v] o].
  cbn [snd fst] in *. subst o. reflexivity.
Qed.
Print Assumptions C16_bridge_regular_first_total.

(* n_nodes = 0: Python raises IndexError in `sorted(adj_set, ..)[0]` (adj_set is empty), the total model function returns [] *)
Example C16_bridge_regular_first_n0 :
  forall tie order level tau prev,
  gen_regular_first tie pick_py order level 0 (np_array tau) prev [] = None /\ regular_first_gen pick_py 0 tau order = [].
Proof. intros. split; reflexivity. Qed.

(* ================= 2. RegularTree._build_kth_tree ================= *)
(* `if k not in visited and k != x and self._check_constraint(edges[x], edges[k]): adj_set.add((x, k))`, with both subscripts in range *)
Theorem C16_bridge_regular_kth_adj_step :
  forall (level : nat) (prev : list edge) (V : list nat) (x : nat) (st : list (nat * nat)) (k : nat),
  x < length prev -> k < length prev ->
  gen_regular_kth_loop3 level prev V x st k = Some (adj_step V (ok_kth level prev) x st k).
Proof.
  intros level prev V x st k Hx Hk.
  unfold gen_regular_kth_loop3, adj_step, ok_kth, py_getitem_pos. cbv zeta.
  destruct (nth_error prev x) as [a|] eqn:Ea; [|apply nth_error_None in Ea; lia].
  destruct (nth_error prev k) as [b|] eqn:Eb; [|apply nth_error_None in Eb; lia].
  cbv beta iota. cbn [snd]. rewrite C16_bridge_kernel_check.
  destruct (negb (memb k V)); destruct (negb (k =? x)); cbn [andb]; try reflexivity.
  destruct (check_constraint level a b); reflexivity.
Qed.
Print Assumptions C16_bridge_regular_kth_adj_step.

Theorem C16_bridge_regular_kth_adj :
  forall (level n : nat) (prev : list edge) (V : list nat),
  NoDup V -> (forall v, In v V -> v < n) -> n <= length prev ->
  py_for_opt (pyset_iter V) (gen_regular_kth_loop2 level n prev V) [] = Some (cands n (ok_kth level prev) V).
Proof.
  intros level n prev V Hnd HV Hn. rewrite <- (adj_cands n _ V Hnd). unfold pyset_iter.
  apply py_for_opt_some. intros s x Hx. unfold gen_regular_kth_loop2. cbv zeta.
  rewrite (py_for_opt_some _ (adj_step V (ok_kth level prev) x)).
  - reflexivity.
  - intros s' k Hk. unfold py_range in Hk. apply in_seq in Hk. specialize (HV x Hx).
    apply C16_bridge_regular_kth_adj_step; lia.
Qed.
Print Assumptions C16_bridge_regular_kth_adj.

(* one round of `while len(visited) != self.n_nodes`: state (visited, unvisited, self.edges) *)
Theorem C16_bridge_regular_kth_step :
  forall (sel : sel_t) (order : order_t) (level n : nat) (m : mat) (prev : list edge) (st : list nat * list nat * list edge),
  n <= length prev -> kth_inv n st ->
  gen_regular_kth_loop1 sel order level n prev m st = prim_kth_step sel order level n (fun e => m (fst e) (snd e)) prev st.
Proof.
  intros sel order level n m prev [[V unv] es] Hn (Hnd & HV & Hunv).
  unfold gen_regular_kth_loop1, prim_kth_step. cbv beta iota zeta.
  rewrite C16_bridge_regular_kth_adj by assumption.
  destruct (cands n (ok_kth level prev) V) as [|c r] eqn:Ec.
  - cbn [length Nat.eqb]. unfold py_getitem, pyset_list. destruct unv as [|u unv']; reflexivity.
  - cbn [length Nat.eqb]. unfold py_sorted_head.
    destruct (sel _ (order (c :: r))) as [p|]; [|reflexivity].
    unfold kth_edge_of, py_getitem_pos, nth_pair.
    destruct (nth_error prev (fst p)) as [a|]; [|reflexivity].
    destruct (nth_error prev (snd p)) as [b|]; [|reflexivity].
    rewrite C16_bridge_sort_edge_pos_model. unfold child_of_pair.
    destruct (sort_edge_by snd [(fst p, a); (snd p, b)]) as [|lp [|rp [|z t]]]; try reflexivity.
    rewrite C16_bridge_kernel_child_edge.
    destruct (get_child_edge (length V - 1) lp rp) as [e|]; reflexivity.
Qed.
Print Assumptions C16_bridge_regular_kth_step.

Theorem C16_bridge_regular_kth_test :
  forall (n : nat) (st : list nat * list nat * list edge), gen_regular_kth_loop1_test n st = prim_kth_test n st.
Proof. intros n st. reflexivity. Qed.

(* the previous tree is too short: `edges[k]` raises IndexError in the first round (the guard of Vine.regular_kth_fuel) *)
Lemma C16_bridge_regular_kth_guard_loop level n prev :
  2 <= n -> length prev < n ->
  py_for_opt (py_range n) (gen_regular_kth_loop3 level prev [0] 0) [] = None.
Proof.
  intros Hn Hp. unfold py_range.
  remember (Nat.max 1 (length prev)) as L eqn:HL.
  assert (HL1 : 1 <= L) by lia. assert (HL2 : length prev <= L) by lia. assert (HLn : L < n) by lia.
  assert (HL3 : L = 1 \/ L = length prev) by lia. clear HL.
  replace (seq 0 n) with (seq 0 L ++ L :: seq (S L) (n - S L)).
  2:{ replace n with (L + S (n - S L)) at 2 by lia. rewrite seq_app. reflexivity. }
  apply py_for_opt_none_at.
  - intros s k Hk. apply in_seq in Hk. unfold gen_regular_kth_loop3. cbv zeta.
    destruct k as [|k]; [cbn [memb existsb Nat.eqb orb negb]; discriminate|].
    assert (HLp : L = length prev) by lia.
    unfold py_getitem_pos.
    destruct (nth_error prev 0) as [a|] eqn:E0; [|apply nth_error_None in E0; lia].
    destruct (nth_error prev (S k)) as [b|] eqn:E1; [|apply nth_error_None in E1; lia].
    cbv beta iota. cbn [memb existsb Nat.eqb orb negb snd].
    destruct (gen_check_constraint level a b); discriminate.
  - intros s. unfold gen_regular_kth_loop3. cbv zeta.
    destruct L as [|L']; [lia|]. unfold py_getitem_pos.
    replace (nth_error prev (S L')) with (@None edge) by (symmetry; apply nth_error_None; lia).
    cbn [memb existsb Nat.eqb orb negb]. destruct (nth_error prev 0); reflexivity.
Qed.

Theorem C16_bridge_regular_kth_guard :
  forall (tie : tie_t) (sel : sel_t) (order : order_t) (fuel level n : nat) (m : mat) (prev edges : list edge),
  2 <= n -> length prev < n ->
  gen_regular_kth_fuel fuel tie sel order level n m prev edges = None.
Proof.
  intros tie sel order fuel level n m prev edges Hn Hp.
  unfold gen_regular_kth_fuel. cbv zeta.
  assert (T : gen_regular_kth_loop1_test n ([0], py_range n, edges) = true).
  { unfold gen_regular_kth_loop1_test. cbn [length]. apply negb_true_iff, Nat.eqb_neq. lia. }
  destruct fuel as [|f]; cbn [py_while]; rewrite T; [reflexivity|].
  assert (B : gen_regular_kth_loop1 sel order level n prev (mat_neg (mat_abs m)) ([0], py_range n, edges) = None).
  { unfold gen_regular_kth_loop1. cbv beta iota zeta. unfold pyset_iter. cbn [py_for_opt].
    unfold gen_regular_kth_loop2 at 1. cbv zeta.
    now rewrite C16_bridge_regular_kth_guard_loop. }
  now rewrite B.
Qed.
Print Assumptions C16_bridge_regular_kth_guard.

(* the loop with every subscript of the previous tree in range *)
Theorem C16_bridge_regular_kth_inrange :
  forall (tie : tie_t) (sel : sel_t) (order : order_t) (fuel level n : nat) (tau : tmat) (prev : list edge),
  sel_in sel -> sel_some sel -> perm_fun order -> 1 <= n -> n <= length prev ->
  gen_regular_kth_fuel fuel tie sel order level n (np_array tau) prev []
  = match regular_kth_run sel fuel level n tau prev order with
    | (tr, _, Done) => map_opt (kth_edge_of prev) tr
    | _ => None
    end.
Proof.
  intros tie sel order fuel level n tau prev Hin Hsome Hord Hn1 Hn.
  unfold gen_regular_kth_fuel, regular_kth_run. cbv zeta.
  transitivity (option_map snd (py_while fuel (prim_kth_test n) (prim_kth_step sel order level n (neg_tau tau) prev)
                                         ([0], seq 0 n, []))).
  - rewrite (py_while_ext_inv (kth_inv n) _ (prim_kth_test n) _ (prim_kth_step sel order level n (neg_tau tau) prev)).
    + unfold py_range. destruct (py_while _ _ _ _) as [[[a b] c]|]; reflexivity.
    + intros s _. apply C16_bridge_regular_kth_test.
    + intros s Hs. exact (C16_bridge_regular_kth_step sel order level n (mat_neg (mat_abs (np_array tau))) prev s Hn Hs).
    + intros s s' Hs E. eapply prim_kth_step_inv; eauto.
    + unfold kth_inv, py_range. repeat split.
      * constructor; [intros []|constructor].
      * intros v [<-|[]]. lia.
      * intros u Hu. apply in_seq in Hu. lia.
  - rewrite (prim_kth_while sel order n (neg_tau tau) Hin Hord Hsome level prev fuel [0] (seq 0 n) []).
    + destruct (prim_loop _ _ _ _ _ _ _ _ _) as [[tr v] o]. destruct o; try reflexivity. apply option_map_app_nil.
    + intros u Hu _. apply in_seq. lia.
Qed.
Print Assumptions C16_bridge_regular_kth_inrange.

(* RegularTree._build_kth_tree, for every fuel and EVERY previous tree = Vine.regular_kth_fuel *)
Theorem C16_bridge_regular_kth_fuel :
  forall (tie : tie_t) (sel : sel_t) (order : order_t) (fuel level n : nat) (tau : tmat) (prev : list edge),
  sel_in sel -> sel_some sel -> perm_fun order ->
  gen_regular_kth_fuel fuel tie sel order level n (np_array tau) prev [] = regular_kth_fuel sel fuel level n tau prev order.
Proof.
  intros tie sel order fuel level n tau prev Hin Hsome Hord. unfold regular_kth_fuel.
  destruct ((2 <=? n) && (length prev <? n)) eqn:G.
  - apply andb_prop in G. destruct G as [G1 G2]. apply Nat.leb_le in G1. apply Nat.ltb_lt in G2.
    now apply C16_bridge_regular_kth_guard.
  - destruct n as [|[|n']].
    + (* n_nodes = 0: `list(unvisited)[0]` raises IndexError *)
      unfold regular_kth_run. destruct fuel as [|f]; [reflexivity|].
      rewrite prim_loop_S. cbn [length Nat.eqb].
      change (cands 0 (ok_kth level prev) [0]) with (@nil (nat * nat)).
      rewrite (sel_order_nil sel order (neg_tau tau) Hin Hord). reflexivity.
    + (* n_nodes = 1: the loop is not entered *)
      unfold regular_kth_run. destruct fuel; reflexivity.
    + apply andb_false_iff in G. destruct G as [G|G]; [apply Nat.leb_gt in G; lia|].
      apply Nat.ltb_ge in G. apply C16_bridge_regular_kth_inrange; auto. lia.
Qed.
Print Assumptions C16_bridge_regular_kth_fuel.

Theorem C16_bridge_regular_kth :
  forall (tie : tie_t) (sel : sel_t) (order : order_t) (level n : nat) (tau : tmat) (prev : list edge),
  sel_in sel -> sel_some sel -> perm_fun order ->
  gen_regular_kth tie sel order level n (np_array tau) prev [] = regular_kth_opt_gen sel level n tau prev order.
Proof.
  intros. unfold gen_regular_kth, regular_kth_opt_gen. now apply C16_bridge_regular_kth_fuel.
Qed.
Print Assumptions C16_bridge_regular_kth.

Example C16_bridge_regular_nonvacuous :
  option_map (map show) (gen_regular_first id_tie pick_py id_order 1 4 (np_array tauA) [] [])
  = Some [(0, (0, 2), [], None); (1, (0, 1), [], None); (2, (1, 3), [], None)] /\
  option_map (map show) (gen_regular_kth id_tie pick_py id_order 2 3 (np_array tauA) (regular_first 4 tauA id_order) [])
  = Some [(0, (1, 2), [0], Some (1, 0)); (1, (0, 3), [1], Some (1, 2))] /\
  (* ties and a NaN row, reversed set order *)
  option_map (map show) (gen_regular_first id_tie pick_py (@rev _) 1 5 (np_array tauB) [] [])
  = Some (map show (regular_first 5 tauB (@rev _))) /\
  (* a previous tree that is too short: IndexError *)
  gen_regular_kth id_tie pick_py id_order 2 3 (np_array tauA) (firstn 2 (regular_first 4 tauA id_order)) [] = None.
Proof. vm_compute. repeat split; reflexivity. Qed.

(* ================= 3. get_tree dispatch, Tree.fit, VineCopula.train_vine, VineCopula.fit ================= *)
(* what the Prim loops need to know about `sorted(adj_set, key=..)[0]` *)
Definition regular_hyps (sel : sel_t) (order : order_t) : Prop := sel_in sel /\ sel_some sel /\ perm_fun order.

Lemma regular_hyps_pick_py order : perm_fun order -> regular_hyps pick_py order.
Proof. intros H. repeat split; auto using pick_py_sel_in, pick_py_sel_some. Qed.

(* get_tree + dynamic dispatch of self._build_first_tree(); the hypotheses about sel / order concern regular vines only *)
Theorem C16_bridge_build_first_tree :
  forall (tie : tie_t) (sel : sel_t) (order : order_t) (ty : vine_type) (level n : nat) (tau : tmat) (prev : list edge),
  tie_len tie -> (ty = Regular -> regular_hyps sel order /\ n >= 1) ->
  gen_build_first_tree ty tau tie sel order level n (np_array tau) prev [] = Some (first_tree tie sel ty n tau order).
Proof.
  intros tie sel order ty level n tau prev Ht Hr. destruct ty; cbn [gen_build_first_tree first_tree].
  - f_equal. now apply C16_bridge_center_first.
  - f_equal. apply C16_bridge_direct_first.
  - destruct (Hr eq_refl) as ((Hin & Hsome & Hord) & Hn). now apply C16_bridge_regular_first_total.
Qed.
Print Assumptions C16_bridge_build_first_tree.

Theorem C16_bridge_build_kth_tree :
  forall (tie : tie_t) (sel : sel_t) (order : order_t) (ty : vine_type) (level n : nat) (tau : tmat) (prev : list edge),
  tie_len tie -> (ty = Regular -> regular_hyps sel order) ->
  gen_build_kth_tree ty tau tie sel order level n (np_array tau) prev [] = kth_tree_opt tie sel ty level n tau prev order.
Proof.
  intros tie sel order ty level n tau prev Ht Hr. destruct ty; cbn [gen_build_kth_tree kth_tree_opt].
  - now apply C16_bridge_center_kth.
  - apply C16_bridge_direct_kth.
  - destruct (Hr eq_refl) as (Hin & Hsome & Hord). now apply C16_bridge_regular_kth.
Qed.
Print Assumptions C16_bridge_build_kth_tree.

(* Tree.fit(index, n_nodes, tau_matrix, previous_tree) with the default edges=None: level = index + 1, first tree iff level == 1 *)
Theorem C16_bridge_tree_fit_first :
  forall (tie : tie_t) (sel : sel_t) (order : order_t) (ty : vine_type) (n : nat) (tau : tmat) (prev : list edge),
  tie_len tie -> (ty = Regular -> regular_hyps sel order /\ n >= 1) ->
  gen_tree_fit tie sel order ty 0 n tau prev None = Some (first_tree tie sel ty n tau order).
Proof.
  intros tie sel order ty n tau prev Ht Hr. unfold gen_tree_fit. cbv zeta.
  cbn [py_or_nil py_not_list Nat.add Nat.eqb]. now rewrite C16_bridge_build_first_tree.
Qed.
Print Assumptions C16_bridge_tree_fit_first.

Theorem C16_bridge_tree_fit_kth :
  forall (tie : tie_t) (sel : sel_t) (order : order_t) (ty : vine_type) (k n : nat) (tau : tmat) (prev : list edge),
  tie_len tie -> (ty = Regular -> regular_hyps sel order) ->
  gen_tree_fit tie sel order ty (S k) n tau prev None = kth_tree_opt tie sel ty (S k + 1) n tau prev order.
Proof.
  intros tie sel order ty k n tau prev Ht Hr. unfold gen_tree_fit. cbv zeta.
  cbn [py_or_nil py_not_list].
  replace (S k + 1 =? 1) with false by (symmetry; apply Nat.eqb_neq; lia).
  rewrite C16_bridge_build_kth_tree by assumption. apply opt_eta.
Qed.
Print Assumptions C16_bridge_tree_fit_kth.

(* `self.edges = edges or []; if not self.edges: ...`: a non-empty `edges` argument is kept, nothing is built *)
Theorem C16_bridge_tree_fit_given :
  forall tie sel order ty index n tau prev (e : edge) (l : list edge),
  gen_tree_fit tie sel order ty index n tau prev (Some (e :: l)) = Some (e :: l).
Proof. intros. reflexivity. Qed.
Print Assumptions C16_bridge_tree_fit_given.

Theorem C16_bridge_tree_fit_given_empty :
  forall tie sel order ty index n tau prev,
  gen_tree_fit tie sel order ty index n tau prev (Some []) = gen_tree_fit tie sel order ty index n tau prev None.
Proof. intros. reflexivity. Qed.

(* the loop `for k in range(1, min(self.n_var - 1, self.truncated))` of train_vine; state = self.trees *)
Lemma C16_bridge_train_loop tie sel order ty d taus :
  tie_len tie -> (ty = Regular -> regular_hyps sel order) ->
  forall (cnt k : nat) (acc : list (list edge)) (prev : list edge),
  k >= 1 -> length acc = k - 1 ->
  py_for_opt (seq k cnt) (gen_train_vine_loop1 tie sel order ty d taus) (acc ++ [prev])
  = match train_rest tie sel ty d taus order cnt k prev with
    | Some ts => Some (acc ++ prev :: ts)
    | None => None
    end.
Proof.
  intros Ht Hr. induction cnt as [|c IH]; intros k acc prev Hk Hlen.
  - reflexivity.
  - cbn [seq py_for_opt train_rest].
    unfold gen_train_vine_loop1 at 1. cbv zeta. unfold py_getitem.
    rewrite nth_error_app2 by lia. replace (k - 1 - length acc) with 0 by lia. cbn [nth_error].
    replace (k - 1 + 1) with k by lia.
    destruct k as [|k']; [lia|].
    rewrite C16_bridge_tree_fit_kth by assumption.
    destruct (kth_tree_opt tie sel ty (S k' + 1) (d - S k') (taus (S k')) prev order) as [t|]; [|reflexivity].
    rewrite (IH (S (S k')) (acc ++ [prev]) t) by (try rewrite app_length; simpl; lia).
    destruct (train_rest tie sel ty d taus order c (S (S k')) t) as [ts|]; [|reflexivity].
    rewrite <- app_assoc. reflexivity.
Qed.

Theorem C16_bridge_train_vine :
  forall (tie : tie_t) (sel : sel_t) (order : order_t) (ty : vine_type) (d t : nat) (taus : nat -> tmat),
  tie_len tie -> (ty = Regular -> regular_hyps sel order /\ d >= 1) ->
  gen_train_vine tie sel order ty d t taus [] = train_vine_gen_opt tie sel ty d t taus order.
Proof.
  intros tie sel order ty d t taus Ht Hr. unfold gen_train_vine, train_vine_gen_opt. cbv zeta.
  rewrite C16_bridge_tree_fit_first by assumption.
  unfold py_range2.
  rewrite (C16_bridge_train_loop tie sel order ty d taus Ht (fun E => proj1 (Hr E)) (Nat.min (d - 1) t - 1) 1 [] _) by (simpl; lia).
  destruct (train_rest _ _ _ _ _ _ _ _ _) as [ts|]; reflexivity.
Qed.
Print Assumptions C16_bridge_train_vine.

(* VineCopula.fit: self.truncated = truncated; self.trees = []; self.train_vine(self.vine_type) *)
Theorem C16_bridge_vine_fit :
  forall (tie : tie_t) (sel : sel_t) (order : order_t) (ty : vine_type) (d t : nat) (taus : nat -> tmat),
  tie_len tie -> (ty = Regular -> regular_hyps sel order /\ d >= 1) ->
  gen_vine_fit tie sel order ty d t taus = train_vine_gen_opt tie sel ty d t taus order.
Proof. intros. unfold gen_vine_fit. cbv zeta. now apply C16_bridge_train_vine. Qed.
Print Assumptions C16_bridge_vine_fit.

(* C- and D-vines: no hypothesis about sel / order (the statements of C16_build.v before the Prim loops were generated) *)
Corollary C16_bridge_vine_fit_center_direct :
  forall (tie : tie_t) (sel : sel_t) (order : order_t) (ty : vine_type) (d t : nat) (taus : nat -> tmat),
  tie_len tie -> ty <> Regular ->
  gen_vine_fit tie sel order ty d t taus = train_vine_gen_opt tie sel ty d t taus order.
Proof. intros. apply C16_bridge_vine_fit; auto. intros E. contradiction. Qed.
Print Assumptions C16_bridge_vine_fit_center_direct.

(* with numpy's stable tie-breaking and CPython's sort: the un-suffixed model *)
Corollary C16_bridge_vine_fit_stable :
  forall (order : order_t) (ty : vine_type) (d t : nat) (taus : nat -> tmat),
  (ty = Regular -> perm_fun order /\ d >= 1) ->
  gen_vine_fit id_tie pick_py order ty d t taus = train_vine_opt ty d t taus order.
Proof.
  intros order ty d t taus Hr. apply C16_bridge_vine_fit; [apply tie_len_id|].
  intros E. destruct (Hr E) as [Ho Hd]. split; auto using regular_hyps_pick_py.
Qed.
Print Assumptions C16_bridge_vine_fit_stable.

Example C16_bridge_train_nonvacuous :
  show_vine (gen_vine_fit id_tie pick_py id_order Direct 4 3 (fun _ => tauA))
  = Some
      [[(0, (2, 3), [], None); (1, (0, 2), [], None); (2, (0, 1), [], None)];
       [(0, (0, 3), [2], Some (1, 0)); (1, (1, 2), [0], Some (2, 1))];
       [(0, (1, 3), [0; 2], Some (0, 1))]] /\
  option_map (@length _) (gen_vine_fit id_tie pick_py id_order Center 5 2 (fun _ => tauB)) = Some 2 /\
  option_map (@length _) (gen_vine_fit id_tie pick_py id_order Center 5 0 (fun _ => tauB)) = Some 1 /\
  show_vine (gen_vine_fit id_tie pick_py id_order Regular 4 3 (fun _ => tauA))
  = Some
      [[(0, (0, 2), [], None); (1, (0, 1), [], None); (2, (1, 3), [], None)];
       [(0, (1, 2), [0], Some (1, 0)); (1, (0, 3), [1], Some (1, 2))];
       [(0, (2, 3), [0; 1], Some (1, 0))]] /\
  show_vine (gen_vine_fit id_tie pick_py (@rev _) Regular 5 9 (fun _ => tauB))
  = show_vine (train_vine_opt Regular 5 9 (fun _ => tauB) (@rev _)).
Proof. vm_compute. repeat split; reflexivity. Qed.
