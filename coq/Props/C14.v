(* C14 — serialisation round-trips preserve every model's observable behaviour.

   Mechanism model: Cop.Model.Lifecycle (hand-written executable transcription of to_dict / from_dict /
   _set_params / _get_params / get_instance / Bivariate.__new__ with its class-level `_subclasses` cache,
   GaussianMultivariate.to_dict/from_dict, Multivariate.from_dict), theorems in Cop.Spec.LifecycleProofs,
   vine / tree / edge dicts in Cop.Spec.VineSerial.  Tied to the CURRENT source on every run by
     (a) CopRun.Gen_serialfacts: the key sets every to_dict emits and every from_dict/_set_params consumes,
         extracted from the AST (tools/vf/serial.py) and proved below (vm_compute) to be the model's, and
     (b) the differential correspondence of tools/vf/props/C14.py: real round trips (dict, JSON text,
         pickle / JSON files, n = 1..3) whose dicts and reconstructed states are compared with
         vm_compute of to_dict_* / from_dict_* on the abstraction of the real objects.
   pickle and json are oracles: pickle = deep copy of the attribute record (checked: the abstraction of the
   loaded object equals the abstraction of the saved one), json = identity on json_safe values (checked). *)
From Coq Require Import ZArith QArith List String Bool Lia.
From Cop Require Import Model.Lifecycle Spec.LifecycleProofs Spec.VineSerial.
From CopRun Require Import Gen_serialfacts.
Import ListNotations.
Open Scope string_scope.
Open Scope list_scope.

(* ===================================================================================================== *)
(* 1. Round trip through to_dict / from_dict : parameters, class, idempotence                             *)
(* ===================================================================================================== *)
Theorem C14_roundtrip_params_scipy : forall s p j s',
  s_fitted s = true -> s_params s = Some p -> lookup "type" p = None ->
  to_dict_scipy s = Ok j -> from_dict_scipy j = Ok s' ->
  to_dict_scipy s' = Ok j /\ s_fam s' = s_fam s.
Proof. exact roundtrip_params_scipy. Qed.

Theorem C14_rt_idempotent : forall s p s',
  s_params s = Some p -> lookup "type" p = None -> rt s = Ok s' -> rt s' = Ok s'.
Proof. exact rt_idempotent. Qed.

(* any number n >= 1 of round trips yields the object of the first one *)
Theorem C14_roundtrip_n_scipy : forall n s p s',
  s_params s = Some p -> lookup "type" p = None -> rt s = Ok s' -> rt_n (S n) s = Ok s'.
Proof. exact roundtrip_n_scipy. Qed.

(* behaviour: for CONSISTENT states (overrides agree with the parameters, the KDE object is the
   default-option one, no seed) the round trip exists and is observationally the identity
   (to_dict, cdf, pdf, ppf, log-pdf, sample selector) *)
Theorem C14_roundtrip_observe_scipy : forall s p,
  consistent s p -> exists s', rt s = Ok s' /\ observe_s s' = observe_s s.
Proof. exact roundtrip_observe_scipy. Qed.

Section Oracles.
  Variable o_sfit : family -> data -> list Q -> list Q.
  Variable o_tg_opt : data -> Q -> Q -> Q * Q.
  Variable o_tolist : data -> list Q.
  Variable o_resample : data -> jv -> jv -> nat -> grng -> list Q.
  Variable o_select : data -> list cand -> option nat.
  Variable o_choice : data -> nat -> grng -> data.
  Variable o_frank_theta : Q -> result jv.
  Notation fit := (fit_scipy o_sfit o_tg_opt o_tolist o_resample).
  Notation fitw := (fit_wrapper o_sfit o_tg_opt o_tolist o_resample o_select o_choice).

  (* a first fit of a default-constructed instance round-trips with unchanged behaviour PROVIDED scipy did
     not return parameters that are degenerate in the wrong way (the refutations below show the proviso
     is necessary: StudentT on constant data, np.std underflow) *)
  Theorem C14_roundtrip_after_fit : forall f X g p,
    let s := st (fit (fresh f) X g) in
    er (fit (fresh f) X g) = None ->
    s_params s = Some p -> lookup "type" p = None ->
    is_constant f p = Ok (match d_const X with Some _ => true | None => false end) ->
    (forall c, d_const X = Some c -> extract_constant f p = Ok (qj c)) ->
    exists s', rt s = Ok s' /\ observe_s s' = observe_s s.
  Proof. exact (roundtrip_after_fit o_sfit o_tg_opt o_tolist o_resample). Qed.

  Theorem C14_roundtrip_const_fit : forall f X c g,
    f <> FStudentT -> f <> FUniform -> f <> FKDE -> d_const X = Some c ->
    let s := st (fit (fresh f) X g) in
    exists s', rt s = Ok s' /\ observe_s s' = observe_s s.
  Proof. exact (roundtrip_const_fit o_sfit o_tg_opt o_tolist o_resample). Qed.

  Theorem C14_roundtrip_uniform_fit : forall X g,
    wf_data X = true ->
    let s := st (fit (fresh FUniform) X g) in
    exists s', rt s = Ok s' /\ observe_s s' = observe_s s.
  Proof. exact (roundtrip_uniform_fit o_sfit o_tg_opt o_tolist o_resample). Qed.

  Theorem C14_roundtrip_kde_const_fit : forall X c g,
    (1 <= d_n X)%nat -> d_const X = Some c ->
    let s := st (fit (fresh FKDE) X g) in
    exists s', rt s = Ok s' /\ observe_s s' = observe_s s.
  Proof. exact (roundtrip_kde_const_fit o_sfit o_tg_opt o_tolist o_resample). Qed.

  (* the selecting Univariate wrapper serialises as, and reconstructs as, the family it selected *)
  Theorem C14_wrapper_roundtrip : forall u X g,
    er (fitw u X g) = None ->
    let u' := fst (fst (fitw u X g)) in
    exists s j, u_instance u' = Some s /\ to_dict_wrapper u' = Ok j /\
      forall p s', s_params s = Some p -> lookup "type" p = None ->
                   from_dict_scipy j = Ok s' ->
                   s_fam s' = s_fam s /\ to_dict_scipy s' = Ok j.
  Proof. exact (wrapper_roundtrip o_sfit o_tg_opt o_tolist o_resample o_select o_choice). Qed.

  (* JSON clause: the dicts contain no Python set *)
  Theorem C14_json_safe_scipy : forall s X g j,
    er (fit s X g) = None -> to_dict_scipy (st (fit s X g)) = Ok j -> json_safe j = true.
  Proof. exact (json_safe_scipy_after_fit o_sfit o_tg_opt o_tolist o_resample). Qed.

  Theorem C14_json_safe_biv_after_fit : forall b X j,
    json_safe (b_theta b) = true -> json_safe (b_tau b) = true -> json_safe (p_tau X) = true ->
    (forall q th, o_frank_theta q = Ok th -> json_safe th = true) ->
    to_dict_biv (fst (fit_biv o_frank_theta b X)) = Ok j -> json_safe j = true.
  Proof. exact (json_safe_biv_after_fit o_frank_theta). Qed.
End Oracles.

Theorem C14_wrapper_serialises_as_instance : forall u s,
  u_fitted u = true -> u_instance u = Some s -> s_fitted s = true ->
  to_dict_wrapper u = to_dict_scipy s.
Proof. exact wrapper_serialises_as_instance. Qed.

(* ---- bivariate ---- *)
Theorem C14_roundtrip_biv : forall w t th ta,
  t <> Independence ->
  from_dict_biv w None (biv_dict t th ta)
  = (mkBW true (bw_own_empty w) (bw_indep_imported w), Ok (mkB (Some t) th ta None true)).
Proof. exact roundtrip_biv. Qed.

Theorem C14_roundtrip_params_biv : forall w b t j,
  b_cls b = Some t -> t <> Independence -> to_dict_biv b = Ok j ->
  exists w' b', from_dict_biv w None j = (w', Ok b') /\
                to_dict_biv b' = Ok j /\ b_cls b' = Some t /\
                observe_b b' = observe_b (mkB (Some t) (b_theta b) (b_tau b) None true).
Proof. exact roundtrip_params_biv. Qed.

Theorem C14_roundtrip_n_biv : forall n w t th ta rs i,
  t <> Independence ->
  snd (rt_biv_n (S n) w (mkB (Some t) th ta rs i)) = Ok (mkB (Some t) th ta None true).
Proof. exact roundtrip_n_biv. Qed.

Theorem C14_json_safe_biv : forall b j,
  to_dict_biv b = Ok j -> json_safe (b_theta b) = true -> json_safe (b_tau b) = true -> json_safe j = true.
Proof. exact json_safe_biv. Qed.

(* ---- Gaussian multivariate ---- *)
Theorem C14_roundtrip_params_gm : forall x j x',
  (forall us, g_univariates x = Some us -> Forall good_u us) ->
  to_dict_gm x = Ok j -> from_dict_gm j = Ok x' ->
  to_dict_gm x' = Ok j /\ g_fitted x' = true /\
  (forall us, g_univariates x' = Some us -> Forall good_u us).
Proof. exact roundtrip_params_gm. Qed.

Theorem C14_roundtrip_observe_gm : forall x cols us corr,
  g_fitted x = true -> g_rs x = None ->
  g_columns x = Some cols -> g_univariates x = Some us -> g_corr x = Some corr ->
  Forall consistent_u us ->
  exists j x', to_dict_gm x = Ok j /\ from_dict_multivariate j = Ok x' /\
               to_dict_gm x' = Ok j /\ observe_g x' = observe_g x.
Proof. exact roundtrip_observe_gm. Qed.

Theorem C14_json_safe_gm : forall x j,
  to_dict_gm x = Ok j ->
  (forall cols c, g_columns x = Some cols -> In c cols -> json_safe c = true) ->
  (forall corr row c, g_corr x = Some corr -> In row corr -> In c row -> json_safe c = true) ->
  (forall us u d, g_univariates x = Some us -> In u us -> to_dict_u u = Ok d -> json_safe d = true) ->
  json_safe j = true.
Proof. exact json_safe_gm. Qed.

(* ===================================================================================================== *)
(* 2. Dispatch of the generic entry points                                                                *)
(* ===================================================================================================== *)
Theorem C14_dispatch_univariate : forall f p s',
  lookup "type" p = None ->
  from_dict_scipy (JDict (dict_set "type" (JStr (fqn (KFam f))) p)) = Ok s' -> s_fam s' = f.
Proof. exact dispatch_univariate. Qed.

Theorem C14_dispatch_univariate_wrapper_name : forall p,
  lookup "type" p = None ->
  from_dict_scipy (JDict (dict_set "type" (JStr (fqn KWrapper)) p)) = Err NotImplementedErr.
Proof. exact dispatch_univariate_wrapper_name. Qed.

Theorem C14_dispatch_multivariate : forall d,
  lookup "type" d = Some (JStr (fqn KGM)) ->
  from_dict_multivariate (JDict d) = from_dict_gm (JDict d).
Proof. exact dispatch_multivariate. Qed.

Theorem C14_dispatch_resolves_every_written_name : forall c, resolve_name (fqn c) = Ok c.
Proof. exact resolve_fqn. Qed.

(* ===================================================================================================== *)
(* 3. Unfitted models                                                                                     *)
(* ===================================================================================================== *)
Theorem C14_unfitted_scipy : forall f a k s q n g,
  new_scipy f a k = Ok s ->
  query_scipy s q n g = (s, g, ObsErr NotFitted) /\ to_dict_scipy s = Err NotFitted.
Proof. exact unfitted_raises_scipy. Qed.
Theorem C14_unfitted_wrapper : forall a k u q n g,
  new_wrapper a k = Ok u ->
  query_wrapper u q n g = (u, g, ObsErr NotFitted) /\ to_dict_wrapper u = Err NotFitted.
Proof. exact unfitted_raises_wrapper. Qed.
Theorem C14_unfitted_gm : forall a k x q n g,
  new_gm a k = Ok x ->
  query_gm x q n g = (x, g, ObsErr NotFitted) /\ to_dict_gm x = Err NotFitted.
Proof. exact unfitted_raises_gm. Qed.
(* Bivariate.to_dict has no check_fit: an unfitted copula serialises (theta = tau = None) and
   round-trips to an unfitted copula *)
Theorem C14_unfitted_biv_to_dict : forall t rs i,
  to_dict_biv (mkB (Some t) JNone JNone rs i)
  = Ok (JDict [("copula_type", JStr (ctype_NAME t)); ("theta", JNone); ("tau", JNone)]).
Proof. exact unfitted_biv_to_dict_refuted. Qed.
Theorem C14_unfitted_biv_roundtrip : forall w t rs i j,
  t <> Independence -> to_dict_biv (mkB (Some t) JNone JNone rs i) = Ok j ->
  exists w' b', from_dict_biv w None j = (w', Ok b') /\ theta_unset b' = true /\
                forall k n g, query_biv b' k n g = (b', g, ObsErr NotFitted).
Proof.
  intros w t rs i j Ht Hd. rewrite unfitted_biv_to_dict_refuted in Hd. inversion Hd; subst j.
  eexists; eexists. split; [apply (roundtrip_biv w t JNone JNone Ht)|]. split; [reflexivity|].
  intros k n g. apply (unfitted_raises_biv _ t); auto.
Qed.
(* vine / tree: an unfitted object serialises to the three header keys and round-trips to unfitted *)
Theorem C14_unfitted_tree : forall ty prev,
  tree_to_dict (mkTree ty None) = Ok (PDict (tree_header ty false)) /\
  tree_from_dict (PDict (tree_header ty false)) prev = Ok (mkTree ty None).
Proof. exact unfitted_tree_roundtrip. Qed.
Theorem C14_unfitted_vine : forall vt rs,
  vine_to_dict (mkVine vt rs None) = Ok (vine_header vt false) /\
  vine_of_dict (vine_header vt false) = Ok (mkVine vt None None).
Proof. exact unfitted_vine_roundtrip. Qed.

(* ===================================================================================================== *)
(* 4. Vines: edges (parents restored recursively), tree re-linking                                         *)
(* ===================================================================================================== *)
Theorem C14_edge_roundtrip : forall e, wf_edge e = true -> edge_of_dict (edge_to_dict e) = Ok e.
Proof. exact edge_roundtrip. Qed.
(* _deserialize_trees: previous_tree of tree k is the OBJECT rebuilt at position k-1, the first tree keeps
   its u-matrix, every edge is restored with its parents *)
Theorem C14_vine_relink : forall ts ds,
  chained ts = true -> all_ok (map tree_to_dict ts) = Ok ds -> deserialize_trees ds = Ok ts.
Proof. exact vine_relink. Qed.
Theorem C14_vine_to_dict_roundtrip : forall v d v',
  wf_vine v = true ->
  (forall b, v_body v = Some b -> Forall good_s (vb_unis b)) ->
  vine_to_dict v = Ok d -> vine_of_dict d = Ok v' ->
  vine_to_dict v' = Ok d /\ v_trees v' = v_trees v /\ v_type v' = v_type v.
Proof. exact vine_to_dict_roundtrip. Qed.
(* Edge.to_dict emits the conditioning set D as a Python set (and the copula / tree types as Enum
   members): a vine dict is NOT JSON-serialisable - which is why the JSON clause excludes vines *)
Theorem C14_edge_dict_not_json_safe : forall e, pv_json_safe (edge_to_dict e) = false.
Proof. exact edge_dict_not_json_safe_pv. Qed.
Theorem C14_edge_dict_not_json_safe_example :
  json_safe (JDict [("index", JNum 0); ("D", JSet [1%nat; 2%nat]); ("theta", JNum 2)]) = false.
Proof. exact edge_dict_not_json_safe. Qed.

(* ===================================================================================================== *)
(* 5. Refutations (each witness, replayed on the implementation, is a finding) and repaired defects          *)
(* ===================================================================================================== *)
(* F15: GaussianKDE(bw_method=0.3): to_dict stores only the dataset *)
Theorem C14_roundtrip_kde_options_refuted :
  exists s0 s s', new_scipy FKDE [] [("bw_method", JNum (3 # 10))] = Ok s0 /\
    sfit s0 Stub.X1 [] = (s, [], None) /\ rt s = Ok s' /\
    to_dict_scipy s' = to_dict_scipy s /\ observe_s s' <> observe_s s /\
    (exists m, s_model s = Some m /\ km_bw m = JNum (3 # 10)) /\
    (exists m, s_model s' = Some m /\ km_bw m = JNone).
Proof. exact roundtrip_kde_options_refuted. Qed.
Theorem C14_roundtrip_kde_weights_refuted :
  exists s0 s s', new_scipy FKDE [] [("weights", JList [JNum 1; JNum 1; JNum 1; JNum 1; JNum 1; JNum 5])] = Ok s0 /\
    sfit s0 Stub.X1 [] = (s, [], None) /\ rt s = Ok s' /\ observe_s s' <> observe_s s.
Proof. exact roundtrip_kde_weights_refuted. Qed.
(* F26: GaussianKDE(sample_size=10): the dataset is the nested list [[..10..]]; the copy caches
   _sample_size = len(dataset) = 1: same behaviour now, but its next fit raises *)
Theorem C14_roundtrip_kde_hidden_state_refuted :
  exists s0 s s', new_scipy FKDE [] [("sample_size", natj 10)] = Ok s0 /\
    sst (sfit s0 Stub.X50 []) = s /\ rt s = Ok s' /\
    observe_s s' = observe_s s /\
    s_ss s = natj 10 /\ s_ss s' = natj 1 /\
    er (sfit s Stub.X50 []) = None /\ er (sfit s' Stub.X50 []) = Some ValueErr.
Proof. exact roundtrip_kde_hidden_state_refuted. Qed.
(* F25: StudentTUnivariate on constant data stores t.fit's loc, the constant is re-read from loc *)
Theorem C14_roundtrip_studentt_constant_refuted :
  exists s s', s = sst (fit_scipy sfit_t Stub.tg_opt Stub.tolist Stub.resample (fresh FStudentT) Xbig []) /\
    rt s = Ok s' /\ observe_s s' <> observe_s s /\
    s_const s = Some (JNum (10000003 # 10)) /\ s_const s' = Some (JNum (-1571)).
Proof. exact roundtrip_studentt_constant_refuted. Qed.
(* F5 (fixed: a non-constant fit clears the degenerate overrides): [fit const; fit X] now round-trips with
   unchanged behaviour - kept as a positive theorem; a regression is reported by the oracle under the F5: key *)
Theorem C14_roundtrip_observe_after_refit :
  exists s s', s = sst (sfit (srun (fresh FGaussian) [Stub.Xc]) Stub.X1 []) /\
    rt s = Ok s' /\ to_dict_scipy s' = to_dict_scipy s /\ observe_s s' = observe_s s /\
    sm_cdf (observe_s s) = ObsScipy QCdf FGaussian [("loc", JNum 4); ("scale", JNum (3 # 2))] /\
    sm_cdf (observe_s s') = ObsScipy QCdf FGaussian [("loc", JNum 4); ("scale", JNum (3 # 2))].
Proof. exact roundtrip_observe_after_refit_fixed. Qed.
(* np.std underflows to 0 on non-constant data: the copy is degenerate, the original is not *)
Theorem C14_roundtrip_gaussian_underflow_refuted :
  exists s s', s = sst (fit_scipy sfit_0 Stub.tg_opt Stub.tolist Stub.resample (fresh FGaussian) Stub.X1 []) /\
    rt s = Ok s' /\ s_ov s = no_ov /\ s_ov s' = all_ov /\ observe_s s' <> observe_s s.
Proof. exact roundtrip_gaussian_underflow_refuted. Qed.
(* F24 (fixed: from_dict builds through the base-class factory): from_dict / load called on a SUBCLASS is the
   generic entry point, in every class-cache state; a regression is reported by the oracle under the F24: key *)
Theorem C14_dispatch_subclass_entry : forall w c j, from_dict_biv w (Some c) j = from_dict_biv w None j.
Proof. exact subclass_from_dict_fixed. Qed.
Theorem C14_subclass_from_dict_roundtrip : forall w c t th ta, t <> Independence ->
  from_dict_biv w (Some c) (biv_dict t th ta)
  = (mkBW true (bw_own_empty w) (bw_indep_imported w), Ok (mkB (Some t) th ta None true)).
Proof. exact subclass_from_dict_roundtrip. Qed.
Theorem C14_subclass_from_dict_history_independent : forall th ta,
  from_dict_biv bworld0 (Some Frank) (biv_dict Frank th ta) = (mkBW true [] false, Ok (mkB (Some Frank) th ta None true)) /\
  from_dict_biv (mkBW true [Frank] false) (Some Frank) (biv_dict Frank th ta)
  = (mkBW true [Frank] false, Ok (mkB (Some Frank) th ta None true)) /\
  from_dict_biv (mkBW true [Frank] false) (Some Clayton) (biv_dict Frank th ta)
  = (mkBW true [Frank] false, Ok (mkB (Some Frank) th ta None true)).
Proof. exact subclass_from_dict_history_independent. Qed.
(* Independence is a member of CopulaTypes but its module is not imported by the package *)
Theorem C14_dispatch_independence_refuted : forall th ta,
  new_biv bworld0 None [("copula_type", JStr "independence")] = (mkBW true [] false, Ok None) /\
  from_dict_biv bworld0 None (biv_dict Independence th ta) = (mkBW true [] false, Err AttributeErr).
Proof. exact dispatch_independence_refuted. Qed.
(* Multivariate.from_dict on a vine dict: dispatched to VineCopula.from_dict (since the F38 fix the recorded class is resolved
   without being instantiated; before, VineCopula() was called without vine_type: TypeError) ... *)
Theorem C14_dispatch_multivariate_vine : forall v d,
  vine_to_dict v = Ok d -> multivariate_from_dict_vine d = vine_of_dict d.
Proof. exact dispatch_multivariate_vine. Qed.
(* ... hence the generic entry point round-trips every well-formed vine: same dict again, same trees, same type *)
Theorem C14_generic_vine_roundtrip : forall v d v',
  wf_vine v = true ->
  (forall b, v_body v = Some b -> Forall good_s (vb_unis b)) ->
  vine_to_dict v = Ok d -> multivariate_from_dict_vine d = Ok v' ->
  vine_to_dict v' = Ok d /\ v_trees v' = v_trees v /\ v_type v' = v_type v.
Proof.
  intros v d v' Hw Hg Hd Hr. rewrite (dispatch_multivariate_vine v d Hd) in Hr.
  exact (vine_to_dict_roundtrip v d v' Hw Hg Hd Hr).
Qed.
(* by design: to_dict does not carry random_state (pickle does) *)
Theorem C14_roundtrip_drops_random_state :
  exists s0 s s', new_scipy FGaussian [] [("random_state", natj 42)] = Ok s0 /\
    sst (sfit s0 Stub.X1 []) = s /\ rt s = Ok s' /\
    s_rs s = Some (42%Z, []) /\ s_rs s' = None /\ sm_sample (observe_s s') <> sm_sample (observe_s s).
Proof. exact roundtrip_drops_random_state. Qed.

(* ===================================================================================================== *)
(* 6. AST-generated key facts: the model's keys ARE the keys of the current source                        *)
(* ===================================================================================================== *)
Definition gl (k : string) (l : list (string * list string)) : list string :=
  match lookup k l with Some x => x | None => [] end.
Definition gb (k : string) (l : list (string * bool)) : option bool := lookup k l.
Definition mem (k : string) (l : list string) : bool := existsb (String.eqb k) l.
Definition subset (a b : list string) : bool := forallb (fun k => mem k b) a.
Definition same_set (a b : list string) : bool := subset a b && subset b a.
Definition minus (a b : list string) : list string := filter (fun k => negb (mem k b)) a.
Definition families : list family := [FGaussian; FUniform; FBeta; FGamma; FStudentT; FLogLaplace; FTrunc; FKDE].
Lemma families_all : forall f, In f families.
Proof. destruct f; simpl; tauto. Qed.
Lemma forall_family (P : family -> bool) : forallb P families = true -> forall f, P f = true.
Proof. intros H f. rewrite forallb_forall in H. apply H. apply families_all. Qed.

Definition fitted_on (f : family) (X : data) : sinst := fst (fst (Stub.fit_scipy (fresh f) X [])).
Definition params_on (f : family) (X : data) : params :=
  match s_params (fitted_on f X) with Some p => p | None => [] end.
Definition dict_keys (r : result jv) : option (list string) :=
  match r with Ok (JDict d) => Some (map fst d) | _ => None end.
Definition list_eqb (a b : list string) : bool :=
  (List.length a =? List.length b)%nat && forallb (fun xy => String.eqb (fst xy) (snd xy)) (combine a b).
Lemma list_eqb_eq : forall a b, list_eqb a b = true -> a = b.
Proof.
  induction a as [|x a IH]; destruct b as [|y b]; unfold list_eqb; simpl; try discriminate; auto.
  intro H. apply andb_true_iff in H. destruct H as [H1 H2]. apply andb_true_iff in H2. destruct H2 as [H2 H3].
  apply String.eqb_eq in H2. subst y. f_equal. apply IH. unfold list_eqb. rewrite H1, H3. reflexivity.
Qed.

(* keys (and their ORDER) written by _fit / _fit_constant *)
Theorem C14_keys_fit : forall f, map fst (params_on f Stub.X1) = gl (fam_name f) gen_fit_keys.
Proof. intro f. apply list_eqb_eq. revert f. apply forall_family. vm_compute. reflexivity. Qed.
Theorem C14_keys_fit_constant : forall f, map fst (params_on f Stub.Xc) = gl (fam_name f) gen_const_keys.
Proof. intro f. apply list_eqb_eq. revert f. apply forall_family. vm_compute. reflexivity. Qed.
(* to_dict = _params + 'type' ; from_dict pops 'type' *)
Theorem C14_keys_to_dict_scipy : forall f,
  dict_keys (to_dict_scipy (fitted_on f Stub.X1)) = Some (gl (fam_name f) gen_fit_keys ++ gen_uni_to_dict_adds) /\
  dict_keys (to_dict_scipy (fitted_on f Stub.Xc)) = Some (gl (fam_name f) gen_const_keys ++ gen_uni_to_dict_adds).
Proof. destruct f; vm_compute; split; reflexivity. Qed.
Theorem C14_keys_from_dict_pops : gen_uni_from_dict_pops = ["type"] /\ gen_uni_to_dict_adds = ["type"] /\
  forall f, from_dict_scipy (JDict (params_on f Stub.X1)) = Err KeyErr.
Proof. split; [reflexivity|]. split; [reflexivity|]. destruct f; vm_compute; reflexivity. Qed.
(* the keys _is_constant / _extract_constant READ: removing one of them (and only of them) is a KeyError *)
Definition reads_of {A} (g : params -> result A) (p : params) : list string :=
  filter (fun k => match g (dict_remove k p) with Err KeyErr => true | _ => false end) (map fst p).
Theorem C14_keys_is_constant : forall f,
  same_set (reads_of (is_constant f) (params_on f Stub.X1)) (gl (fam_name f) gen_isconst_reads) = true /\
  same_set (reads_of (is_constant f) (params_on f Stub.Xc)) (gl (fam_name f) gen_isconst_reads) = true.
Proof. destruct f; vm_compute; split; reflexivity. Qed.
Theorem C14_keys_extract_constant : forall f,
  same_set (reads_of (extract_constant f) (params_on f Stub.Xc)) (gl (fam_name f) gen_extract_reads) = true.
Proof. destruct f; vm_compute; reflexivity. Qed.
(* every key read on reconstruction is written by both fit paths *)
Theorem C14_keys_consumed_are_emitted : forall f,
  subset (gl (fam_name f) gen_isconst_reads ++ gl (fam_name f) gen_extract_reads) (gl (fam_name f) gen_fit_keys) = true /\
  subset (gl (fam_name f) gen_isconst_reads ++ gl (fam_name f) gen_extract_reads) (gl (fam_name f) gen_const_keys) = true /\
  same_set (gl (fam_name f) gen_fit_keys) (gl (fam_name f) gen_const_keys) = true.
Proof. destruct f; vm_compute; repeat split; reflexivity. Qed.
(* constructor signatures, @store_args, own _set_params (GaussianKDE rebuilds its scipy object) *)
Theorem C14_ctor_facts : forall f,
  init_names f = gl (fam_name f) gen_init_args /\
  gb (fam_name f) gen_store_args = Some (has_store_args f) /\
  gb (fam_name f) gen_own_set_params = Some (match f with FKDE => true | _ => false end).
Proof. destruct f; vm_compute; repeat split; reflexivity. Qed.
(* NO constructor option is ever written by to_dict (the reason behind F15 / F26 and the seed being dropped) *)
Theorem C14_ctor_options_not_serialised : forall f,
  minus (init_names f) (gl (fam_name f) gen_fit_keys ++ gen_uni_to_dict_adds) = init_names f.
Proof. intro f. apply list_eqb_eq. revert f. apply forall_family. vm_compute. reflexivity. Qed.
Theorem C14_univariate_shape :
  gen_uni_to_dict_checks_fit = true /\ gen_uni_wrapper_type_is_instance = true /\
  gen_uni_from_dict_sets_fitted = true /\ gen_uni_from_dict_calls_set_params = true /\
  gen_uni_save_pickle = true /\ gen_scipy_get_params_copies = true /\ gen_scipy_set_params_shape = true /\
  gl "Univariate" gen_init_args = ["candidates"; "parametric"; "bounded"; "random_state"; "selection_sample_size"] /\
  gb "Univariate" gen_store_args = Some true.
Proof. vm_compute. repeat split; reflexivity. Qed.

(* bivariate *)
Definition bdict := biv_dict Clayton (JNum 2) (JNum (1 # 2)).
Definition remove_key (k : string) (j : jv) : jv := match j with JDict d => JDict (dict_remove k d) | x => x end.
Definition is_keyerr {A} (r : result A) : bool := match r with Err KeyErr => true | _ => false end.
Theorem C14_keys_biv :
  dict_keys (to_dict_biv (mkB (Some Clayton) (JNum 2) (JNum (1 # 2)) None true)) = Some gen_biv_to_dict /\
  same_set gen_biv_from_dict_reads gen_biv_to_dict = true /\
  forallb (fun k => is_keyerr (snd (from_dict_biv bworld0 None (remove_key k bdict)))) gen_biv_from_dict_reads = true /\
  same_set gen_biv_from_dict_sets ["theta"; "tau"] = true /\
  gen_biv_to_dict_checks_fit = false /\ gen_biv_save_json = true /\ gen_biv_from_dict_via_base = true /\
  (* the package imports the three Archimedean modules and NOT independence *)
  gen_biv_package_imports = map (fun t => match rsplit_dot (ctype_module t) with Some (_, m) => m | None => "" end)
                                (base_subclasses bworld0).
Proof. vm_compute. repeat split; reflexivity. Qed.

(* Gaussian multivariate *)
Definition gdict : jv :=
  match new_gm [] [] with
  | Ok x => match to_dict_gm (fst (fst (Stub.fit_gm x Stub.T1 []))) with Ok j => j | Err _ => JNone end
  | Err _ => JNone
  end.
Theorem C14_keys_gm :
  dict_keys (Ok gdict) = Some gen_gm_to_dict /\
  same_set (gen_gm_from_dict_reads ++ gen_mv_from_dict_reads) gen_gm_to_dict = true /\
  forallb (fun k => is_keyerr (from_dict_gm (remove_key k gdict))) gen_gm_from_dict_reads = true /\
  forallb (fun k => is_keyerr (from_dict_multivariate (remove_key k gdict))) gen_mv_from_dict_reads = true /\
  subset ["univariates"; "columns"; "correlation"; "fitted"] gen_gm_from_dict_sets = true /\
  gen_gm_to_dict_checks_fit = true /\ gen_mv_save_pickle = true /\
  gl "GaussianMultivariate" gen_init_args = ["distribution"; "random_state"] /\
  gb "GaussianMultivariate" gen_store_args = Some true.
Proof. vm_compute. repeat split; reflexivity. Qed.

(* vine / tree / edge: the model's dict keys are the generated ones; everything emitted except the
   informational 'type' is consumed, everything consumed is emitted *)
Theorem C14_keys_vine :
  pv_keys (vine_header (JStr "center") false) = gen_vine_to_dict_unfitted /\
  pv_keys example_vine_dict = gen_vine_to_dict_unfitted ++ gen_vine_to_dict_fitted /\
  vine_body_keys = gen_vine_to_dict_fitted /\
  same_set gen_vine_from_dict_reads (minus (gen_vine_to_dict_unfitted ++ gen_vine_to_dict_fitted) ["type"]) = true /\
  same_set vine_reads gen_vine_from_dict_reads = true /\
  gen_vine_relinks = true /\
  (* vine_type is a REQUIRED constructor argument: get_instance(FQN) cannot build a VineCopula *)
  gl "VineCopula" gen_init_args = vine_init_names /\ gl "VineCopula" gen_init_required = vine_init_required /\
  gen_mv_from_dict_reads = ["type"].
Proof. vm_compute. repeat split; reflexivity. Qed.
Theorem C14_keys_tree :
  pv_keys (PDict (tree_header Center false)) = gen_tree_to_dict_unfitted /\
  pv_keys example_tree_dict = gen_tree_to_dict_unfitted ++ gen_tree_to_dict_fitted /\
  tree_body_keys = gen_tree_to_dict_fitted /\
  same_set gen_tree_from_dict_reads (minus (gen_tree_to_dict_unfitted ++ gen_tree_to_dict_fitted) ["type"]) = true /\
  same_set tree_reads gen_tree_from_dict_reads = true.
Proof. vm_compute. repeat split; reflexivity. Qed.
Theorem C14_keys_edge :
  pv_keys (edge_to_dict example_edge) = gen_edge_to_dict /\
  same_set gen_edge_from_dict_reads gen_edge_to_dict = true /\
  same_set edge_reads gen_edge_from_dict_reads = true /\
  (* 'D' is initialised as set() and emitted unconverted, 'name' (an Enum member) likewise *)
  mem "D" gen_edge_set_attrs && mem "D" gen_edge_raw_attrs = true /\
  mem "name" gen_edge_raw_attrs = true.
Proof. vm_compute. repeat split; reflexivity. Qed.

(* ===================================================================================================== *)
(* 7. Non-vacuity                                                                                          *)
(* ===================================================================================================== *)
Example C14_nonvacuous_consistent :
  exists p, consistent (sst (sfit (fresh FBeta) Stub.X1 [])) p /\
  exists p', consistent (sst (sfit (fresh FKDE) Stub.X1 [])) p' /\
  exists p'', consistent (sst (sfit (fresh FTrunc) Stub.Xc [])) p''.
Proof. exact consistent_nonvacuous. Qed.
Example C14_nonvacuous_gm :
  exists x x1 j x2, new_gm [] [] = Ok x /\ Stub.fit_gm x Stub.T1 [] = (x1, [], None) /\
    to_dict_gm x1 = Ok j /\ from_dict_multivariate j = Ok x2 /\ to_dict_gm x2 = Ok j /\
    json_safe j = true /\ observe_g x2 = observe_g x1.
Proof. exact gm_roundtrip_nonvacuous. Qed.
Example C14_nonvacuous_vine : wf_vine example_vine = true /\
  exists d v', vine_to_dict example_vine = Ok d /\ vine_of_dict d = Ok v' /\ v_trees v' = v_trees example_vine /\
               vine_to_dict v' = Ok d /\ pv_json_safe d = false /\ multivariate_from_dict_vine d = Ok v'.
Proof. exact example_vine_roundtrip. Qed.

Print Assumptions C14_roundtrip_params_scipy.
Print Assumptions C14_roundtrip_n_scipy.
Print Assumptions C14_roundtrip_observe_scipy.
Print Assumptions C14_roundtrip_after_fit.
Print Assumptions C14_wrapper_roundtrip.
Print Assumptions C14_roundtrip_params_biv.
Print Assumptions C14_roundtrip_n_biv.
Print Assumptions C14_roundtrip_observe_gm.
Print Assumptions C14_json_safe_gm.
Print Assumptions C14_json_safe_scipy.
Print Assumptions C14_dispatch_multivariate.
Print Assumptions C14_vine_relink.
Print Assumptions C14_vine_to_dict_roundtrip.
Print Assumptions C14_edge_roundtrip.
Print Assumptions C14_roundtrip_kde_options_refuted.
Print Assumptions C14_roundtrip_kde_weights_refuted.
Print Assumptions C14_roundtrip_kde_hidden_state_refuted.
Print Assumptions C14_roundtrip_studentt_constant_refuted.
Print Assumptions C14_roundtrip_observe_after_refit.
Print Assumptions C14_roundtrip_gaussian_underflow_refuted.
Print Assumptions C14_dispatch_subclass_entry.
Print Assumptions C14_dispatch_independence_refuted.
Print Assumptions C14_dispatch_multivariate_vine.
Print Assumptions C14_generic_vine_roundtrip.
Print Assumptions C14_keys_fit.
Print Assumptions C14_keys_gm.
Print Assumptions C14_keys_edge.
