(* ===================================================================================================== *)
(* C19, third bridge layer (a): what tools/vf/uniwrapgen.py left hand-written -- GaussianKDE._get_bounds /   *)
(* cumulative_distribution / percent_point (the FKDE rows QCdf / QPpf of Lifecycle.class_query) and the four  *)
(* degenerate Univariate._constant_* methods -- GENERATED from the AST on every run (CopRun.Gen_kdeq,         *)
(* tools/vf/kdeqgen.py) and proved EQUAL, for ALL states / probes / arguments, to                             *)
(*   - Model.Lifecycle.class_query (which exception in which state, which gaussian_kde object, which bounds), *)
(*   - Model.UnivQ.q_ppf_route / qroute_one / qconst_* (range test, boundary shortcuts, the degenerate law),   *)
(*   - and, through Spec.UnivQBridge, the real-number definitions of Model.Univariate the C03 theorems are     *)
(*     about (kde_get_bounds, kde_ppf_route, const_cdf ...).                                                  *)
(* Compiled against the freshly generated files (C19_bridges.v = the bridge block of Props/C19.v).            *)
(* ===================================================================================================== *)
From Coq Require Import ZArith QArith Qreals Reals List String Bool Lia Lra.
From Cop Require Import Lib.NumpyR Model.Lifecycle Model.Univariate Model.UnivQ Spec.UnivQBridge Lib.PyKdeQ Lib.PyKdeQR.
From CopRun Require Import Gen_unictl Gen_uniwrap C19_bridges Gen_kdeq.
Import ListNotations.
Close Scope R_scope.
Open Scope string_scope.
Open Scope list_scope.

Lemma m_seq_eq : forall A (c : M unit) (k : M A) w,
  m_seq c k w = let (w1, r) := c w in match r with Ok _ => k w1 | Err e => (w1, Err e) end.
Proof. reflexivity. Qed.
Lemma m_bind_eq : forall A B (c : M A) (k : A -> M B) w,
  m_bind c k w = let (w1, r) := c w in match r with Ok a => k a w1 | Err e => (w1, Err e) end.
Proof. reflexivity. Qed.

(* ===================================================================================================== *)
(* 1. _get_bounds                                                                                          *)
(* ===================================================================================================== *)
(* self._params['dataset'] on the model state *)
Definition params_dataset (s : sinst) : result jv :=
  match s_params s with
  | None => Err TypeErr                                      (* None is not subscriptable *)
  | Some p => match lookup "dataset" p with Some ds => Ok ds | None => Err KeyErr end
  end.
(* the bounds as expressions over the stored dataset; their value in R is Model.Univariate.kde_get_bounds (next theorem) *)
Definition kde_bounds_nx (ds : jv) : nx * nx :=
  (NxSub (NxMin ds) (NxMul (NxQ (5 # 1)) (NxStd ds)), NxAdd (NxMax ds) (NxMul (NxQ (5 # 1)) (NxStd ds))).

Theorem C19_bridge3_kde_get_bounds : forall O s src,
  gen_GaussianKDE__get_bounds O (s, src)
  = ((s, src), match params_dataset s with Ok ds => Ok (kde_bounds_nx ds) | Err e => Err e end).
Proof.
  intros O s src. unfold gen_GaussianKDE__get_bounds, params_dataset. rewrite m_bind_eq. unfold py_params_getitem. cbn [fst snd].
  destruct (s_params s) as [p|]; [|reflexivity]. destruct (lookup "dataset" p) as [ds|]; reflexivity.
Qed.

Theorem C19_kde_bounds_real : forall ds,
  (nx_R (fst (kde_bounds_nx ds)), nx_R (snd (kde_bounds_nx ds))) = kde_get_bounds (ds_reals ds).
Proof.
  intros ds. unfold kde_bounds_nx, kde_get_bounds, kde_lower, kde_upper. cbn [fst snd nx_R].
  replace (Q2R (5 # 1)) with 5%R by (unfold Q2R; simpl; lra). reflexivity.
Qed.

(* ===================================================================================================== *)
(* 2. cumulative_distribution                                                                              *)
(* ===================================================================================================== *)
(* what the model's observation says about the kernel: which gaussian_kde object, which lower bound *)
Definition kde_cdf_view (o : obs) : result kobs :=
  match o with
  | ObsErr e => Err e
  | ObsConst QCdf c => Ok (KConstCdf c)
  | ObsKde QCdf m (Some p) =>
      match lookup "dataset" p with Some ds => Ok (KCdf m (fst (kde_bounds_nx ds))) | None => Err Unmodelled end
  | _ => Err Unmodelled
  end.

(* the class-level body: check_fit, then self._model (AttributeError), then self._get_bounds() (TypeError / KeyError) *)
Theorem C19_bridge3_kde_cdf : forall O s src, s_fam s = FKDE ->
  gen_GaussianKDE_cumulative_distribution O (s, src) = ((s, src), kde_cdf_view (class_query s QCdf)).
Proof.
  intros O s src HF. unfold gen_GaussianKDE_cumulative_distribution, class_query. rewrite m_seq_eq, C19_bridge_check_fit, HF.
  destruct (s_fitted s); [|reflexivity]. cbn [negb].
  rewrite m_bind_eq. unfold py_get__model at 1. cbn [fst snd].
  destruct (s_model s) as [m|] eqn:EM; [|reflexivity].
  rewrite m_bind_eq, C19_bridge3_kde_get_bounds. unfold params_dataset, has_key.
  destruct (s_params s) as [p|]; [|reflexivity]. destruct (lookup "dataset" p) as [ds|] eqn:EL; [|reflexivity].
  repeat (rewrite m_bind_eq; unfold py_get__model at 1; cbn [fst snd]; rewrite EM).
  unfold kde_cdf_view, py_kde_cdf_kernel, m_lift. rewrite EL. reflexivity.
Qed.

(* as the instance sees it (its __dict__ first): the model's query_scipy; nothing is mutated, no generator is touched *)
Theorem C19_bridge3_query_cdf_kde : forall O s n g, s_fam s = FKDE ->
  py_call_kquery "cumulative_distribution" (gen_GaussianKDE_cumulative_distribution O) (s, RsGlobal g)
  = let '(s', g', o) := query_scipy s QCdf n g in ((s', RsGlobal g'), kde_cdf_view o).
Proof.
  intros O s n g HF. unfold py_call_kquery, query_scipy. cbn [ov_slot String.eqb Ascii.eqb Bool.eqb fst overridden].
  destruct (ov_cdf (s_ov s)); [reflexivity|]. apply C19_bridge3_kde_cdf. exact HF.
Qed.

(* ===================================================================================================== *)
(* 3. percent_point                                                                                        *)
(* ===================================================================================================== *)
(* `if method == 'bisect': bisect(..) else: chandrupatla(..)` -- every other value of `method` selects chandrupatla *)
Definition solver_of (method : jv) : string := if py_eq_str method "bisect" then "bisect" else "chandrupatla".
(* one entry of the result, given the route Model.UnivQ.qroute_one decides for it *)
Definition lane (solver : string) (f : kobs) (lo hi : nx) (r : qroute) : xval :=
  match r with QNegInf => XInf false | QPosInf => XInf true | QRoot _ _ u => XRoot solver f lo hi u end.
(* some entry goes to the solver *)
Definition has_valid (us : list Q) : bool :=
  existsb (fun u => match qroute_one 0 0 u with QRoot _ _ _ => true | _ => false end) us.

(* the meaning of the model's observation ObsKde QPpf m (Some p) on a probe U (an array of nd dimensions with entries us):
   check_fit first; then the shape and range tests of the probe (Model.UnivQ.q_ppf_route = None: ValueError); then whatever
   class_query says about the state; the lanes are the routes of Model.UnivQ.qroute_one, the root problems are those of the
   kernel of m with the lower bound subtracted, on the bounds of the stored dataset, handed to the solver `method` selects *)
Definition kde_ppf_spec (s : sinst) (U : narr Q) (method : jv) : result (narr xval) :=
  match class_query s QPpf with
  | ObsErr NotFitted => Err NotFitted
  | o =>
      if Nat.ltb 1 (a_ndim U) then Err ValueErr
      else match q_ppf_route 0 0 (a_vals U) with
           | None => Err ValueErr
           | Some routes =>
               match o with
               | ObsErr e => Err e
               | ObsKde QPpf m (Some p) =>
                   match lookup "dataset" p with
                   | Some ds => Ok (mkNarr (a_ndim U)
                                      (map (lane (solver_of method) (KCdf m (fst (kde_bounds_nx ds)))
                                                 (fst (kde_bounds_nx ds)) (snd (kde_bounds_nx ds))) routes))
                   | None => Err Unmodelled
                   end
               | _ => Err Unmodelled
               end
           end
  end.

Definition p_zero (u : Q) : bool := Qle_bool u EPS.
Definition p_one (u : Q) : bool := Qle_bool (1 - EPS) u.
Definition p_valid (u : Q) : bool := negb (p_zero u || p_one u).

Lemma has_valid_eq : forall us, has_valid us = existsb p_valid us.
Proof.
  intros us. unfold has_valid. induction us as [|u us IH]; [reflexivity|]. cbn [existsb]. rewrite IH. f_equal.
  unfold qroute_one, p_valid, p_zero, p_one. change qEPSILON with EPS.
  destruct (Qle_bool u EPS); [reflexivity|]. destruct (Qle_bool (1 - EPS) u); reflexivity.
Qed.

Lemma lane_pointwise : forall solver f lo hi u,
  (if p_valid u then XRoot solver f lo hi u else if p_zero u then XInf false else if p_one u then XInf true else XZero)
  = lane solver f lo hi (qroute_one 0 0 u).
Proof.
  intros. unfold qroute_one, p_valid, p_zero, p_one, lane. change qEPSILON with EPS.
  destruct (Qle_bool u EPS); [reflexivity|]. destruct (Qle_bool (1 - EPS) u); reflexivity.
Qed.

Lemma range_test : forall nd us,
  orb (py_mask_any (py_arr_gt (mkNarr nd us) (py_q 1 1))) (py_mask_any (py_arr_lt (mkNarr nd us) (py_q 0 1)))
  = orb (existsb (fun u => Qltb 1 u) us) (existsb (fun u => Qltb u 0) us).
Proof. intros. unfold py_mask_any, py_arr_gt, py_arr_lt, arr_cmp. cbn [a_vals]. rewrite !existsb_id_map. reflexivity. Qed.

Lemma masks_norm : forall nd us,
  py_arr_ge (mkNarr nd us) (Qminus (py_q 1 1) py_EPSILON) = mkNarr nd (map p_one us) /\
  py_arr_le (mkNarr nd us) py_EPSILON = mkNarr nd (map p_zero us) /\
  py_mask_not (py_mask_or (mkNarr nd (map p_zero us)) (mkNarr nd (map p_one us))) = mkNarr nd (map p_valid us).
Proof.
  intros. repeat split. unfold py_mask_not, py_mask_or. cbn [a_ndim a_vals]. rewrite zipw_map, map_map. reflexivity.
Qed.
Definition x_boundary (u : Q) : xval := if p_zero u then XInf false else if p_one u then XInf true else XZero.

Lemma x2_norm : forall nd us,
  py_mask_set (py_mask_set (py_np_full (nd, List.length us) XZero) (mkNarr nd (map p_one us)) (XInf true))
              (mkNarr nd (map p_zero us)) (XInf false)
  = mkNarr nd (map x_boundary us).
Proof.
  intros. unfold py_mask_set, py_np_full. cbn [a_ndim a_vals fst snd]. rewrite repeat_map_const, mset_map, mset_map. reflexivity.
Qed.
Lemma sel_norm : forall nd us, py_arr_select (mkNarr nd us) (mkNarr nd (map p_valid us)) = mkNarr 1 (filter p_valid us).
Proof. intros. unfold py_arr_select. cbn [a_vals]. rewrite select_map. reflexivity. Qed.

Theorem C19_bridge3_kde_ppf : forall O s src U method, s_fam s = FKDE -> ov_cdf (s_ov s) = false ->
  (has_valid (a_vals U) = true \/ s_model s <> None) ->
  gen_GaussianKDE_percent_point O U method (s, src) = ((s, src), kde_ppf_spec s U method).
Proof.
  intros O s src [nd us] method HF HOV HV. cbn [a_vals] in HV. rewrite has_valid_eq in HV.
  unfold gen_GaussianKDE_percent_point. rewrite m_seq_eq, C19_bridge_check_fit.
  unfold kde_ppf_spec, class_query. rewrite HF.
  destruct (s_fitted s) eqn:EFIT; [|reflexivity]. cbn [negb a_ndim a_vals].
  unfold py_len_shape, py_shape. cbn [fst a_ndim a_vals].
  rewrite range_test. unfold q_ppf_route.
  destruct (masks_norm nd us) as (M1 & M2 & M3). rewrite M1, M2, M3. clear M1 M2 M3.
  rewrite x2_norm, sel_norm. cbn [a_ndim a_vals].
  unfold py_mask_any. cbn [a_vals]. rewrite existsb_id_map.
  destruct (s_params s) as [p|] eqn:EP.
  2:{ destruct (1 <? nd)%nat; [reflexivity|]. destruct (_ || _); [reflexivity|].
      rewrite m_bind_eq, C19_bridge3_kde_get_bounds. unfold params_dataset. rewrite EP. reflexivity. }
  unfold has_key. destruct (lookup "dataset" p) as [ds|] eqn:EL.
  2:{ destruct (1 <? nd)%nat; [reflexivity|]. destruct (_ || _); [reflexivity|].
      rewrite m_bind_eq, C19_bridge3_kde_get_bounds. unfold params_dataset. rewrite EP, EL. reflexivity. }
  assert (HB : gen_GaussianKDE__get_bounds O (s, src) = ((s, src), Ok (kde_bounds_nx ds))).
  { rewrite C19_bridge3_kde_get_bounds. unfold params_dataset. rewrite EP, EL. reflexivity. }
  assert (HC : py_call_kquery "cumulative_distribution" (gen_GaussianKDE_cumulative_distribution O) (s, src)
               = ((s, src), match s_model s with Some m => Ok (KCdf m (fst (kde_bounds_nx ds))) | None => Err AttributeErr end)).
  { unfold py_call_kquery. cbn [ov_slot String.eqb Ascii.eqb Bool.eqb fst overridden]. rewrite HOV.
    rewrite C19_bridge3_kde_cdf by exact HF. unfold class_query. rewrite HF, EFIT, EP. cbn [negb]. unfold has_key. rewrite EL.
    destruct (s_model s); [|reflexivity]. unfold kde_cdf_view. rewrite EL. reflexivity. }
  destruct (s_model s) as [m|] eqn:EM.
  - (* the gaussian_kde object exists *)
    rewrite EL.
    destruct (1 <? nd)%nat; [reflexivity|]. destruct (_ || _); [reflexivity|].
    rewrite m_bind_eq, HB.
    destruct (existsb p_valid us) eqn:EV.
    + unfold solver_of.
      destruct (py_eq_str method "bisect");
        (rewrite m_bind_eq, m_bind_eq, m_bind_eq; unfold py_root_solver; rewrite m_bind_eq; cbn [cl_call cl_minus]; rewrite HC;
         unfold root_lanes, py_np_full; cbn [a_vals fst snd]; rewrite !repeat_length, Nat.eqb_refl; cbn [andb];
         rewrite zip3_repeat; unfold m_lift; rewrite m_bind_eq; unfold py_mask_assign; cbn [a_vals a_ndim];
         rewrite massign_map; unfold m_ret; do 3 f_equal; rewrite map_map; apply map_ext; intros u; apply lane_pointwise).
    + rewrite m_bind_eq. unfold m_ret. do 3 f_equal. rewrite map_map. apply map_ext_in. intros u HU.
      rewrite <- lane_pointwise.
      assert (HP : p_valid u = false).
      { destruct (p_valid u) eqn:E; [|reflexivity]. assert (existsb p_valid us = true) by (apply existsb_exists; exists u; auto). congruence. }
      rewrite HP. reflexivity.
  - (* no gaussian_kde object: the closure raises AttributeError when the solver evaluates it *)
    destruct HV as [HV|HV]; [|congruence].
    destruct (1 <? nd)%nat; [reflexivity|]. destruct (_ || _); [reflexivity|].
    rewrite m_bind_eq, HB. rewrite HV.
    destruct (py_eq_str method "bisect");
      (rewrite m_bind_eq, m_bind_eq, m_bind_eq; unfold py_root_solver; rewrite m_bind_eq; cbn [cl_call cl_minus]; rewrite HC; reflexivity).
Qed.

(* the FKDE complement of C19_bridge_query_ppf (Props/C19.v, stated for s_fam s <> FKDE): when no instance-level attribute shadows
   the method, the model's query_scipy answers with class_query, and kde_ppf_spec is that observation applied to the probe *)
Theorem C19_bridge3_query_ppf_kde : forall O s n g U method, s_fam s = FKDE ->
  ov_ppf (s_ov s) = false -> ov_cdf (s_ov s) = false -> (has_valid (a_vals U) = true \/ s_model s <> None) ->
  query_scipy s QPpf n g = (s, g, class_query s QPpf) /\
  gen_GaussianKDE_percent_point O U method (s, RsGlobal g) = ((s, RsGlobal g), kde_ppf_spec s U method).
Proof.
  intros O s n g U method HF HP HC HV. split.
  - unfold query_scipy, overridden. rewrite HP. reflexivity.
  - apply C19_bridge3_kde_ppf; assumption.
Qed.

(* `method` defaults to the solver the model's lanes name when the caller does not choose *)
Theorem C19_bridge3_kde_ppf_default_method : solver_of gen_GaussianKDE_percent_point_default_method = "chandrupatla".
Proof. reflexivity. Qed.

(* where the source and the probe-independent observation of the model part: no entry of the probe goes to the solver, so the
   closure is never evaluated and self._model is never read -- percent_point returns the boundary values also on a state without
   a gaussian_kde object (fitted, _params set, _model absent: a failed re-fit after a constant fit), where the model's
   class_query says AttributeError (the exception every probe with a valid entry gets, by C19_bridge3_kde_ppf) *)
Theorem C19_kde_ppf_boundary_only : forall O s src U method ds,
  s_fitted s = true -> params_dataset s = Ok ds -> Nat.ltb 1 (a_ndim U) = false ->
  q_ppf_route 0 0 (a_vals U) <> None -> has_valid (a_vals U) = false ->
  gen_GaussianKDE_percent_point O U method (s, src) = ((s, src), Ok (mkNarr (a_ndim U) (map x_boundary (a_vals U)))).
Proof.
  intros O s src [nd us] method ds EFIT HD HN HR HV. cbn [a_vals a_ndim] in *. rewrite has_valid_eq in HV.
  unfold gen_GaussianKDE_percent_point. rewrite m_seq_eq, C19_bridge_check_fit, EFIT.
  unfold py_len_shape, py_shape. cbn [fst a_ndim a_vals]. rewrite HN, range_test.
  unfold q_ppf_route in HR. destruct (_ || _); [congruence|].
  destruct (masks_norm nd us) as (M1 & M2 & M3). rewrite M1, M2, M3. clear M1 M2 M3.
  rewrite x2_norm. unfold py_mask_any. cbn [a_vals]. rewrite existsb_id_map, HV.
  rewrite m_bind_eq, C19_bridge3_kde_get_bounds, HD. reflexivity.
Qed.

(* ---- the lanes in R: the routing of Model.Univariate (what C03_kde_ppf_routing and the bracket theorems are about), on the
        bounds Model.Univariate.kde_get_bounds computes from the stored dataset ---- *)
Definition route_R (L U : R) (r : qroute) : kde_route :=
  match r with QNegInf => RouteNegInf | QPosInf => RoutePosInf | QRoot _ _ u => RouteRoot L U (Q2R u) end.

Theorem C19_kde_routing_real : forall (L U : R) us,
  kde_ppf_route L U (map Q2R us) = option_map (map (route_R L U)) (q_ppf_route 0 0 us).
Proof.
  intros L U us. unfold q_ppf_route, kde_ppf_route.
  rewrite (existsb_map Q2R (fun u => Qltb 1 u) (fun u => Rltb 1 u)), (existsb_map Q2R (fun u => Qltb u 0) (fun u => Rltb u 0)).
  - destruct (orb _ _); [reflexivity|]. simpl. f_equal. rewrite !map_map. apply map_ext. intros u.
    unfold qroute_one, kde_route_one, route_R. rewrite !Qle_bool_Rleb, Q2R_minus, Q2R_1, Q2R_EPS.
    destruct (Rleb (Q2R u) EPSILON); [reflexivity|]. destruct (Rleb (1 - EPSILON) (Q2R u)); reflexivity.
  - intros a. rewrite Qltb_Rltb, Q2R_0. reflexivity.
  - intros a. rewrite Qltb_Rltb, Q2R_1. reflexivity.
Qed.

Theorem C19_kde_ppf_lanes_real : forall solver m ds us routes,
  q_ppf_route 0 0 us = Some routes ->
  let lo := fst (kde_bounds_nx ds) in
  let hi := snd (kde_bounds_nx ds) in
  exists rs,
    kde_ppf_route (fst (kde_get_bounds (ds_reals ds))) (snd (kde_get_bounds (ds_reals ds))) (map Q2R us) = Some rs /\
    map xval_route (map (lane solver (KCdf m lo) lo hi) routes) = map Some rs.
Proof.
  intros solver m ds us routes HR lo hi. rewrite <- C19_kde_bounds_real. cbn [fst snd]. fold lo hi.
  exists (map (route_R (nx_R lo) (nx_R hi)) routes). split.
  - rewrite C19_kde_routing_real, HR. reflexivity.
  - rewrite !map_map. apply map_ext. intros r. destruct r; reflexivity.
Qed.

(* non-vacuity: the generated percent_point on a concrete fitted state *)
Example C19_kde_ppf_runs :
  let ds := JList [JNum 1; JNum 2; JNum 4] in
  let m := mkKm ds JNone JNone in
  let s := mkS FKDE true (Some [("dataset", ds)]) None no_ov None JNone JNone JNone JNone JNone (Some m) None in
  let O := mkO (fun _ _ _ => []) (fun _ _ _ => (0, 0)) (fun _ => []) (fun _ _ _ _ _ => []) (fun _ _ => None) (fun X _ _ => X) in
  let lo := fst (kde_bounds_nx ds) in
  let hi := snd (kde_bounds_nx ds) in
  snd (gen_GaussianKDE_percent_point O (mkNarr 1 [0; 1 # 2; 1; 1 # 4]) gen_GaussianKDE_percent_point_default_method (s, RsGlobal []))
  = Ok (mkNarr 1 [XInf false; XRoot "chandrupatla" (KCdf m lo) lo hi (1 # 2); XInf true; XRoot "chandrupatla" (KCdf m lo) lo hi (1 # 4)]) /\
  snd (gen_GaussianKDE_percent_point O (mkNarr 1 [1 # 2]) (JStr "bisect") (s, RsGlobal []))
  = Ok (mkNarr 1 [XRoot "bisect" (KCdf m lo) lo hi (1 # 2)]) /\
  snd (gen_GaussianKDE_percent_point O (mkNarr 1 [3 # 2]) (JStr "bisect") (s, RsGlobal [])) = Err ValueErr /\
  snd (gen_GaussianKDE_percent_point O (mkNarr 2 [1 # 2]) (JStr "bisect") (s, RsGlobal [])) = Err ValueErr /\
  snd (gen_GaussianKDE_percent_point O (mkNarr 1 [3 # 2]) (JStr "bisect") (set_fitted false s, RsGlobal [])) = Err NotFitted /\
  snd (gen_GaussianKDE_percent_point O (mkNarr 1 [1 # 2]) JNone (set_model None (set_params None s), RsGlobal [])) = Err TypeErr /\
  snd (gen_GaussianKDE_percent_point O (mkNarr 1 [1 # 2]) JNone (set_model None s, RsGlobal [])) = Err AttributeErr /\
  snd (gen_GaussianKDE_cumulative_distribution O (set_model None (set_params None s), RsGlobal [])) = Err AttributeErr.
Proof. vm_compute. repeat split; reflexivity. Qed.


(* ===================================================================================================== *)
(* 4. The degenerate law: Univariate._constant_* over exact rationals = Model.UnivQ = Model.Univariate       *)
(* ===================================================================================================== *)
Theorem C19_bridge3_const_cdf : forall c X,
  gen_Univariate__constant_cumulative_distribution c X = mkNarr (a_ndim X) (map (qconst_cdf c) (a_vals X)).
Proof.
  intros c [nd xs]. unfold gen_Univariate__constant_cumulative_distribution, py_np_full, py_shape, py_mask_set, py_np_nonzero, py_arr_lt, arr_cmp.
  cbn [a_ndim a_vals fst snd]. rewrite repeat_map_const, mset_map. f_equal.
Qed.
Theorem C19_bridge3_const_pdf : forall c X,
  gen_Univariate__constant_probability_density c X = mkNarr (a_ndim X) (map (qconst_pdf c) (a_vals X)).
Proof.
  intros c [nd xs]. unfold gen_Univariate__constant_probability_density, py_np_full, py_shape, py_mask_set, py_np_nonzero, py_arr_eq, arr_cmp.
  cbn [a_ndim a_vals fst snd]. rewrite repeat_map_const, mset_map. f_equal.
Qed.
Theorem C19_bridge3_const_ppf : forall c X,
  gen_Univariate__constant_percent_point c X = mkNarr (a_ndim X) (map (qconst_ppf c) (a_vals X)).
Proof.
  intros c [nd xs]. unfold gen_Univariate__constant_percent_point, py_np_full, py_shape. cbn [a_ndim a_vals fst snd].
  rewrite repeat_map_const. reflexivity.
Qed.
Theorem C19_bridge3_const_sample : forall c n,
  gen_Univariate__constant_sample c n = mkNarr 1 (qconst_sample c n).
Proof. reflexivity. Qed.

(* ... and therefore the real-number definitions of Model.Univariate that Spec/ConstantLaw.v (C03) is about *)
Theorem C19_const_law_real : forall c X n,
  map Q2R (a_vals (gen_Univariate__constant_cumulative_distribution c X)) = const_cdf_vec (Q2R c) (map Q2R (a_vals X)) /\
  map Q2R (a_vals (gen_Univariate__constant_probability_density c X)) = const_pdf_vec (Q2R c) (map Q2R (a_vals X)) /\
  map Q2R (a_vals (gen_Univariate__constant_percent_point c X)) = const_ppf_vec (Q2R c) (map Q2R (a_vals X)) /\
  map Q2R (a_vals (gen_Univariate__constant_sample c n)) = const_sample (Q2R c) n.
Proof.
  intros c X n. rewrite C19_bridge3_const_cdf, C19_bridge3_const_pdf, C19_bridge3_const_ppf, C19_bridge3_const_sample.
  cbn [a_vals]. unfold const_cdf_vec, const_pdf_vec, const_ppf_vec. rewrite !map_map. repeat split.
  - apply map_ext. intros x. apply qconst_cdf_correct.
  - apply map_ext. intros x. apply qconst_pdf_correct.
  - apply qconst_sample_correct.
Qed.

(* the step is at c itself (>=), the mass is at c only, every level has the quantile c *)
Example C19_const_law_runs :
  a_vals (gen_Univariate__constant_cumulative_distribution 3 (mkNarr 1 [2; 3; 4])) = [0; 1; 1] /\
  a_vals (gen_Univariate__constant_probability_density 3 (mkNarr 1 [2; 3; 4])) = [0; 1; 0] /\
  a_vals (gen_Univariate__constant_percent_point 3 (mkNarr 1 [0; 1 # 2; 1])) = [3; 3; 3] /\
  gen_Univariate__constant_sample 3 2 = mkNarr 1 [3; 3].
Proof. repeat split; reflexivity. Qed.

Print Assumptions C19_bridge3_kde_get_bounds.
Print Assumptions C19_kde_bounds_real.
Print Assumptions C19_bridge3_kde_cdf.
Print Assumptions C19_bridge3_query_cdf_kde.
Print Assumptions C19_bridge3_kde_ppf.
Print Assumptions C19_bridge3_query_ppf_kde.
Print Assumptions C19_bridge3_kde_ppf_default_method.
Print Assumptions C19_kde_ppf_boundary_only.
Print Assumptions C19_kde_routing_real.
Print Assumptions C19_kde_ppf_lanes_real.
Print Assumptions C19_bridge3_const_cdf.
Print Assumptions C19_bridge3_const_pdf.
Print Assumptions C19_bridge3_const_ppf.
Print Assumptions C19_bridge3_const_sample.
Print Assumptions C19_const_law_real.
