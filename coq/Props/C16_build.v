(* C16 (continued) - the tree CONSTRUCTION generated from the AST equals the hand-written model.

   Gen_vinebuild.v is produced on every run by tools/vf/vinebuildgen.py from the current source of
   copulas/multivariate/tree.py (Tree._sort_tau_by_y, Tree.fit, CenterTree / DirectTree / RegularTree
   ._build_first_tree / ._build_kth_tree, CenterTree.get_anchor, get_tree) and vine.py (VineCopula.train_vine, the
   truncated / trees wiring of VineCopula.fit); the numpy / Python operations are denoted by coq/Lib/PyMat.v and
   coq/Lib/PySet.v, the edge kernel is Gen_vinekernel.v (bridged in C16.v; the three facts about it used here are
   re-proved locally so that this file depends on the generated files only).
   Every theorem is of the form  generated function = Model.Vine function, for ALL inputs (tau matrices with NaN and
   ties, any n, any previous tree); the only hypotheses are
     [tie_len tie]  the argsort tie-breaking returns as many rows as it is given (every permutation does), where the
                    Python loop reads row `itr` of the sorted table for itr < n_nodes - 1 (the model cuts the table);
     [sel_in sel], [perm_fun order], n >= 1  for the Prim loops of RegularTree (see there). *)
From Coq Require Import List Arith ZArith QArith Lia Bool Permutation.
From Cop Require Import Lib.FinGraph Model.Vine Spec.VineDefs Spec.VineSets Lib.PySet Lib.PyMat.
From CopRun Require Import Gen_vinekernel Gen_vinebuild.
Import ListNotations.
Open Scope nat_scope.

(* ================= facts about the generated edge kernel (as in C16.v) ================= *)
Lemma C16_bridge_kernel_identify a b : gen_identify_eds_ing a b = identify_eds_ing a b.
Proof.
  unfold gen_identify_eds_ing, identify_eds_ing. cbv zeta.
  match goal with
  | |- match pyset_sorted ?s with _ => _ end = _ =>
      replace (pyset_sorted s) with (set_symdiff (U a) (U b))
  end.
  2:{ symmetry. apply pyset_sorted_eq; [apply incr_set_symdiff|].
      intros v. unfold U. autorewrite with pyset. simpl. tauto. }
  match goal with
  | |- context [pyset_and ?x ?y] =>
      replace (pyset_and x y) with (set_inter (U a) (U b))
  end.
  2:{ symmetry. apply pyset_eq; [apply incr_pyset_and | apply incr_set_inter |].
      intros v. unfold U. autorewrite with pyset. simpl. tauto. }
  destruct (set_symdiff (U a) (U b)) as [|l [|r [|x t]]]; reflexivity.
Qed.

Lemma C16_bridge_kernel_child_edge idx lp rp : gen_get_child_edge idx lp rp = get_child_edge idx lp rp.
Proof.
  unfold gen_get_child_edge, get_child_edge. rewrite C16_bridge_kernel_identify.
  destruct (identify_eds_ing (snd lp) (snd rp)) as [[[l r] d]|]; reflexivity.
Qed.

(* Edge.sort_edge on position-tagged edges IS the generated sort_edge with the positions carried along ... *)
Theorem C16_bridge_sort_edge_pos :
  forall l : list (nat * edge), map snd (gen_sort_edge_pos l) = gen_sort_edge (map snd l).
Proof.
  intros l. unfold gen_sort_edge_pos, gen_sort_edge, py_sorted_key.
  exact (isort_by_map snd (fun x y => pytuple2_le (gen_edge_key x) (gen_edge_key y)) l).
Qed.
Print Assumptions C16_bridge_sort_edge_pos.

(* ... and the model's sort_edge_by snd *)
Lemma C16_bridge_sort_edge_pos_model l : gen_sort_edge_pos l = sort_edge_by snd l.
Proof.
  unfold gen_sort_edge_pos, py_sorted_key, sort_edge_by. apply isort_by_ext.
  intros x y. reflexivity.
Qed.

(* `left_parent, right_parent = Edge.sort_edge([a, b]); Edge.get_child_edge(i, left_parent, right_parent)` *)
Lemma C16_bridge_child_step idx (p1 p2 : nat * edge) :
  match gen_sort_edge_pos [p1; p2] with
  | [lp; rp] => match gen_get_child_edge idx lp rp with Some e => Some e | None => None end
  | _ => None
  end = child_of_pair idx p1 p2.
Proof.
  unfold child_of_pair. rewrite C16_bridge_sort_edge_pos_model.
  destruct (sort_edge_by snd [p1; p2]) as [|lp [|rp [|z t]]]; try reflexivity.
  rewrite opt_eta. apply C16_bridge_kernel_child_edge.
Qed.

(* ================= 1. Tree._sort_tau_by_y ================= *)
(* the call returns the sorted table of the model and leaves `tau_matrix[y, y] = nan` behind *)
Theorem C16_bridge_sort_tau_by_y_full :
  forall (tie : tie_t) (n : nat) (tau : tmat) (y : nat),
  gen_sort_tau_by_y tie n (np_array tau) y
  = (mat_set (np_array tau) y y np_nan, sort_tau_by_y_gen tie n tau y).
Proof.
  intros tie n tau y. unfold gen_sort_tau_by_y, sort_tau_by_y_gen. cbv zeta.
  f_equal. unfold py_reversed, tab3_argsort_rows. f_equal.
  match goal with |- isort_by ?le1 (tie ?t1) = isort_by ?le2 (tie ?t2) =>
    assert (Ht : t1 = t2); [|rewrite Ht; reflexivity] end.
  rewrite (np_arange_map n). unfold tab3_empty, mat_col, vec_abs.
  rewrite tab3_setcol0_map, tab3_setcol1_map, map_map, tab3_setcol2_map.
  unfold tab3_nan_to. rewrite map_map. apply map_ext. intros i. reflexivity.
Qed.
Print Assumptions C16_bridge_sort_tau_by_y_full.

Theorem C16_bridge_sort_tau_by_y :
  forall (tie : tie_t) (n : nat) (tau : tmat) (y : nat),
  snd (gen_sort_tau_by_y tie n (np_array tau) y) = sort_tau_by_y_gen tie n tau y.
Proof. intros. now rewrite C16_bridge_sort_tau_by_y_full. Qed.
Print Assumptions C16_bridge_sort_tau_by_y.

(* the in-place effect `tau_y[y] = np.nan` through the column view: Vine.tget_nan *)
Theorem C16_bridge_sort_tau_by_y_effect :
  forall (tie : tie_t) (n : nat) (tau : tmat) (y i j : nat),
  fst (gen_sort_tau_by_y tie n (np_array tau) y) i j = tget_nan y tau i j.
Proof. intros. rewrite C16_bridge_sort_tau_by_y_full. reflexivity. Qed.
Print Assumptions C16_bridge_sort_tau_by_y_effect.

(* the rows are tau_row3 (temp[:,0] = arange, temp[:,1] = tau_y, temp[:,2] = |tau_y|) with NaN replaced by nan10 = -10 *)
Example C16_bridge_sort_tau_nonvacuous :
  map row_ind (snd (gen_sort_tau_by_y id_tie 5 (np_array tauB) 0)) = [3; 2; 1; 4; 0] /\
  nth 3 (snd (gen_sort_tau_by_y id_tie 5 (np_array tauB) 0)) (0, 0%Q, 0%Q) = (4, m10, m10).
Proof. vm_compute. split; reflexivity. Qed.

(* ================= 2. CenterTree ================= *)
Theorem C16_bridge_get_anchor :
  forall (n : nat) (m : mat), gen_get_anchor n m = get_anchor.
Proof. intros n m. unfold gen_get_anchor, get_anchor. destruct n; reflexivity. Qed.
Print Assumptions C16_bridge_get_anchor.

Theorem C16_bridge_center_first :
  forall (tie : tie_t) (sel : sel_t) (order : order_t) (level n : nat) (tau : tmat) (prev : list edge),
  tie_len tie ->
  gen_center_first tie sel order level n (np_array tau) prev [] = center_first_gen tie n tau.
Proof.
  intros tie sel order level n tau prev Ht.
  unfold gen_center_first, center_first_gen. rewrite C16_bridge_sort_tau_by_y_full.
  cbv zeta beta iota. rewrite first_rows_map by assumption. rewrite map_map.
  simpl app. apply map_ext. intros i. reflexivity.
Qed.
Print Assumptions C16_bridge_center_first.

Theorem C16_bridge_center_kth :
  forall (tie : tie_t) (sel : sel_t) (order : order_t) (level n : nat) (tau : tmat) (prev : list edge),
  tie_len tie ->
  gen_center_kth tie sel order level n (np_array tau) prev [] = center_kth_opt_gen tie n tau prev.
Proof.
  intros tie sel order level n tau prev Ht.
  unfold gen_center_kth, center_kth_opt_gen. cbv zeta. rewrite C16_bridge_get_anchor.
  rewrite C16_bridge_sort_tau_by_y_full. cbv beta iota.
  rewrite first_rows_map by assumption. rewrite map_opt_map.
  match goal with |- match ?a with _ => _ end = ?b => assert (Hab : a = b) end.
  { apply map_opt_ext_in. intros i _. unfold gen_center_kth_loop1. cbv zeta.
    unfold py_getitem_pos, nth_pair. simpl fst. simpl snd.
    destruct (nth_error prev get_anchor) as [a|]; [|reflexivity].
    destruct (nth_error prev _) as [r|]; [|reflexivity].
    apply C16_bridge_child_step. }
  rewrite Hab. clear Hab. match goal with |- match ?x with _ => _ end = _ => destruct x; reflexivity end.
Qed.
Print Assumptions C16_bridge_center_kth.

(* ================= 3. DirectTree ================= *)
(* the greedy loop: state (T1, tau_matrix); the matrix is the model's [kget tau killed] *)
Lemma C16_bridge_direct_loop n tau : forall (ks : list nat) (T1 killed : list nat) (m : mat),
  (forall a b, m a b = kget tau killed a b) ->
  fst (fold_left (gen_direct_first_loop1 n) ks (T1, m)) = direct_loop (length ks) n tau T1 killed.
Proof.
  induction ks as [|k ks IH]; intros T1 killed m Hm; [reflexivity|].
  cbn [fold_left length direct_loop].
  unfold gen_direct_first_loop1 at 2. cbv zeta.
  rewrite py_idx_0_hd. unfold py_last.
  rewrite !(mat_row_krow n tau killed m _ Hm).
  rewrite !np_argmax_fst, !np_max_snd, py_fgt_ogtb.
  destruct (argmax (krow n tau killed (hd 0 T1))) as [lft valL].
  destruct (argmax (krow n tau killed (last T1 0))) as [rgt valR].
  simpl fst. simpl snd.
  destruct (ogtb valL valR).
  - apply IH. apply mat_setcol_kget. exact Hm.
  - apply IH. apply mat_setcol_kget. exact Hm.
Qed.

Lemma length_direct_loop n tau : forall it T1 killed,
  length (direct_loop it n tau T1 killed) = it + length T1.
Proof.
  induction it as [|it IH]; intros T1 killed; [reflexivity|].
  cbn [direct_loop].
  destruct (argmax (krow n tau killed (hd 0 T1))) as [lft valL].
  destruct (argmax (krow n tau killed (last T1 0))) as [rgt valR].
  destruct (ogtb valL valR); rewrite IH.
  - simpl. lia.
  - rewrite app_length. simpl. lia.
Qed.

Lemma combine_tl_nth (l : list nat) : forall k, k < length l ->
  combine (seq 0 k) (combine l (tl l))
  = map (fun i => (i, (nth i l 0, nth (i + 1) l 0))) (seq 0 k).
Proof.
  assert (G : forall (l : list nat) k s, k < length l ->
              combine (seq s k) (combine l (tl l))
              = map (fun i => (i, (nth (i - s) l 0, nth (i - s + 1) l 0))) (seq s k)).
  { clear. intros l k. revert l. induction k as [|k IH]; intros l s Hk; [reflexivity|].
    destruct l as [|x [|y l]]; simpl in Hk; try lia.
    change (combine (seq s (S k)) (combine (x :: y :: l) (tl (x :: y :: l))))
      with ((s, (x, y)) :: combine (seq (S s) k) (combine (y :: l) (tl (y :: l)))).
    rewrite IH by (simpl; lia). cbn [seq map]. rewrite Nat.sub_diag. cbn [nth Nat.add]. f_equal.
    apply map_ext_in. intros i Hi. apply in_seq in Hi.
    replace (i - s) with (S (i - S s)) by lia. reflexivity. }
  intros k Hk. rewrite G by assumption. apply map_ext. intros i. now rewrite Nat.sub_0_r.
Qed.

Theorem C16_bridge_direct_T1 :
  forall (tie : tie_t) (n : nat) (tau : tmat) (T1 : list nat) (m : mat),
  (forall a b, m a b = tget_nan 0 tau a b) ->
  fst (fold_left (gen_direct_first_loop1 n) (py_range2 2 (n - 1))
                 (T1, mat_setcols m T1 (Some m10)))
  = direct_loop (n - 3) n tau T1 T1.
Proof.
  intros tie n tau T1 m Hm.
  rewrite (C16_bridge_direct_loop n tau _ T1 T1).
  - unfold py_range2. rewrite seq_length. f_equal. lia.
  - apply mat_setcols_kget. exact Hm.
Qed.
Print Assumptions C16_bridge_direct_T1.

Theorem C16_bridge_direct_first :
  forall (tie : tie_t) (sel : sel_t) (order : order_t) (level n : nat) (tau : tmat) (prev : list edge),
  gen_direct_first tie sel order level n (np_array tau) prev [] = direct_first_gen tie n tau.
Proof.
  intros tie sel order level n tau prev.
  unfold gen_direct_first, direct_first_gen. rewrite C16_bridge_sort_tau_by_y_full.
  cbv zeta beta iota.
  match goal with |- context [fold_left ?f ?ks ?st] =>
    rewrite (surjective_pairing (fold_left f ks st)) end.
  cbv beta iota.
  change (Some (Qmake (-10) 1)) with (Some m10).
  rewrite (C16_bridge_direct_T1 tie n tau _ (mat_set (np_array tau) 0 0 np_nan))
    by (intros a b; reflexivity).
  unfold direct_T1_gen. cbv zeta. rewrite <- !nth_map_row_ind.
  set (s := map row_ind (sort_tau_by_y_gen tie n tau 0)).
  set (W := direct_loop (n - 3) n tau [nth 0 s 0; 0; nth 1 s 0] [nth 0 s 0; 0; nth 1 s 0]).
  rewrite combine_tl_nth.
  2:{ unfold W. rewrite length_direct_loop. simpl. lia. }
  rewrite map_map. simpl app. unfold py_range. apply map_ext. intros i.
  unfold gen_direct_first_loop2. rewrite py_sorted2_min_max. reflexivity.
Qed.
Print Assumptions C16_bridge_direct_first.

Theorem C16_bridge_direct_kth :
  forall (tie : tie_t) (sel : sel_t) (order : order_t) (level n : nat) (m : mat) (prev : list edge),
  gen_direct_kth tie sel order level n m prev [] = direct_kth_opt n prev.
Proof.
  intros tie sel order level n m prev.
  unfold gen_direct_kth, direct_kth_opt.
  match goal with |- match ?a with _ => _ end = ?b => assert (Hab : a = b) end.
  { apply map_opt_ext_in. intros k _. unfold gen_direct_kth_loop1.
    unfold py_getitem_pos, nth_pair. rewrite Nat.add_1_r.
    destruct (nth_error prev k) as [a|]; [|reflexivity].
    destruct (nth_error prev (S k)) as [b|]; [|reflexivity].
    apply C16_bridge_child_step. }
  rewrite Hab. clear Hab. match goal with |- match ?x with _ => _ end = _ => destruct x; reflexivity end.
Qed.
Print Assumptions C16_bridge_direct_kth.

Example C16_bridge_direct_nonvacuous :
  map show (gen_direct_first id_tie pick_py id_order 1 5 (np_array tauB) [] [])
  = map show (direct_first 5 tauB) /\
  map (fun e => (e_L e, e_R e)) (gen_direct_first id_tie pick_py id_order 1 5 (np_array tauB) [] [])
  = [(0, 3); (0, 2); (2, 4); (1, 4)] /\
  option_map (map show) (gen_center_kth id_tie pick_py id_order 2 3 (np_array tauA) (center_first 4 tauA) [])
  = Some [(0, (2, 3), [0], Some (0, 2)); (1, (1, 2), [0], Some (1, 0))].
Proof. vm_compute. repeat split; reflexivity. Qed.

(* ================= 4. RegularTree, get_tree, Tree.fit, VineCopula.train_vine, VineCopula.fit ================= *)
(* The Prim loops of RegularTree are generated as well (tools/vf/vineregulargen.py): the bridges for them, and the theorems about the
   generated dispatch (gen_build_first_tree / gen_build_kth_tree), Tree.fit, train_vine and VineCopula.fit for all three vine types, which
   used to close this file, are in C16_regular.v (compiled after this file, which it imports). *)
